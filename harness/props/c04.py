"""C04 — tainted (untrusted) values are always HTML-escaped when inserted.

Correspondence: Lean `VarPipe.render` (with the executable `Ext` instance) vs the real tag on the
same (spec, value).  Oracle on the implementation: a tainted value never contributes a raw '<'
(tag-made `<br />` set aside), and html_quote never escapes twice.

Beyond the (spec, value) grid the failing-input search covers
 * expression results: the tainted value reaches dtml-var as the result of a generated expression (every namespace
   access form, every taint-keeping operation of the mark, the library's taint-aware `string` module wrapper with
   every argument-passing convention); the expected text is computed by plain Python on plain strings;
 * delivery channels and binding contexts of a by-name insertion (keyword, client attribute, mapping, the mapping's
   taintWrapper() hook, constructor defaults, dtml-let / with / in / if / try, sub-templates, a tag used twice);
 * histories: the same compiled template rendered first with the equal but unmarked text;
 * tainted byte strings;
 * the whole fmt= dispatch (every key of the library's format table incl. the markup formats structured-text /
   restructured-text, every method name, misspelt names) x every carrier of a marked value (direct str / bytes mark,
   callable, absolute_url() under `url`, method of an object), with an independent markup reference for the formats that
   build HTML around the value.
"""
import html as _html
import itertools
import json
import re
import string as _string

import common
import varpipe
from varpipe import MODS, SPECIAL

BASES = ['ab', 'a_b c', '1234567', '12345.678', "it's%3Cq", 'x%3cy%3E', 'a\nb', 'a\r\nb_c', '%253Cz', 'q+r %2B',
         'A b_C', '']
QUOTERS = {'url_quote', 'url_quote_plus', 'newline_to_br'}
QUOTER_FMTS = {'multi-line', 'url-quote', 'url-quote-plus'}
UNQUOTERS = {'url_unquote', 'url_unquote_plus'}
BR = re.compile(r'<br />', re.I)


def tainted_values(r, n):
    vals = []
    for _ in range(n):
        b = r.choice(BASES)
        k = r.randint(0, len(b))
        s = b[:k] + '<' + b[k:]
        if r.random() < 0.25:
            k2 = r.randint(0, len(s))
            s = s[:k2] + r.choice(['<', '<b>', '&', '"']) + s[k2:]
        vals.append({'kind': 'str', 's': s, 't': True})
    return vals


def all_positions():
    vals = []
    for b in BASES:
        for k in range(len(b) + 1):
            vals.append({'kind': 'str', 's': b[:k] + '<' + b[k:], 't': True})
    return vals


def requote_combo(spec):
    w = set(spec['written'])
    q = bool(w & QUOTERS) or spec.get('fmt') in QUOTER_FMTS
    return q and bool(w & UNQUOTERS)


def raw_lt(spec, value, out):
    """does the output contain a '<' that is not a (possibly truncated) tag-made <br />?"""
    s = BR.sub('', out)
    if '<' not in s:
        return False
    brmaker = 'newline_to_br' in spec['written'] or spec.get('fmt') == 'multi-line'
    if brmaker and spec.get('size') is not None:
        # truncation may cut a <br /> in two; what is left of it sits right before `etc`
        etc = spec.get('etc') if spec.get('etc') is not None else '...'
        pos = s.rfind('<')
        if s.count('<') == 1:
            tail = s[pos:]
            if etc and tail.endswith(etc):
                tail = tail[:-len(etc)]
            if '<br />'.startswith(tail.lower()):
                return False
    return True


def oracle(spec, value, impl, once=True):
    """returns (failures, known-finding id or None); once=False: only "no raw '<'" is asked, not "escaped once"."""
    if value['kind'] != 'str' or not value['t']:
        return [], None
    if impl[0] != 'out':
        return [], None     # an exception inserts nothing
    out = impl[1]
    bad = []
    known = None
    lit = ''.join(str(spec.get(k) or '') for k in ('etc', 'null', 'missing', 'fmt'))
    if '<' not in lit and raw_lt(spec, value, out):
        if requote_combo(spec):
            known = 'C04-requote'
        elif spec.get('fmt') in UNWRAPPED_METHOD_FORMATS:
            known = 'C04-method-format'
        else:
            bad.append('tainted value %r reaches the output with a raw "<": %r' % (value['s'], out))
    if once and '&' not in value['s'] and ('&amp;lt;' in out or '&amp;amp;' in out) and \
            'url_quote' not in spec['written']:
        if spec.get('fmt') == 'multi-line' and 'html_quote' in spec['written']:
            known = known or 'C04-multiline-then-html_quote'
        else:
            bad.append('escaped twice: %r' % out)
    return bad, known


def gen_specs(tier, r):
    specs = []
    # every subset of the 12 modifiers, in a random written order
    subsets = []
    for k in range(len(MODS) + 1):
        for c in itertools.combinations(MODS, k):
            subsets.append(list(c))
    for sub in subsets:
        w = list(sub)
        r.shuffle(w)
        sp = {'written': w}
        specs.append(sp)
    n = 6000 if tier == 'quick' else 80000
    fmts = SPECIAL + ['%s', 'x%sx', '%s%%', '[%s]', '', 'upper', 'lower', 'capitalize', '%d']
    for _ in range(n):
        specs.append(rand_spec(r, fmts))
    return specs


FMTS = SPECIAL + ['%s', 'x%sx', '%s%%', '[%s]', '', 'upper', 'lower', 'capitalize', '%d']


def rand_spec(r, fmts=FMTS):
    w = [m for m in MODS if r.random() < 0.25]
    r.shuffle(w)
    sp = {'written': w}
    if r.random() < 0.6:
        sp['fmt'] = r.choice(fmts)
    if r.random() < 0.5:
        sp['size'] = str(r.choice([0, 1, 2, 3, 4, 5, 6, 8, 10, 20, 100]))
        if r.random() < 0.5:
            sp['etc'] = r.choice(['...', '', '>>', ' etc'])
    if r.random() < 0.2:
        sp['null'] = r.choice(['', 'NULL', 'n/a'])
    if r.random() < 0.15:
        sp['missing'] = r.choice(['', 'MISSING'])
    return sp


# ---------------------------------------------------------------------------------------------
# a tainted value as the direct result of an expression
#
# An expression is generated as a pair of source texts: the one written into the template and the same computation
# in plain Python over plain strings (the reference).  Only operations are generated under which the mark is kept
# by its documented semantics (AccessControl.tainted: wrapped methods and operators keep it, slicing / indexing /
# replace / split / splitlines / translate re-evaluate it: marked iff the piece still contains '<') or by the
# library's own taint-aware wrapper of the `string` module (DT_Util.StringModuleWrapper).  No literal and no
# unmarked operand contains '<' (except p3, whose '<' are all consumed as separators), so every '<' of the
# reference text is untrusted.

# every way an expression reads x from the namespace; the value comes back unchanged
X_FORMS = ['x', 'x', 'x', "_['x']", "_.getitem('x',0)", "_.getitem('x',1)", '_.render(x)', '_.test(1,x)',
           '_.test(0,p,x)', "_.test(x,x,p)", 'o.a', "d['k']", 'l[0]', 'l[-1]', '_.namespace(y=x)[0].y', '_.min(x,x)']
OPS = ['{e}.upper()', '{e}.lower()', '{e}.capitalize()', '{e}.title()', '{e}.swapcase()',
       '{e}.strip()', '{e}.lstrip()', '{e}.rstrip()', "{e}.strip('a ')", "{e}.lstrip('a1x')",
       '{e}.center(12)', '{e}.ljust(9)', '{e}.rjust(9)', '{e}.expandtabs()',
       "{e}.replace('a', 'q')", "{e}.replace(' ', '_')", "{e}.replace('b', '')", '{e}.translate({{97: 98}})',
       "{e}.split(' ')[0]", "{e}.split(' ')[-1]", "{e}.split('_')[0]", '{e}.split()[0]',
       '{e}.splitlines()[0]', '{e}.splitlines()[-1]', "{e}.join(['1', '2'])", '{e}.join([p, p2])',
       "({e} + 'z')", "('z' + {e})", '({e} + p)', '(p + {e})', '({e} + t2)', '(t2 + {e})',
       '({e} * 2)', '(2 * {e})', '({e} % ())',
       '{e}[1:]', '{e}[:3]', '{e}[2:6]', '{e}[-3:]', '{e}[:-1]', '{e}[::-1]', '{e}[::2]', '{e}[0]', '{e}[-1]',
       '{e}[1]']
# the taint-aware string-module wrapper: every convention of passing the untrusted text (as the text, as the
# separator, as both; positional, keyword, mixed, unpacked)
CAP_OPS = ['{cap}({e})', '{cap}(s={e})', "{cap}({e}, ' ')", "{cap}({e}, sep=' ')", "{cap}(s={e}, sep=' ')",
           "{cap}(sep=' ', s={e})", '{cap}({e}, sep)', '{cap}({e}, sep=sep)', '{cap}(s={e}, sep=sep)',
           '{cap}({e}, None)', '{cap}(s={e}, sep=None)', "{cap}(*[{e}])", "{cap}(**{{'s': {e}}})",
           "{cap}({e}, **{{'sep': ' '}})",
           '{cap}(p2, {e})', '{cap}(p2, sep={e})', '{cap}(s=p2, sep={e})', '{cap}(sep={e}, s=p2)',
           "{cap}(p2, **{{'sep': {e}}})",
           '{cap}({e}, t2)', '{cap}({e}, sep=t2)', '{cap}(s={e}, sep=t2)', '{cap}(p, sep=t2) + {e}',
           # only the separator is untrusted and it does occur in the (trusted) text p3 = 'one' t2 'two' t2 'three':
           # the words are re-joined with it, so every '<' of the result is the untrusted one
           '{cap}(p3, t2)', '{cap}(p3, sep=t2)', '{cap}(s=p3, sep=t2)', '{cap}(sep=t2, s=p3)', '{cap}(*[p3, t2])',
           "{cap}(p3, **{{'sep': t2}})", "{cap}(**{{'s': p3, 'sep': t2}})"]
T2S = ['<', ' <', '<>', '< ', 'a<', ' ']
PLAINS = ['pq', 'p q', '', '7', 'P&q']


def string_functions():
    """the functions of the `string` module the wrapper wraps (Python 3: capwords only)"""
    import types
    return [k for k in dir(_string) if not k.startswith('_') and
            isinstance(getattr(_string, k), (types.FunctionType, types.BuiltinFunctionType))]


def gen_expr(r):
    """-> (expression in the template, the same computation in plain Python)"""
    if r.random() < 0.85:
        a, b = r.choice(X_FORMS), 'x'
    else:
        a, b = 't2', 't2'
    for _ in range(r.choice([0, 1, 1, 1, 2, 2, 3])):
        if len(a) > 120:
            break
        if r.random() < 0.45:
            op = r.choice(CAP_OPS)
            cap = 'strings.capwords' if r.random() < 0.85 else '_.string.capwords'
        else:
            op, cap = r.choice(OPS), ''
        a, b = op.format(e=a, cap=cap), op.format(e=b, cap='string.capwords')
    return a, b


def plain3(vals):
    return 'one' + vals['t2'] + 'two' + vals['t2'] + 'three'


def expr_env(vals, tainted):
    from AccessControl.tainted import TaintedString
    from DocumentTemplate.DT_Util import StringModuleWrapper
    mk = TaintedString if tainted else str
    x, t2 = mk(vals['x']), mk(vals['t2'])
    o = varpipe.Obj('o', True, {})
    o.a = x
    return {'x': x, 't2': t2, 'p': vals['p'], 'p2': 'one two', 'p3': plain3(vals), 'sep': ' ', 'o': o, 'd': {'k': x},
            'l': [x], 'strings': StringModuleWrapper()}


def expr_ref(c):
    """the text the expression denotes, by plain Python on plain strings; None when it raises"""
    env = {'x': c['vals']['x'], 't2': c['vals']['t2'], 'p': c['vals']['p'], 'p2': 'one two', 'p3': plain3(c['vals']),
           'sep': ' ', 'string': _string, '__builtins__': {}}
    try:
        v = eval(c['ref'], env)
    except Exception:  # noqa
        return None
    return v if isinstance(v, str) else None


def run_expr_case(c):
    try:
        t = varpipe.template(c['kind'], c['src'])
    except Exception as e:  # noqa
        return ('compile-err', type(e).__name__ + ': ' + str(e)[:100])
    if c.get('twin'):
        # history: the same compiled template first renders the equal text without the mark
        try:
            t(**expr_env(c['vals'], False))
        except Exception:  # noqa
            pass
    try:
        out = t(**expr_env(c['vals'], True))
    except Exception as e:  # noqa
        return ('err', type(e).__name__)
    if not isinstance(out, str):
        return ('out-nonstr', repr(out))
    return ('out', out)


def is_simple(spec):
    return set(spec) == {'written'} and spec['written'] in ([], ['html_quote'])


def expr_oracle(c, impl):
    """-> (failures, known id, class of the case)"""
    ref = expr_ref(c)
    if ref is None:
        return [], None, 'reference-raises'
    if impl[0] != 'out':
        return [], None, 'impl-' + impl[0]
    spec, out = c['spec'], impl[1]
    if '<' not in ref:
        # nothing untrusted with '<' is left in the value: only "html_quote escapes once" applies
        if is_simple(spec):
            allowed = {_html.escape(ref, True)} if spec['written'] else {ref, _html.escape(ref, True)}
            if out not in allowed:
                return ['expression result %r (no "<" left) rendered %r' % (ref, out)], None, 'no-lt-left'
        return [], None, 'no-lt-left'
    bad, known = oracle(spec, {'kind': 'str', 's': ref, 't': True}, impl)
    if is_simple(spec) and out != _html.escape(ref, True) and not bad:
        bad.append('expression denotes the untrusted text %r: expected %r (escaped once), got %r'
                   % (ref, _html.escape(ref, True), out))
    return bad, known, 'tainted-result'


def expr_source(spec, syn, e):
    kind, src = varpipe.tag_source(spec, 'dtml' if syn == 'dtml-short' else syn, True)
    assert 'expr="x"' in src
    return kind, src.replace('expr="x"', ('"%s"' if syn == 'dtml-short' else 'expr="%s"') % e, 1)


def gen_expr_cases(r, n, positions):
    cases = []
    # every argument convention of the string wrapper on the bare variable, option-free: the systematic part
    systematic = [(op.format(e='x', cap=cap), op.format(e='x', cap='string.capwords'))
                  for op in CAP_OPS for cap in ('strings.capwords', '_.string.capwords')]
    systematic += [(f, 'x') for f in X_FORMS] + [(op.format(e='x'), op.format(e='x')) for op in OPS]
    for i in range(n + len(systematic)):
        if i < len(systematic):
            (e, ref), spec = systematic[i], {'written': [] if i % 3 else ['html_quote']}
        else:
            e, ref = gen_expr(r)
            k = r.random()
            spec = {'written': []} if k < 0.3 else {'written': ['html_quote']} if k < 0.45 else rand_spec(r)
        v = positions[r.randrange(len(positions))] if r.random() < 0.6 else tainted_values(r, 1)[0]
        syn = r.choice(['dtml', 'dtml', 'dtml-short', 'ssi', 'epfs'])
        kind, src = expr_source(spec, syn, e)
        cases.append({'kind': kind, 'src': src, 'expr': e, 'ref': ref, 'spec': spec, 'syntax': syn,
                      'vals': {'x': v['s'], 't2': r.choice(T2S), 'p': r.choice(PLAINS)},
                      'twin': r.random() < 0.4})
    return cases


# ---------------------------------------------------------------------------------------------
# delivery channels and binding contexts of a by-name (or expr="x") insertion.  The context adds no text of its own
# (except where noted), so the (spec, value) oracle and the model's answer for (spec, value) apply unchanged.

class Client:
    def __init__(self, **kw):
        self.__dict__.update(kw)


class RequestLike(dict):
    """a mapping with the taintWrapper() hook (ZPublisher's request): plain items, marked items in the wrapper"""

    def taintWrapper(self):
        from AccessControl.tainted import TaintedString
        return {k: (TaintedString(v) if isinstance(v, str) and '<' in v else v) for k, v in self.items()}


# name -> (wrapper of the tag T, name the tag must use (None = x), how the value is handed over)
CONTEXTS = {
    'keyword': ('{T}', None, 'kw'),
    'client': ('{T}', None, 'client'),
    'mapping': ('{T}', None, 'mapping'),
    'taintWrapper': ('{T}', None, 'taintwrapper'),
    'constructor-keyword': ('{T}', None, 'ctor-kw'),
    'constructor-mapping': ('{T}', None, 'ctor-mapping'),
    'let-name': ('<dtml-let x=src>{T}</dtml-let>', None, 'src'),
    'let-expr': ('<dtml-let x="src">{T}</dtml-let>', None, 'src'),
    'let-two': ('<dtml-let y=src x=y>{T}</dtml-let>', None, 'src'),
    'with-namespace': ('<dtml-with "_.namespace(x=src)">{T}</dtml-with>', None, 'src'),
    'with-object': ('<dtml-with o>{T}</dtml-with>', None, 'o'),
    'with-only': ('<dtml-with o only>{T}</dtml-with>', None, 'o'),
    'with-mapping': ('<dtml-with d mapping>{T}</dtml-with>', None, 'd'),
    'in-objects': ('<dtml-in l>{T}</dtml-in>', None, 'l-o'),
    'in-mappings': ('<dtml-in l mapping>{T}</dtml-in>', None, 'l-d'),
    'in-item': ('<dtml-in l>{T}</dtml-in>', 'sequence-item', 'l'),
    'in-prefix': ('<dtml-in l prefix=q>{T}</dtml-in>', 'q_item', 'l'),
    'in-key': ('<dtml-in l>{T}</dtml-in>', 'sequence-key', 'l-pair'),
    'in-sorted': ('<dtml-in l sort=x>{T}</dtml-in>', None, 'l-o'),
    'if-cached': ('<dtml-if x>{T}</dtml-if>', None, 'kw'),
    'unless-else': ('<dtml-if y>n<dtml-else>{T}</dtml-if>', None, 'kw'),
    'sub-template': ('<dtml-var sub>', None, 'sub'),
    'try': ('<dtml-try>{T}<dtml-except>E</dtml-try>', None, 'kw'),           # an exception prints E
    'twice': ('{T}|{T}', None, 'kw'),                                         # prints the insertion twice
}
EPFS_CONTEXTS = ['keyword', 'client', 'mapping', 'taintWrapper', 'constructor-keyword', 'constructor-mapping', 'twice']
NO_MODEL = ('try', 'twice')


def tag_named(spec, syn, by_expr, name):
    kind, src = varpipe.tag_source(spec, syn, by_expr)
    if name is None:
        return kind, src
    if by_expr:
        e = name if name.isidentifier() else "_['%s']" % name
        return kind, src.replace('expr="x"', 'expr="%s"' % e, 1)
    for head in ('<dtml-var x', '<!--#var x', '%(x'):
        if src.startswith(head):
            return kind, head[:-1] + name + src[len(head):]
    assert syn == 'entity' and src.endswith('-x;'), src
    return kind, src[:-2] + name + ';'


def ctx_source(c):
    wrap, name, how = CONTEXTS[c['ctx']]
    kind, tag = tag_named(c['spec'], c['syntax'], c['by_expr'], name)
    return kind, wrap.replace('{T}', tag), tag, how


def ctx_call(kind, src, tag, how, v):
    """render with the value v handed over the way `how` says"""
    from DocumentTemplate import HTML, String
    cls = HTML if kind == 'html' else String
    if how == 'ctor-kw':
        return cls(src, x=v)()
    if how == 'ctor-mapping':
        return cls(src, {'x': v})()
    t = varpipe.template(kind, src)
    if how == 'kw':
        return t(x=v)
    if how == 'client':
        return t(Client(x=v))
    if how == 'mapping':
        return t(None, {'x': v})
    if how == 'taintwrapper':
        return t(None, RequestLike(x=str(v), other='plain'))
    if how == 'src':
        return t(src=v)
    if how == 'o':
        return t(o=Client(x=v))
    if how == 'd':
        return t(d={'x': v})
    if how == 'l-o':
        return t(l=[Client(x=v)])
    if how == 'l-d':
        return t(l=[{'x': v}])
    if how == 'l':
        return t(l=[v])
    if how == 'l-pair':
        return t(l=[(v, 'item')])
    if how == 'sub':
        return t(sub=varpipe.template(kind, tag), x=v)
    raise ValueError(how)


def run_ctx_case(c):
    from AccessControl.tainted import TaintedString
    try:
        kind, src, tag, how = ctx_source(c)
        varpipe.template(kind, src)
    except Exception as e:  # noqa
        return ('compile-err', type(e).__name__ + ': ' + str(e)[:100]), c.get('src', '')
    if c.get('twin') and how != 'taintwrapper':
        try:
            ctx_call(kind, src, tag, how, c['value']['s'])
        except Exception:  # noqa
            pass
    try:
        out = ctx_call(kind, src, tag, how, TaintedString(c['value']['s']))
    except Exception as e:  # noqa
        return ('err', type(e).__name__), src
    if not isinstance(out, str):
        return ('out-nonstr', repr(out)), src
    return ('out', out), src


def gen_ctx_cases(r, specs, positions, n):
    names = sorted(CONTEXTS)
    cases = []
    for i in range(n):
        k = r.random()
        sp = {'written': []} if k < 0.1 else {'written': ['html_quote']} if k < 0.15 else \
            dict(specs[r.randrange(len(specs))])
        v = positions[r.randrange(len(positions))] if r.random() < 0.6 else tainted_values(r, 1)[0]
        ctx = names[i % len(names)]
        syn = r.choice(['dtml', 'dtml', 'ssi', 'epfs', 'entity'])
        if syn == 'epfs' and ctx not in EPFS_CONTEXTS:
            syn = 'dtml'
        if syn == 'entity':
            if not sp['written']:
                syn = 'dtml'
            else:
                sp = {'written': sp['written']}
        by_expr = syn != 'entity' and r.random() < 0.3
        cases.append({'ctx': ctx, 'spec': sp, 'value': v, 'syntax': syn, 'by_expr': by_expr,
                      'twin': r.random() < 0.4})
    return cases


def ctx_oracle(c, impl):
    if impl[0] != 'out':
        return [], None
    out = impl[1]
    if c['ctx'] == 'twice':
        # T|T: the two insertions must be the same text; one of them is judged (all of it if they differ)
        mid = len(out) // 2
        if len(out) % 2 == 1 and out[mid] == '|' and out[:mid] == out[mid + 1:]:
            return oracle(c['spec'], c['value'], ('out', out[:mid]))
        return oracle(c['spec'], c['value'], ('out', out.replace('|', '')))
    return oracle(c['spec'], c['value'], impl)


# ---------------------------------------------------------------------------------------------
# the whole fmt= dispatch x every carrier of a marked value.  Oracle only: the markup formats, method formats of
# objects, the url option and callables are outside the Lean model, so none of these cases is sent to the driver.
#
# fmt=NAME is dispatched three ways by the tag (DT_Var docstring): a method of the value called NAME is called, a name of
# the special-format table is applied, anything else is a %-format string.  The (spec, value) grid above draws NAME from
# the 13 formats the model knows; here NAME ranges over
#   * every key of the library's special_formats table as it is at run time, united with the documented names (so a
#     format that is added, renamed or that the model does not cover is exercised: structured-text and
#     restructured-text, which build HTML markup around the value, are such formats),
#   * every public attribute name of str / bytes and of the two mark classes (method formats),
#   * misspellings of table names (they are %-format strings without a conversion);
# and the marked value reaches the tag on every carrier: given directly (TaintedString / TaintedBytes), returned by a
# callable that the name lookup calls, returned by absolute_url() under the `url` option, returned by the method that a
# method format calls on an ordinary object, returned by read_raw() of an object with a DTML meta_type (where the markup
# formats take their text from).  Binding contexts, the four syntaxes, C-style codes, later modifiers,
# size/etc, null/missing and the "equal unmarked text first" history are combined with them at random.
#
# Many of these cases raise in the unchanged library (a mark is neither a str nor a DTML object for the markup
# formats, has no absolute_url, ...): an exception inserts nothing.  They are generated all the same, because "make
# it not raise" is exactly the kind of edit that turns a dead end into an unescaped insertion.

DOC_FORMATS = ['whole-dollars', 'dollars-and-cents', 'collection-length', 'structured-text', 'restructured-text',
               'sql-quote', 'html-quote', 'url-quote', 'url-quote-plus', 'url-unquote', 'url-unquote-plus', 'multi-line',
               'comma-numeric', 'dollars-with-commas', 'dollars-and-cents-with-commas']
MARKUP_FORMATS = ('structured-text', 'restructured-text')
NEAR_FORMATS = ['structured_text', 'Structured-Text', 'STRUCTURED-TEXT', 'restructuredtext', 'html_quote', 'stx']
# the mark's own escaping API is not a str method: asking for it and for html_quote asks for two escapes
NOT_METHOD_FORMATS = ('quoted',)
# C04-method-format: str / bytes methods the mark class does not wrap
UNWRAPPED_METHOD_FORMATS = ('casefold', 'format', '__str__', 'rsplit')
# C04-requote-list-format: method formats the mark wraps into lists of marks; the list's text form escapes them
LIST_METHOD_FORMATS = ('split', 'splitlines')
STRUCT_BASES = ['plain words here', 'Heading\n\n  body text under the heading', 'one paragraph\n\nanother paragraph',
                '* item one\n\n* item two', 'an *emphasised* and a **strong** word', '"a link":http://example.com/a',
                "some 'inline code' here", 'example::\n\n  literal block', '1. first\n\n2. second',
                'term -- its definition', '_underlined_ and a_b', 'see ref_ and `role` and |sub|',
                'Title\n=====\n\ntext', 'a\nb', '  indented', '']
MARKS = ['<', '<', '<b>', '<script>x</script>', '</p>', '<!--', '<img src=x onerror=y>', '< ', '<<']
CARRIERS = ['direct', 'callable', 'url', 'method', 'dtml-object']
TABLE_CONTEXTS = ['keyword', 'keyword', 'client', 'mapping', 'constructor-keyword', 'let-name', 'let-expr',
                  'with-object', 'with-mapping', 'in-objects', 'in-item', 'in-prefix', 'if-cached', 'try', 'twice']
TAG = re.compile(r'<[^<>]*>')
# what a library that does format a marked text may have made of its '<' before formatting
NEUTRALS = ['ᐸ', '&lt;', 'LT', '']


def format_names():
    from DocumentTemplate import DT_Var
    return sorted(set(DOC_FORMATS) | set(getattr(DT_Var, 'special_formats', {})))


def method_names():
    from AccessControl.tainted import TaintedBytes, TaintedString
    names = set()
    for k in (str, bytes, TaintedString, TaintedBytes):
        names |= {n for n in dir(k) if not n.startswith('_')}
    return sorted(names - set(NOT_METHOD_FORMATS))


class Carrier:
    """an ordinary object that hands the marked value out through a method"""

    def __init__(self, v):
        self._v = v

    def absolute_url(self):
        return self._v

    def hello(self):
        return self._v

    def __repr__(self):
        return 'Carrier()'


class SourceCarrier:
    """what the markup formats take their text from when the value is not a string: an object that says it is a DTML
    Method / Document and hands its raw source out (here: the marked value)"""

    def __init__(self, v, meta_type):
        self._v, self.meta_type = v, meta_type

    def read_raw(self):
        return self._v

    def __str__(self):
        return 'SourceCarrier'


_refs = {}


def ref_markup(fmt, text):
    """the markup the formatter itself makes for `text`: the third-party formatter called directly"""
    key = (fmt, text)
    if key not in _refs:
        import contextlib
        import io
        try:
            with contextlib.redirect_stderr(io.StringIO()):
                if fmt == 'structured-text':
                    import zope.structuredtext
                    out = zope.structuredtext.stx2html(text, level=3, header=0)
                else:
                    from docutils.core import publish_parts
                    out = publish_parts(text, writer_name='html',
                                        settings_overrides={'file_insertion_enabled': False, 'raw_enabled': False})['whole']
        except Exception:  # noqa
            out = None
        if len(_refs) > 4000:
            _refs.clear()
        _refs[key] = out
    return _refs[key]


def norm_markup(s):
    """what later modifiers (case, spacify, thousands_commas, sql_quote, newline_to_br) can do to a tag is undone"""
    s = re.sub(r'[_ ,\'\r\n\x00\x1a]', '', s.lower()).replace('<br/>', '')
    return re.sub(r'<(/?)h\d', r'<\1h#', s)


def unexplained_lt(spec, out, tokens):
    """number of '<' of `out` that are not the formatter's tags `tokens` (in their order)"""
    o, pos, rest = norm_markup(out), 0, []
    toks = [norm_markup(t) for t in tokens]
    left = []
    for t in toks:
        i = o.find(t, pos)
        if i < 0:
            left.append(t)
            continue
        rest.append(o[pos:i])
        pos = i + len(t)
    rest = ''.join(rest) + o[pos:]
    n = rest.count('<')
    if n == 1:
        # truncation (size=, a C-style precision) may cut the formatter's last tag in two; what is left of it sits at
        # the end, before `etc`
        etc = norm_markup(spec.get('etc') if spec.get('etc') is not None else '...')
        tail = rest[rest.rfind('<'):]
        if etc and tail.endswith(etc):
            tail = tail[:-len(etc)]
        if any(t.startswith(tail) for t in left + ['<br/>']):
            return 0
    return n


def markup_leak(spec, text, out):
    """-> None, or why `out` has a '<' that the formatter's own markup does not account for.  The markup is the one
    the formatter makes for the text with every '<' made harmless beforehand (each way of NEUTRALS; a formatter that
    escapes its input itself -- docutils -- also for the text as it is)."""
    fmt = spec['fmt']
    variants = [_html.escape(text, True), _html.escape(text, False)] + [text.replace('<', n) for n in NEUTRALS]
    if fmt == 'restructured-text':
        variants.append(text)
    best = None
    for v in variants:
        ref = ref_markup(fmt, v)
        if ref is None:
            continue
        n = unexplained_lt(spec, out, TAG.findall(ref))
        if n == 0:
            return None
        best = n if best is None else min(best, n)
    if best is None:
        return None if '<' not in BR.sub('', out) else 'the reference formatter refuses the text, yet %r came out' % out[:200]
    return '%d "<" beyond the markup of fmt=%s in %r' % (best, fmt, out[:300] if len(out) < 600 else out[-300:])


def table_value(c, marked):
    from AccessControl.tainted import TaintedBytes, TaintedString
    if c['mark'] == 'bytes':
        v = c['s'].encode('utf-8')
        v = TaintedBytes(v) if marked else v
    else:
        v = TaintedString(c['s']) if marked else c['s']
    if c['carrier'] == 'callable':
        return lambda: v
    if c['carrier'] in ('url', 'method'):
        return Carrier(v)
    if c['carrier'] == 'dtml-object':
        return SourceCarrier(v, 'DTML Method' if len(c['s']) % 2 else 'DTML Document')
    return v


def table_spec(c):
    """the options as written in the tag: the carrier's own option is added to the spec of the case"""
    sp = dict(c['spec'])
    if c['carrier'] == 'url':
        sp['written'] = ['url'] + list(sp['written'])
    elif c['carrier'] == 'method':
        sp['fmt'] = 'hello'
    return sp


def table_source(c):
    wrap, name, how = CONTEXTS[c['ctx']]
    kind, tag = tag_named(table_spec(c), c['syntax'], c['by_expr'], name)
    if c['carrier'] == 'callable' and c['by_expr']:
        tag = tag.replace('expr="x"', 'expr="x()"', 1)     # an expression does not call what it names
    return kind, wrap.replace('{T}', tag), tag, how


def run_table_case(c):
    try:
        kind, src, tag, how = table_source(c)
        varpipe.template(kind, src)
    except Exception as e:  # noqa
        return ('compile-err', type(e).__name__ + ': ' + str(e)[:100]), c.get('src', '')
    import contextlib
    import io
    if c.get('twin'):
        try:
            with contextlib.redirect_stderr(io.StringIO()):     # docutils reports problems of the text there
                ctx_call(kind, src, tag, how, table_value(c, False))
        except Exception:  # noqa
            pass
    try:
        with contextlib.redirect_stderr(io.StringIO()):
            out = ctx_call(kind, src, tag, how, table_value(c, True))
    except Exception as e:  # noqa
        return ('err', type(e).__name__), src
    if isinstance(out, bytes):
        return ('out', out.decode('latin-1')), src
    if not isinstance(out, str):
        return ('out-nonstr', repr(out)), src
    return ('out', out), src


def plain_method_result(c):
    """what the method format denotes by plain Python on the plain value ('?' when it cannot be called like that)"""
    fmt = c['spec'].get('fmt')
    plain = c['s'].encode('utf-8') if c['mark'] == 'bytes' else c['s']
    if fmt is None or fmt.startswith('_') and fmt != '__str__' or not hasattr(plain, fmt):
        return None
    try:
        return getattr(plain, fmt)()
    except Exception:  # noqa
        return '?'


def table_oracle(c, impl):
    """-> (failures, known id, class of the case)"""
    if impl[0] != 'out':
        return [], None, impl[0]
    spec, out = c['spec'], impl[1]
    if c['ctx'] == 'twice':
        mid = len(out) // 2
        out = out[:mid] if len(out) % 2 == 1 and out[mid] == '|' and out[:mid] == out[mid + 1:] else out.replace('|', '')
    if c['ctx'] == 'try' and out == 'E':
        return [], None, 'err'
    if spec.get('fmt') in MARKUP_FORMATS:
        why = markup_leak(spec, c['s'], out)
        return ([why] if why else []), None, 'markup-format'
    value = {'kind': 'str', 's': c['s'], 't': True}
    res = plain_method_result(c)
    if c['mark'] == 'str' and (res is None or isinstance(res, str)):
        bad, known = oracle(spec, value, ('out', out))
        return bad, known, 'text'
    # byte strings and method formats that do not denote a text: only "no raw '<'" applies
    bad, known = oracle(spec, value, ('out', out), once=False)
    return bad, known, 'bytes' if c['mark'] == 'bytes' else 'non-text'


def marked_text(r, bases):
    b = r.choice(bases)
    k = r.randint(0, len(b))
    return b[:k] + r.choice(MARKS) + b[k:]


def table_case(r, fmt, carrier=None, mark=None, syn=None, plain=False):
    """one case around the format `fmt` (None: no fmt=); plain: no other option, keyword delivery, no history"""
    carrier = carrier or r.choice(CARRIERS)
    if plain:
        sp = {'written': []}
    else:
        sp = rand_spec(r, ['%s'])
        sp.pop('fmt', None)
    if fmt is not None and carrier != 'method':
        sp['fmt'] = fmt
    if carrier == 'dtml-object' and sp.get('fmt') not in MARKUP_FORMATS:
        carrier = 'direct'      # only the markup formats read the source of such an object
    if sp.get('fmt') in MARKUP_FORMATS + LIST_METHOD_FORMATS:
        # a formatter that escapes its input is a quoting stage: unquoting after it is the class of C04-requote.  So
        # is the text form of a list of marks (finding C04-requote-list-format, replayed by findings_probe.py)
        sp['written'] = [m for m in sp['written'] if m not in UNQUOTERS]
    syn = syn or r.choice(['dtml', 'dtml', 'ssi', 'epfs'])
    if syn == 'epfs' and not plain and r.random() < 0.3:
        sp['cfmt'] = r.choice(['20s', '.60s', '3s', '5.200s'])
    ctx = 'keyword' if plain or carrier == 'callable' else r.choice(TABLE_CONTEXTS)
    if syn == 'epfs' and ctx not in EPFS_CONTEXTS:
        syn = 'dtml'
    markup = sp.get('fmt') in MARKUP_FORMATS or r.random() < 0.3
    return {'input_class': 'format-table', 'carrier': carrier, 'mark': mark or r.choice(['str', 'str', 'bytes']),
            's': marked_text(r, STRUCT_BASES if markup else BASES), 'spec': sp, 'syntax': syn,
            'by_expr': r.random() < 0.3, 'ctx': ctx, 'twin': not plain and r.random() < 0.4}


def gen_table_cases(r, tier):
    table, methods = format_names(), method_names()
    names = table + methods + NEAR_FORMATS
    cases = []
    # systematic: every name of the fmt= dispatch, option-free, on every mark class and in both template classes; every
    # carrier with every table format; the markup formats on every structured text with a mark at both ends
    for f in names:
        for mark in ('str', 'bytes'):
            for syn in ('dtml', 'epfs'):
                cases.append(table_case(r, f, 'direct', mark, syn, plain=True))
    for f in table + [None]:
        for carrier in CARRIERS:
            for mark in ('str', 'bytes'):
                cases.append(table_case(r, f, carrier, mark, plain=True))
    for f in MARKUP_FORMATS:
        for b in STRUCT_BASES:
            for mark in ('str', 'bytes'):
                for s in ('<b>' + b, b + '<b>'):
                    c = table_case(r, f, 'direct', mark, 'dtml', plain=True)
                    c['s'] = s
                    cases.append(c)
    if tier == 'thorough':
        for f in MARKUP_FORMATS:
            for b in STRUCT_BASES:
                for k in range(len(b) + 1):
                    c = table_case(r, f)
                    c['s'] = b[:k] + r.choice(MARKS) + b[k:]
                    cases.append(c)
    # random: formats of the table half of the time, markup formats a quarter, method / misspelt names and none else
    for _ in range(5000 if tier == 'quick' else 60000):
        k = r.random()
        f = r.choice(table) if k < 0.45 else r.choice(MARKUP_FORMATS) if k < 0.7 else \
            r.choice(methods + NEAR_FORMATS) if k < 0.9 else None
        cases.append(table_case(r, f))
    return cases


def calibrate_markup(res):
    """the reference formatter and the tag must agree on the markup of trusted text, else markup_leak means nothing"""
    agree = disagree = 0
    for f in MARKUP_FORMATS:
        for b in STRUCT_BASES:
            for v in (b, b.encode('utf-8')):
                c = {'carrier': 'direct', 'mark': 'str', 's': b, 'spec': {'written': [], 'fmt': f}, 'syntax': 'dtml',
                     'by_expr': False, 'ctx': 'keyword'}
                kind, src, tag, how = table_source(c)
                try:
                    import contextlib
                    import io
                    with contextlib.redirect_stderr(io.StringIO()):
                        out = ctx_call(kind, src, tag, how, v)
                except Exception:  # noqa
                    continue
                res.evaluations += 1
                if markup_leak(c['spec'], b, out) is None:
                    agree += 1
                else:
                    disagree += 1
                    res.extra.setdefault('markup_reference_disagrees', []).append({'fmt': f, 'text': b, 'out': out[-300:]})
    res.extra['markup_reference_calibration'] = {'agree': agree, 'disagree': disagree}
    res.count('markup_reference:agrees_on_trusted_text', agree)
    res.count('markup_reference:disagrees_on_trusted_text', disagree)


def run_table_cases(res, tier):
    r = common.rng('C04-format-table')
    res.extra['special_format_table'] = format_names()
    res.extra['method_format_names'] = len(method_names())
    calibrate_markup(res)
    for c in gen_table_cases(r, tier):
        impl, src = run_table_case(c)
        c['src'] = src
        res.evaluations += 1
        res.count('table_carrier=' + c['carrier'] + '/' + c['mark'])
        if c['twin']:
            res.count('history=unmarked-equal-text-first')
        bad, known, cls = table_oracle(c, impl)
        res.count('table:' + cls)
        if c['spec'].get('fmt') in MARKUP_FORMATS:
            res.count('table_markup_format:' + ('renders' if cls == 'markup-format' else 'raises'))
        if known:
            res.known_hits.setdefault(known, {'spec': c['spec'], 'value': c['s'], 'src': src, 'out': impl[1]})
            res.count('known:' + known)
        for f in bad:
            res.oracle_fail.append({'case': c, 'what': f})
        if impl[0] == 'out':
            res.nt(('table', c['carrier'], c['mark'], c['ctx'], src, c['s']))
    res.sample({k: c[k] for k in ('carrier', 'mark', 's', 'spec', 'src', 'ctx')} | {'impl': impl})


# ---------------------------------------------------------------------------------------------
# tainted byte strings (AccessControl.tainted.TaintedBytes): the other marked value type

def run_bytes_cases(res):
    from AccessControl.tainted import TaintedBytes
    specs = [{'written': []}] + [{'written': [m]} for m in MODS] + \
        [{'written': [], 'fmt': f} for f in SPECIAL + ['%s', '[%s]', 'upper', 'lower', '']] + \
        [{'written': [], 'size': '2'}, {'written': ['upper'], 'size': '3', 'etc': ''},
         {'written': ['html_quote', 'upper']}, {'written': ['url_unquote', 'upper']},
         {'written': ['thousands_commas', 'lower']}, {'written': ['sql_quote', 'url_unquote_plus']}]
    for sp in specs:
        for b in (b'a<b', b'<', b'12<34.5 x', b'1234567.5<', b'a%3C<\r\nb'):
            for syn in ('dtml', 'epfs', 'entity'):
                if syn == 'entity' and (not sp['written'] or len(sp) > 1):
                    continue
                kind, tag = varpipe.tag_source(sp, syn, False)
                for src in (tag, '[' + tag + ']'):
                    res.evaluations += 1
                    res.count('tainted_bytes')
                    try:
                        out = varpipe.template(kind, src)(x=TaintedBytes(b))
                    except Exception:  # noqa
                        res.count('tainted_bytes:raises')
                        continue
                    text = out.decode('latin-1') if isinstance(out, bytes) else str(out)
                    res.nt(('bytes', json.dumps(sp, sort_keys=True), repr(b), src))
                    if raw_lt(sp, None, text) and not requote_combo(sp):
                        res.oracle_fail.append({'case': {'input_class': 'bytes', 'spec': sp, 'src': src, 'syntax': syn,
                                                         'value': 'TaintedBytes(%r)' % b, 'bytes': b.decode('latin-1')},
                                                'what': 'tainted bytes came out with a raw "<": %r' % (out,)})


def run(res, tier, have_driver):
    r = common.rng('C04')
    res.rule = ('all 4096 modifier subsets (random written order) plus random specs with fmt= (13 special formats, '
                'method formats, %-formats), size/etc, null/missing; tainted values with "<" at every position '
                'of 12 base strings (url escapes, digits, newlines, quotes, underscores); dtml/SSI/EPFS/entity '
                'syntax, by name and by expr; non-trivial = distinct (spec, value) with a tainted value that '
                'reaches the final stage (no exception, no null/missing shortcut).  '
                'EXPRESSIONS: the tainted value as the direct result of a generated expression (16 namespace access '
                'forms: x, _[..], _.getitem, _.render, _.test, attribute / item / list access, _.namespace, _.min; '
                '45 taint-keeping operations of the mark: wrapped str methods, + * % on either side, slices, '
                'indexing, replace/split/splitlines/translate/join; the taint-aware string-module wrapper '
                'DT_Util.StringModuleWrapper (as a namespace object and as _.string) with 30 argument conventions: '
                'untrusted text as s, as sep, as both, positional / keyword / mixed / *args / **kw), nested up to 3 '
                'deep, in expr=, "..." shorthand, SSI and %(var expr=)s syntax, option-free, html_quote and random '
                'specs; expected text = the same computation by plain Python on plain strings, escaped exactly once.  '
                'CONTEXTS: 24 delivery channels / binding contexts of the insertion (keyword, client attribute, '
                'mapping, mapping.taintWrapper() hook, constructor keyword / mapping, dtml-let name / expr / chained, '
                'dtml-with namespace / object / only / mapping, dtml-in objects / mappings / sequence-item / prefix / '
                'sequence-key / sorted, dtml-if cache, else branch, sub-template, dtml-try, the tag twice), also '
                'compared with the model.  HISTORIES: 40% of the context and expression cases first render the same '
                'compiled template with the equal text without the mark.  TaintedBytes through every single modifier '
                'and special format.  '
                'FORMAT TABLE x CARRIERS (oracle only, outside the model): fmt= ranging over every key of the library\'s '
                'special_formats table as found at run time united with the 15 documented names (incl. the markup formats '
                'structured-text / restructured-text), every public attribute name of str / bytes / TaintedString / '
                'TaintedBytes (method formats) and misspelt table names; the marked value (TaintedString or TaintedBytes, '
                '"<", tags, comment openers at random positions of 16 structured texts: headings, paragraphs, lists, '
                'emphasis, links, literal blocks, reST references / titles, and of the 12 base strings) given directly, '
                'returned by a callable the name lookup calls, by absolute_url() under the url option, by the method a '
                'method format calls on an ordinary object, by read_raw() of an object with a DTML meta_type; combined with later modifiers, size/etc, null/missing, C-style '
                'widths / precisions, 4 syntaxes, name / expr, 13 binding contexts and the unmarked-first history.  Plain '
                'formats: no raw "<" / escaped once as above.  Markup formats: every "<" of the output must be a tag that '
                'the third-party formatter itself (zope.structuredtext.stx2html / docutils publish_parts, called '
                'directly) makes for the text with its "<" made harmless beforehand; the reference is calibrated on '
                'trusted text against the tag')
    specs = gen_specs(tier, r)
    positions = all_positions()
    cases = []
    for i, sp in enumerate(specs):
        nvals = 2 if tier == 'quick' else 6
        vals = [positions[(i * 7 + j * 13) % len(positions)] for j in range(nvals)]
        vals += tainted_values(r, 1)
        if r.random() < 0.3:
            vals.append(r.choice([{'kind': 'str', 's': r.choice(BASES) + r.choice(['', '<', '&', '%3C']), 't': False},
                                  {'kind': 'int', 'i': r.choice([0, 5, -12, 1234567])},
                                  {'kind': 'none'}, {'kind': 'undefined'},
                                  {'kind': 'obj', 's': 'o<bj', 'truthy': r.random() < 0.7,
                                   'methods': {'hello': 'he<llo'}}]))
        for v in vals:
            syn = r.choice(['dtml', 'dtml', 'ssi', 'epfs'])
            if sp['written'] and not any(k in sp for k in ('fmt', 'size', 'etc', 'null', 'missing')) \
                    and r.random() < 0.2:
                syn = 'entity'
            by_expr = syn != 'entity' and v['kind'] != 'undefined' and r.random() < 0.3
            cases.append((sp, v, syn, by_expr))
    # explicit probes of the method-format channel (known finding)
    for f in ('casefold', 'format', '__str__'):
        cases.append(({'written': [], 'fmt': f}, {'kind': 'str', 's': '<qz', 't': True}, 'dtml', False))
    reqs, impls = [], []
    for sp, v, syn, by_expr in cases:
        spec = dict(sp)
        if syn == 'entity':
            spec = {'written': sp['written']}
        impl, src = varpipe.run_impl(spec, v, syn, by_expr)
        impls.append((impl, src))
        res.evaluations += 1
        res.count('syntax=' + syn)
        res.count('value=' + v['kind'] + ('+tainted' if v.get('t') else ''))
        res.count('result=' + impl[0])
        bad, known = oracle(spec, v, impl)
        if known:
            res.known_hits.setdefault(known, {'spec': spec, 'value': v, 'src': src, 'out': impl[1]})
            res.count('known:' + known)
        for f in bad:
            res.oracle_fail.append({'case': {'spec': spec, 'value': v, 'syntax': syn, 'by_expr': by_expr,
                                             'src': src}, 'what': f})
        if v.get('t') and impl[0] == 'out':
            res.nt((json.dumps(spec, sort_keys=True), v['s']))
        reqs.append(varpipe.model_req(spec, v))
    # C-style format codes of the %(name)fmt syntax on tainted values: whatever the code does with a text value (most numeric
    # codes raise), nothing of the value may come out unescaped
    from AccessControl.tainted import TaintedString
    from DocumentTemplate import String
    for code in ('d', '5d', '05d', 'i', 'x', 'X', 'o', 'e', 'E', 'f', '8.2f', 'g', 'c', 'r', 'a', '12s', '.5s', '-8s', 's'):
        for txt in ('<img src=x>', '12<3', '<', ' <b>', '<1e3'):
            for src in ('%%(x)%s' % code, '[%%(x)%s]' % code, '%%(x upper)%s' % code, '%%(x size=40)%s' % code):
                res.evaluations += 1
                res.count('epfs_format_codes')
                try:
                    out = String(src)(x=TaintedString(txt))
                except Exception:  # noqa
                    continue
                res.nt(('epfs-fmt', code, txt, src))
                if '<' in out:
                    res.oracle_fail.append({'case': {'src': src, 'value': 'TaintedString(%r)' % txt, 'syntax': 'epfs'},
                                            'what': 'a tainted value came out with a raw "<": %r' % (out,)})
    for i in (0, 100, len(cases) // 2, len(cases) - 5):
        res.sample({'spec': cases[i][0], 'value': cases[i][1], 'syntax': cases[i][2],
                    'src': impls[i][1], 'impl': impls[i][0]})
    # binding contexts / delivery channels / histories of a by-name insertion (their own random stream: the cases
    # above do not move when these are changed)
    rc = common.rng('C04-contexts')
    for c in gen_ctx_cases(rc, specs, positions, 4800 if tier == 'quick' else 40000):
        impl, src = run_ctx_case(c)
        c['src'] = src
        res.evaluations += 1
        res.count('context=' + c['ctx'])
        res.count('context_result=' + impl[0])
        if c['twin']:
            res.count('history=unmarked-equal-text-first')
        bad, known = ctx_oracle(c, impl)
        if known:
            res.known_hits.setdefault(known, {'spec': c['spec'], 'value': c['value'], 'src': src, 'out': impl[1]})
            res.count('known:' + known)
        for f in bad:
            res.oracle_fail.append({'case': dict(c, input_class='context'), 'what': f})
        if impl[0] == 'out':
            res.nt(('ctx', c['ctx'], json.dumps(c['spec'], sort_keys=True), c['value']['s'], c['syntax'], c['by_expr']))
        if c['ctx'] not in NO_MODEL:
            cases.append((c['spec'], c['value'], c['syntax'] + '/' + c['ctx'], c['by_expr']))
            impls.append((impl, src))
            reqs.append(varpipe.model_req(c['spec'], c['value']))
    res.sample({'context': c['ctx'], 'spec': c['spec'], 'value': c['value'], 'src': c['src'], 'impl': impl})
    # tainted values as the result of an expression
    re_ = common.rng('C04-expressions')
    res.extra['string_module_functions_wrapped'] = string_functions()
    for c in gen_expr_cases(re_, 4500 if tier == 'quick' else 40000, positions):
        impl = run_expr_case(c)
        res.evaluations += 1
        res.count('expr_syntax=' + c['syntax'])
        if 'capwords' in c['expr']:
            res.count('expr_uses_string_wrapper')
        if c['twin']:
            res.count('history=unmarked-equal-text-first')
        bad, known, cls = expr_oracle(c, impl)
        res.count('expr:' + cls)
        if known:
            res.known_hits.setdefault(known, {'spec': c['spec'], 'value': c['vals'], 'src': c['src'], 'out': impl[1]})
            res.count('known:' + known)
        for f in bad:
            res.oracle_fail.append({'case': dict(c, input_class='expr'), 'what': f})
        if cls == 'tainted-result':
            res.nt(('expr', c['src'], json.dumps(c['vals'], sort_keys=True)))
    res.sample({'expr': c['expr'], 'reference': c['ref'], 'src': c['src'], 'vals': c['vals'], 'impl': impl})
    run_bytes_cases(res)
    run_table_cases(res, tier)
    if have_driver:
        resp = common.run_driver(reqs)
        oom = 0
        for (sp, v, syn, by_expr), (impl, src), rp in zip(cases, impls, resp):
            if 'ok' not in rp:
                res.harness_errors.append('driver: %r for %r' % (rp, src))
                break
            d = varpipe.compare(impl, rp['ok'])
            if d == 'oom':
                oom += 1
                continue
            if sp.get('fmt') in ('casefold', 'format', '__str__'):
                continue
            res.corr_checked += 1
            if d:
                res.corr_mismatch.append({'case': {'spec': sp, 'value': v, 'syntax': syn, 'src': src},
                                          'impl': impl, 'model': rp['ok'], 'diff': d})
        res.dist['outside_model'] = oom
    res.partial.append('tainted_never_raw_partial excludes quote-then-unquote combinations (known finding '
                       'C04-requote) and newline_to_br (tag-made <br />: checked by the oracle, not proved)')
    res.assumptions += ['AccessControl TaintedString semantics (mark kept by lower/upper/capitalize/+, re-evaluated '
                        'by slicing/replace) are modelled as a Bool and validated by correspondence',
                        'case mapping and URL codec are parameters of the model (law: they do not create "<" '
                        'from text without "<" ... for unquote this is exactly what fails: C04-requote)']


def search_more(res, tier):
    r = common.rng('C04-more')
    found = []
    for sp in gen_specs('quick', r):
        for v in tainted_values(r, 2):
            impl, src = varpipe.run_impl(sp, v, 'dtml', False)
            bad, known = oracle(sp, v, impl)
            for f in bad:
                found.append({'case': {'spec': sp, 'value': v, 'src': src}, 'what': f})
        if len(found) > 5:
            break
    return found


def replay(path):
    with open(path) as f:
        d = json.load(f)
    c = d['first']['case']
    if c.get('input_class') == 'expr':
        impl = run_expr_case(c)
        bad, known, _ = expr_oracle(c, impl)
        print(c['src'], c['vals'], 'reference text %r' % (expr_ref(c),), impl, bad, known)
    elif c.get('input_class') == 'context':
        impl, src = run_ctx_case(c)
        bad, known = ctx_oracle(c, impl)
        print(src, c['ctx'], c['value'], impl, bad, known)
    elif c.get('input_class') == 'format-table':
        impl, src = run_table_case(c)
        bad, known, cls = table_oracle(c, impl)
        print(src, 'carrier=%s mark=%s ctx=%s' % (c['carrier'], c['mark'], c['ctx']), repr(c['s']), impl, cls, bad, known)
    elif c.get('input_class') == 'bytes':
        from AccessControl.tainted import TaintedBytes
        kind = 'epfs' if c['syntax'] == 'epfs' else 'html'
        out = varpipe.template(kind, c['src'])(x=TaintedBytes(c['bytes'].encode('latin-1')))
        text = out.decode('latin-1') if isinstance(out, bytes) else str(out)
        bad = ['tainted bytes came out with a raw "<": %r' % (out,)] if raw_lt(c['spec'], None, text) else []
        print(c['src'], c['value'], repr(out), bad)
    elif 'spec' not in c:
        from AccessControl.tainted import TaintedString
        from DocumentTemplate import String
        txt = eval(c['value'][len('TaintedString('):-1])
        out = String(c['src'])(x=TaintedString(txt))
        bad = ['a tainted value came out with a raw "<": %r' % (out,)] if '<' in out else []
        print(c['src'], c['value'], repr(out), bad)
    else:
        impl, src = varpipe.run_impl(c['spec'], c['value'], c.get('syntax', 'dtml'), c.get('by_expr', False))
        bad, known = oracle(c['spec'], c['value'], impl)
        print(src, impl, bad, known)
    return 1 if bad else 0
