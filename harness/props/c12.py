"""C12 — batching a lazy sequence pulls only the window plus one look-ahead batch.

Correspondence: Lean `renderwbT`/`renderwobT` run on `LazySt` vs the real tag fed with a
counting iterator.  Oracle: pulled <= displayed end + step size + orphan, unbounded
iterators return, unbatched pulls everything exactly once, displayed items are the
window's items in order.
"""
import json

import common
from props.c11 import ABSENT, eff, param_space

RUNAWAY = 5000


class Runaway(Exception):
    pass


class Counter:
    """iterator 1, 2, 3, ... (n = None: unbounded) that logs its pulls"""

    def __init__(self, n):
        self.n = n
        self.log = []
        self.i = 0
        self.stops = 0

    def __iter__(self):
        return self

    def __next__(self):
        if self.n is not None and self.i >= self.n:
            self.stops += 1
            raise StopIteration
        if self.i >= RUNAWAY:
            raise Runaway('pulled %d elements' % self.i)
        self.i += 1
        self.log.append(self.i)
        return self.i


def observe(n, params, kind='iter'):
    from DocumentTemplate import HTML
    attrs = []
    for k in ('start', 'end', 'size', 'orphan', 'overlap'):
        v = params.get(k)
        if v is ABSENT:
            continue
        attrs.append(k if v == 'flag' else '%s=%d' % (k, v))
    c = Counter(n)
    if kind == 'iter':
        seq = c
    elif kind == 'gen':
        def g():
            while True:
                try:
                    yield next(c)
                except StopIteration:
                    return
        seq = g()
    elif kind == 'iterable':
        # a lazily produced sequence that is iterable but not itself an iterator
        class ResultSet:
            def __iter__(self):
                while True:
                    try:
                        yield next(c)
                    except StopIteration:
                        return
        seq = ResultSet()
    else:
        from DocumentTemplate.DT_Util import SequenceFromIter
        seq = SequenceFromIter(c)
    rows = []

    def rec(md):
        rows.append((md.getitem('sequence-item', 0), md.getitem('sequence-step-size', 0)
                     if attrs else None, len(c.log)))
        return ''
    src = '<dtml-in seq %s><dtml-call "rec(_)"><dtml-else>EMPTY</dtml-in>' % ' '.join(attrs)
    try:
        out = HTML(src)(seq=seq, rec=rec)
    except Runaway as e:
        return {'src': src, 'runaway': str(e), 'pulled': len(c.log)}
    except Exception as e:  # noqa
        return {'src': src, 'exc': type(e).__name__ + ': ' + str(e)[:80], 'pulled': len(c.log)}
    return {'src': src, 'empty': out == 'EMPTY', 'items': [r[0] for r in rows],
            'sz': rows[0][1] if rows else None, 'pulled': len(c.log),
            'log_ok': c.log == list(range(1, len(c.log) + 1)),
            'pulled_during': [r[2] for r in rows]}


def oracle(n, params, obs, batched):
    """returns (failures, known_finding_hit)"""
    bad = []
    known = False
    if 'runaway' in obs:
        return ['render of %s iterator did not stop pulling: %s' % (
            'an unbounded' if n is None else 'a bounded', obs['runaway'])], False
    if 'exc' in obs:
        return ['render raised %s' % obs['exc']], False
    if not obs['log_ok']:
        bad.append('pull order not sequential')
    if n == 0:
        if not obs['empty']:
            bad.append('empty iterator did not render else')
        return bad, False
    items = obs['items']
    if not items or items != list(range(items[0], items[-1] + 1)):
        bad.append('displayed items are not a contiguous run: %s' % items[:10])
        return bad, False
    if not batched:
        if n is not None and (obs['pulled'] != n or items != list(range(1, n + 1))):
            bad.append('unbatched render pulled %d of %d, showed %s' % (obs['pulled'], n, items[:10]))
        return bad, False
    s, e = items[0], items[-1]
    orphan, overlap = eff(params, 'orphan'), eff(params, 'overlap')
    bound = e + obs['sz'] + orphan
    if obs['pulled'] > bound:
        if s - 1 + overlap > bound:
            known = True   # C12-overlap: previous-batch probe looks `overlap` past the start
        else:
            bad.append('pulled %d elements > end(%d)+size(%d)+orphan(%d)' % (obs['pulled'], e, obs['sz'], orphan))
    # laziness while rendering: when element k is rendered no more than the bound was pulled
    return bad, known


def run(res, tier, have_driver):
    r = common.rng('C12')
    res.rule = ('C11 parameter grid (quick: seeded slice) applied to counting iterators / generators / '
                'SequenceFromIter, bounded (n in 0..14, 40) and unbounded; non-trivial = batched case on an '
                'iterator longer than the displayed window (something is left unpulled or looked ahead)')
    cases = []
    for L, p in param_space('quick' if tier == 'quick' else 'thorough', r):
        if tier == 'thorough' and r.random() > 0.25:
            continue
        n = L
        if r.random() < 0.3:
            n = None
        elif r.random() < 0.1:
            n = 40
        cases.append((n, p, r.choice(['iter', 'gen', 'sfi', 'iterable']), True))
    for n in list(range(0, 15)) + [40, 333]:
        for kind in ('iter', 'gen', 'sfi', 'iterable'):
            cases.append((n, {}, kind, False))
    reqs, obss = [], []
    for (n, p, kind, batched) in cases:
        obs = observe(n, p, kind)
        obss.append(obs)
        res.evaluations += 1
        res.count('unbounded' if n is None else 'bounded')
        res.count(kind)
        res.count('batched' if batched else 'unbatched')
        bad, known = oracle(n, p, obs, batched)
        if known:
            res.known_hits.setdefault('C12-overlap', {'n': n, 'params': p, 'src': obs['src'],
                                                      'pulled': obs['pulled']})
            res.count('known_finding_region')
        for f in bad:
            res.oracle_fail.append({'case': {'n': n, 'params': p, 'kind': kind, 'batched': batched,
                                             'src': obs.get('src')}, 'what': f})
        if batched and 'items' in obs and obs['items'] and (n is None or obs['items'][-1] < n):
            res.nt((n, tuple(sorted((k, str(v)) for k, v in p.items()))))
        reqs.append({'op': 'lazy', 'start': eff(p, 'start'), 'end': eff(p, 'end'), 'size': eff(p, 'size'),
                     'orphan': eff(p, 'orphan'), 'overlap': eff(p, 'overlap'),
                     'n': -1 if n is None else n, 'batched': batched})
    for i in (0, len(cases) // 3, len(cases) // 2, len(cases) - 1):
        res.sample({'n': cases[i][0], 'params': cases[i][1], 'kind': cases[i][2], 'observation': obss[i]})
    if have_driver:
        resp = common.run_driver(reqs)
        for (n, p, kind, batched), obs, rp in zip(cases, obss, resp):
            if 'ok' not in rp:
                res.harness_errors.append('driver: %r' % (rp,))
                break
            m = rp['ok']
            res.corr_checked += 1
            d = None
            if 'runaway' in obs:
                d = 'impl runaway; model hasLen=%s' % m['hasLen']
            elif 'exc' in obs:
                d = 'impl raised ' + obs['exc']
            elif obs['pulled'] != m['pulled']:
                d = 'pulled: impl %d model %d' % (obs['pulled'], m['pulled'])
            elif n is None and m['hasLen']:
                d = 'model calls len on unbounded but impl returned'
            elif batched and obs['items'] and (obs['items'][0], obs['items'][-1]) != (m['start'], m['end']):
                d = 'window: impl %d..%d model %d..%d' % (obs['items'][0], obs['items'][-1], m['start'], m['end'])
            if d:
                res.corr_mismatch.append({'case': {'n': n, 'params': p, 'kind': kind, 'batched': batched},
                                          'impl': obs, 'model': m, 'diff': d})
    res.partial.append('batch_pull_bound_partial: proved under start-1+overlap <= end+size+orphan; the '
                       'excluded region is known finding C12-overlap (witness theorem finding_C12_overlap)')
    res.assumptions += ['iterator protocol / SequenceFromIter modelled by LazySt; sort/reverse/length/'
                        'next-batches/statistics are excepted by the property and not generated']


def search_more(res, tier):
    r = common.rng('C12-more')
    found = []
    for L, p in param_space('thorough', r):
        if r.random() > 0.1:
            continue
        n = None if r.random() < 0.4 else L
        obs = observe(n, p, 'iter')
        bad, known = oracle(n, p, obs, True)
        for f in bad:
            found.append({'case': {'n': n, 'params': p, 'src': obs.get('src')}, 'what': f})
        if len(found) > 5:
            break
    return found


def replay(path):
    with open(path) as f:
        d = json.load(f)
    c = d['first']['case']
    obs = observe(c['n'], c['params'], c.get('kind', 'iter'))
    bad, known = oracle(c['n'], c['params'], obs, c.get('batched', True))
    print(obs)
    print(bad, 'known' if known else '')
    return 1 if bad else 0
