"""C12 — batching a lazy sequence pulls only the window plus one look-ahead batch.

Correspondence: Lean `renderwbT`/`renderwobT` run on `LazySt` vs the real tag fed with a
counting iterator.  Oracle: pulled <= displayed end + step size + orphan, unbounded
iterators return, unbatched pulls everything exactly once, displayed items are the
window's items in order.

Two families of cases:

* the bare tag (`<dtml-in seq start= end= size= orphan= overlap=>`, sequence by name, integer
  items) over the C11 parameter grid: `deco` is None;
* "decorated" cases: the same tag written the other ways the documentation allows, none of
  which asks for more of the sequence than the bare tag does, so the same pull bound (and the
  same model pull count) must hold:
    - the sequence given by expression (`expr="seq"`, `"seq"`, `expr="mk()"`) or by the name of
      a callable that produces it;
    - batch parameters taken from the namespace (int or str values, including 0);
    - options that are present but switched off at render time (`reverse_expr` evaluating to a
      false value: 0, False, '', None, [], 0.0, `not 1`, `1==0` ...);
    - the neutral options `prefix=`, `no_push_item`, `skip_unauthorized`, `mapping`, an item guard
      (the template class Zope uses), items that are ints / (key, value) pairs / mappings /
      instances;
    - the `previous` and `next` forms of the tag;
    - bodies that evaluate sequence variables which look at the neighbours or at the batch
      links only (`previous-batches`, `first-x`, `last-x`, `sequence-var-x`, `next-sequence-*`,
      `sequence-query`, roman numerals ...);
    - further lazily produced sequences: an object with `__getitem__` + a forcing `__len__`
      (ZTUtils.Lazy / result-set style), an object with `__getitem__` only, `map` objects;
    - compiled templates shared between cases (same source rendered again with other data);
    - element VALUES: the property counts pulls, it says nothing about what the elements are, so a
      lazily produced sequence may yield any Python value at any position.  "Holes": at a set of
      positions (every position / single positions / every m-th / a prefix / a tail) the producer
      yields a value that is falsy, looks like an end marker or is otherwise easy to mistake for "no
      element": None, 0, False, '', 0.0, (), [], {}, b'', -1, nan, the StopIteration class, StopIteration
      / IndexError / KeyError instances, NotImplemented, Ellipsis, an object equal to everything, an
      object without truth value (numpy style), a false object, an object of length 0 -- bare or as
      the value of a (key, value) pair; plus str elements; bounded producers that end with
      StopIteration(value) or a subclass of StopIteration.  Pull bound, pull count of the model,
      window and displayed elements are those of the same case with ordinary elements; the element
      shown at index k must be the very object produced k-th.
  Three more families (oracle: plain Python reference; the per-loop pull counts are also compared
  with the model):
    - access histories on the lazy subscription wrapper itself (`sequence_ensure_subscription` of
      every lazily produced kind, `SequenceFromIter`): random `seq[i]` / `len(seq)` sequences over
      producers with holes and every way of ending (StopIteration, StopIteration(value), a subclass,
      generator return): `seq[i]` is the i-th produced object or IndexError, and afterwards exactly
      max(already pulled, min(i + 1, n)) elements are pulled; len pulls the rest;
    - several loops in one rendering: two batched loops one after the other over two lazy
      sequences, a batched loop nested in a batched loop over a fresh lazy sequence per outer
      element, and a batched loop nested in a batched loop over the SAME lazy sequence (pulled <=
      the larger of the two bounds): every sequence obeys its own window's bound;
    - as it is or wrapped (`run_ensure`, deterministic, both tiers): the real `sequence_ensure_subscription` on
      an object of every kind of the model's `Batch.SeqKind` and of further kinds of the same classes
      (`ENSURE_TABLE`, written from the documentation and the model's table, not from the library): a list-like
      object comes back as the SAME object, every other one as a wrapper that has taken nothing from the
      object before the first access, gives its elements in order under seq[0], seq[1], ... and raises
      IndexError past the end.  The case is the object kind.
  Requests the property excepts (reverse, true reverse_expr, sort, sort_expr, sequence-length,
  next-batches, statistics) are generated too, on bounded iterators only, and held to the part of
  the property that still applies: each element pulled at most once, in order, and displayed as a
  contiguous run.
  Expected values never come from the code under test: the bound is the property's arithmetic;
  for "plain" parameter combinations (start >= 1, either size >= 1 or end >= start, sequence long
  enough) the window start..end and the batch size are computed from the attribute values
  themselves; whether reverse_expr asks for reversing is Python's truth value of the expression.
"""
import json

import common
from props.c11 import ABSENT, eff, param_space

RUNAWAY = 5000


class Runaway(Exception):
    pass


class Exhausted(StopIteration):
    pass


class Counter:
    """iterator 1, 2, 3, ... (n = None: unbounded) that logs its pulls"""

    def __init__(self, n, stop=None):
        self.n = n
        self.log = []
        self.i = 0
        self.stops = 0
        self.ran_away = False
        self.stop = stop       # None | 'value' | 'subclass': how the end is signalled
        self.out = None        # the produced objects, when make_seq decorates the numbers

    def __iter__(self):
        return self

    def __next__(self):
        if self.n is not None and self.i >= self.n:
            self.stops += 1
            if self.stop == 'value':
                raise StopIteration(None)
            if self.stop == 'subclass':
                raise Exhausted('no more rows')
            raise StopIteration
        if self.i >= RUNAWAY:
            self.ran_away = True
            raise Runaway('pulled %d elements' % self.i)
        self.i += 1
        self.log.append(self.i)
        return self.i


# ----------------------------------------------------------------------------
# item types, lazy sequence kinds, decorations

class Obj:
    def __init__(self, v):
        self.v = v

    def __repr__(self):
        return 'Obj(%d)' % self.v


ITEMS = {
    'int': lambda i: i,
    'pair': lambda i: (i * 10, i),       # (key, value): sequence-key / sequence-item
    'dict': lambda i: {'v': i},          # with the `mapping` option
    'obj': Obj,
    'str': lambda i: 's%d' % i,          # strings are not pushed on the namespace
}
ATTR = {'int': 'real', 'pair': 'real', 'dict': 'v', 'obj': 'v', 'str': 'real'}


def unitem(x):
    if isinstance(x, dict):
        return x['v']
    if isinstance(x, Obj):
        return x.v
    if isinstance(x, tuple):
        return x[1]
    if isinstance(x, str):
        return int(x[1:])
    return x


# ----------------------------------------------------------------------------
# holes: element values that are easy to mistake for "no element" / "end of the sequence"

class AlwaysEq:
    """equal to everything: a careless `== sentinel` takes it for the sentinel"""

    def __eq__(self, other):
        return True

    def __ne__(self, other):
        return False

    __hash__ = object.__hash__


class NoTruth:
    """numpy-array style: asking for the truth value is an error"""

    def __bool__(self):
        raise ValueError('the truth value of this element is ambiguous')


class Falsy:
    def __bool__(self):
        return False


class Empty:
    def __len__(self):
        return 0


SPECIALS = {
    'None': None, '0': 0, 'False': False, "''": '', '0.0': 0.0, '()': (), '[]': [], '{}': {}, "b''": b'',
    '-1': -1, 'nan': float('nan'), 'StopIteration': StopIteration, 'StopIteration()': StopIteration(),
    'IndexError()': IndexError(7), 'KeyError()': KeyError('k'), 'NotImplemented': NotImplemented,
    'Ellipsis': Ellipsis, 'AlwaysEq': AlwaysEq(), 'NoTruth': NoTruth(), 'Falsy': Falsy(), 'Empty': Empty(),
}
SPECIAL_NAMES = sorted(SPECIALS)


def hole_at(holes, i):
    """is position i (1-based) of the produced sequence a hole?  holes = [value name, placement, as
    pair value]; placement = ['all'] | ['at', [i, ...]] | ['mod', m, r] | ['upto', k] | ['from', k]"""
    if not holes:
        return False
    pl = holes[1]
    if pl[0] == 'all':
        return True
    if pl[0] == 'at':
        return i in pl[1]
    if pl[0] == 'mod':
        return i % pl[1] == pl[2]
    if pl[0] == 'upto':
        return i <= pl[1]
    return i >= pl[1]


def producer(item, holes):
    """position -> produced element"""
    base = ITEMS[item]
    if not holes:
        return base
    sp = SPECIALS[holes[0]]
    as_value = bool(holes[2]) and item == 'pair'

    def wrap(i):
        if hole_at(holes, i):
            return (i * 10, sp) if as_value else sp
        return base(i)
    return wrap


def draw_holes(r, item='int', reach=16):
    if item == 'dict':
        name = '{}'            # what is pushed with `mapping` has to be a mapping
    else:
        name = r.choice(SPECIAL_NAMES + ['None', 'None', '0', "''", 'StopIteration()'])
    c = r.random()
    if c < 0.15:
        pl = ['all']
    elif c < 0.55:
        pl = ['at', sorted(set(r.randint(1, max(3, reach)) for _ in range(r.randint(1, 3))))]
    elif c < 0.75:
        m = r.randint(2, 4)
        pl = ['mod', m, r.randrange(m)]
    elif c < 0.88:
        pl = ['upto', r.randint(1, max(2, reach - 1))]
    else:
        pl = ['from', r.randint(1, max(2, reach))]
    return [name, pl, r.random() < 0.5]


KINDS = ('iter', 'gen', 'sfi', 'iterable')
MORE_KINDS = ('lazyseq', 'getitem', 'map')


class LazySeq:
    """ZTUtils.Lazy / result-set style: subscription produces the elements on demand, len() has
    to produce all of them; no __bool__, no __iter__"""

    def __init__(self, it):
        self._it = it
        self._data = []
        self._done = False

    def __getitem__(self, i):
        if i < 0:
            raise IndexError(i)
        while not self._done and i >= len(self._data):
            try:
                self._data.append(next(self._it))
            except StopIteration:
                self._done = True
        return self._data[i]

    def __len__(self):
        while not self._done:
            try:
                self[len(self._data)]
            except IndexError:
                pass
        return len(self._data)


def make_seq(c, kind, item, holes=None):
    wrap = producer(item, holes)
    if item == 'int' and not holes:
        src = c
    else:
        c.out = []

        class Items:
            def __iter__(self):
                return self

            def __next__(self):
                v = wrap(next(c))
                c.out.append(v)
                return v
        src = Items()
    if kind == 'iter':
        return src
    if kind == 'gen':
        def g():
            while True:
                try:
                    yield next(src)
                except StopIteration:
                    return
        return g()
    if kind == 'iterable':
        # a lazily produced sequence that is iterable but not itself an iterator
        class ResultSet:
            def __iter__(self):
                while True:
                    try:
                        yield next(src)
                    except StopIteration:
                        return
        return ResultSet()
    if kind == 'lazyseq':
        return LazySeq(src)
    if kind == 'getitem':
        # the old sequence protocol: __getitem__ only; every call produces an element
        class GetItemOnly:
            def __getitem__(self, i):
                if i != c.i:
                    c.log.append(-(i + 1))     # asked again / out of order
                try:
                    return next(src)
                except StopIteration:
                    raise IndexError(i)
        return GetItemOnly()
    if kind == 'map':
        return map(wrap, c) if src is c else map(lambda x: x, src)
    from DocumentTemplate.DT_Util import SequenceFromIter
    return SequenceFromIter(src)


DECO0 = {
    'form': 'name',      # name | expr | quoted | exprcall | namecall
    'via': None,         # None | 'int' | 'str': batch parameters given as variable names
    'rev': None,         # [expression text, value of `flip`]  -> reverse_expr="text"
    'reverse': False,    # plain reverse attribute
    'sort': None,        # ['sort', key] | ['sort_expr', value of `skey`]
    'flags': [],         # 'prefix=p', 'no_push_item', 'skip_unauthorized', 'mapping'
    'item': 'int',
    'mode': 'loop',      # loop | previous | next
    'vars': [],          # sequence variables evaluated in the body
    'shared': False,     # compiled template taken from / left in the per-run cache
    'guard': False,      # template class with an item/attribute guard (pass-through)
    'holes': None,       # [special value name, placement, as pair value]: see hole_at
    'stop': None,        # how a bounded producer ends: None (StopIteration) | 'value' | 'subclass'
}

REV_FALSE = [['flip', 0], ['flip', False], ['flip', ''], ['flip', None], ['flip', []], ['flip', 0.0],
             ['not flip', 1], ['not flip', 'x'], ['flip and 1', 0], ['flip == 1', 2], ['1==0', None],
             ['0', None], ['flip or 0', ''], ['flip != flip', 3]]
REV_TRUE = [['flip', 1], ['flip', True], ['flip', 'no'], ['flip', [0]], ['not flip', 0], ['1==1', None],
            ['flip or 1', 0], ['flip == 1', 1]]

# evaluating these needs the neighbours of the current element or the batch links only
NEUTRAL_VARS = ['sequence-index', 'sequence-number', 'sequence-key', 'sequence-roman', 'sequence-Roman',
                'sequence-letter', 'sequence-even', 'sequence-odd', 'sequence-start', 'sequence-end',
                'previous-sequence', 'next-sequence', 'previous-sequence-start-index',
                'previous-sequence-end-index', 'previous-sequence-size', 'previous-sequence-start-number',
                'next-sequence-start-index', 'next-sequence-end-number', 'next-sequence-size',
                'sequence-step-size', 'sequence-step-start', 'sequence-step-end', 'sequence-step-orphan',
                'sequence-step-overlap', 'sequence-query', 'previous-batches', 'previous-batches',
                'previous-batches', 'first-@', 'last-@', 'sequence-var-@']
# excepted by the property: these need the whole sequence
WHOLE_VARS = ['sequence-length', 'next-batches', 'total-@', 'count-@', 'min-@', 'max-@', 'mean-@',
              'median-@', 'variance-@', 'standard-deviation-@']
_WHOLE_PREFIXES = ('total-', 'count-', 'min-', 'max-', 'mean-', 'median-', 'variance-',
                   'variance-n-', 'standard-deviation-', 'standard-deviation-n-')


def full(deco):
    d = dict(DECO0)
    d.update(deco or {})
    return d


def rev_truth(rev):
    """does reverse_expr ask for reversing?  Python's own truth value of the expression"""
    return bool(eval(rev[0], {'__builtins__': {}}, {'flip': rev[1]}))


def needs_whole(deco):
    d = full(deco)
    if d['reverse'] or d['sort']:
        return True
    if d['rev'] and rev_truth(d['rev']):
        return True
    for v in d['vars']:
        if v in ('sequence-length', 'next-batches') or v.startswith(_WHOLE_PREFIXES):
            return True
    return False


def descending(deco):
    d = full(deco)
    return bool(d['reverse'] or (d['rev'] and rev_truth(d['rev'])))


def plain_window(n, params):
    """(start, end, size) of the window when it can be read off the attribute values themselves:
    start >= 1 (absent: 1); either size >= 1 without end, or start given and end >= start without a
    (positive) size; the sequence reaches beyond window + look-ahead batch.  None otherwise."""
    for k in ('start', 'end', 'size', 'orphan', 'overlap'):
        v = params.get(k)
        if v == 'flag' or (v is not ABSENT and v < 0):
            return None
    st, en, sz = params.get('start'), params.get('end'), params.get('size')
    if st is ABSENT and en is ABSENT and sz is ABSENT:
        return None
    if st is not ABSENT and st < 1:
        return None
    s = 1 if st is ABSENT else st
    if en is ABSENT and sz is not ABSENT and sz >= 1:
        e = s + sz - 1
    elif st is not ABSENT and en is not ABSENT and en >= s and sz in (ABSENT, 0):
        e, sz = en, en + 1 - s
    else:
        return None
    if n is not None and n <= e + sz + eff(params, 'orphan') + 1:
        return None
    return s, e, sz


_SHARED = {}
_GUARDED = []


def template(src, guard, shared):
    from DocumentTemplate import HTML
    if not _GUARDED:
        marker = object()

        class Guarded(HTML):
            def guarded_getattr(self, inst, name, default=marker):
                if default is marker:
                    return getattr(inst, name)
                return getattr(inst, name, default)

            def guarded_getitem(self, ob, index):
                return ob[index]
        _GUARDED.append(Guarded)
    cls = _GUARDED[0] if guard else HTML
    if not shared:
        return cls(src)
    t = _SHARED.get((src, guard))
    if t is None:
        t = _SHARED[(src, guard)] = cls(src)
    return t


def source(params, deco, kw=None):
    """the template text of a case (and the namespace entries its attributes refer to)"""
    d = full(deco)
    kw = {} if kw is None else kw
    battrs = []
    for k in ('start', 'end', 'size', 'orphan', 'overlap'):
        v = params.get(k)
        if v is ABSENT:
            continue
        if v == 'flag':
            battrs.append(k)
        elif d['via']:
            battrs.append('%s=v_%s' % (k, k))
            kw['v_' + k] = v if d['via'] == 'int' else str(v)
        else:
            battrs.append('%s=%d' % (k, v))
    attrs = list(battrs)
    if d['mode'] != 'loop':
        attrs.append(d['mode'])
    if d['rev']:
        attrs.append('reverse_expr="%s"' % d['rev'][0])
        kw['flip'] = d['rev'][1]
    if d['reverse']:
        attrs.append('reverse')
    if d['sort']:
        if d['sort'][0] == 'sort':
            attrs.append('sort=%s' % d['sort'][1])
        else:
            attrs.append('sort_expr="skey"')
            kw['skey'] = d['sort'][1]
    attrs += list(d['flags'])
    ref = {'name': 'seq', 'expr': 'expr="seq"', 'quoted': '"seq"', 'exprcall': 'expr="mk()"',
           'namecall': 'mk'}[d['form']]
    src = '<dtml-in %s %s><dtml-call "rec(_)"><dtml-else>EMPTY</dtml-in>' % (ref, ' '.join(attrs))
    return src, bool(battrs)


def observe(n, params, kind='iter', deco=None):
    d = full(deco)
    kw = {}
    src, batched = source(params, deco, kw)
    c = Counter(n, d['stop'])
    holes = d['holes']
    sp = SPECIALS[holes[0]] if holes else None
    seq = make_seq(c, kind, d['item'], holes)
    if d['form'] in ('exprcall', 'namecall'):
        kw['mk'] = lambda: seq
    else:
        kw['seq'] = seq
    names = [v.replace('@', ATTR[d['item']]) for v in d['vars']]
    rows = []
    item_bad = []

    def rec(md):
        try:
            raw = md.getitem('sequence-item', 0)
        except KeyError:
            it = None          # the previous / next forms have no current element
        else:
            if not holes:
                it = unitem(raw)
            else:
                # a hole says nothing about its position: take the index the tag announces, and require
                # that what is shown there is the very object that was produced at that position
                idx = md.getitem('sequence-index', 0)
                it = idx + 1
                if hole_at(holes, it):
                    same = raw is sp
                else:
                    try:
                        same = unitem(raw) == it
                    except Exception:  # noqa
                        same = False
                if not same:
                    item_bad.append((idx, repr(raw)[:40]))
        sz = md.getitem('sequence-step-size', 0) if batched else None
        for v in names:
            try:
                x = md.getitem(v, 0)
                if v in ('previous-batches', 'next-batches'):
                    for b in x:
                        b['batch-start-index'], b['batch-end-index'], b['batch-size']
            except Runaway:
                raise
            except Exception:  # noqa  (a variable that is not defined for this kind of item)
                pass
        rows.append((it, sz, len(c.log)))
        return ''
    try:
        out = template(src, d['guard'], d['shared'])(rec=rec, **kw)
    except Runaway as e:
        return {'src': src, 'runaway': str(e), 'pulled': len(c.log)}
    except Exception as e:  # noqa
        if c.ran_away:
            return {'src': src, 'runaway': 'pulled %d elements, then %s' % (c.i, type(e).__name__),
                    'pulled': len(c.log)}
        return {'src': src, 'exc': type(e).__name__ + ': ' + str(e)[:80], 'pulled': len(c.log)}
    if c.ran_away:
        return {'src': src, 'runaway': 'pulled %d elements' % c.i, 'pulled': len(c.log)}
    return {'src': src, 'empty': out == 'EMPTY', 'items': [r[0] for r in rows],
            'sz': rows[0][1] if rows else None, 'pulled': len(c.log),
            'log_ok': c.log == list(range(1, len(c.log) + 1)),
            'pulled_during': [r[2] for r in rows], 'item_bad': item_bad[:5]}


def oracle(n, params, obs, batched, deco=None):
    """returns (failures, known_finding_hit)"""
    d = full(deco)
    bad = []
    known = False
    whole = needs_whole(d)
    if 'runaway' in obs:
        return ['render of %s iterator did not stop pulling: %s' % (
            'an unbounded' if n is None else 'a bounded', obs['runaway'])], False
    if 'exc' in obs:
        return ['render raised %s' % obs['exc']], False
    if not obs['log_ok']:
        bad.append('pull order not sequential / an element pulled twice')
    if obs.get('item_bad'):
        bad.append('the element shown at an index is not the element produced at that position: %s'
                   % (obs['item_bad'],))
        return bad, False
    if n == 0:
        if not obs['empty']:
            bad.append('empty iterator did not render else')
        return bad, False
    items = obs['items']
    orphan, overlap = eff(params, 'orphan'), eff(params, 'overlap')
    if d['mode'] != 'loop':
        # previous / next form: the body is rendered once (or the else part), nothing is displayed;
        # generated for plain windows only
        s, e, sz = plain_window(n, params)
        want = s > 1 if d['mode'] == 'previous' else True   # the sequence reaches beyond the window
        if len(items) != (1 if want else 0) or obs['empty'] != (not want):
            bad.append('%s form: body rendered %d times, else=%s; window %d..%d' % (
                d['mode'], len(items), obs['empty'], s, e))
        if obs['pulled'] > e + sz + orphan:
            if d['mode'] == 'previous' and e + sz + orphan < s - 1 + overlap >= obs['pulled']:
                known = True   # C12-overlap: the same previous-batch probe, no model run here: reach checked
            else:
                bad.append('%s form pulled %d elements > end(%d)+size(%d)+orphan(%d)' % (
                    d['mode'], obs['pulled'], e, sz, orphan))
        return bad, known
    run = list(range(items[0], items[-1] + 1)) if items and items[0] <= items[-1] else None
    if whole and descending(d):
        run = list(range(items[0], items[-1] - 1, -1)) if items and items[0] >= items[-1] else None
    if not items or items != run:
        bad.append('displayed items are not a contiguous run: %s' % items[:10])
        return bad, False
    if not batched:
        want = list(range(1, n + 1)) if n is not None else None
        if want is not None and whole and descending(d):
            want.reverse()
        if n is not None and (obs['pulled'] != n or items != want):
            bad.append('unbatched render pulled %d of %d, showed %s' % (obs['pulled'], n, items[:10]))
        return bad, False
    if whole:
        # excepted request: every element may be needed; at most once each, in order (log_ok)
        return bad, False
    s, e = items[0], items[-1]
    sz = obs['sz']
    pw = plain_window(n, params)
    if pw is not None:
        if (s, e) != pw[:2]:
            bad.append('displayed %d..%d, the attributes say %d..%d' % (s, e, pw[0], pw[1]))
            return bad, False
        sz = pw[2]
    bound = e + sz + orphan
    if obs['pulled'] > bound:
        if s - 1 + overlap > bound:
            known = True   # C12-overlap: previous-batch probe looks `overlap` past the start
        else:
            bad.append('pulled %d elements > end(%d)+size(%d)+orphan(%d)' % (obs['pulled'], e, sz, orphan))
    return bad, known


# ----------------------------------------------------------------------------
# generation of decorated cases

def draw_deco(r, batched, plain, bounded):
    """a decoration with 1..4 non-default features"""
    avail = ['form', 'form', 'revfalse', 'revfalse', 'flags', 'item', 'vars', 'vars', 'guard']
    if batched:
        avail += ['via', 'via']
    if batched and plain:
        avail += ['mode', 'mode']
    if bounded:
        avail += ['whole']
    feats = set(r.sample(avail, r.choice([1, 1, 2, 2, 3, 4])))
    d = {}
    if 'item' in feats:
        d['item'] = r.choice(['pair', 'dict', 'obj'])
    item = d.get('item', 'int')
    flags = []
    if item == 'dict' and r.random() < 0.8:
        flags.append('mapping')
    if 'flags' in feats:
        flags += r.sample(['prefix=p', 'no_push_item', 'skip_unauthorized'], r.randint(1, 2))
    if flags:
        d['flags'] = flags
    if 'form' in feats:
        d['form'] = r.choice(['expr', 'quoted', 'exprcall', 'namecall'])
    if 'via' in feats:
        d['via'] = r.choice(['int', 'str'])
    if 'guard' in feats:
        d['guard'] = True
    if 'mode' in feats:
        d['mode'] = r.choice(['previous', 'next'])
    vs = []
    if 'vars' in feats and 'mode' not in feats:
        vs = r.sample(NEUTRAL_VARS, r.randint(1, 4))
    if 'whole' in feats and 'mode' not in feats:
        w = r.choice(['rev', 'reverse', 'sort', 'sort_expr', 'var', 'var'])
        if item == 'dict' and 'mapping' not in flags and w in ('sort', 'sort_expr'):
            w = 'reverse'      # without `mapping` a dict has no sort attribute: order among equal keys is C13's
        if w == 'rev':
            d['rev'] = r.choice(REV_TRUE)
        elif w == 'reverse':
            d['reverse'] = True
            if 'revfalse' in feats:
                d['rev'] = r.choice(REV_FALSE)     # reverse_expr false, but a plain reverse as well
        elif w == 'sort':
            d['sort'] = ['sort', 'sequence-item' if item in ('int', 'pair') else 'v']
        elif w == 'sort_expr':
            d['sort'] = ['sort_expr', '' if item in ('int', 'pair') else 'v']
        else:
            vs = vs + [r.choice(WHOLE_VARS)]
    if 'revfalse' in feats and 'rev' not in d:
        d['rev'] = r.choice(REV_FALSE)
    if vs:
        d['vars'] = vs
    if r.random() < 0.5:
        d['shared'] = True
    return d


def tame(d, n, p):
    """`next-batches` (excepted by the property anyway) does not terminate in the library when the
    batches do not advance (overlap >= batch size, or a window the attributes do not pin down):
    ask for the length instead"""
    if 'next-batches' in d.get('vars', ()):
        pw = plain_window(n, p)
        if pw is None or eff(p, 'overlap') >= pw[2]:
            d['vars'] = ['sequence-length' if v == 'next-batches' else v for v in d['vars']]
    return d


def draw_plain(r):
    """batch parameters of a plain window (see plain_window)"""
    p = {k: ABSENT for k in ('start', 'end', 'size', 'orphan', 'overlap')}
    if r.random() < 0.75:
        p['start'] = r.randint(1, 12)
    if p['start'] is not ABSENT and r.random() < 0.3:
        p['end'] = p['start'] + r.randint(0, 5)
        if r.random() < 0.3:
            p['size'] = 0
    else:
        p['size'] = r.randint(1, 6)
    if r.random() < 0.6:
        p['orphan'] = r.randint(0, 3)
    if r.random() < 0.6:
        p['overlap'] = r.randint(0, 2)
    return p


def with_holes(r, d, n, p):
    """element values on top of a decoration: holes (see hole_at) and / or str elements.  Requests that
    reorder the sequence are dropped: the position of a hole is read from the index the tag announces."""
    d = dict(d)
    d.pop('sort', None)
    d.pop('reverse', None)
    if d.get('rev') and rev_truth(d['rev']):
        d['rev'] = r.choice(REV_FALSE)
    pw = plain_window(n, p) if p else None
    reach = pw[1] + pw[2] + eff(p, 'orphan') + 2 if pw else 16
    if n is not None and r.random() < 0.4:
        d['stop'] = r.choice(['value', 'subclass'])
    if 'item' not in d and r.random() < 0.2:
        d['item'] = 'str'
        if r.random() < 0.4:
            return d
    d['holes'] = draw_holes(r, d.get('item', 'int'), reach)
    return d


HOLE_KINDS = KINDS + MORE_KINDS + ('sfi', 'iter', 'gen')


def hole_cases(r, tier):
    """the three case families of deco_cases once more, with element values of every kind"""
    quick = tier == 'quick'
    out = []

    def deco(batched, n, p):
        if r.random() < 0.4:
            d = {}
        else:
            d = draw_deco(r, batched, batched and plain_window(n, p) is not None, n is not None)
            if batched:
                d = tame(d, n, p)
        return with_holes(r, d, n, p)
    keep = 0.06 if quick else 0.02
    for L, p in param_space('quick' if quick else 'thorough', r):
        if r.random() > keep:
            continue
        n = L
        c = r.random()
        if c < 0.3:
            n = None
        elif c < 0.4:
            n = 40
        d = deco(True, n, p)
        if needs_whole(d) and n is None:
            continue
        out.append((n, p, r.choice(HOLE_KINDS), True, d))
    for _ in range(3000 if quick else 30000):
        p = draw_plain(r)
        n = r.choice([None, None, 40, 333])
        d = deco(True, n, p)
        if needs_whole(d) and n is None:
            continue
        out.append((n, p, r.choice(HOLE_KINDS), True, d))
    for _ in range(400 if quick else 4000):
        n = r.choice([0, 1, 2, 3, 5, 8, 14, 40])
        out.append((n, {}, r.choice(HOLE_KINDS), False, deco(False, n, {})))
    return out


def deco_cases(r, tier):
    quick = tier == 'quick'
    out = []
    # (a) a slice of the C11 grid
    keep = 0.12 if quick else 0.03
    for L, p in param_space('quick' if quick else 'thorough', r):
        if r.random() > keep:
            continue
        n = L
        c = r.random()
        if c < 0.3:
            n = None
        elif c < 0.4:
            n = 40
        d = tame(draw_deco(r, True, plain_window(n, p) is not None, n is not None), n, p)
        if needs_whole(d) and n is None:
            continue
        out.append((n, p, r.choice(KINDS + MORE_KINDS), True, d))
    # (b) plain windows (what a batched listing page uses): window and size known from the attributes
    for _ in range(5000 if quick else 40000):
        p = draw_plain(r)
        n = r.choice([None, None, 40, 333])
        d = tame(draw_deco(r, True, True, n is not None), n, p)
        if needs_whole(d) and n is None:
            continue
        out.append((n, p, r.choice(KINDS + MORE_KINDS), True, d))
    # (c) unbatched
    for _ in range(600 if quick else 5000):
        n = r.choice([0, 1, 2, 3, 5, 8, 14, 40])
        d = draw_deco(r, False, False, True)
        out.append((n, {}, r.choice(KINDS + MORE_KINDS), False, d))
    return out


def deco_key(d):
    d = full(d)
    ks = []
    if d['form'] != 'name':
        ks.append('form=' + d['form'])
    if d['via']:
        ks.append('params_via_' + d['via'])
    if d['rev']:
        ks.append('reverse_expr_true' if rev_truth(d['rev']) else 'reverse_expr_false')
    if d['reverse']:
        ks.append('reverse')
    if d['sort']:
        ks.append(d['sort'][0])
    for f in d['flags']:
        ks.append(f)
    if d['item'] != 'int':
        ks.append('item=' + d['item'])
    if d['mode'] != 'loop':
        ks.append('form_' + d['mode'])
    if d['vars']:
        ks.append('body_vars')
    if 'previous-batches' in d['vars']:
        ks.append('previous-batches')
    if d['guard']:
        ks.append('guarded')
    if d['shared']:
        ks.append('shared_template')
    if d['stop']:
        ks.append('stop=' + d['stop'])
    if d['holes']:
        ks += ['holes', 'holes=' + d['holes'][0], 'holes@' + d['holes'][1][0]]
        if d['holes'][2] and d['item'] == 'pair':
            ks.append('holes_as_pair_value')
    return ks

# ----------------------------------------------------------------------------
# the lazy subscription wrapper itself: access histories against a plain reference

STOPS = (None, 'value', 'subclass')
WRAP_KINDS = ('iter', 'gen', 'iterable', 'map', 'sfi')


def wrapper_case(r):
    n = r.choice([None, None, 0, 1, 2, 3, 5, 8, 13])
    item = r.choice(['int', 'int', 'pair', 'obj', 'str'])
    top = (12 if n is None else n) + 2
    holes = draw_holes(r, item, top) if r.random() < 0.8 else None
    ops = []
    for _ in range(r.randint(1, 10)):
        if n is not None and r.random() < 0.12:
            ops.append(['len'])
        else:
            ops.append(['get', r.randint(0, top)])
    return {'family': 'wrapper', 'n': n, 'kind': r.choice(WRAP_KINDS), 'item': item, 'holes': holes,
            'stop': r.choice(STOPS), 'ops': ops}


def wrapper_cases_exhaustive():
    """every special value at every single position (and everywhere) x every index asked first"""
    for name in SPECIAL_NAMES:
        for n in (None, 4):
            for pl in [['all']] + [['at', [k]] for k in range(1, 6)]:
                for i in range(0, 6):
                    for kind in ('iter', 'sfi'):
                        yield {'family': 'wrapper', 'n': n, 'kind': kind, 'item': 'int', 'holes': [name, pl, False],
                               'stop': None, 'ops': [['get', i], ['get', 0], ['get', i + 1]] +
                               ([['len']] if n is not None else [])}


def run_wrapper(case):
    """failures of one access history.  Reference: a lazily subscripted sequence over a producer of n
    elements: seq[i] is the (i+1)-th produced object when there is one, IndexError otherwise; after it
    exactly max(already pulled, min(i + 1, n)) elements are pulled; len(seq) is n and pulls the rest."""
    from DocumentTemplate.DT_Util import sequence_ensure_subscription
    n, item, holes = case['n'], case['item'], case['holes']
    c = Counter(n, case['stop'])
    raw = make_seq(c, case['kind'], item, holes)
    seq = raw if case['kind'] == 'sfi' else sequence_ensure_subscription(raw)
    want = producer(item, holes)
    pulled = 0
    bad = []
    for k, op in enumerate(case['ops']):
        try:
            got = ('len', len(seq)) if op[0] == 'len' else ('item', seq[op[1]])
        except IndexError:
            got = ('IndexError',)
        except Exception as e:  # noqa
            got = ('raised', type(e).__name__ + ': ' + str(e)[:60])
        if op[0] == 'len':
            exp, pulled = ('len', n), n
        elif n is None or op[1] < n:
            exp, pulled = ('item', want(op[1] + 1)), max(pulled, op[1] + 1)
        else:
            exp, pulled = ('IndexError',), n
        if exp[0] == 'item' and got[0] == 'item':
            i = op[1]
            if c.out is not None:
                ok = len(c.out) > i and got[1] is c.out[i]
            else:
                ok = got[1] == exp[1]
        else:
            ok = got == exp
        where = 'step %d %s' % (k, 'len(seq)' if op[0] == 'len' else 'seq[%d]' % op[1])
        if not ok:
            bad.append('lazy wrapper, %s: got %s, the producer (n=%s) says %s' % (
                where, repr(got)[:60], n, repr(exp)[:60]))
            break
        if c.log != list(range(1, len(c.log) + 1)):
            bad.append('lazy wrapper, %s: pull order not sequential' % where)
            break
        if len(c.log) != pulled:
            bad.append('lazy wrapper, %s: %d elements pulled, needed are %d' % (where, len(c.log), pulled))
            break
    return bad


# ----------------------------------------------------------------------------
# which objects are subscripted as they are, which are wrapped (sequence_ensure_subscription)

# The expectation, written down from the documentation and the table of the model (Batch.SeqKind.listLike), not
# taken from the library: True = "supports sequence subscription itself (and then is returned unwrapped)": the
# SAME object comes back; False = it is iterated through a lazy wrapper.  The first ten rows are the kinds of
# `Batch.SeqKind`; the rest are further objects of the same kinds a template is handed in practice.  A mapping
# ("check that obj is unlikely a mapping": it has `get` or `keys`) is never subscripted as a sequence.
ENSURE_TABLE = (
    ('list', True), ('tuple', True), ('str', True), ('dict', False), ('set', False),
    ('iterator', False), ('generator', False), ('getitemLen', True), ('getitemOnly', False), ('iterOnly', False),
    # list / tuple / str
    ('list_subclass', True), ('tuple_subclass', True), ('str_subclass', True), ('namedtuple', True),
    ('range', True), ('deque', True), ('bytes', True), ('bytearray', True),
    # getitemLen: with the other sequence methods as well (`index`, `count`, `__iter__`, `__contains__`)
    ('sequence_abc', True),
    # dict: subclasses, mappings that are not dicts, an object with `keys` only / `get` only
    ('dict_subclass', False), ('ordereddict', False), ('mapping_abc', False), ('mapping_keys_only', False),
    ('mapping_get_only', False),
    # set / iterOnly: no subscription at all
    ('frozenset', False), ('dict_keys', False), ('dict_values', False), ('dict_items', False),
    # iterator
    ('map', False), ('list_iterator', False), ('reversed', False),
)
ENSURE_SIZES = (0, 1, 3, 6)


class Tally:
    """how many elements were taken from a producer"""

    def __init__(self):
        self.n = 0


def ensure_object(kind, n):
    """(object of the kind, the n elements it holds in order, tally of the elements produced so far or None,
    elements compared by identity?)"""
    import collections
    import collections.abc
    objs = [Obj(i) for i in range(1, n + 1)]
    t = Tally()

    def counting():
        for x in objs:
            t.n += 1
            yield x

    class CountingIter:
        def __init__(self):
            self.k = 0

        def __iter__(self):
            return self

        def __next__(self):
            if self.k >= len(objs):
                raise StopIteration
            self.k += 1
            t.n += 1
            return objs[self.k - 1]

    if kind == 'list':
        return list(objs), objs, None, True
    if kind == 'tuple':
        return tuple(objs), objs, None, True
    if kind == 'str':
        return 'abcdefgh'[:n], list('abcdefgh'[:n]), None, False
    if kind == 'dict':
        return dict((o, o.v) for o in objs), objs, None, True
    if kind == 'set':
        s = set(range(10, 10 + n))
        return s, list(s), None, False
    if kind == 'iterator':
        return CountingIter(), objs, t, True
    if kind == 'generator':
        return counting(), objs, t, True
    if kind == 'getitemLen':
        class ResultSet:
            def __getitem__(self, i):
                return objs[i]

            def __len__(self):
                return len(objs)
        return ResultSet(), objs, None, True
    if kind == 'getitemOnly':
        class GetItemOnly:
            def __getitem__(self, i):
                x = objs[i]
                t.n += 1
                return x
        return GetItemOnly(), objs, t, True
    if kind == 'iterOnly':
        class IterOnly:
            def __iter__(self):
                return counting()
        return IterOnly(), objs, t, True
    if kind == 'list_subclass':
        class L(list):
            pass
        return L(objs), objs, None, True
    if kind == 'tuple_subclass':
        class T(tuple):
            pass
        return T(objs), objs, None, True
    if kind == 'str_subclass':
        class S(str):
            pass
        return S('abcdefgh'[:n]), list('abcdefgh'[:n]), None, False
    if kind == 'namedtuple':
        return collections.namedtuple('Row', ['f%d' % i for i in range(n)])(*objs), objs, None, True
    if kind == 'range':
        return range(5, 5 + n), list(range(5, 5 + n)), None, False
    if kind == 'deque':
        return collections.deque(objs), objs, None, True
    if kind == 'bytes':
        return b'abcdefgh'[:n], list(b'abcdefgh'[:n]), None, False
    if kind == 'bytearray':
        return bytearray(b'abcdefgh'[:n]), list(b'abcdefgh'[:n]), None, False
    if kind == 'sequence_abc':
        class Seq(collections.abc.Sequence):
            def __getitem__(self, i):
                return objs[i]

            def __len__(self):
                return len(objs)
        return Seq(), objs, None, True
    if kind == 'dict_subclass':
        class D(dict):
            pass
        return D((o, o.v) for o in objs), objs, None, True
    if kind == 'ordereddict':
        return collections.OrderedDict((o, o.v) for o in objs), objs, None, True
    if kind == 'mapping_abc':
        class M(collections.abc.Mapping):
            def __getitem__(self, k):
                if k in objs:
                    return k.v
                raise KeyError(k)

            def __len__(self):
                return len(objs)

            def __iter__(self):
                return counting()
        return M(), objs, t, True
    if kind in ('mapping_keys_only', 'mapping_get_only'):
        class Base:
            def __getitem__(self, k):
                if k in objs:
                    return k.v
                raise KeyError(k)

            def __len__(self):
                return len(objs)

            def __iter__(self):
                return counting()
        if kind == 'mapping_keys_only':
            class K(Base):
                def keys(self):
                    return list(objs)
            return K(), objs, t, True

        class G(Base):
            def get(self, k, default=None):
                return k.v if k in objs else default
        return G(), objs, t, True
    if kind == 'frozenset':
        s = frozenset(range(10, 10 + n))
        return s, list(s), None, False
    if kind == 'dict_keys':
        return dict((o, o.v) for o in objs).keys(), objs, None, True
    if kind == 'dict_values':
        return dict((o.v, o) for o in objs).values(), objs, None, True
    if kind == 'dict_items':
        return dict((o.v, o) for o in objs).items(), [(o.v, o) for o in objs], None, False
    if kind == 'map':
        return map(lambda x: x, counting()), objs, t, True
    if kind == 'list_iterator':
        return iter(list(objs)), objs, None, True
    if kind == 'reversed':
        return reversed(list(reversed(objs))), objs, None, True
    raise ValueError(kind)


def run_ensure(case):
    """failures of one object handed to the real `sequence_ensure_subscription`.  A list-like object comes back as
    the same object; every other one comes back as a wrapper that has taken nothing from the object yet, gives the
    object's elements in order under seq[0], seq[1], ... (taking one more element each time, where that can be
    counted) and raises IndexError past the end."""
    from DocumentTemplate.DT_Util import sequence_ensure_subscription
    kind, n = case['kind'], case['n']
    as_is = dict(ENSURE_TABLE)[kind]
    obj, want, tally, ident = ensure_object(kind, n)
    who = 'sequence_ensure_subscription(%s of %d elements)' % (kind, n)
    try:
        seq = sequence_ensure_subscription(obj)
    except Exception as e:  # noqa
        return ['%s raised %s: %s' % (who, type(e).__name__, str(e)[:60])]
    if as_is:
        if seq is not obj:
            return ['%s: a list-like object is used as it is, but a %s came back instead of the object'
                    % (who, type(seq).__name__)]
        return []
    if seq is obj:
        return ['%s: the object does not support sequence subscription (or is a mapping) and has to be wrapped, '
                'but came back as it is' % who]
    if tally is not None and tally.n:
        return ['%s: %d elements taken from the object before the first access' % (who, tally.n)]
    for i in range(n + 2):
        try:
            got = ('item', seq[i])
        except IndexError:
            got = ('IndexError',)
        except Exception as e:  # noqa
            got = ('raised', type(e).__name__ + ': ' + str(e)[:60])
        if i >= n:
            if got != ('IndexError',):
                return ['%s: seq[%d] past the end: %s instead of IndexError' % (who, i, repr(got)[:60])]
        elif got[0] != 'item' or not (got[1] is want[i] if ident else
                                      type(got[1]) is type(want[i]) and got[1] == want[i]):
            return ['%s: seq[%d] is %s, element %d of the object is %s' % (
                who, i, repr(got)[:60], i, repr(want[i])[:40])]
        if tally is not None and tally.n != min(i + 1, n):
            return ['%s: after seq[%d] %d elements are taken from the object, needed are %d' % (
                who, i, tally.n, min(i + 1, n))]
    return []


# ----------------------------------------------------------------------------
# several loops in one rendering

def battr_text(p):
    return ' '.join('%s=%d' % (k, p[k]) for k in ('start', 'end', 'size', 'orphan', 'overlap')
                    if p.get(k) is not ABSENT)


def multi_case(r):
    form = r.choice(['sequential', 'nested', 'same'])
    loops = []
    for j in range(2):
        n = r.choice([None, None, 60])
        p = draw_plain(r)
        holes = None
        if r.random() < 0.5:
            pw = plain_window(n, p)
            holes = draw_holes(r, 'int', pw[1] + pw[2] + eff(p, 'orphan') + 2)
        loops.append({'n': n, 'params': p, 'kind': r.choice(KINDS), 'holes': holes,
                      'ref': r.choice(['name', 'expr'] if form != 'nested' or j == 0 else ['namecall', 'exprcall'])})
    if form == 'same':
        loops[0]['ref'] = loops[1]['ref'] = 'name'     # the documented way to name one sequence twice
        loops[1]['n'], loops[1]['kind'], loops[1]['holes'] = loops[0]['n'], loops[0]['kind'], loops[0]['holes']
    return {'family': 'multi', 'form': form, 'loops': loops, 'shared': r.random() < 0.5}


def multi_source(case):
    a, b = case['loops']
    names = ('a', 'a') if case['form'] == 'same' else ('a', 'b')
    tags = []
    for j, lp in enumerate((a, b)):
        ref = {'name': names[j], 'expr': 'expr="%s"' % names[j], 'namecall': 'mk', 'exprcall': 'expr="mk()"'}[lp['ref']]
        tags.append('<dtml-in %s %s><dtml-call "rec(_, %d)">' % (ref, battr_text(lp['params']), j))
    if case['form'] == 'sequential':
        return tags[0] + '</dtml-in>|' + tags[1] + '</dtml-in>'
    return tags[0] + tags[1] + '</dtml-in></dtml-in>'


def run_multi(case):
    """(failures, pull counts per loop: [[outer], [inner, ...]], source)"""
    a, b = case['loops']
    form = case['form']
    src = multi_source(case)
    counters = [[], []]
    rows = {}

    def fresh(j):
        lp = case['loops'][j]
        c = Counter(lp['n'])
        counters[j].append(c)
        rows[id(c)] = []
        return make_seq(c, lp['kind'], 'int', lp['holes'])
    kw = {'a': fresh(0)}
    if form == 'sequential':
        kw['b'] = fresh(1)
    elif form == 'nested':
        kw['mk'] = lambda: fresh(1)
    else:
        counters[1].append(counters[0][0])
    item_bad = []
    outer_rows, inner_rows = [], []

    def rec(md, j):
        holes = case['loops'][j]['holes']
        raw = md.getitem('sequence-item', 0)
        if not holes:
            it = raw
        else:
            it = md.getitem('sequence-index', 0) + 1
            if not (raw is SPECIALS[holes[0]] if hole_at(holes, it) else raw == it):
                item_bad.append((j, it - 1, repr(raw)[:40]))
        if form != 'same':
            rows[id(counters[j][-1])].append(it)
        elif j == 0:
            outer_rows.append(it)
            inner_rows.append([])
        else:
            inner_rows[-1].append(it)
        return ''
    bad = []
    try:
        template(src, False, case['shared'])(rec=rec, **kw)
    except Runaway as e:
        bad.append('several loops: rendering did not stop pulling: %s' % e)
    except Exception as e:  # noqa
        bad.append('several loops: render raised %s: %s' % (type(e).__name__, str(e)[:80]))
    pulls = [[len(c.log) for c in cs] for cs in counters]
    if bad:
        return bad, pulls, src
    if item_bad:
        return ['several loops: the element shown at an index is not the element produced at that position: %s'
                % (item_bad[:3],)], pulls, src
    wins = [plain_window(lp['n'], lp['params']) for lp in (a, b)]
    bounds = [w[1] + w[2] + eff(lp['params'], 'orphan') for w, lp in zip(wins, (a, b))]
    shown = [list(range(w[0], w[1] + 1)) for w in wins]
    for j in (0, 1):
        for c in counters[j]:
            if c.log != list(range(1, len(c.log) + 1)):
                bad.append('several loops: loop %d: pull order not sequential / an element pulled twice' % j)
    if form == 'same':
        c = counters[0][0]
        if outer_rows != shown[0]:
            bad.append('several loops: outer loop displayed %s, the attributes say %d..%d' % (
                outer_rows[:10], wins[0][0], wins[0][1]))
        for got in inner_rows:
            if got != shown[1]:
                bad.append('several loops: inner loop over the same sequence displayed %s, the attributes say %d..%d'
                           % (got[:10], wins[1][0], wins[1][1]))
                break
        if len(c.log) > max(bounds):
            bad.append('several loops: two windows over one sequence pulled %d elements > the larger of the two '
                       'bounds end+size+orphan: %d, %d' % (len(c.log), bounds[0], bounds[1]))
        return bad, pulls, src
    want_n = [1, 1 if form == 'sequential' else len(shown[0])]
    for j in (0, 1):
        if len(counters[j]) != want_n[j]:
            bad.append('several loops: loop %d rendered over %d sequences, expected %d' % (
                j, len(counters[j]), want_n[j]))
        for c in counters[j]:
            if rows[id(c)] != shown[j]:
                bad.append('several loops: loop %d displayed %s, the attributes say %d..%d' % (
                    j, rows[id(c)][:10], wins[j][0], wins[j][1]))
                break
        for c in counters[j]:
            if len(c.log) > bounds[j]:
                bad.append('several loops: loop %d pulled %d elements > end(%d)+size(%d)+orphan(%d)' % (
                    j, len(c.log), wins[j][1], wins[j][2], eff(case['loops'][j]['params'], 'orphan')))
                break
    return bad, pulls, src


def lazy_req(n, p, batched=True):
    return {'op': 'lazy', 'start': eff(p, 'start'), 'end': eff(p, 'end'), 'size': eff(p, 'size'),
            'orphan': eff(p, 'orphan'), 'overlap': eff(p, 'overlap'), 'n': -1 if n is None else n,
            'batched': batched}


def run(res, tier, have_driver):
    r = common.rng('C12')
    res.rule = ('C11 parameter grid (quick: seeded slice) applied to counting iterators / generators / '
                'SequenceFromIter / non-iterator iterables, bounded (n in 0..14, 40) and unbounded; plus '
                'decorated cases (grid slice, plain listing-page windows on n in {unbounded, 40, 333}, unbatched): '
                'sequence by expr= / quoted expr / producer call / callable name; batch parameters from the '
                'namespace as int or str (incl. 0); reverse_expr evaluating false (14 expression/value pairs) '
                'where the pull bound still applies, and true / reverse / sort / sort_expr / sequence-length / '
                'next-batches / statistics on bounded iterators (excepted: only order + at-most-once); prefix=, '
                'no_push_item, skip_unauthorized, mapping, item guard; items int / pair / mapping / instance; '
                'previous and next forms; bodies evaluating previous-batches, first-/last-/sequence-var-x, link '
                'and step variables, sequence-query; lazy kinds lazyseq (__getitem__ + forcing __len__), '
                '__getitem__-only, map; compiled templates shared between cases.  Window and size of plain '
                'cases are computed from the attributes.  non-trivial = batched case on an iterator longer '
                'than the displayed window (something is left unpulled or looked ahead).  Element values: the '
                'decorated families once more with holes (None, 0, False, empty str / bytes / tuple / list / dict, '
                '-1, nan, StopIteration class and instance, IndexError / KeyError instances, NotImplemented, '
                'Ellipsis, equal-to-everything, no-truth-value, false and zero-length objects; everywhere / at single '
                'positions / every m-th / prefix / tail; bare or as pair value) and str elements: same bound, same '
                'model pull count, the element shown at index k is the object produced k-th.  Lazy wrapper: random '
                'seq[i] / len histories on sequence_ensure_subscription(iterator / generator / iterable / map) and '
                'SequenceFromIter over producers with holes, ended by StopIteration / StopIteration(value) / a '
                'subclass / generator return, against a plain reference (value identity, IndexError, exact pull '
                'count).  Several loops in one rendering: two batched loops in a row, nested over a fresh lazy '
                'sequence per outer element, nested over the same sequence (bound = the larger one); per-loop '
                'pull counts compared with the model.  As it is or wrapped: the real sequence_ensure_subscription on '
                'one object of every kind of Batch.SeqKind and of 21 further kinds (subclasses of list / tuple / str / '
                'dict, namedtuple, range, deque, bytes, bytearray, Sequence / Mapping classes, objects with keys only / '
                'get only, frozenset, dict views, map, list iterator, reversed) with 0, 1, 3, 6 elements against a '
                'table written in the harness: list-like = the same object back, otherwise a wrapper that has taken '
                'nothing yet, gives the elements in order, one more per seq[i], IndexError past the end')
    cases = []
    for L, p in param_space('quick' if tier == 'quick' else 'thorough', r):
        if tier == 'thorough' and r.random() > 0.25:
            continue
        n = L
        if r.random() < 0.3:
            n = None
        elif r.random() < 0.1:
            n = 40
        cases.append((n, p, r.choice(['iter', 'gen', 'sfi', 'iterable']), True, None))
    for n in list(range(0, 15)) + [40, 333]:
        for kind in ('iter', 'gen', 'sfi', 'iterable'):
            cases.append((n, {}, kind, False, None))
    n_bare = len(cases)
    cases += deco_cases(common.rng('C12-deco'), tier)
    n_deco = len(cases)
    cases += hole_cases(common.rng('C12-holes'), tier)
    reqs, req_of, obss = [], [], []
    for (n, p, kind, batched, deco) in cases:
        obs = observe(n, p, kind, deco)
        obss.append(obs)
        res.evaluations += 1
        res.count('unbounded' if n is None else 'bounded')
        res.count(kind)
        res.count('batched' if batched else 'unbatched')
        whole = False
        if deco is not None:
            res.count('decorated')
            for k in deco_key(deco):
                res.count('deco:' + k)
            whole = needs_whole(deco)
            if whole:
                res.count('deco:excepted_request')
            if batched and plain_window(n, p) is not None:
                res.count('deco:plain_window')
        bad, known = oracle(n, p, obs, batched, deco)
        if known:
            res.known_hits.setdefault('C12-overlap', {'n': n, 'params': p, 'src': obs['src'],
                                                      'pulled': obs['pulled']})
            res.count('known_finding_region')
        for f in bad:
            res.oracle_fail.append({'case': {'n': n, 'params': p, 'kind': kind, 'batched': batched,
                                             'deco': deco, 'src': obs.get('src')}, 'what': f})
        mode = full(deco)['mode']
        if batched and not whole and (mode != 'loop' or (
                'items' in obs and obs['items'] and (n is None or obs['items'][-1] < n))):
            res.nt((n, tuple(sorted((k, str(v)) for k, v in p.items())),
                    json.dumps(deco, sort_keys=True) if deco else ''))
        # the model knows the bare loop; decorations that leave the pulls alone are compared with it too
        if not whole and mode == 'loop':
            req_of.append(len(obss) - 1)
            reqs.append(lazy_req(n, p, batched))
    # the wrapper itself; several loops in one rendering
    rw = common.rng('C12-wrapper')
    wcases = [wrapper_case(rw) for _ in range(2500 if tier == 'quick' else 40000)]
    wcases += [w for w in wrapper_cases_exhaustive() if tier != 'quick' or rw.random() < 0.25]
    for w in wcases:
        res.evaluations += 1
        res.count('wrapper_history')
        res.count('wrapper:' + w['kind'])
        if w['holes']:
            res.count('wrapper:holes=' + w['holes'][0])
        if w['stop']:
            res.count('wrapper:stop=' + w['stop'])
        if any(op[0] == 'get' and (w['n'] is None or op[1] < w['n']) for op in w['ops']):
            res.nt(('wrapper', json.dumps(w, sort_keys=True)))
        for f in run_wrapper(w):
            res.oracle_fail.append({'case': w, 'what': f})
    # as it is or wrapped: one object of every kind and size (deterministic, both tiers)
    for kind, as_is in ENSURE_TABLE:
        for n in ENSURE_SIZES:
            ec = {'family': 'ensure', 'kind': kind, 'n': n}
            res.evaluations += 1
            res.count('ensure_kind')
            res.count('ensure:' + ('as_is' if as_is else 'wrapped'))
            if n:
                res.nt(('ensure', kind, n))
            for f in run_ensure(ec):
                res.oracle_fail.append({'case': ec, 'what': f})
    rm = common.rng('C12-multi')
    multi = []
    for _ in range(900 if tier == 'quick' else 12000):
        mc = multi_case(rm)
        bad, pulls, src = run_multi(mc)
        res.evaluations += 1
        res.count('several_loops')
        res.count('several_loops:' + mc['form'])
        res.nt(('multi', json.dumps(mc, sort_keys=True)))
        for f in bad:
            res.oracle_fail.append({'case': dict(mc, src=src), 'what': f})
        if not bad:
            multi.append((mc, pulls))
            for lp in mc['loops']:
                reqs.append(lazy_req(lp['n'], lp['params']))
    for i in (0, n_bare // 3, n_bare // 2, n_bare - 1, n_bare + 1, n_deco - 700, n_deco + 1, len(cases) - 1):
        res.sample({'n': cases[i][0], 'params': cases[i][1], 'kind': cases[i][2], 'deco': cases[i][4],
                    'observation': obss[i]})
    if have_driver:
        resp = common.run_driver(reqs)
        # several loops: every sequence is pulled as far as the model pulls for its window alone; two windows
        # over one (long enough) sequence: as far as the larger of the two
        for k, (mc, pulls) in enumerate(multi):
            ra, rb = resp[len(req_of) + 2 * k], resp[len(req_of) + 2 * k + 1]
            if 'ok' not in ra or 'ok' not in rb:
                res.harness_errors.append('driver: %r %r' % (ra, rb))
                break
            ma, mb = ra['ok']['pulled'], rb['ok']['pulled']
            res.corr_checked += 1
            if mc['form'] == 'same':
                d = None if pulls[0] == [max(ma, mb)] else 'pulled: impl %s model max(%d, %d)' % (pulls[0], ma, mb)
            elif pulls[0] != [ma] or any(x != mb for x in pulls[1]):
                d = 'pulled: impl %s model %d / %d' % (pulls, ma, mb)
            else:
                d = None
            if d:
                res.corr_mismatch.append({'case': mc, 'impl': {'pulled': pulls}, 'model': [ra['ok'], rb['ok']],
                                          'diff': d})
        for i, rp in zip(req_of, resp):
            (n, p, kind, batched, deco), obs = cases[i], obss[i]
            if 'ok' not in rp:
                res.harness_errors.append('driver: %r' % (rp,))
                break
            m = rp['ok']
            res.corr_checked += 1
            d = None
            if 'runaway' in obs:
                d = 'impl runaway; model hasLen=%s' % m['hasLen']
            elif 'exc' in obs:
                d = 'impl raised ' + obs['exc']
            elif obs['pulled'] != m['pulled']:
                d = 'pulled: impl %d model %d' % (obs['pulled'], m['pulled'])
            elif n is None and m['hasLen']:
                d = 'model calls len on unbounded but impl returned'
            elif batched and obs['items'] and (obs['items'][0], obs['items'][-1]) != (m['start'], m['end']):
                d = 'window: impl %d..%d model %d..%d' % (obs['items'][0], obs['items'][-1], m['start'], m['end'])
            if d:
                res.corr_mismatch.append({'case': {'n': n, 'params': p, 'kind': kind, 'batched': batched,
                                                   'deco': deco},
                                          'impl': obs, 'model': m, 'diff': d})
    res.partial.append('batch_pull_bound_partial: proved under start-1+overlap <= end+size+orphan; the '
                       'excluded region is known finding C12-overlap (witness theorem finding_C12_overlap)')
    res.assumptions += ['iterator protocol / SequenceFromIter modelled by LazySt; the model is the bare loop: '
                        'decorated cases whose options must not change the pulls are compared with the same '
                        'model run; previous / next forms and the excepted requests (sort / reverse / length / '
                        'next-batches / statistics) are oracle-only; the model does not look at element values: '
                        'cases with holes are compared with the run for ordinary elements; access histories on the '
                        'wrapper are oracle-only (reference in plain Python)']


def search_more(res, tier):
    r = common.rng('C12-more')
    found = []
    for L, p in param_space('thorough', r):
        if r.random() > 0.1:
            continue
        n = None if r.random() < 0.4 else L
        deco = None
        if r.random() < 0.5:
            deco = tame(draw_deco(r, True, plain_window(n, p) is not None, False), n, p)
        if r.random() < 0.4:
            deco = with_holes(r, deco or {}, n, p)
        obs = observe(n, p, 'iter', deco)
        bad, known = oracle(n, p, obs, True, deco)
        for f in bad:
            found.append({'case': {'n': n, 'params': p, 'deco': deco, 'src': obs.get('src')}, 'what': f})
        if len(found) > 5:
            break
    for _ in range(20000):
        if len(found) > 5:
            break
        w = wrapper_case(r)
        for f in run_wrapper(w):
            found.append({'case': w, 'what': f})
    return found


def replay(path):
    with open(path) as f:
        d = json.load(f)
    c = d['first']['case']
    if c.get('family') == 'wrapper':
        bad = run_wrapper(c)
        print(bad)
        return 1 if bad else 0
    if c.get('family') == 'ensure':
        bad = run_ensure(c)
        print(bad)
        return 1 if bad else 0
    if c.get('family') == 'multi':
        bad, pulls, src = run_multi(c)
        print(src, pulls)
        print(bad)
        return 1 if bad else 0
    obs = observe(c['n'], c['params'], c.get('kind', 'iter'), c.get('deco'))
    bad, known = oracle(c['n'], c['params'], obs, c.get('batched', True), c.get('deco'))
    print(obs)
    print(bad, 'known' if known else '')
    return 1 if bad else 0
