"""C12 — batching a lazy sequence pulls only the window plus one look-ahead batch.

Correspondence: Lean `renderwbT`/`renderwobT` run on `LazySt` vs the real tag fed with a
counting iterator.  Oracle: pulled <= displayed end + step size + orphan, unbounded
iterators return, unbatched pulls everything exactly once, displayed items are the
window's items in order.

Two families of cases:

* the bare tag (`<dtml-in seq start= end= size= orphan= overlap=>`, sequence by name, integer
  items) over the C11 parameter grid: `deco` is None;
* "decorated" cases: the same tag written the other ways the documentation allows, none of
  which asks for more of the sequence than the bare tag does, so the same pull bound (and the
  same model pull count) must hold:
    - the sequence given by expression (`expr="seq"`, `"seq"`, `expr="mk()"`) or by the name of
      a callable that produces it;
    - batch parameters taken from the namespace (int or str values, including 0);
    - options that are present but switched off at render time (`reverse_expr` evaluating to a
      false value: 0, False, '', None, [], 0.0, `not 1`, `1==0` ...);
    - the neutral options `prefix=`, `no_push_item`, `skip_unauthorized`, `mapping`, an item guard
      (the template class Zope uses), items that are ints / (key, value) pairs / mappings /
      instances;
    - the `previous` and `next` forms of the tag;
    - bodies that evaluate sequence variables which look at the neighbours or at the batch
      links only (`previous-batches`, `first-x`, `last-x`, `sequence-var-x`, `next-sequence-*`,
      `sequence-query`, roman numerals ...);
    - further lazily produced sequences: an object with `__getitem__` + a forcing `__len__`
      (ZTUtils.Lazy / result-set style), an object with `__getitem__` only, `map` objects;
    - compiled templates shared between cases (same source rendered again with other data).
  Requests the property excepts (reverse, true reverse_expr, sort, sort_expr, sequence-length,
  next-batches, statistics) are generated too, on bounded iterators only, and held to the part of
  the property that still applies: each element pulled at most once, in order, and displayed as a
  contiguous run.
  Expected values never come from the code under test: the bound is the property's arithmetic;
  for "plain" parameter combinations (start >= 1, either size >= 1 or end >= start, sequence long
  enough) the window start..end and the batch size are computed from the attribute values
  themselves; whether reverse_expr asks for reversing is Python's truth value of the expression.
"""
import json

import common
from props.c11 import ABSENT, eff, param_space

RUNAWAY = 5000


class Runaway(Exception):
    pass


class Counter:
    """iterator 1, 2, 3, ... (n = None: unbounded) that logs its pulls"""

    def __init__(self, n):
        self.n = n
        self.log = []
        self.i = 0
        self.stops = 0
        self.ran_away = False

    def __iter__(self):
        return self

    def __next__(self):
        if self.n is not None and self.i >= self.n:
            self.stops += 1
            raise StopIteration
        if self.i >= RUNAWAY:
            self.ran_away = True
            raise Runaway('pulled %d elements' % self.i)
        self.i += 1
        self.log.append(self.i)
        return self.i


# ----------------------------------------------------------------------------
# item types, lazy sequence kinds, decorations

class Obj:
    def __init__(self, v):
        self.v = v

    def __repr__(self):
        return 'Obj(%d)' % self.v


ITEMS = {
    'int': lambda i: i,
    'pair': lambda i: (i * 10, i),       # (key, value): sequence-key / sequence-item
    'dict': lambda i: {'v': i},          # with the `mapping` option
    'obj': Obj,
}
ATTR = {'int': 'real', 'pair': 'real', 'dict': 'v', 'obj': 'v'}


def unitem(x):
    if isinstance(x, dict):
        return x['v']
    if isinstance(x, Obj):
        return x.v
    if isinstance(x, tuple):
        return x[1]
    return x


KINDS = ('iter', 'gen', 'sfi', 'iterable')
MORE_KINDS = ('lazyseq', 'getitem', 'map')


class LazySeq:
    """ZTUtils.Lazy / result-set style: subscription produces the elements on demand, len() has
    to produce all of them; no __bool__, no __iter__"""

    def __init__(self, it):
        self._it = it
        self._data = []
        self._done = False

    def __getitem__(self, i):
        if i < 0:
            raise IndexError(i)
        while not self._done and i >= len(self._data):
            try:
                self._data.append(next(self._it))
            except StopIteration:
                self._done = True
        return self._data[i]

    def __len__(self):
        while not self._done:
            try:
                self[len(self._data)]
            except IndexError:
                pass
        return len(self._data)


def make_seq(c, kind, item):
    wrap = ITEMS[item]
    if item == 'int':
        src = c
    else:
        class Items:
            def __iter__(self):
                return self

            def __next__(self):
                return wrap(next(c))
        src = Items()
    if kind == 'iter':
        return src
    if kind == 'gen':
        def g():
            while True:
                try:
                    yield next(src)
                except StopIteration:
                    return
        return g()
    if kind == 'iterable':
        # a lazily produced sequence that is iterable but not itself an iterator
        class ResultSet:
            def __iter__(self):
                while True:
                    try:
                        yield next(src)
                    except StopIteration:
                        return
        return ResultSet()
    if kind == 'lazyseq':
        return LazySeq(src)
    if kind == 'getitem':
        # the old sequence protocol: __getitem__ only; every call produces an element
        class GetItemOnly:
            def __getitem__(self, i):
                if i != c.i:
                    c.log.append(-(i + 1))     # asked again / out of order
                try:
                    return next(src)
                except StopIteration:
                    raise IndexError(i)
        return GetItemOnly()
    if kind == 'map':
        return map(wrap, c)
    from DocumentTemplate.DT_Util import SequenceFromIter
    return SequenceFromIter(src)


DECO0 = {
    'form': 'name',      # name | expr | quoted | exprcall | namecall
    'via': None,         # None | 'int' | 'str': batch parameters given as variable names
    'rev': None,         # [expression text, value of `flip`]  -> reverse_expr="text"
    'reverse': False,    # plain reverse attribute
    'sort': None,        # ['sort', key] | ['sort_expr', value of `skey`]
    'flags': [],         # 'prefix=p', 'no_push_item', 'skip_unauthorized', 'mapping'
    'item': 'int',
    'mode': 'loop',      # loop | previous | next
    'vars': [],          # sequence variables evaluated in the body
    'shared': False,     # compiled template taken from / left in the per-run cache
    'guard': False,      # template class with an item/attribute guard (pass-through)
}

REV_FALSE = [['flip', 0], ['flip', False], ['flip', ''], ['flip', None], ['flip', []], ['flip', 0.0],
             ['not flip', 1], ['not flip', 'x'], ['flip and 1', 0], ['flip == 1', 2], ['1==0', None],
             ['0', None], ['flip or 0', ''], ['flip != flip', 3]]
REV_TRUE = [['flip', 1], ['flip', True], ['flip', 'no'], ['flip', [0]], ['not flip', 0], ['1==1', None],
            ['flip or 1', 0], ['flip == 1', 1]]

# evaluating these needs the neighbours of the current element or the batch links only
NEUTRAL_VARS = ['sequence-index', 'sequence-number', 'sequence-key', 'sequence-roman', 'sequence-Roman',
                'sequence-letter', 'sequence-even', 'sequence-odd', 'sequence-start', 'sequence-end',
                'previous-sequence', 'next-sequence', 'previous-sequence-start-index',
                'previous-sequence-end-index', 'previous-sequence-size', 'previous-sequence-start-number',
                'next-sequence-start-index', 'next-sequence-end-number', 'next-sequence-size',
                'sequence-step-size', 'sequence-step-start', 'sequence-step-end', 'sequence-step-orphan',
                'sequence-step-overlap', 'sequence-query', 'previous-batches', 'previous-batches',
                'previous-batches', 'first-@', 'last-@', 'sequence-var-@']
# excepted by the property: these need the whole sequence
WHOLE_VARS = ['sequence-length', 'next-batches', 'total-@', 'count-@', 'min-@', 'max-@', 'mean-@',
              'median-@', 'variance-@', 'standard-deviation-@']
_WHOLE_PREFIXES = ('total-', 'count-', 'min-', 'max-', 'mean-', 'median-', 'variance-',
                   'variance-n-', 'standard-deviation-', 'standard-deviation-n-')


def full(deco):
    d = dict(DECO0)
    d.update(deco or {})
    return d


def rev_truth(rev):
    """does reverse_expr ask for reversing?  Python's own truth value of the expression"""
    return bool(eval(rev[0], {'__builtins__': {}}, {'flip': rev[1]}))


def needs_whole(deco):
    d = full(deco)
    if d['reverse'] or d['sort']:
        return True
    if d['rev'] and rev_truth(d['rev']):
        return True
    for v in d['vars']:
        if v in ('sequence-length', 'next-batches') or v.startswith(_WHOLE_PREFIXES):
            return True
    return False


def descending(deco):
    d = full(deco)
    return bool(d['reverse'] or (d['rev'] and rev_truth(d['rev'])))


def plain_window(n, params):
    """(start, end, size) of the window when it can be read off the attribute values themselves:
    start >= 1 (absent: 1); either size >= 1 without end, or start given and end >= start without a
    (positive) size; the sequence reaches beyond window + look-ahead batch.  None otherwise."""
    for k in ('start', 'end', 'size', 'orphan', 'overlap'):
        v = params.get(k)
        if v == 'flag' or (v is not ABSENT and v < 0):
            return None
    st, en, sz = params.get('start'), params.get('end'), params.get('size')
    if st is ABSENT and en is ABSENT and sz is ABSENT:
        return None
    if st is not ABSENT and st < 1:
        return None
    s = 1 if st is ABSENT else st
    if en is ABSENT and sz is not ABSENT and sz >= 1:
        e = s + sz - 1
    elif st is not ABSENT and en is not ABSENT and en >= s and sz in (ABSENT, 0):
        e, sz = en, en + 1 - s
    else:
        return None
    if n is not None and n <= e + sz + eff(params, 'orphan') + 1:
        return None
    return s, e, sz


_SHARED = {}
_GUARDED = []


def template(src, guard, shared):
    from DocumentTemplate import HTML
    if not _GUARDED:
        marker = object()

        class Guarded(HTML):
            def guarded_getattr(self, inst, name, default=marker):
                if default is marker:
                    return getattr(inst, name)
                return getattr(inst, name, default)

            def guarded_getitem(self, ob, index):
                return ob[index]
        _GUARDED.append(Guarded)
    cls = _GUARDED[0] if guard else HTML
    if not shared:
        return cls(src)
    t = _SHARED.get((src, guard))
    if t is None:
        t = _SHARED[(src, guard)] = cls(src)
    return t


def source(params, deco, kw=None):
    """the template text of a case (and the namespace entries its attributes refer to)"""
    d = full(deco)
    kw = {} if kw is None else kw
    battrs = []
    for k in ('start', 'end', 'size', 'orphan', 'overlap'):
        v = params.get(k)
        if v is ABSENT:
            continue
        if v == 'flag':
            battrs.append(k)
        elif d['via']:
            battrs.append('%s=v_%s' % (k, k))
            kw['v_' + k] = v if d['via'] == 'int' else str(v)
        else:
            battrs.append('%s=%d' % (k, v))
    attrs = list(battrs)
    if d['mode'] != 'loop':
        attrs.append(d['mode'])
    if d['rev']:
        attrs.append('reverse_expr="%s"' % d['rev'][0])
        kw['flip'] = d['rev'][1]
    if d['reverse']:
        attrs.append('reverse')
    if d['sort']:
        if d['sort'][0] == 'sort':
            attrs.append('sort=%s' % d['sort'][1])
        else:
            attrs.append('sort_expr="skey"')
            kw['skey'] = d['sort'][1]
    attrs += list(d['flags'])
    ref = {'name': 'seq', 'expr': 'expr="seq"', 'quoted': '"seq"', 'exprcall': 'expr="mk()"',
           'namecall': 'mk'}[d['form']]
    src = '<dtml-in %s %s><dtml-call "rec(_)"><dtml-else>EMPTY</dtml-in>' % (ref, ' '.join(attrs))
    return src, bool(battrs)


def observe(n, params, kind='iter', deco=None):
    d = full(deco)
    kw = {}
    src, batched = source(params, deco, kw)
    c = Counter(n)
    seq = make_seq(c, kind, d['item'])
    if d['form'] in ('exprcall', 'namecall'):
        kw['mk'] = lambda: seq
    else:
        kw['seq'] = seq
    names = [v.replace('@', ATTR[d['item']]) for v in d['vars']]
    rows = []

    def rec(md):
        try:
            it = unitem(md.getitem('sequence-item', 0))
        except KeyError:
            it = None          # the previous / next forms have no current element
        sz = md.getitem('sequence-step-size', 0) if batched else None
        for v in names:
            try:
                x = md.getitem(v, 0)
                if v in ('previous-batches', 'next-batches'):
                    for b in x:
                        b['batch-start-index'], b['batch-end-index'], b['batch-size']
            except Runaway:
                raise
            except Exception:  # noqa  (a variable that is not defined for this kind of item)
                pass
        rows.append((it, sz, len(c.log)))
        return ''
    try:
        out = template(src, d['guard'], d['shared'])(rec=rec, **kw)
    except Runaway as e:
        return {'src': src, 'runaway': str(e), 'pulled': len(c.log)}
    except Exception as e:  # noqa
        if c.ran_away:
            return {'src': src, 'runaway': 'pulled %d elements, then %s' % (c.i, type(e).__name__),
                    'pulled': len(c.log)}
        return {'src': src, 'exc': type(e).__name__ + ': ' + str(e)[:80], 'pulled': len(c.log)}
    if c.ran_away:
        return {'src': src, 'runaway': 'pulled %d elements' % c.i, 'pulled': len(c.log)}
    return {'src': src, 'empty': out == 'EMPTY', 'items': [r[0] for r in rows],
            'sz': rows[0][1] if rows else None, 'pulled': len(c.log),
            'log_ok': c.log == list(range(1, len(c.log) + 1)),
            'pulled_during': [r[2] for r in rows]}


def oracle(n, params, obs, batched, deco=None):
    """returns (failures, known_finding_hit)"""
    d = full(deco)
    bad = []
    known = False
    whole = needs_whole(d)
    if 'runaway' in obs:
        return ['render of %s iterator did not stop pulling: %s' % (
            'an unbounded' if n is None else 'a bounded', obs['runaway'])], False
    if 'exc' in obs:
        return ['render raised %s' % obs['exc']], False
    if not obs['log_ok']:
        bad.append('pull order not sequential / an element pulled twice')
    if n == 0:
        if not obs['empty']:
            bad.append('empty iterator did not render else')
        return bad, False
    items = obs['items']
    orphan, overlap = eff(params, 'orphan'), eff(params, 'overlap')
    if d['mode'] != 'loop':
        # previous / next form: the body is rendered once (or the else part), nothing is displayed;
        # generated for plain windows only
        s, e, sz = plain_window(n, params)
        want = s > 1 if d['mode'] == 'previous' else True   # the sequence reaches beyond the window
        if len(items) != (1 if want else 0) or obs['empty'] != (not want):
            bad.append('%s form: body rendered %d times, else=%s; window %d..%d' % (
                d['mode'], len(items), obs['empty'], s, e))
        if obs['pulled'] > e + sz + orphan:
            if d['mode'] == 'previous' and e + sz + orphan < s - 1 + overlap >= obs['pulled']:
                known = True   # C12-overlap: the same previous-batch probe, no model run here: reach checked
            else:
                bad.append('%s form pulled %d elements > end(%d)+size(%d)+orphan(%d)' % (
                    d['mode'], obs['pulled'], e, sz, orphan))
        return bad, known
    run = list(range(items[0], items[-1] + 1)) if items and items[0] <= items[-1] else None
    if whole and descending(d):
        run = list(range(items[0], items[-1] - 1, -1)) if items and items[0] >= items[-1] else None
    if not items or items != run:
        bad.append('displayed items are not a contiguous run: %s' % items[:10])
        return bad, False
    if not batched:
        want = list(range(1, n + 1)) if n is not None else None
        if want is not None and whole and descending(d):
            want.reverse()
        if n is not None and (obs['pulled'] != n or items != want):
            bad.append('unbatched render pulled %d of %d, showed %s' % (obs['pulled'], n, items[:10]))
        return bad, False
    if whole:
        # excepted request: every element may be needed; at most once each, in order (log_ok)
        return bad, False
    s, e = items[0], items[-1]
    sz = obs['sz']
    pw = plain_window(n, params)
    if pw is not None:
        if (s, e) != pw[:2]:
            bad.append('displayed %d..%d, the attributes say %d..%d' % (s, e, pw[0], pw[1]))
            return bad, False
        sz = pw[2]
    bound = e + sz + orphan
    if obs['pulled'] > bound:
        if s - 1 + overlap > bound:
            known = True   # C12-overlap: previous-batch probe looks `overlap` past the start
        else:
            bad.append('pulled %d elements > end(%d)+size(%d)+orphan(%d)' % (obs['pulled'], e, sz, orphan))
    return bad, known


# ----------------------------------------------------------------------------
# generation of decorated cases

def draw_deco(r, batched, plain, bounded):
    """a decoration with 1..4 non-default features"""
    avail = ['form', 'form', 'revfalse', 'revfalse', 'flags', 'item', 'vars', 'vars', 'guard']
    if batched:
        avail += ['via', 'via']
    if batched and plain:
        avail += ['mode', 'mode']
    if bounded:
        avail += ['whole']
    feats = set(r.sample(avail, r.choice([1, 1, 2, 2, 3, 4])))
    d = {}
    if 'item' in feats:
        d['item'] = r.choice(['pair', 'dict', 'obj'])
    item = d.get('item', 'int')
    flags = []
    if item == 'dict' and r.random() < 0.8:
        flags.append('mapping')
    if 'flags' in feats:
        flags += r.sample(['prefix=p', 'no_push_item', 'skip_unauthorized'], r.randint(1, 2))
    if flags:
        d['flags'] = flags
    if 'form' in feats:
        d['form'] = r.choice(['expr', 'quoted', 'exprcall', 'namecall'])
    if 'via' in feats:
        d['via'] = r.choice(['int', 'str'])
    if 'guard' in feats:
        d['guard'] = True
    if 'mode' in feats:
        d['mode'] = r.choice(['previous', 'next'])
    vs = []
    if 'vars' in feats and 'mode' not in feats:
        vs = r.sample(NEUTRAL_VARS, r.randint(1, 4))
    if 'whole' in feats and 'mode' not in feats:
        w = r.choice(['rev', 'reverse', 'sort', 'sort_expr', 'var', 'var'])
        if item == 'dict' and 'mapping' not in flags and w in ('sort', 'sort_expr'):
            w = 'reverse'      # without `mapping` a dict has no sort attribute: order among equal keys is C13's
        if w == 'rev':
            d['rev'] = r.choice(REV_TRUE)
        elif w == 'reverse':
            d['reverse'] = True
            if 'revfalse' in feats:
                d['rev'] = r.choice(REV_FALSE)     # reverse_expr false, but a plain reverse as well
        elif w == 'sort':
            d['sort'] = ['sort', 'sequence-item' if item in ('int', 'pair') else 'v']
        elif w == 'sort_expr':
            d['sort'] = ['sort_expr', '' if item in ('int', 'pair') else 'v']
        else:
            vs = vs + [r.choice(WHOLE_VARS)]
    if 'revfalse' in feats and 'rev' not in d:
        d['rev'] = r.choice(REV_FALSE)
    if vs:
        d['vars'] = vs
    if r.random() < 0.5:
        d['shared'] = True
    return d


def tame(d, n, p):
    """`next-batches` (excepted by the property anyway) does not terminate in the library when the
    batches do not advance (overlap >= batch size, or a window the attributes do not pin down):
    ask for the length instead"""
    if 'next-batches' in d.get('vars', ()):
        pw = plain_window(n, p)
        if pw is None or eff(p, 'overlap') >= pw[2]:
            d['vars'] = ['sequence-length' if v == 'next-batches' else v for v in d['vars']]
    return d


def deco_cases(r, tier):
    quick = tier == 'quick'
    out = []
    # (a) a slice of the C11 grid
    keep = 0.12 if quick else 0.03
    for L, p in param_space('quick' if quick else 'thorough', r):
        if r.random() > keep:
            continue
        n = L
        c = r.random()
        if c < 0.3:
            n = None
        elif c < 0.4:
            n = 40
        d = tame(draw_deco(r, True, plain_window(n, p) is not None, n is not None), n, p)
        if needs_whole(d) and n is None:
            continue
        out.append((n, p, r.choice(KINDS + MORE_KINDS), True, d))
    # (b) plain windows (what a batched listing page uses): window and size known from the attributes
    for _ in range(5000 if quick else 40000):
        p = {k: ABSENT for k in ('start', 'end', 'size', 'orphan', 'overlap')}
        if r.random() < 0.75:
            p['start'] = r.randint(1, 12)
        if p['start'] is not ABSENT and r.random() < 0.3:
            p['end'] = p['start'] + r.randint(0, 5)
            if r.random() < 0.3:
                p['size'] = 0
        else:
            p['size'] = r.randint(1, 6)
        if r.random() < 0.6:
            p['orphan'] = r.randint(0, 3)
        if r.random() < 0.6:
            p['overlap'] = r.randint(0, 2)
        n = r.choice([None, None, 40, 333])
        d = tame(draw_deco(r, True, True, n is not None), n, p)
        if needs_whole(d) and n is None:
            continue
        out.append((n, p, r.choice(KINDS + MORE_KINDS), True, d))
    # (c) unbatched
    for _ in range(600 if quick else 5000):
        n = r.choice([0, 1, 2, 3, 5, 8, 14, 40])
        d = draw_deco(r, False, False, True)
        out.append((n, {}, r.choice(KINDS + MORE_KINDS), False, d))
    return out


def deco_key(d):
    d = full(d)
    ks = []
    if d['form'] != 'name':
        ks.append('form=' + d['form'])
    if d['via']:
        ks.append('params_via_' + d['via'])
    if d['rev']:
        ks.append('reverse_expr_true' if rev_truth(d['rev']) else 'reverse_expr_false')
    if d['reverse']:
        ks.append('reverse')
    if d['sort']:
        ks.append(d['sort'][0])
    for f in d['flags']:
        ks.append(f)
    if d['item'] != 'int':
        ks.append('item=' + d['item'])
    if d['mode'] != 'loop':
        ks.append('form_' + d['mode'])
    if d['vars']:
        ks.append('body_vars')
    if 'previous-batches' in d['vars']:
        ks.append('previous-batches')
    if d['guard']:
        ks.append('guarded')
    if d['shared']:
        ks.append('shared_template')
    return ks


def run(res, tier, have_driver):
    r = common.rng('C12')
    res.rule = ('C11 parameter grid (quick: seeded slice) applied to counting iterators / generators / '
                'SequenceFromIter / non-iterator iterables, bounded (n in 0..14, 40) and unbounded; plus '
                'decorated cases (grid slice, plain listing-page windows on n in {unbounded, 40, 333}, unbatched): '
                'sequence by expr= / quoted expr / producer call / callable name; batch parameters from the '
                'namespace as int or str (incl. 0); reverse_expr evaluating false (14 expression/value pairs) '
                'where the pull bound still applies, and true / reverse / sort / sort_expr / sequence-length / '
                'next-batches / statistics on bounded iterators (excepted: only order + at-most-once); prefix=, '
                'no_push_item, skip_unauthorized, mapping, item guard; items int / pair / mapping / instance; '
                'previous and next forms; bodies evaluating previous-batches, first-/last-/sequence-var-x, link '
                'and step variables, sequence-query; lazy kinds lazyseq (__getitem__ + forcing __len__), '
                '__getitem__-only, map; compiled templates shared between cases.  Window and size of plain '
                'cases are computed from the attributes.  non-trivial = batched case on an iterator longer '
                'than the displayed window (something is left unpulled or looked ahead)')
    cases = []
    for L, p in param_space('quick' if tier == 'quick' else 'thorough', r):
        if tier == 'thorough' and r.random() > 0.25:
            continue
        n = L
        if r.random() < 0.3:
            n = None
        elif r.random() < 0.1:
            n = 40
        cases.append((n, p, r.choice(['iter', 'gen', 'sfi', 'iterable']), True, None))
    for n in list(range(0, 15)) + [40, 333]:
        for kind in ('iter', 'gen', 'sfi', 'iterable'):
            cases.append((n, {}, kind, False, None))
    n_bare = len(cases)
    cases += deco_cases(common.rng('C12-deco'), tier)
    reqs, req_of, obss = [], [], []
    for (n, p, kind, batched, deco) in cases:
        obs = observe(n, p, kind, deco)
        obss.append(obs)
        res.evaluations += 1
        res.count('unbounded' if n is None else 'bounded')
        res.count(kind)
        res.count('batched' if batched else 'unbatched')
        whole = False
        if deco is not None:
            res.count('decorated')
            for k in deco_key(deco):
                res.count('deco:' + k)
            whole = needs_whole(deco)
            if whole:
                res.count('deco:excepted_request')
            if batched and plain_window(n, p) is not None:
                res.count('deco:plain_window')
        bad, known = oracle(n, p, obs, batched, deco)
        if known:
            res.known_hits.setdefault('C12-overlap', {'n': n, 'params': p, 'src': obs['src'],
                                                      'pulled': obs['pulled']})
            res.count('known_finding_region')
        for f in bad:
            res.oracle_fail.append({'case': {'n': n, 'params': p, 'kind': kind, 'batched': batched,
                                             'deco': deco, 'src': obs.get('src')}, 'what': f})
        mode = full(deco)['mode']
        if batched and not whole and (mode != 'loop' or (
                'items' in obs and obs['items'] and (n is None or obs['items'][-1] < n))):
            res.nt((n, tuple(sorted((k, str(v)) for k, v in p.items())),
                    json.dumps(deco, sort_keys=True) if deco else ''))
        # the model knows the bare loop; decorations that leave the pulls alone are compared with it too
        if not whole and mode == 'loop':
            req_of.append(len(obss) - 1)
            reqs.append({'op': 'lazy', 'start': eff(p, 'start'), 'end': eff(p, 'end'), 'size': eff(p, 'size'),
                         'orphan': eff(p, 'orphan'), 'overlap': eff(p, 'overlap'),
                         'n': -1 if n is None else n, 'batched': batched})
    for i in (0, n_bare // 3, n_bare // 2, n_bare - 1, n_bare + 1, len(cases) - 700):
        res.sample({'n': cases[i][0], 'params': cases[i][1], 'kind': cases[i][2], 'deco': cases[i][4],
                    'observation': obss[i]})
    if have_driver:
        resp = common.run_driver(reqs)
        for i, rp in zip(req_of, resp):
            (n, p, kind, batched, deco), obs = cases[i], obss[i]
            if 'ok' not in rp:
                res.harness_errors.append('driver: %r' % (rp,))
                break
            m = rp['ok']
            res.corr_checked += 1
            d = None
            if 'runaway' in obs:
                d = 'impl runaway; model hasLen=%s' % m['hasLen']
            elif 'exc' in obs:
                d = 'impl raised ' + obs['exc']
            elif obs['pulled'] != m['pulled']:
                d = 'pulled: impl %d model %d' % (obs['pulled'], m['pulled'])
            elif n is None and m['hasLen']:
                d = 'model calls len on unbounded but impl returned'
            elif batched and obs['items'] and (obs['items'][0], obs['items'][-1]) != (m['start'], m['end']):
                d = 'window: impl %d..%d model %d..%d' % (obs['items'][0], obs['items'][-1], m['start'], m['end'])
            if d:
                res.corr_mismatch.append({'case': {'n': n, 'params': p, 'kind': kind, 'batched': batched,
                                                   'deco': deco},
                                          'impl': obs, 'model': m, 'diff': d})
    res.partial.append('batch_pull_bound_partial: proved under start-1+overlap <= end+size+orphan; the '
                       'excluded region is known finding C12-overlap (witness theorem finding_C12_overlap)')
    res.assumptions += ['iterator protocol / SequenceFromIter modelled by LazySt; the model is the bare loop: '
                        'decorated cases whose options must not change the pulls are compared with the same '
                        'model run; previous / next forms and the excepted requests (sort / reverse / length / '
                        'next-batches / statistics) are oracle-only']


def search_more(res, tier):
    r = common.rng('C12-more')
    found = []
    for L, p in param_space('thorough', r):
        if r.random() > 0.1:
            continue
        n = None if r.random() < 0.4 else L
        deco = None
        if r.random() < 0.5:
            deco = tame(draw_deco(r, True, plain_window(n, p) is not None, False), n, p)
        obs = observe(n, p, 'iter', deco)
        bad, known = oracle(n, p, obs, True, deco)
        for f in bad:
            found.append({'case': {'n': n, 'params': p, 'deco': deco, 'src': obs.get('src')}, 'what': f})
        if len(found) > 5:
            break
    return found


def replay(path):
    with open(path) as f:
        d = json.load(f)
    c = d['first']['case']
    obs = observe(c['n'], c['params'], c.get('kind', 'iter'), c.get('deco'))
    bad, known = oracle(c['n'], c['params'], obs, c.get('batched', True), c.get('deco'))
    print(obs)
    print(bad, 'known' if known else '')
    return 1 if bad else 0
