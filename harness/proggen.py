"""Abstract DTML programs for the interpreter correspondence (C01 render part, C02, C08, C09, C14, C19 …).

A program is generated together with
  * its DTML source (dtml syntax; the syntaxes are compared with each other by C07),
  * the JSON form the Lean driver (op "render") interprets,
  * the Python namespace objects (Obj, Fn, exception classes, sub-templates).
"""
import json

PROBE_BASE = 1000


class Obj:
    def __init__(self, oid, attrs):
        self.__dict__['_oid'] = oid
        self.__dict__['_attrs'] = dict(attrs)
        for k, v in attrs.items():
            self.__dict__[k] = v

    def __str__(self):
        return 'obj%d' % self._oid


class World:
    """shared bookkeeping of one run: invocation counter, event log, fault plan"""

    def __init__(self, faults=(), fault_cls=ValueError):
        self.calls = 0
        self.events = []
        self.faults = set(faults)
        self.fault_cls = fault_cls
        self.snap_ids = []          # per probe call: (identities of the frames bottom..top, level)
        self.max_level = 0          # deepest template nesting reached


def recording_guard(denied, denied_items):
    """a template class factory: guards that log what they are asked (for Obj instances) and refuse `denied` (object id,
    attribute) pairs / `denied_items` object ids, with the exception the engine expects (zExceptions.Unauthorized)"""
    def make(world):
        from DocumentTemplate import HTML
        from zExceptions import Unauthorized
        marker = object()
        dset = {(o, n) for o, n in denied}
        iset = set(denied_items)

        class Guarded(HTML):
            def guarded_getattr(self, inst, name, default=marker):
                if isinstance(inst, Obj):
                    world.events.append(['guard', inst._oid, name])
                    if (inst._oid, name) in dset:
                        raise Unauthorized(name)
                if default is marker:
                    return getattr(inst, name)
                return getattr(inst, name, default)

            def guarded_getitem(self, ob, index):
                if isinstance(index, int):
                    world.events.append(['gitem', 0, index])
                v = ob[index]
                if isinstance(v, Obj) and v._oid in iset:
                    raise Unauthorized('item')
                return v
        return Guarded
    return make


class Fn:
    def __init__(self, world, fid, result):
        self.world, self.fid, self.result = world, fid, result

    def __call__(self):
        w = self.world
        n = w.calls
        w.calls += 1
        w.events.append(['call', self.fid])
        if n in w.faults:
            raise w.fault_cls('fault')
        return self.result


class Probe:
    """`probe(_)`: snapshot of the namespace (frame kinds, dictionary keys, instance ids, level)"""

    def __init__(self, world, pid):
        self.world, self.pid = world, pid

    def __call__(self, md=None):
        frames = []
        for f in reversed(md._data):
            frames.append(summarize(f))
        self.world.events.append(['snap', frames, md.level])
        self.world.snap_ids.append(([id(f) for f in md._data], md.level))
        return None


def summarize(f):
    from DocumentTemplate._DocumentTemplate import InstanceDict
    from DocumentTemplate.DT_InSV import sequence_variables
    if isinstance(f, InstanceDict):
        inst = f.inst
        return ['inst', [], inst._oid if isinstance(inst, Obj) else 0]
    if isinstance(f, sequence_variables):
        return ['seq', [], 0]
    if isinstance(f, dict):
        return ['dict', list(f.keys()), 0]
    return ['bad', [], 0]


# exception classes: builtins used + a custom hierarchy of depth 3 with multiple inheritance
class E1(Exception):
    pass


class E2(E1):
    pass


class E3(E2):
    pass


class EM(E1, ValueError):
    pass


CLASSES = {
    'E1': (E1, ['Exception']), 'E2': (E2, ['E1']), 'E3': (E3, ['E2']), 'EM': (EM, ['E1', 'ValueError']),
    'Exception': (Exception, ['BaseException']), 'BaseException': (BaseException, ['object']),
    'ValueError': (ValueError, ['Exception']), 'KeyError': (KeyError, ['LookupError']),
    'LookupError': (LookupError, ['Exception']), 'TypeError': (TypeError, ['Exception']),
    'AttributeError': (AttributeError, ['Exception']), 'NameError': (NameError, ['Exception']),
    'IndexError': (IndexError, ['LookupError']), 'RuntimeError': (RuntimeError, ['Exception']),
    'SystemError': (SystemError, ['Exception']), 'ZeroDivisionError': (ZeroDivisionError, ['ArithmeticError']),
    'ArithmeticError': (ArithmeticError, ['Exception']),
    'InvalidErrorTypeExpression': (None, ['Exception']), 'Unauthorized': (None, ['Exception']),
    'UnicodeDecodeError': (UnicodeDecodeError, ['UnicodeError']), 'UnicodeError': (UnicodeError, ['ValueError']),
}


def class_table():
    return [[k, v[1]] for k, v in CLASSES.items()]


# --------------------------------------------------------------------------- values

class Gen:
    """generates one program with its namespace"""

    def __init__(self, r, depth=3, n_templates=2):
        self.r = r
        self.depth = depth
        self.fn_ids = 0
        self.obj_ids = 0
        self.probes = 0
        self.values = {}      # name -> abstract value (JSON form)
        self.subs = []        # sub-template programs (JSON blocks, source)
        self.pool = NAMES
        self.p_def = 0.75

    # abstract values in the driver's JSON form
    def v_int(self):
        return self.r.choice([0, 1, 2, 7, -3])

    def v_str(self):
        return {'s': self.r.choice(['', 'a', 'hello', 'x<y', 'A&B', 'wörld', '0'])}

    def v_obj(self, attrs=None):
        self.obj_ids += 1
        if attrs is None:
            attrs = {}
            for n in self.r.sample(['p', 'q', 'x', 'y', 'k', '_priv'], self.r.randint(1, 3)):
                attrs[n] = self.simple_val()
        return {'o': self.obj_ids, 'a': [[k, v] for k, v in attrs.items()]}

    def v_fn(self, result=None):
        self.fn_ids += 1
        return {'f': self.fn_ids, 'r': self.simple_val() if result is None else result}

    def simple_val(self):
        c = self.r.random()
        if c < 0.3:
            return self.v_int()
        if c < 0.6:
            return self.v_str()
        if c < 0.7:
            return None
        if c < 0.8:
            return self.r.random() < 0.5
        return self.v_str()

    def any_val(self):
        c = self.r.random()
        if c < 0.45:
            return self.simple_val()
        if c < 0.6:
            return self.v_fn()
        if c < 0.75:
            return self.v_obj()
        if c < 0.9:
            return {'l': [self.item_val() for _ in range(self.r.randint(0, 3))]}
        return {'d': [[n, self.simple_val()] for n in self.r.sample(['p', 'q', 'x', 'y'], 2)]}

    def item_val(self):
        c = self.r.random()
        if c < 0.5:
            return self.v_obj()
        if c < 0.65:
            return {'d': [[n, self.simple_val()] for n in self.r.sample(['p', 'q', 'x', 'k'], 2)]}
        if c < 0.8:
            return self.v_str()
        if c < 0.9:
            return self.v_int()
        return {'t': [self.v_str(), self.v_obj()]}


NAMES = ['x', 'y', 'p', 'q', 'k', 'f', 'g', 'o1', 'o2', 'seq', 'seq2', 'm1', 'undefined1', 'undefined2', 'sub0',
         'flag']


def to_py(world, v, templates=None):
    """JSON value -> Python object"""
    if v is None or isinstance(v, (bool, int)):
        return v
    if 's' in v:
        return v['s']
    if 'b' in v:
        return bytes(v['b'])
    if 'l' in v:
        return [to_py(world, x, templates) for x in v['l']]
    if 't' in v:
        return tuple(to_py(world, x, templates) for x in v['t'])
    if 'd' in v:
        return {k: to_py(world, x, templates) for k, x in v['d']}
    if 'o' in v:
        return Obj(v['o'], {k: to_py(world, x, templates) for k, x in v['a']})
    if 'f' in v:
        if v['f'] >= PROBE_BASE:
            return Probe(world, v['f'])
        return Fn(world, v['f'], to_py(world, v['r'], templates))
    if 'T' in v:
        return templates[v['T']]
    if 'x' in v:
        return CLASSES[v['x']][0]
    raise ValueError(v)


# --------------------------------------------------------------------------- expressions / sources

def expr_src(e):
    k = e[0]
    if k == 'name':
        return e[1]
    if k == 'under':
        return "_['%s']" % e[1]
    if k == 'lit':
        v = e[1]
        if isinstance(v, dict):
            return repr(v['s'])
        return repr(v)
    if k == 'attr':
        return '%s.%s' % (expr_src(e[1]), e[2])
    if k == 'item':
        kk = e[2]
        return '%s[%s]' % (expr_src(e[1]), repr(kk['s']) if isinstance(kk, dict) else repr(kk))
    if k == 'call':
        inner = expr_src(e[1])
        if e[1][0] == 'name' and e[1][1].startswith('probe'):
            return '%s(_)' % inner
        return '%s()' % inner
    if k == 'not':
        return 'not %s' % expr_src(e[1])
    if k == 'eq':
        return '%s == %s' % (expr_src(e[1]), expr_src(e[2]))
    raise ValueError(k)


def src_attr(s):
    if s[0] == 'n':
        return s[1]
    return 'expr="%s"' % expr_src(s[1])


def gen_expr(g, name_pool):
    r = g.r
    n = r.choice(name_pool)
    c = r.random()
    if c < 0.3:
        return ['name', n]
    if c < 0.45:
        return ['under', n]
    if c < 0.6:
        return ['not', ['name', n]]
    if c < 0.75:
        return ['eq', ['name', n], ['lit', r.choice([0, 1, {'s': 'a'}, None])]]
    if c < 0.85:
        return ['attr', ['name', n], r.choice(['p', 'q', 'x'])]
    if c < 0.95:
        return ['call', ['name', n if n != 'sub0' else 'f']]
    return ['lit', r.choice([0, 1, {'s': 'lit'}])]


def gen_src(g, pool=None):
    pool = pool or g.pool
    if g.r.random() < 0.3:
        return ['e', gen_expr(g, pool)]
    return ['n', g.r.choice(pool)]


# --------------------------------------------------------------------------- blocks

def gen_blocks(g, depth, width=3, in_try=False):
    r = g.r
    out = []
    for _ in range(r.randint(1, width)):
        if r.random() < 0.5:
            out.append(['lit', r.choice(['a', 'b ', 'N', 'T', '<i>', ' ', 'é'])])
        out.append(gen_block(g, depth))
    return out


def probe_block(g):
    g.probes += 1
    return ['call', ['e', ['call', ['name', 'probe']]]]


def gen_block(g, depth):
    r = g.r
    kinds = ['var', 'var', 'var', 'call', 'probe', 'lit']
    if depth > 0:
        kinds += ['cond', 'cond', 'unless', 'in', 'in', 'inx', 'with', 'let', 'try', 'try', 'tryfin', 'raise', 'ret']
    k = r.choice(kinds)
    if k == 'lit':
        return ['lit', r.choice(['lit', '!', ' '])]
    if k == 'probe':
        return probe_block(g)
    if k == 'var':
        s = gen_src(g)
        hq = r.random() < 0.3
        missing = r.choice([None, None, None, 'MISSING']) if s[0] == 'n' else None
        null = r.choice([None, None, None, 'NULL'])
        return ['var', s, hq, missing, null]
    if k == 'call':
        return ['call', gen_src(g)]
    if k == 'cond':
        conds = [[gen_src(g), gen_blocks(g, depth - 1, 2)] for _ in range(r.randint(1, 3))]
        els = gen_blocks(g, depth - 1, 2) if r.random() < 0.5 else None
        return ['cond', conds, els]
    if k == 'unless':
        return ['unless', gen_src(g), gen_blocks(g, depth - 1, 2)]
    if k == 'in':
        opts = {}
        if r.random() < 0.2:
            opts['mapping'] = True
        if r.random() < 0.15:
            opts['noPush'] = True
        if r.random() < 0.2:
            opts['prefix'] = 'pf'
        body = gen_blocks(g, depth - 1, 2)
        if r.random() < 0.6:
            body.append(['var', ['n', r.choice(['sequence-item', 'sequence-index', 'sequence-number', 'sequence-start',
                                                'sequence-end', 'sequence-letter', 'sequence-even', 'sequence-key',
                                                'sequence-var-p', 'first-p', 'last-p', 'sequence-length', 'pf_item',
                                                'pf_index', 'sequence-odd', 'p', 'k'])], False, 'M', None])
        els = gen_blocks(g, depth - 1, 1) if r.random() < 0.3 else None
        return ['in', ['n', r.choice(['seq', 'seq2', 'seq', 'x'])] if r.random() < 0.8 else gen_src(g), opts, body, els]
    if k == 'inx':
        return gen_inx(g, depth)
    if k == 'with':
        mapping = r.random() < 0.25
        only = r.random() < 0.2
        return ['with', ['n', r.choice(['m1'] if mapping else ['o1', 'o2', 'o1', 'x'])], mapping, only,
                gen_blocks(g, depth - 1, 2)]
    if k == 'let':
        binds = [[r.choice(['v0', 'v1', 'x']), gen_src(g)] for _ in range(r.randint(1, 2))]
        return ['let', binds, gen_blocks(g, depth - 1, 2) + [['var', ['n', binds[0][0]], False, None, None]]]
    if k == 'try':
        body = gen_blocks(g, depth - 1, 2)
        hs = []
        seen_default = False
        for _ in range(r.randint(1, 2)):
            nm = r.choice(['ValueError', 'KeyError', 'E1', 'E2', 'LookupError', 'Exception', '', 'NameError', 'EM'])
            if nm == '':
                if seen_default:
                    nm = 'TypeError'
                seen_default = True
            hb = gen_blocks(g, depth - 1, 1)
            if r.random() < 0.5:
                hb.append(['var', ['n', r.choice(['error_type', 'error_value'])], False, None, None])
            hs.append([nm, hb])
        els = gen_blocks(g, depth - 1, 1) if r.random() < 0.3 else None
        return ['try', body, hs, els]
    if k == 'tryfin':
        return ['tryfin', gen_blocks(g, depth - 1, 2), gen_blocks(g, depth - 1, 1)]
    if k == 'raise':
        if r.random() < 0.6:
            return ['raise', r.choice(['KeyError', 'ValueError', 'NoSuchClass', 'LookupError']), None,
                    gen_blocks(g, depth - 1, 1)]
        return ['raise', 'exc_cls', ['name', r.choice(['cls1', 'cls2'])], gen_blocks(g, depth - 1, 1)]
    if k == 'ret':
        return ['ret', gen_src(g)]
    raise ValueError(k)


BATCH_VARS = ['sequence-item', 'sequence-index', 'sequence-number', 'sequence-start', 'sequence-end', 'sequence-length',
              'previous-sequence', 'next-sequence', 'previous-sequence-start-index', 'previous-sequence-end-index',
              'previous-sequence-size', 'next-sequence-start-index', 'next-sequence-end-index', 'next-sequence-size',
              'previous-sequence-start-number', 'next-sequence-start-number', 'previous-sequence-end-number',
              'next-sequence-end-number', 'sequence-step-size', 'sequence-step-start', 'sequence-step-end',
              'sequence-step-start-index', 'sequence-step-end-index', 'sequence-step-orphan', 'sequence-step-overlap',
              'pf_index', 'pf_start', 'pf_end', 'pf_step_size', 'pf_step_end', 'pf_previous-sequence', 'pf_next-sequence',
              'pf_next-sequence-start-index', 'sequence-var-k', 'first-k', 'last-k', 'k', 'p']


def gen_inx(g, depth):
    """dtml-in with sort / reverse / batch options (the model's `inx_`): sorted loops only over sequences whose sort keys
    are comparable (ints, callables returning ints, None)"""
    r = g.r
    x = {}
    c = r.random()
    seqname = r.choice(['seq3', 'seq3', 'mseq', 'seq', 'seq2'])
    opts = {}
    if seqname == 'mseq':
        opts['mapping'] = True
    if seqname in ('seq3', 'mseq', 'seq2') and r.random() < 0.5:
        x['sort'] = 'k'
    if r.random() < 0.35:
        x['reverse'] = True
    if r.random() < 0.65 or not x:
        b = {}
        for name, vals in (('start', [0, 0, 1, 2, 3, 5]), ('size', [0, 1, 2, 3, 3]), ('end', [0, 0, 0, 2, 4]),
                           ('orphan', [0, 0, 0, 1, 2]), ('overlap', [0, 0, 1, 2])):
            v = r.choice(vals)
            if v:
                b[name] = v
        if not any(n in b for n in ('start', 'size', 'end')):
            b['size'] = r.choice([1, 2, 3])
        m = r.random()
        if m < 0.12:
            b['previous'] = True
        elif m < 0.24:
            b['next'] = True
        x['batch'] = b
    # sort_expr / reverse_expr (expressions evaluated per rendering) and batch parameters given by variable name
    if 'sort' in x and r.random() < 0.3:
        del x['sort']
        x['sortExpr'] = r.choice([['lit', {'s': 'k'}], ['name', 'skey'], ['name', 'skey'], ['call', ['name', 'skeyf']]])
    if r.random() < 0.25:
        x['reverseExpr'] = r.choice([['name', 'flag'], ['not', ['name', 'flag']], ['lit', 0], ['lit', 1],
                                     ['eq', ['name', 'bstart'], ['lit', 1]], ['call', ['name', 'f']], ['name', 'undefined1']])
    if 'batch' in x and r.random() < 0.4:
        names = []
        for pname in ('start', 'end', 'size', 'overlap', 'orphan'):
            if r.random() < 0.35:
                names.append([pname, r.choice(['b' + pname, 'b' + pname, 'bstr', 'bfn', 'undefined2'])])
                x['batch'].pop(pname, None)
        if names:
            x['names'] = names
            if not any(n in x['batch'] for n in ('start', 'size', 'end')) and not any(p in ('start', 'size', 'end') for p, _ in names):
                x['batch']['size'] = 2
    if r.random() < 0.15:
        opts['noPush'] = True
    if r.random() < 0.3:
        opts['prefix'] = 'pf'
    body = gen_blocks(g, depth - 1, 2)
    for _ in range(r.randint(1, 3)):
        body.append(['lit', '|'])
        body.append(['var', ['n', r.choice(BATCH_VARS)], False, 'M', None])
    els = gen_blocks(g, depth - 1, 1) if r.random() < 0.3 else None
    src = ['n', seqname]
    if r.random() < 0.15 and seqname != 'seq':
        src = ['e', ['name', seqname]]
    return ['inx', src, opts, x, body, els]


# --------------------------------------------------------------------------- printing (dtml syntax)

def attr_q(v):
    return '"%s"' % v


def print_blocks(bs):
    return ''.join(print_block(b) for b in bs)


def print_block(b):
    k = b[0]
    if k == 'lit':
        return b[1]
    if k == 'comment':
        return '<dtml-comment>c</dtml-comment>'
    if k == 'var':
        _, s, hq, missing, null = b
        a = [src_attr(s)]
        if hq:
            a.append('html_quote')
        if missing is not None:
            a.append('missing=%s' % attr_q(missing))
        if null is not None:
            a.append('null=%s' % attr_q(null))
        return '<dtml-var %s>' % ' '.join(a)
    if k == 'call':
        return '<dtml-call %s>' % src_attr(b[1])
    if k == 'cond':
        _, conds, els = b
        s = '<dtml-if %s>%s' % (src_attr(conds[0][0]), print_blocks(conds[0][1]))
        for c, body in conds[1:]:
            s += '<dtml-elif %s>%s' % (src_attr(c), print_blocks(body))
        if els is not None:
            s += '<dtml-else>' + print_blocks(els)
        return s + '</dtml-if>'
    if k == 'unless':
        return '<dtml-unless %s>%s</dtml-unless>' % (src_attr(b[1]), print_blocks(b[2]))
    if k == 'in':
        _, s, o, body, els = b
        a = [src_attr(s)]
        if o.get('mapping'):
            a.append('mapping')
        if o.get('noPush'):
            a.append('no_push_item')
        if o.get('prefix'):
            a.append('prefix=%s' % o['prefix'])
        if o.get('skip'):
            a.append('skip_unauthorized')
        out = '<dtml-in %s>%s' % (' '.join(a), print_blocks(body))
        if els is not None:
            out += '<dtml-else>' + print_blocks(els)
        return out + '</dtml-in>'
    if k == 'inx':
        _, s, o, x, body, els = b
        a = [src_attr(s)]
        if o.get('mapping'):
            a.append('mapping')
        if o.get('noPush'):
            a.append('no_push_item')
        if o.get('prefix'):
            a.append('prefix=%s' % o['prefix'])
        if o.get('skip'):
            a.append('skip_unauthorized')
        if x.get('sort'):
            a.append('sort=%s' % x['sort'])
        if x.get('sortExpr'):
            a.append('sort_expr="%s"' % expr_src(x['sortExpr']))
        if x.get('reverse'):
            a.append('reverse')
        if x.get('reverseExpr'):
            a.append('reverse_expr="%s"' % expr_src(x['reverseExpr']))
        bt = x.get('batch') or {}
        byname = dict(x.get('names') or [])
        for n in ('start', 'end', 'size', 'orphan', 'overlap'):
            if n in byname:
                a.append('%s=%s' % (n, byname[n]))
            elif n in bt:
                a.append('%s=%d' % (n, bt[n]))
        for n in ('previous', 'next'):
            if bt.get(n):
                a.append(n)
        out = '<dtml-in %s>%s' % (' '.join(a), print_blocks(body))
        if els is not None:
            out += '<dtml-else>' + print_blocks(els)
        return out + '</dtml-in>'
    if k == 'with':
        _, s, mapping, only, body = b
        a = [src_attr(s)] + (['mapping'] if mapping else []) + (['only'] if only else [])
        return '<dtml-with %s>%s</dtml-with>' % (' '.join(a), print_blocks(body))
    if k == 'let':
        _, binds, body = b
        a = ['%s=%s' % (n, s[1] if s[0] == 'n' else attr_q(expr_src(s[1]))) for n, s in binds]
        return '<dtml-let %s>%s</dtml-let>' % (' '.join(a), print_blocks(body))
    if k == 'try':
        _, body, hs, els = b
        s = '<dtml-try>' + print_blocks(body)
        for nm, hb in hs:
            s += '<dtml-except %s>' % nm + print_blocks(hb)
        if els is not None:
            s += '<dtml-else>' + print_blocks(els)
        return s + '</dtml-try>'
    if k == 'tryfin':
        return '<dtml-try>%s<dtml-finally>%s</dtml-try>' % (print_blocks(b[1]), print_blocks(b[2]))
    if k == 'raise':
        _, cls, e, body = b
        a = cls if e is None else 'expr="%s"' % expr_src(e)
        return '<dtml-raise %s>%s</dtml-raise>' % (a, print_blocks(body))
    if k == 'ret':
        return '<dtml-return %s>' % src_attr(b[1])
    raise ValueError(k)


# --------------------------------------------------------------------------- whole cases

def gen_case(r, depth=3, robust=False):
    g = Gen(r, depth)
    if robust:
        # mostly-succeeding programs with many callable invocations (fault injection needs invocation points)
        g.pool = [n for n in NAMES if not n.startswith('undefined')] * 3 + ['f', 'g', 'f', 'g', 'sub0'] * 3 + ['undefined1']
        g.p_def = 1.0
    ns = {}
    for n in ['x', 'y', 'p', 'q', 'k', 'flag']:
        if r.random() < g.p_def:
            ns[n] = g.any_val() if r.random() < 0.5 else g.simple_val()
            if robust and r.random() < 0.5:
                ns[n] = g.v_fn()
    ns['f'] = g.v_fn()
    ns['g'] = g.v_fn({'l': [g.item_val() for _ in range(r.randint(0, 2))]}) if r.random() < 0.5 else g.v_fn()
    ns['o1'] = g.v_obj()
    ns['o2'] = g.v_obj({'x': g.v_fn(), 'p': g.simple_val(), 'y': g.simple_val()})
    ns['seq'] = {'l': [g.item_val() for _ in range(r.randint(0, 4))]}
    ns['seq2'] = {'l': [g.v_obj({'p': g.simple_val(), 'k': r.choice([1, 1, 2])}) for _ in range(r.randint(0, 3))]}
    ns['m1'] = {'d': [[n, g.simple_val()] for n in ['p', 'x', 'zz']]}
    # what sort_expr / reverse_expr / batch parameters by name refer to
    ns['skey'] = {'s': 'k'}
    ns['skeyf'] = g.v_fn({'s': 'k'})
    for pname, vals in (('start', [1, 2, 3, 0]), ('end', [0, 2, 4, 9]), ('size', [1, 2, 3, 0]), ('overlap', [0, 1, 2]),
                        ('orphan', [0, 1, 2])):
        ns['b' + pname] = r.choice(vals)
    ns['bstr'] = {'s': r.choice(['2', '1', '3', 'x', '', '-1'])}
    ns['bfn'] = g.v_fn(r.choice([1, 2, {'s': '2'}]))
    # sequences with comparable sort keys `k` (ints, callables returning ints, None)
    def keyval(i, none_at):
        # None / missing keys sort first (several of them: CPython lists them in the reverse of their original order)
        if i == none_at or r.random() < 0.12:
            return None
        if r.random() < 0.2:
            return g.v_fn(r.choice([0, 1, 2, 3]))
        return r.choice([0, 1, 1, 2, 3, 5])
    n3 = r.randint(0, 7)
    none_at = r.randrange(n3) if n3 and r.random() < 0.3 else -1
    ns['seq3'] = {'l': [g.v_obj({'k': keyval(i, none_at), 'p': g.simple_val()}) for i in range(n3)]}
    nm = r.randint(0, 6)
    ns['mseq'] = {'l': [{'d': [['k', r.choice([0, 1, 1, 2, 4])], ['p', g.simple_val()]]} for _ in range(nm)]}
    ns['cls1'] = {'x': r.choice(['E2', 'E3', 'EM', 'KeyError']), 'm': ''}
    ns['cls2'] = {'x': r.choice(['E1', 'ValueError']), 'm': ''}
    ns['probe'] = {'f': PROBE_BASE, 'r': None}
    # a sub-template invoked by name, with its own defaults
    sub_blocks = gen_blocks(g, 1, 2)
    # the sub-template may call itself (the recursion guard is part of what is compared), but not from inside a loop:
    # a self-call per element, caught and continued at every level, is exponential work for the code and the model alike
    def no_self_call_in_loops(bs, inside):
        for b in bs:
            if not isinstance(b, list) or not b:
                continue
            if inside and b[0] in ('var', 'call', 'ret', 'unless', 'in', 'inx', 'with') and isinstance(b[1], list) and \
                    b[1][:2] == ['n', 'sub0']:
                b[1] = ['n', 'f']
            if b[0] == 'cond':
                for c in b[1]:
                    if inside and c[0][:2] == ['n', 'sub0']:
                        c[0] = ['n', 'f']
                    no_self_call_in_loops(c[1], inside)
                if b[2]:
                    no_self_call_in_loops(b[2], inside)
                continue
            loop = b[0] in ('in', 'inx')
            for part in b[1:]:
                if isinstance(part, list) and part and isinstance(part[0], list):
                    if b[0] == 'try' and part is b[2]:
                        for h in part:
                            no_self_call_in_loops(h[1], inside)
                    elif b[0] == 'let' and part is b[1]:
                        for bind in part:
                            if inside and bind[1][:2] == ['n', 'sub0']:
                                bind[1] = ['n', 'f']
                    else:
                        no_self_call_in_loops(part, inside or loop)
    no_self_call_in_loops(sub_blocks, False)
    # … and at most once per level: two self-calls per level, each caught and continued, are 2^200 renderings
    seen = [0]

    def at_most_one_self_call(x):
        if isinstance(x, list):
            if len(x) >= 2 and x[0] == 'n' and x[1] == 'sub0':
                seen[0] += 1
                if seen[0] > 1:
                    x[1] = 'f'
            elif len(x) >= 2 and x[0] in ('name', 'under') and x[1] == 'sub0':
                seen[0] += 1
                if seen[0] > 1:
                    x[1] = 'f'
            else:
                for y in x:
                    at_most_one_self_call(y)
    at_most_one_self_call(sub_blocks)
    sub_globals = [['p', g.simple_val()], ['subdef', {'s': 'SD'}]] if r.random() < 0.7 else []
    ns['sub0'] = {'T': 1}
    main_blocks = gen_blocks(g, depth, 3)
    # distribute the namespace over the sources of a top-level call
    where = {}
    for n in ns:
        where[n] = r.choice(['kw', 'kw', 'mapping', 'client', 'globals', 'vars'])
    where['probe'] = 'kw'
    client_attrs = [[n, ns[n]] for n in ns if where[n] == 'client']
    case = {
        'templates': [
            {'blocks': main_blocks, 'globals': [[n, ns[n]] for n in ns if where[n] == 'globals'],
             'vars': [[n, ns[n]] for n in ns if where[n] == 'vars'], 'source': print_blocks(main_blocks)},
            {'blocks': sub_blocks, 'globals': sub_globals, 'vars': [], 'source': print_blocks(sub_blocks)},
        ],
        'main': 0,
        'clients': [{'o': 900, 'a': client_attrs}] if client_attrs else [],
        'mapping': [[n, ns[n]] for n in ns if where[n] == 'mapping'],
        'kw': [[n, ns[n]] for n in ns if where[n] == 'kw'],
        'classes': class_table(), 'denied': [], 'guard': False, 'utf8': True,
    }
    return case


def wrap_case(case):
    """run the generated template as a sub-template of a driver that snapshots the namespace before and after and
    catches whatever it raises:  probe, try: <prog>, except: -, probe"""
    c = dict(case)
    inner = [dict(t) for t in case['templates']]
    # renumber template references: old id i -> i + 1
    def shift(v):
        if isinstance(v, dict):
            if 'T' in v:
                return {'T': v['T'] + 1}
            return {k: shift(x) for k, x in v.items()}
        if isinstance(v, list):
            return [shift(x) for x in v]
        return v
    inner = shift(inner)
    outer_blocks = [['call', ['e', ['call', ['name', 'probe']]]],
                    ['try', [['var', ['n', 'prog'], False, None, None]], [['', [['lit', 'CAUGHT']]]], None],
                    ['call', ['e', ['call', ['name', 'probe']]]]]
    outer = {'blocks': outer_blocks, 'globals': [], 'vars': [], 'source': print_blocks(outer_blocks)}
    c['templates'] = [outer] + inner
    c['main'] = 0
    c['clients'] = shift(case['clients'])
    c['mapping'] = shift(case['mapping'])
    c['kw'] = shift(case['kw']) + [['prog', {'T': case['main'] + 1}]]
    # the inner main template's own defaults stay with it (pushed when it is called by name)
    return c


def model_req(case, faults=(), fault_cls='ValueError'):
    def tj(t):
        d = {'blocks': t['blocks'], 'globals': t['globals'], 'vars': t['vars']}
        if 'ckw' in t:
            d['ckw'], d['cmapping'] = t['ckw'], t['cmapping']
        return d
    req = {'op': 'render', 'templates': [tj(t) for t in case['templates']],
           'main': case['main'], 'clients': case['clients'], 'mapping': case['mapping'], 'kw': case['kw'],
           'classes': case['classes'], 'denied': case['denied'], 'guard': case['guard'], 'utf8': case['utf8'],
           'fuel': 200000}
    if case.get('deniedItems'):
        req['deniedItems'] = case['deniedItems']
    if faults:
        req['faults'] = list(faults)
        req['faultCls'] = fault_cls
    return req


def run_impl(case, faults=(), fault_cls='ValueError', guard=None):
    """execute the case on the real classes; returns dict(result=…, events=…, calls=…)"""
    import sys
    from DocumentTemplate import HTML
    if sys.getrecursionlimit() < 20000:
        # let the template engine's own recursion guard (level > 200) fire, as under Zope
        sys.setrecursionlimit(20000)
    world = World(faults, CLASSES[fault_cls][0])
    base = HTML
    if guard is not None:
        base = guard(world)

    class cls(base):
        """records how deep templates nest: beyond a few dozen levels the outcome depends on the interpreter's C stack
        (CPython raises RecursionError long before the engine's own level > 200 guard), which no model can exhibit"""

        def __call__(self, client=None, mapping=None, **kw):
            lv = getattr(mapping, 'level', 0) if mapping is not None else 0
            if isinstance(lv, int) and lv > world.max_level:
                world.max_level = lv
            return base.__call__(self, client, mapping, **kw)
    templates = []
    enc = case.get('encoding')
    for t in case['templates']:
        templates.append(cls(t['source'], encoding=enc) if enc else cls(t['source']))
    for i, (t, tj) in enumerate(zip(templates, case['templates'])):
        if 'ckw' in tj:
            # defaults through the constructor: template(source, mapping, **keywords)
            # (__init__ does exactly this call after storing the source)
            t.initvars({k: to_py(world, v, templates) for k, v in tj['cmapping']},
                       {k: to_py(world, v, templates) for k, v in tj['ckw']})
        else:
            t.globals = {k: to_py(world, v, templates) for k, v in tj['globals']}
        t._vars = {k: to_py(world, v, templates) for k, v in tj['vars']}
    clients = [to_py(world, c, templates) for c in case['clients']]
    mapping = {k: to_py(world, v, templates) for k, v in case['mapping']}
    kw = {k: to_py(world, v, templates) for k, v in case['kw']}
    main = templates[case['main']]
    client = None
    if len(clients) == 1:
        client = clients[0]
    elif clients:
        client = tuple(clients)
    try:
        out = main(client, mapping, **kw)
        res = {'ok': from_py(out)}
    except RecursionError:
        res = {'raise': 'RecursionError', 'msg': ''}
    except Exception as e:  # noqa
        res = {'raise': type(e).__name__, 'msg': exc_msg(e)}
    return {'result': res, 'events': world.events, 'calls': world.calls, 'snap_ids': world.snap_ids,
            'max_level': world.max_level}


def exc_msg(e):
    from DocumentTemplate.ustr import ustr
    try:
        if isinstance(e, KeyError) and e.args:
            return str(e.args[0])
        return ustr(e)
    except Exception:  # noqa
        return '?'


def from_py(v):
    if v is None or isinstance(v, bool) or isinstance(v, int):
        return v
    if isinstance(v, str):
        return {'s': v}
    if isinstance(v, bytes):
        return {'b': list(v)}
    if isinstance(v, Obj):
        return {'o': v._oid}
    if isinstance(v, Fn):
        return {'f': v.fid}
    if isinstance(v, (list,)):
        return {'l': [from_py(x) for x in v]}
    if isinstance(v, tuple):
        return {'t': [from_py(x) for x in v]}
    if isinstance(v, dict):
        return {'d': [[k, from_py(x)] for k, x in v.items()]}
    if isinstance(v, type) and issubclass(v, BaseException):
        return {'x': v.__name__, 'm': ''}
    return {'other': type(v).__name__}


def norm_model_val(v):
    """model result value -> comparable with from_py"""
    if isinstance(v, dict):
        if 'l' in v:
            return {'l': [norm_model_val(x) for x in v['l']]}
        if 't' in v:
            return {'t': [norm_model_val(x) for x in v['t']]}
        if 'd' in v:
            return {'d': [[k, norm_model_val(x)] for k, x in v['d']]}
    return v
