"""bin/check <PID> [--tier quick|thorough] [--replay file]"""
import argparse
import importlib
import os
import sys
import time
import traceback

sys.path.insert(0, os.path.dirname(os.path.abspath(__file__)))
import common  # noqa: E402


def main():
    ap = argparse.ArgumentParser()
    ap.add_argument('pid')
    ap.add_argument('--tier', default=os.environ.get('VERIF_TIER', 'quick'))
    ap.add_argument('--replay', default=None)
    a = ap.parse_args()
    pid = a.pid.upper()
    tier = a.tier if a.tier in ('quick', 'thorough') else 'quick'
    t0 = time.time()
    try:
        mod = importlib.import_module('props.' + pid.lower())
    except Exception:
        traceback.print_exc()
        return 2
    if a.replay:
        return mod.replay(a.replay)

    # 1. tables from source, build, audit
    try:
        common.gen_consts()
    except Exception:
        # the translator itself broke on the current source: proof obligations cannot be
        # regenerated; treat as broken build (search for a failing input continues)
        build_ok, build_log = False, 'consts.py failed:\n' + traceback.format_exc()
    else:
        build_ok, build_log = common.lake_build()
    forbidden = common.grep_forbidden()
    thms, axioms, audit_bad = [], {}, []
    if build_ok:
        try:
            thms, axioms, audit_bad, _ = common.audit_axioms(pid)
        except Exception:
            audit_bad = ['audit failed: ' + traceback.format_exc()[-500:]]
        if tier == 'thorough':
            import subprocess
            p = subprocess.run(['lake', 'env', 'leanchecker', 'DTML.Props.' + pid], cwd=common.LEAN,
                               stdout=subprocess.PIPE, stderr=subprocess.STDOUT, text=True)
            if p.returncode != 0:
                audit_bad.append('leanchecker: ' + p.stdout[-500:])
    else:
        try:
            thms = common.property_theorems(pid)
        except Exception:
            pass
        # an unrelated module may be what fails: retry building only this property
        ok2, log2 = common.lake_build(['DTML.Props.' + pid, 'dtml-driver'])
        if ok2:
            build_ok, build_log = True, ''
            thms, axioms, audit_bad, _ = common.audit_axioms(pid)

    # 2./3. correspondence + oracle
    res = common.Result(pid)
    have_driver = os.path.exists(common.DRIVER)
    try:
        mod.run(res, tier, have_driver)
    except Exception:
        res.harness_errors.append(traceback.format_exc())
    # dtml-in with sort / reverse / batch options inside the interpreter model (Render.inx_): C10, C11 and C13 state
    # theorems about it, so their checks also compare that part of the model with the real classes
    if pid in ('C10', 'C11', 'C13') and have_driver:
        try:
            import interp
            res.have_driver = True
            need = {'C10': ('sort=', 'size=', 'start=', 'end=', ' reverse'), 'C11': ('size=', 'start=', 'end='),
                    'C13': ('sort=', ' reverse')}[pid]
            n = interp.inx_slice(res, common.rng(pid + '-inx'), 150 if tier == 'quick' else 2500, need=need)
            res.rule += ('; interpreter slice: %d random programs containing a dtml-in with sort / reverse / batch options '
                         '(and their fault plans) compared between the Lean interpreter and the real classes' % n)
        except Exception:
            res.harness_errors.append(traceback.format_exc())
    # the batch lists (next-batches / previous-batches): Props/C11 proves the translated loops equal to the model and states
    # the tiling theorems about it; here the model's lists are compared with the real tag's
    if pid == 'C11' and have_driver:
        try:
            import batchlists
            n = batchlists.run(res, tier)
            res.rule += ('; batch lists: next-batches / previous-batches of %d windows (grid incl. overlap >= size, zero and '
                         'negative parameters, lazy sequences) compared between Batch.nextBatches / prevBatches and the real '
                         'tag' % n)
        except Exception:
            res.harness_errors.append(traceback.format_exc())
    try:
        import findings_probe
        findings_probe.run(pid, res)
    except Exception:
        res.harness_errors.append(traceback.format_exc())
    search_more = getattr(mod, 'search_more', None)
    sm = (lambda: search_more(res, tier)) if search_more else None
    return common.finish(pid, tier, res, build_ok, build_log, audit_bad, thms, axioms, t0,
                         forbidden, sm)


if __name__ == '__main__':
    sys.exit(main())
