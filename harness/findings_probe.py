"""Deterministic probes of the known findings that no generator produces any more (the generators leave these inputs
out so that the rest of the input space can be compared exactly).  Each probe replays the recorded input on the real
code and reports whether the defect still manifests; the check then prints KNOWN-FINDING for it.  A probe that no longer
manifests prints nothing (the finding has been repaired)."""
import traceback


class _O:
    def __init__(self, **kw):
        self.__dict__.update(kw)


def _c13_locale_none():
    import locale  # noqa: F401  (DT_In offers locale / strcoll only when the module is already imported)
    from DocumentTemplate import HTML, DT_In
    if not hasattr(DT_In, 'strcoll'):
        return None
    L = [_O(eid=0, k='b'), _O(eid=1, k=None), _O(eid=2, k='a'), _O(eid=3)]
    try:
        HTML('<dtml-in L sort="k/locale"><dtml-var eid>,</dtml-in>')(L=L)
        return None
    except (TypeError, AttributeError) as e:
        return {'input': 'sort="k/locale" with keys b, None, a, missing', 'raises': repr(e)[:120]}


def _tree_env():
    class R:
        def __init__(self):
            self.cookies = {}

        def setCookie(self, k, v, **kw):
            self.cookies[k] = v
    return R()


def _guarded(log, refuse_attr=(), refuse_items=()):
    from DocumentTemplate import HTML
    from zExceptions import Unauthorized

    marker = object()

    class G(HTML):
        def guarded_getattr(self, inst, name, default=marker):
            log.append(('attr', getattr(inst, 'nid', '?'), name))
            if name in refuse_attr and hasattr(inst, 'nid'):
                raise Unauthorized(name)
            if default is marker:
                return getattr(inst, name)
            return getattr(inst, name, default)

        def guarded_getitem(self, ob, index):
            v = ob[index]
            log.append(('item', getattr(v, 'nid', '?')))
            if getattr(v, 'nid', None) in refuse_items:
                raise Unauthorized('item')
            return v
    return G


class _N:
    def __init__(self, nid, kids=(), **kw):
        self.nid, self.kids = nid, list(kids)
        self.__dict__.update(kw)

    def tpValues(self):
        return self.kids

    def tpId(self):
        return self.nid


def _c05_tree_sort_key():
    outs = []
    for m in ('AAA', 'ZZZ'):
        log = []
        root = _N('r', [_N('a', label='a', secret=m), _N('b', label='b', secret='MMM')])
        t = _guarded(log, refuse_attr=('secret',))('<dtml-tree sort=secret>{<dtml-var label>}</dtml-tree>')
        try:
            outs.append((t(root, {'URL': 'u', 'RESPONSE': _tree_env()}), [x for x in log if x[-1] == 'secret']))
        except Exception as e:  # noqa
            outs.append(('raised %r' % (e,), []))
    order = [''.join(c for c in o[0] if c in 'ab{}') for o in outs]
    if order[0] != order[1] and not outs[0][1]:
        return {'input': '<dtml-tree sort=secret>, guard refuses `secret` on both branches', 'orders': order}
    return None


def _c05_tree_id():
    log = []
    root = _N('r', [_N('SECRETID', [_N('k')], label='x')])
    t = _guarded(log, refuse_attr=('tpId',))('<dtml-tree>{<dtml-var label missing=m>}</dtml-tree>')
    try:
        out = t(root, {'URL': 'u', 'RESPONSE': _tree_env()})
    except Exception:  # noqa
        return None
    if 'SECRETID' in out and not [x for x in log if x[-1] == 'tpId']:
        return {'input': '<dtml-tree>, guard refuses tpId', 'what': 'the id is written into the links, the guard is never asked'}
    return None


def _c05_tree_expand_all():
    from TreeDisplay.TreeTag import decode_seq
    log = []
    root = _N('r', [_N('SECRETID', [_N('below')], label='x'), _N('ok', label='y')])
    resp = _tree_env()
    t = _guarded(log, refuse_items=('SECRETID',))('<dtml-tree skip_unauthorized=1>{<dtml-var label missing=m>}</dtml-tree>')
    try:
        t(root, {'URL': 'u', 'RESPONSE': resp, 'expand_all': 1})
    except Exception:  # noqa
        return None
    c = resp.cookies.get('tree-s')
    try:
        st = repr(decode_seq(c)) if c else ''
    except Exception:  # noqa
        st = ''
    if 'SECRETID' in st:
        return {'input': '<dtml-tree skip_unauthorized> with expand_all, item guard refuses the branch SECRETID',
                'cookie_state': st[:100]}
    return None


def _c05_var_url():
    log = []

    class Doc(_O):
        def absolute_url(self):
            return 'http://host/SECRET-PATH/doc'
    t = _guarded(log, refuse_attr=('absolute_url',))('<dtml-var o url>|<dtml-var "o" url>')
    try:
        out = t(o=Doc(nid='doc'))
    except Exception:  # noqa
        return None
    if 'SECRET-PATH' in out and not [x for x in log if x[-1] == 'absolute_url']:
        return {'input': "<dtml-var o url>|<dtml-var \"o\" url>, guard refuses (o, 'absolute_url')", 'output': out,
                'what': 'the guard is never asked for absolute_url'}
    return None


def _c05_fmt_mapping_key():
    log = []

    class Rec:
        nid = 'rec'

        def __str__(self):
            return '<record>'

        def __getitem__(self, k):
            return {'secret': 'SECRET-VALUE', 'pub': 'p'}[k]
    t = _guarded(log, refuse_attr=('secret', '__getitem__'), refuse_items=('rec',))('<dtml-var rec fmt="%(secret)s">')
    try:
        out = t(rec=Rec())
    except Exception:  # noqa
        return None
    if 'SECRET-VALUE' in out and not [x for x in log if x[0] == 'item' or x[-1] in ('secret', '__getitem__')]:
        return {'input': '<dtml-var rec fmt="%(secret)s"> with a record-like value', 'output': out,
                'what': "rec['secret'] is read by the % operator, no guard of the template class is asked"}
    return None


def _c05_special_format_attr():
    hits = {}
    for fmt, attrs in (('sql-quote', {'replace': lambda self, a, b: 'SECRET-REPLACED'}),
                       ('structured-text', {'meta_type': 'DTML Document', 'read_raw': lambda self: 'SECRET-RAW'})):
        log = []
        cls = type('Doc', (_O,), dict(attrs, __str__=lambda self: 'doc'))
        t = _guarded(log, refuse_attr=('replace', 'meta_type', 'read_raw'))('<dtml-var o fmt=%s>' % fmt)
        try:
            out = t(o=cls(nid='doc'))
        except Exception:  # noqa
            continue
        if 'SECRET' in out and not [x for x in log if x[-1] in ('replace', 'meta_type', 'read_raw')]:
            hits[fmt] = out[:80]
    if hits:
        return {'input': '<dtml-var o fmt=sql-quote> / fmt=structured-text on an object with replace / meta_type + read_raw, all refused '
                         'by the guard', 'outputs': hits, 'what': 'the guard is never asked'}
    return None


def _c16_index_column():
    from DocumentTemplate import HTML
    rows = [{'index': 4, 'number': 10}, {'index': 9, 'number': 20}, {'index': 7, 'number': 60}]
    t = HTML('<dtml-in L mapping><dtml-if sequence-end><dtml-var total-index>,<dtml-var total-number></dtml-if></dtml-in>')
    try:
        out = t(L=rows)
    except Exception as e:  # noqa
        out = 'raised %r' % (e,)
    if out != '20,90':
        return {'input': 'columns index and number, total-index read before total-number', 'got': out, 'expected': '20,90'}
    return None


def _c16_hyphen_column():
    from DocumentTemplate import HTML
    rows = [{'unit-price': 4}, {'unit-price': 6}]
    t = HTML('<dtml-in L mapping><dtml-if sequence-end><dtml-var total-unit-price></dtml-if></dtml-in>')
    try:
        out = t(L=rows)
    except KeyError as e:
        return {'input': 'column unit-price, total-unit-price', 'raises': repr(e)[:80]}
    except Exception:  # noqa
        return None
    return None if out == '10' else {'got': out}


def _c07_var_named_var():
    from DocumentTemplate import HTML, String
    a = HTML('<dtml-var var upper>')(var='v', upper='U')
    b = String('%(var var upper)s')(var='v', upper='U')
    if a != b:
        return {'input': "<dtml-var var upper> vs %(var var upper)s with var='v', upper='U'", 'dtml': a, 'epfs': b}
    return None


def _c07_registered(name):
    """outcomes of opening a tag registered under `name` in the three syntaxes (the registry is left as it was)"""
    from DocumentTemplate import HTML, String

    class Tag:
        def __init__(self, args):
            pass

        def __call__(self, md):
            return 'T'
    Tag.name = name
    saved = dict(String.commands)
    String.commands[name] = Tag
    outs = {}
    try:
        for lab, cls, src in (('dtml', HTML, '<dtml-%s x>'), ('ssi', HTML, '<!--#%s x-->'), ('epfs', String, '%%(%s x)[')):
            try:
                outs[lab] = cls(src % name)()
            except Exception as e:  # noqa
                outs[lab] = '%s: %s' % (type(e).__name__, str(e).split(',')[0])
    finally:
        String.commands.clear()
        String.commands.update(saved)
    return outs


def _c07_tag_name_end_prefix():
    o = _c07_registered('endive')
    if o['dtml'] == 'T' and o['epfs'] == 'T' and o['ssi'] != 'T':
        return dict(o, input="String.commands['endive'] = Tag; <dtml-endive x> / <!--#endive x--> / %(endive x)[")
    return None


def _c07_tag_name_nonletter():
    o = _c07_registered('h1')
    if o['epfs'] == 'T' and o['dtml'] != 'T' and o['ssi'] != 'T':
        return dict(o, input="String.commands['h1'] = Tag; <dtml-h1 x> / <!--#h1 x--> / %(h1 x)[")
    return None


def _c02_falsy_mapping():
    from DocumentTemplate import HTML

    class Computed(dict):
        def __missing__(self, k):
            if k == 'n':
                return 'computed'
            raise KeyError(k)
    out = HTML('<dtml-var n>', n='default')(None, Computed())
    if out != 'computed':
        return {'input': "HTML('<dtml-var n>', n='default')(None, Computed())  (an empty dict subclass answering through "
                         "__missing__)", 'got': out, 'expected': 'computed'}
    return None


def _c20_surrogate_pair_id():
    from TreeDisplay.TreeTag import encode_seq, decode_seq
    st = [['\ud83d\ude00', []]]
    try:
        back = decode_seq(encode_seq(st))
    except Exception as e:  # noqa
        return {'input': "state [['\\ud83d\\ude00', []]] (a high and a low surrogate as two code points)", 'raises': repr(e)[:100]}
    if back != st:
        return {'input': "state [['\\ud83d\\ude00', []]] (a high and a low surrogate as two code points)",
                'decoded': ascii(back)}
    return None


def _c20_bytes_id():
    from TreeDisplay.TreeTag import encode_seq, decode_seq
    st = [[b'ab', []]]
    try:
        back = decode_seq(encode_seq(st))
    except Exception as e:  # noqa
        return {'input': "state [[b'ab', []]] (a bytes node id)", 'raises': repr(e)[:100]}
    return None if back == st else {'input': "state [[b'ab', []]]", 'decoded': ascii(back)}


def _c04_requote_list_format():
    from AccessControl.tainted import TaintedString
    from DocumentTemplate import HTML
    hits = []
    for fmt in ('split', 'splitlines'):
        src = '<dtml-var x fmt=%s url_unquote>' % fmt
        try:
            out = HTML(src)(x=TaintedString('<%3Cb'))
        except Exception:  # noqa
            continue
        if '<' in out:
            hits.append({'src': src, 'value': "TaintedString('<%3Cb')", 'out': out})
    return hits[0] if hits else None


def _c17_getstate_while_first_render():
    """thread 0 pickles a template that is not compiled yet and is stopped after k source lines of the package, thread 1
    renders it (the first render compiles it), thread 0 goes on (deterministic: harness/sched.py)"""
    import os
    import pickle
    import DocumentTemplate
    import sched
    pkg = os.path.dirname(DocumentTemplate.__file__) + os.sep
    for k in range(0, 30):
        t = DocumentTemplate.HTML('x<dtml-var a>')
        results, _ = sched.run_threads([lambda: pickle.dumps(t), lambda: t(a=1)], [(0, k), (1, sched.INF), (0, sched.INF)], {}, pkg)
        if results[0][0] == 'raise' and results[1] == ('ok', 'x1'):
            return {'input': "HTML('x<dtml-var a>'): pickle.dumps(t) stopped after %d lines inside the package, t(a=1) in another "
                             "thread, pickle.dumps continues" % k, 'pickling': results[0][1], 'render': results[1][1]}
    return None


_C08_STACK_SCRIPT = r"""
import sys, traceback
sys.setrecursionlimit(20000)        # as under Zope: the engine's own guard (200 template calls) is meant to be what stops recursion
from DocumentTemplate import HTML
from DocumentTemplate._DocumentTemplate import TemplateDict
k = int(sys.argv[1])


class Pad:
    # k nested calls through the C-level call slot before the template is called: shifts where the interpreter's stack ends
    def __init__(self, k, f):
        self.k, self.f = k, f

    def __call__(self):
        return self.f() if self.k == 0 else Pad(self.k - 1, self.f)()


t = HTML('<dtml-let a=x><dtml-let b=r>l</dtml-let></dtml-let>')       # r is t itself: unbounded recursion
md = TemplateDict()
md.guarded_getattr = md.guarded_getitem = None
md._push({'r': t, 'x': 1})


def go():
    try:
        t(None, md)
    except RecursionError as e:
        tb = traceback.extract_tb(e.__traceback__)
        return 'RecursionError raised last at ' + ' <- '.join('%s:%d' % (f.name, f.lineno) for f in reversed(tb[-2:]))
    except SystemError:
        return 'SystemError (the guard)'
    return 'returned'


out = Pad(k, go)()
print('%d|%d|%s' % (len(md._data), md.level, out))
"""


def _c08_stack_exhaustion():
    """a fresh interpreter per run (after warm-up CPython's specialised attribute access needs no C stack for md._pop): a
    Python caller pushes one frame, calls a template that recurses without bound through two nested dtml-let, catches the
    RecursionError and counts the frames"""
    import subprocess
    import sys
    for k in range(6):
        p = subprocess.run([sys.executable, '-c', _C08_STACK_SCRIPT, str(k)], stdout=subprocess.PIPE, stderr=subprocess.PIPE,
                           text=True, timeout=120)
        line = p.stdout.strip().split('\n')[-1] if p.stdout.strip() else ''
        parts = line.split('|', 2)
        if len(parts) != 3:
            continue
        frames, level, out = int(parts[0]), int(parts[1]), parts[2]
        if frames != 1 or level != 0:
            return {'input': "t = HTML('<dtml-let a=x><dtml-let b=r>l</dtml-let></dtml-let>'); md = TemplateDict(); "
                             "md._push({'r': t, 'x': 1}); t(None, md) inside try/except RecursionError, entered through %d "
                             "nested __call__ slots, in a fresh interpreter" % k,
                    'frames_before': 1, 'frames_after': frames, 'level_before': 0, 'level_after': level, 'outcome': out}
    return None


def _c09_instance_attribute_kept():
    from DocumentTemplate import HTML

    class Doc:
        pass
    d = Doc()
    d.p = 1

    def un():
        d.p = 0
    src = '<dtml-if p>P<dtml-else>D</dtml-if><dtml-call un><dtml-if p>P<dtml-else>D</dtml-if>'
    out = HTML(src)(d, un=un)
    if out != 'PD':
        return {'input': "d.p = 1; un() sets d.p = 0; HTML(%r)(d, un=un)  (an attribute of the client object rebound to a false "
                         "value between two conditionals)" % src, 'got': out, 'expected': 'PD'}
    return None


PROBES = {
    'C04': [('C04-requote-list-format', _c04_requote_list_format)],
    'C17': [('C17-getstate-while-first-render', _c17_getstate_while_first_render)],
    'C08': [('C08-interpreter-stack-exhaustion-cleanup', _c08_stack_exhaustion)],
    'C13': [('C13-locale-none', _c13_locale_none)],
    'C05': [('C05-tree-sort-key', _c05_tree_sort_key), ('C05-tree-id', _c05_tree_id),
            ('C05-tree-expand-all', _c05_tree_expand_all), ('C05-var-url', _c05_var_url),
            ('C05-fmt-mapping-key', _c05_fmt_mapping_key), ('C05-special-format-attr', _c05_special_format_attr)],
    'C16': [('C16-index-column', _c16_index_column), ('C16-hyphen-column', _c16_hyphen_column)],
    'C07': [('C07-var-named-var', _c07_var_named_var), ('C07-tag-name-end-prefix', _c07_tag_name_end_prefix),
            ('C07-tag-name-nonletter', _c07_tag_name_nonletter)],
    'C02': [('C02-falsy-mapping', _c02_falsy_mapping)],
    'C20': [('C20-surrogate-pair-id', _c20_surrogate_pair_id), ('C20-bytes-id', _c20_bytes_id)],
}


def run(pid, res):
    for fid, probe in PROBES.get(pid, []):
        try:
            hit = probe()
        except Exception:  # noqa
            res.harness_errors.append('findings probe %s: %s' % (fid, traceback.format_exc()[-800:]))
            continue
        if hit:
            res.known_hits[fid] = hit
