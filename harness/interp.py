"""Shared by the interpreter-level properties (C01 render, C02, C08, C09, C14, C19): run generated programs on the
Lean interpreter model (driver op "render") and on the real classes, compare results, event traces and namespace
snapshots."""
import json

import common
import proggen

INTERNAL = ('TypeError', 'AttributeError', 'NameError', 'IndexError', 'UnicodeDecodeError')
MARK = '￿'


def compare(impl, m):
    """returns None (agree), 'oom' (outside the model) or a description of the difference"""
    mres = m['result']
    if impl.get('max_level', 0) > 40:
        return 'oom'       # runaway template recursion: the outcome depends on CPython's C stack depth
    if mres.get('oom'):
        return 'model out of fuel'
    if 'ok' in mres:
        mres = {'ok': proggen.norm_model_val(mres['ok'])}
    ires = impl['result']
    if MARK in json.dumps(mres, ensure_ascii=False) or 'other' in json.dumps(ires):
        return 'oom'
    if 'raise' in ires and 'raise' in mres:
        a, b = ires['raise'], mres['raise']
        if {a, b} <= {'RecursionError', 'SystemError'}:
            return None
        if a != b:
            return 'exception class: impl %s model %s' % (a, b)
        if ires['msg'] != mres['msg'] and a not in INTERNAL and a != 'Unauthorized':
            return 'exception message: impl %r model %r' % (ires['msg'], mres['msg'])
    elif ires != mres:
        return 'result: impl %s model %s' % (json.dumps(ires)[:200], json.dumps(mres)[:200])
    if canon_events(impl['events']) != canon_events(m['trace']):
        return 'event trace (calls / namespace snapshots) differs'
    return None


def canon_events(evs):
    """the order of the keys inside one dictionary frame of a namespace snapshot is no observation of any property (a
    key occurs once per frame; Python keeps a re-assigned key in its old place, the model appends it): sorted on both sides
    (false alarm of the C13 thorough tier, seed 5: `<dtml-if f>…<dtml-elif y>…<dtml-elif f>` stores f, y, f in the cache)"""
    out = []
    for e in evs:
        if isinstance(e, list) and e and e[0] == 'snap' and len(e) > 1 and isinstance(e[1], list):
            frames = [[f[0], sorted(f[1]), *f[2:]] if isinstance(f, list) and len(f) > 1 and f[0] == 'dict' and
                      isinstance(f[1], list) else f for f in e[1]]
            e = [e[0], frames, *e[2:]]
        out.append(e)
    return out


def run_cases(res, cases, plans=None, label=''):
    """cases: list of case dicts; plans: parallel list of (faults, fault_cls) or None.
    returns list of (case, plan, impl, model_response or None)"""
    plans = plans or [((), 'ValueError')] * len(cases)
    reqs = [proggen.model_req(c, f, fc) for c, (f, fc) in zip(cases, plans)]
    if res is None or res.have_driver:
        # in chunks, each with its own time limit: a program that is exponential work (for the code and the model alike)
        # must not take the whole run with it; its chunk is left out of the comparison and counted
        resp = []
        for i in range(0, len(reqs), 400):
            chunk = reqs[i:i + 400]
            try:
                resp += common.run_driver(chunk, timeout=600)
            except Exception as e:  # noqa
                if 'TimeoutExpired' not in type(e).__name__ and 'timed out' not in str(e):
                    raise
                resp += [None] * len(chunk)
                if res is not None:
                    res.count('driver_chunk_timed_out')
    else:
        resp = [None] * len(cases)
    out = []
    for c, (f, fc), rp in zip(cases, plans, resp):
        guard = proggen.recording_guard(c.get('denied', []), c.get('deniedItems', [])) if c.get('guard') else None
        if rp is None and (res is None or res.have_driver):
            continue          # the model did not answer in time: the real code is not asked either
        impl = proggen.run_impl(c, f, fc, guard=guard)
        m = rp.get('ok') if rp else None
        if rp is not None and m is None:
            raise RuntimeError('driver: %r' % (rp,))
        out.append((c, (f, fc), impl, m))
    return out


def brief(case):
    return {'source': case['templates'][case['main']]['source'],
            'templates': [t['source'] for t in case['templates']],
            'kw': case['kw'], 'mapping': case['mapping'], 'clients': case['clients'],
            'globals': case['templates'][case['main']]['globals'], 'vars': case['templates'][case['main']]['vars']}


def inx_slice(res, r, n, need=('sort=', 'size=', 'start=', 'end=', ' reverse'), faults=True):
    """correspondence slice for dtml-in with sort / reverse / batch options (the model's `inx_`): random programs that contain
    such a loop, run on the Lean interpreter and on the real classes (results, call traces, namespace snapshots), each
    also with the k-th callable invocation raising.  Records mismatches in `res`; returns the number compared."""
    cases = []
    tries = 0
    while len(cases) < n and tries < n * 40:
        tries += 1
        c = proggen.gen_case(r, 3, robust=r.random() < 0.5)
        src = c['templates'][0]['source']
        if '<dtml-in' in src and any(k in src for k in need):
            cases.append(proggen.wrap_case(c) if r.random() < 0.5 else c)
    runs = run_cases(res, cases)
    if faults:
        fc, fp = [], []
        for (c, plan, impl, m) in runs:
            for k in range(min(impl['calls'], 3)):
                fc.append(c)
                fp.append(((k,), r.choice(['ValueError', 'KeyError', 'E2', 'TypeError'])))
        runs = runs + run_cases(res, fc, fp)
    compared = 0
    for (c, plan, impl, m) in runs:
        res.evaluations += 1
        if m is None:
            continue
        d = compare(impl, m)
        if d == 'oom':
            res.count('inx_outside_model')
            continue
        compared += 1
        res.corr_checked += 1
        res.count('inx_slice_compared')
        if d:
            res.corr_mismatch.append({'case': {'program': brief(c), 'faults': list(plan[0]), 'fault_cls': plan[1],
                                               'slice': 'dtml-in with sort/reverse/batch options'},
                                      'impl': impl['result'], 'model': m['result'], 'diff': d})
    return compared
