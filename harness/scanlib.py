"""Real-scanner side of the token correspondence: run tagre().search the way String.parse does."""


def real_tokens(syntax, src):
    from DocumentTemplate import HTML, String
    t = (HTML if syntax == 'html' else String)('')
    rx = t.tagre()
    out = []
    start = 0
    while True:
        mo = rx.search(src, start)
        if not mo:
            break
        l_ = mo.start(0)
        if syntax == 'html':
            tag, end, name, args = mo.group(0, 'end', 'name', 'args')
            tok = [tag, bool(end), name, args, '']
        else:
            tag, name, args, fmt = mo.group(0, 'name', 'args', 'fmt')
            tok = [tag, fmt == ']', name, args or '', fmt]
        out.append([src[start:l_], tok])
        start = l_ + len(tag)
        if len(tag) == 0:
            raise RuntimeError('empty tag')
    return {'toks': out, 'tail': src[start:]}
