"""Deterministic line-level thread scheduler for the concurrency property (C18).

Only one thread runs at a time.  Every 'line' event inside the DocumentTemplate package is a yield point; a schedule is a
script [(tid, n), …]: let thread `tid` pass n yield points (or finish / block), then go on with the next entry; when the
script is exhausted the remaining threads run to completion one after the other.  DT_String.COOKLOCK is replaced by a
scheduler-aware lock (a blocked thread hands the baton on instead of blocking the OS thread).
The scheduler explores; it proves nothing.
"""
import os
import sys
import threading

INF = 10 ** 9


class Deadlock(Exception):
    pass


class Scheduler:
    def __init__(self, script, marks=None, pkg_dir=None):
        self.script = list(script)
        self.seg = 0
        self.until = None
        self.budget = INF
        self.current = self.script[0][0] if self.script else 0
        if self.script:
            self._load(self.script[0][1])
        self.cv = threading.Condition()
        self.finished = set()
        self.blocked = set()
        self.nthreads = 0
        self.steps = {}
        self.events = []           # (tid, kind) shared-access events, in the order they took effect
        self.marks = marks or {}   # (filename, lineno) -> kind
        self.pkg_dir = pkg_dir
        self.trace_log = None      # optional: list of (tid, lineno, filename) for the solo trace
        self.lock_owner = None
        self.owners = {}
        self.waiting = {}          # tid -> key of the lock it is parked at
        self.failed = None
        self.last_kind = {}
        self.mark_self = None      # marks count only for this object's frames (sub-templates run the same lines)

    def _load(self, n):
        """a segment length is a number of yield points, or ('after', kind, extra): run until the thread's event `kind`
        took effect, then `extra` more yield points"""
        if isinstance(n, tuple):
            self.until, self.budget = (n[1], n[2]), INF
        else:
            self.until, self.budget = None, n

    def _note(self, tid, kind):
        self.events.append((tid, kind))
        self.last_kind[tid] = kind
        if self.until is not None and tid == self.current and kind == self.until[0]:
            self.budget = self.until[1]
            self.until = None

    # ---- baton
    def _runnable(self, tid):
        # a thread parked at a lock that has been released meanwhile is runnable although it has not yet had the chance to take
        # itself out of `blocked` (it needs the OS to run it for that; the releasing thread may pass hundreds of yield
        # points, or finish, within one GIL slice): without this the script entry of such a thread was skipped and, at the
        # end of the script, "all unfinished threads are blocked" was declared with the lock free
        if tid in self.finished:
            return False
        return tid not in self.blocked or self.owners.get(self.waiting.get(tid, 'cook')) is None

    def _advance(self):
        """choose who runs next (called with cv held)"""
        while True:
            self.seg += 1
            if self.seg < len(self.script):
                tid, n = self.script[self.seg]
                if self._runnable(tid) and (isinstance(n, tuple) or n > 0):
                    self.current = tid
                    self._load(n)
                    break
            else:
                cand = [t for t in range(self.nthreads) if self._runnable(t)]
                if not cand:
                    if len(self.finished) < self.nthreads:
                        self.failed = Deadlock('all unfinished threads are blocked')
                        self.current = -1
                    else:
                        self.current = -1
                    break
                self.current, self.budget, self.until = cand[0], INF, None
                break
        self.cv.notify_all()

    def _wait_turn(self, tid):
        while self.current != tid:
            if self.failed is not None:
                raise self.failed
            self.cv.wait(timeout=20)
            if self.current != tid and self.failed is None and self.current == -1:
                raise Deadlock('scheduler stopped')

    def yield_point(self, tid, filename=None, lineno=None, slf=None):
        with self.cv:
            self.steps[tid] = self.steps.get(tid, 0) + 1
            if self.trace_log is not None:
                self.trace_log.append((tid, filename, lineno))
            self.budget -= 1
            if self.budget < 0:
                self._advance()
            self._wait_turn(tid)
            kind = self.marks.get((filename, lineno))
            if kind and (self.mark_self is None or slf is self.mark_self):
                # a statement spread over several lines produces several line events: one event
                if not (kind == 'readBlocks' and self.last_kind.get(tid) == 'readBlocks'):
                    self._note(tid, kind)

    def thread_start(self, tid):
        with self.cv:
            self._wait_turn(tid)

    def thread_end(self, tid):
        with self.cv:
            self.events.append((tid, 'finish'))
            self.finished.add(tid)
            if self.current == tid:
                self._advance()

    # ---- the cook lock
    # `key`: which lock ('cook' = DT_String.COOKLOCK, the one the model knows; any other = a lock the library created through
    # the Lock / RLock names of its modules while a scheduled run was going on, e.g. a lock per template)
    def lock_acquire(self, tid, key='cook'):
        with self.cv:
            while self.owners.get(key) is not None and self.owners.get(key) != tid:
                self.waiting[tid] = key
                self.blocked.add(tid)
                if self.current == tid:
                    self._advance()
                self._wait_turn_blocked(tid, key)
            self.owners[key] = tid
            if key == 'cook':
                self.lock_owner = tid
                self._note(tid, 'acquire')

    def _wait_turn_blocked(self, tid, key='cook'):
        # wait until the lock is free, then until it is our turn again
        while self.owners.get(key) is not None:
            if self.failed is not None:
                raise self.failed
            self.cv.wait(timeout=20)
        self.blocked.discard(tid)
        if self.current == -1 or not self._runnable(self.current):
            self.current, self.budget, self.until = tid, INF, None
            self.cv.notify_all()
        self._wait_turn(tid)

    def lock_release(self, tid, key='cook'):
        with self.cv:
            self.owners[key] = None
            if key == 'cook':
                self.lock_owner = None
                self._note(tid, 'release')
            self.cv.notify_all()


class SchedLock:
    def __init__(self, sched_ref, key='cook'):
        self.ref = sched_ref
        self.key = key

    def _tid(self):
        return int(threading.current_thread().name.split('-')[-1])

    def __enter__(self):
        s = self.ref[0]
        if s is not None:
            s.lock_acquire(self._tid(), self.key)
        return self

    def __exit__(self, *a):
        s = self.ref[0]
        if s is not None:
            s.lock_release(self._tid(), self.key)
        return False

    def acquire(self, *a, **k):
        self.__enter__()
        return True

    def release(self):
        self.__exit__()


def run_threads(bodies, script, marks, pkg_dir, want_trace=False, mark_self=None):
    """bodies: list of callables (one per thread).  Returns (results, scheduler)."""
    import DocumentTemplate.DT_String as DTS
    sched = Scheduler(script, marks, pkg_dir)
    sched.nthreads = len(bodies)
    sched.mark_self = mark_self
    if want_trace:
        sched.trace_log = []
    ref = [sched]
    old_lock = DTS.COOKLOCK
    DTS.COOKLOCK = SchedLock(ref)
    # locks the library creates itself during the run (through the Lock / RLock names of its own modules) must be known to
    # the scheduler too: a thread parked by the scheduler while it holds a real lock would block the others for good
    counter = [0]

    def new_lock(*a, **k):
        counter[0] += 1
        return SchedLock(ref, 'lock-%d' % counter[0])
    patched = []
    for mname, mod in list(sys.modules.items()):
        if mod is not None and (mname.startswith('DocumentTemplate') or mname.startswith('TreeDisplay')):
            for gname, val in list(vars(mod).items()):
                if val is threading.Lock or val is threading.RLock:
                    patched.append((mod, gname, val))
                    setattr(mod, gname, new_lock)
    results = [None] * len(bodies)

    def make(tid, body):
        def tracer(frame, event, arg):
            fn = frame.f_code.co_filename
            if not fn.startswith(pkg_dir):
                return None
            if '/tests/' in fn:
                return None

            def local(frame, event, arg):
                if event == 'line':
                    sched.yield_point(tid, fn, frame.f_lineno, frame.f_locals.get('self'))
                return local
            return local

        def target():
            try:
                sched.thread_start(tid)
                sys.settrace(tracer)
                try:
                    results[tid] = ('ok', body())
                except Deadlock as e:
                    results[tid] = ('deadlock', str(e))
                except BaseException as e:  # noqa
                    results[tid] = ('raise', '%s: %s' % (type(e).__name__, str(e)[:200]))
                finally:
                    sys.settrace(None)
            finally:
                try:
                    sched.thread_end(tid)
                except Deadlock:
                    pass
        return target
    threads = [threading.Thread(target=make(i, b), name='sched-%d' % i, daemon=True) for i, b in enumerate(bodies)]
    try:
        for t in threads:
            t.start()
        for t in threads:
            t.join(timeout=60)
    finally:
        DTS.COOKLOCK = old_lock
        for mod, gname, val in patched:
            setattr(mod, gname, val)
        ref[0] = None
    if any(t.is_alive() for t in threads):
        with sched.cv:
            sched.failed = Deadlock('timeout')
            sched.cv.notify_all()
        return [('hang', '')] * len(bodies), sched
    return results, sched
