"""Translator for sequence_variables.statistics (DT_InSV.py) -> lean/DTML/GenStats.lean, regenerated on every run.

Three pieces of the method are translated statement by statement (assignments update a record of the method's variables,
if / else become `if … then … else`, `data['<stat>-%s' % name] = v` appends an entry to the output table):

  * the numeric branch of the accumulation loop (the body of the inner `try:` up to `except TypeError`)
        -> GenStats.stepGen    : the loop variables after one numeric item
  * the block `try:  # Numeric statistics`
        -> GenStats.derivedGen : mean / total / variances / standard deviations from count, sum, sum of squares
  * the median rule for more than one value
        -> GenStats.medianGen

Props/C16 proves them equal to the hand-written model Stats.step / mean / varianceN / variance / median, about which the
property theorems are stated.  Numbers are rationals (Python ints exactly; a float as the rational it denotes); the
statement `if sumsq < 0: sumsq = 0.0` is translated like every other and proved to be a no-op on exact numbers
(variance_nonneg).  Anything outside the translated fragment raises Untranslatable: the stand-in that is written then
makes exactly the obligations `gen_statistics_*` fail.
"""
import ast
import os

from consts import Untranslatable, find_class, lstr, parse_file

RAT, OPT, LST = 'Rat', 'Option Rat', 'List Rat'

ACC_FIELDS = [('sum', RAT), ('sumsq', RAT), ('s', RAT), ('min', OPT), ('max', OPT), ('values', LST)]
DER_FIELDS = [('sum', RAT), ('sumsq', RAT), ('n', RAT), ('mean', RAT), ('out', 'List (String × SVal)')]


class Ctx:
    def __init__(self, fields, rec, params, int_ok=False):
        self.fields = dict(fields)
        self.rec = rec                 # name of the record type
        self.params = params           # python name -> lean text (typed Rat / Nat)
        self.int_ok = int_ok
        self.n = 0

    def fresh(self):
        self.n += 1
        return 'a%d' % self.n


def expr(e, cur, cx):
    """Rat-valued expression"""
    if isinstance(e, ast.Name):
        if e.id in cx.params:
            return cx.params[e.id]
        if cx.fields.get(e.id) == RAT:
            return '%s.%s' % (cur, e.id)
        raise Untranslatable('name %s in a numeric expression' % e.id)
    if isinstance(e, ast.Constant) and isinstance(e.value, (int, float)) and not isinstance(e.value, bool):
        if float(e.value) != int(e.value):
            raise Untranslatable('constant %r' % e.value)
        return '(%d : Rat)' % int(e.value)
    if isinstance(e, ast.BinOp):
        ops = {ast.Add: '+', ast.Sub: '-', ast.Mult: '*', ast.Div: '/'}
        for k, v in ops.items():
            if isinstance(e.op, k):
                return '(%s %s %s)' % (expr(e.left, cur, cx), v, expr(e.right, cur, cx))
        raise Untranslatable('operator ' + ast.dump(e.op))
    if isinstance(e, ast.Call) and getattr(e.func, 'id', None) == 'int' and len(e.args) == 1 and cx.int_ok:
        return expr(e.args[0], cur, cx)           # int(x) of an int is x (only inside `if isinstance(item, int)`)
    if isinstance(e, ast.Call) and getattr(e.func, 'id', None) == 'float' and len(e.args) == 1 and \
            getattr(e.args[0], 'id', None) == 'count' and 'count' in cx.params:
        return '(count : Rat)'
    raise Untranslatable('expression ' + ast.unparse(e))


def cond(e, cur, cx):
    u = ast.unparse(e)
    if u == 'isinstance(item, int)' or u == 'isinstance(median, int)':
        return 'isInt = true'
    if isinstance(e, ast.Compare) and len(e.ops) == 1:
        l, r, op = e.left, e.comparators[0], e.ops[0]
        if isinstance(op, ast.Is) and isinstance(r, ast.Constant) and r.value is None and \
                cx.fields.get(getattr(l, 'id', None)) == OPT:
            return '%s.%s = none' % (cur, l.id)
        if isinstance(op, (ast.Lt, ast.Gt)) and cx.fields.get(getattr(r, 'id', None)) == OPT:
            return '%s %s %s.%s = true' % ('ltO' if isinstance(op, ast.Lt) else 'gtO', expr(l, cur, cx), cur, r.id)
        if getattr(l, 'id', None) == 'count' and isinstance(r, ast.Constant) and isinstance(r.value, int):
            ops = {ast.Lt: '<', ast.Gt: '>', ast.LtE: '≤', ast.GtE: '≥', ast.Eq: '=', ast.NotEq: '≠'}
            for k, v in ops.items():
                if isinstance(op, k):
                    return 'count %s %d' % (v, r.value)
        ops = {ast.Lt: '<', ast.Gt: '>', ast.LtE: '≤', ast.GtE: '≥'}
        for k, v in ops.items():
            if isinstance(op, k):
                return '%s %s %s' % (expr(l, cur, cx), v, expr(r, cur, cx))
    raise Untranslatable('condition ' + u)


def stat_key(t):
    """data['<stat>-%s' % name] -> '<stat>'"""
    if isinstance(t, ast.Subscript) and getattr(t.value, 'id', None) == 'data' and isinstance(t.slice, ast.BinOp) and \
            isinstance(t.slice.op, ast.Mod) and isinstance(t.slice.left, ast.Constant) and \
            isinstance(t.slice.left.value, str) and t.slice.left.value.endswith('-%s') and \
            getattr(t.slice.right, 'id', None) == 'name':
        return t.slice.left.value[:-3]
    return None


def block(stmts, cur, cx, pad):
    """Lean term (of the record type) for the state after `stmts` starting from the state named `cur`"""
    lines = []
    for n in stmts:
        new = cx.fresh()
        if isinstance(n, ast.Assign) and all(isinstance(t, ast.Name) for t in n.targets) and \
                all(t.id in cx.fields for t in n.targets):
            v = expr(n.value, cur, cx)
            ups = []
            for t in n.targets:
                ty = cx.fields[t.id]
                ups.append('%s := %s' % (t.id, v if ty == RAT else 'some %s' % v if ty == OPT else None))
            rhs = '{ %s with %s }' % (cur, ', '.join(ups))
        elif isinstance(n, ast.Assign) and len(n.targets) == 1 and stat_key(n.targets[0]) is not None and \
                'out' in cx.fields:
            k = stat_key(n.targets[0])
            if isinstance(n.value, ast.Constant) and n.value.value == '':
                v = 'SVal.empty'
            elif isinstance(n.value, ast.Call) and getattr(n.value.func, 'id', None) == 'sqrt' and len(n.value.args) == 1:
                v = 'SVal.sqrt %s' % expr(n.value.args[0], cur, cx)
            else:
                v = 'SVal.num %s' % expr(n.value, cur, cx)
            rhs = '{ %s with out := %s.out ++ [(%s, %s)] }' % (cur, cur, lstr(k), v)
        elif isinstance(n, ast.Expr) and ast.unparse(n) == 'values.append(item)' and cx.fields.get('values') == LST:
            rhs = '{ %s with values := %s.values ++ [%s] }' % (cur, cur, cx.params['item'])
        elif isinstance(n, ast.If):
            is_int = ast.unparse(n.test).startswith('isinstance(')
            old = cx.int_ok
            cx.int_ok = old or is_int
            a = block(n.body, cur, cx, pad + '    ')
            cx.int_ok = old
            b = block(n.orelse, cur, cx, pad + '    ') if n.orelse else cur
            rhs = 'if %s then\n%s    (%s)\n%s  else\n%s    (%s)' % (cond(n.test, cur, cx), pad, a, pad, pad, b)
        else:
            raise Untranslatable('statement ' + ast.unparse(n)[:80])
        lines.append('let %s : %s := %s' % (new, cx.rec, rhs))
        cur = new
    if not lines:
        return cur
    return ('\n' + pad).join(lines) + '\n' + pad + cur


def pieces():
    tree = parse_file('DocumentTemplate/DT_InSV.py')
    cls = find_class(tree, 'sequence_variables')
    fn = [n for n in cls.body if isinstance(n, ast.FunctionDef) and n.name == 'statistics'][0]
    body = list(fn.body)
    head = [ast.unparse(n) for n in body[:8]]
    if head != ['items = self.items', 'data = self.data', "mapping = data['mapping']", 'count = sum = sumsq = 0',
                'min = max = None', 'smin = smax = None', 'values = []', 'svalues = []']:
        raise Untranslatable('initialisation of statistics(): %r' % head)
    loop = body[8]
    if not (isinstance(loop, ast.For) and ast.unparse(loop.target) == 'item' and ast.unparse(loop.iter) == 'items' and
            len(loop.body) == 1 and isinstance(loop.body[0], ast.Try)):
        raise Untranslatable('accumulation loop')
    outer = loop.body[0]
    if ast.unparse(outer.handlers[0]) != 'except Exception:\n    pass' or len(outer.body) != 2 or \
            not isinstance(outer.body[1], ast.Try):
        raise Untranslatable('accumulation loop frame')
    inner = outer.body[1]
    if len(inner.handlers) != 1 or ast.unparse(inner.handlers[0].type) != 'TypeError':
        raise Untranslatable('numeric branch handler')
    num = list(inner.body)
    if ast.unparse(num[0]) != 'if item is mv:\n    item = None':
        raise Untranslatable('missing-value test')
    cx = Ctx(ACC_FIELDS, 'StAcc', {'item': 'item'})
    step = block(num[1:], 'a0', cx, '  ')

    # count = len(values); try: <derived> except ZeroDivisionError
    k = 9
    if not (isinstance(body[k], ast.For) and ast.unparse(body[k].iter) == 'self.statistic_names'):
        raise Untranslatable('initialisation of the statistics to empty strings')
    if ast.unparse(body[k + 1]) != 'count = len(values)':
        raise Untranslatable('count = len(values)')
    der = body[k + 2]
    if not (isinstance(der, ast.Try) and len(der.handlers) == 1 and
            ast.unparse(der.handlers[0].type) == 'ZeroDivisionError'):
        raise Untranslatable('numeric statistics block')
    cx2 = Ctx(DER_FIELDS, 'StDer', {'count': 'count'})
    derived = block(der.body, 'a0', cx2, '  ')

    # data['count-%s' % name] = count; if min is not None: min / max / values.sort() / median
    if stat_key(body[k + 3].targets[0]) != 'count' or ast.unparse(body[k + 3].value) != 'count':
        raise Untranslatable('count entry')
    tail = body[k + 4]
    if not (isinstance(tail, ast.If) and ast.unparse(tail.test) == 'min is not None' and not tail.orelse):
        raise Untranslatable('min / max / median block')
    tb = tail.body
    if [ast.unparse(x) for x in tb[:3]] != ["data['min-%s' % name] = min", "data['max-%s' % name] = max",
                                              'values.sort()']:
        raise Untranslatable('min / max entries, sort')
    med = tb[3]
    if not (isinstance(med, ast.If) and ast.unparse(med.test) == 'count == 1' and
            ast.unparse(med.body[0]) == "data['median-%s' % name] = min" and len(med.orelse) == 1 and
            isinstance(med.orelse[0], ast.If)):
        raise Untranslatable('median of one value')
    odd = med.orelse[0]
    if ast.unparse(odd.test) != 'count % 2 != 0' or \
            ast.unparse(odd.body[0]) != "data['median-%s' % name] = values[count // 2]":
        raise Untranslatable('median of an odd count')
    ev = odd.orelse
    if ast.unparse(ev[0]) != 'half = count // 2' or not isinstance(ev[1], ast.Try):
        raise Untranslatable('median of an even count')
    tb2 = ev[1].body
    if ast.unparse(tb2[0]) != 'median = values[half] + values[half - 1]' or \
            ast.unparse(tb2[2]) != "data['median-%s' % name] = median" or not isinstance(tb2[1], ast.If) or \
            ast.unparse(tb2[1].test) != 'isinstance(median, int)':
        raise Untranslatable('median of an even count: %s' % ast.unparse(ev[1])[:200])

    def halve(stmts):
        if len(stmts) != 1 or not isinstance(stmts[0], ast.Assign) or ast.unparse(stmts[0].targets[0]) != 'median':
            raise Untranslatable('halving')
        v = stmts[0].value
        if isinstance(v, ast.BinOp) and ast.unparse(v.left) == 'median' and isinstance(v.right, ast.Constant):
            d = '(%d : Rat)' % v.right.value
            if isinstance(v.op, ast.FloorDiv):
                return '((Rat.floor (median / %s) : Int) : Rat)' % d
            if isinstance(v.op, ast.Div):
                return '(median / %s)' % d
        raise Untranslatable('halving ' + ast.unparse(v))
    median = ('if isInt = true then %s else %s' % (halve(tb2[1].body), halve(tb2[1].orelse)))
    return step, derived, median


HEADER = '''/- GENERATED by harness/trans_stats.py from /repo/src/DocumentTemplate/DT_InSV.py (sequence_variables.statistics)
   on every run.  Do not edit. -/
import DTML.Stats
namespace DTML.GenStats
open DTML.Stats

/-- `item < min` / `item > max` for a bound that may still be None (only evaluated when it is not) -/
def ltO (x : Rat) (m : Option Rat) : Bool := match m with | some v => decide (x < v) | none => false
def gtO (x : Rat) (m : Option Rat) : Bool := match m with | some v => decide (x > v) | none => false

/-- an entry of the statistics table: a number, the square root of a number (external), or '' -/
inductive SVal where
  | num (r : Rat)
  | sqrt (r : Rat)
  | empty
  deriving DecidableEq

/-- the variables of the accumulation loop -/
structure StAcc where
  sum : Rat
  sumsq : Rat
  s : Rat
  min : Option Rat
  max : Option Rat
  values : List Rat

/-- the variables of the block of numeric statistics -/
structure StDer where
  sum : Rat
  sumsq : Rat
  n : Rat
  mean : Rat
  out : List (String × SVal)

'''


def generate():
    try:
        step, derived, median = pieces()
        why = None
    except (Untranslatable, AttributeError, IndexError, KeyError, TypeError, ValueError) as e:
        # (a shape of the source the translator does not even recognise counts as outside the translated fragment)
        why = str(e).replace('-/', '- /')
    if why is not None:
        return HEADER + ('/- statistics() could not be translated: %s -/\n'
                         'def stepGen (isInt : Bool) (a0 : StAcc) (item : Rat) : StAcc := { a0 with values := [] }\n'
                         'def derivedGen (count : Nat) (sum sumsq : Rat) : List (String × SVal) := []\n'
                         'def medianGen (isInt : Bool) (values : List Rat) (count : Nat) (min : Option Rat) : '
                         'Option Rat := none\n\nend DTML.GenStats\n' % why)
    L = [HEADER.rstrip('\n'), '',
         '/-- one numeric item: the body of the inner `try:` of the accumulation loop -/',
         'def stepGen (isInt : Bool) (a0 : StAcc) (item : Rat) : StAcc :=',
         '  ' + step, '',
         '/-- the block `try:  # Numeric statistics` -/',
         'def derivedGen (count : Nat) (sum sumsq : Rat) : List (String × SVal) :=',
         '  let a0 : StDer := ⟨sum, sumsq, 0, 0, []⟩',
         '  let r : StDer :=',
         '  ' + derived.replace('\n', '\n  '),
         '  r.out', '',
         '/-- the median rule (after `values.sort()`) -/',
         'def medianGen (isInt : Bool) (values : List Rat) (count : Nat) (min : Option Rat) : Option Rat :=',
         '  if count = 1 then min',
         '  else if count % 2 ≠ 0 then values[count / 2]?',
         '  else',
         '    let half := count / 2',
         '    (values[half]?).bind fun v1 => (values[half - 1]?).bind fun v2 =>',
         '      let median : Rat := v1 + v2',
         '      some (%s)' % median, '',
         'end DTML.GenStats', '']
    return '\n'.join(L)


def write(lean_dir):
    path = os.path.join(lean_dir, 'DTML', 'GenStats.lean')
    text = generate()
    old = open(path).read() if os.path.exists(path) else None
    if old != text:
        with open(path, 'w') as f:
            f.write(text)
    return text
