"""Translator for DT_Var.Var.render -> lean/DTML/GenVar.lean, regenerated on every run.

  * `varRenderStages` : the order of the stages of `Var.render`, read off its top-level statements (fetch the value incl.
    `missing`, the `null` test, `fmt=`, the C-style format, the loop over `self.modifiers`, `size` / `etc`, the final
    quoting of a still-tainted value, `return val`) - a statement that is none of these is listed by its text, so any
    new stage or reordering changes the table;
  * `varNullTest` : the text of the null test;
  * `truncGen` : the block `if len(val) > size: …` translated statement by statement (slices, `rfind(' ')`, the
    comparison `l_ > size / 2` as `2 * l_ > size`, the default `'...'`, concatenation).

Props/C15 proves the table equal to the order the model `VarPipe.renderFull` implements (gen_var_render_stages) and
`truncGen` equal to `VarPipe.truncate` (gen_truncate_is_model), about which `truncate_spec` is stated.
"""
import ast
import os

from consts import Untranslatable, find_class, lstr, llist, parse_file


def stage_of(n):
    u = ast.unparse(n)
    if u in ('args = self.args', 'name = self.__name__', 'val = self.expr', '__traceback_info__ = (name, val, args)'):
        return None
    if isinstance(n, ast.If) and ast.unparse(n.test) == 'val is None':
        return 'fetch'
    if isinstance(n, ast.If) and ast.unparse(n.test).startswith("'null' in args") and \
            [ast.unparse(x) for x in n.body] == ["return args['null']"] and not n.orelse:
        return 'null'
    if isinstance(n, ast.If) and ast.unparse(n.test) == "'fmt' in args" and not n.orelse:
        return 'fmt'
    if u == 'fmt = self.fmt':
        return None
    if isinstance(n, ast.If) and ast.unparse(n.test) == "fmt == 's'":
        return 'cformat'
    if isinstance(n, ast.For) and ast.unparse(n.iter) == 'self.modifiers':
        return 'modifiers'
    if isinstance(n, ast.If) and ast.unparse(n.test) == "'size' in args" and not n.orelse:
        return 'size'
    if u == 'if isinstance(val, TaintedString):\n    val = val.quoted()':
        return 'taint-quote'
    if u == 'return val':
        return 'return'
    return 'other: ' + u[:60]


class Tr:
    """typed straight-line translation of the truncation block: variables are Text or Int"""

    def __init__(self):
        self.env = {'val': ('val', 'T'), 'size': ('size', 'I')}
        self.n = 0
        self.lines = []

    def fresh(self, base):
        self.n += 1
        return '%s%d' % (base.replace('_', 'x'), self.n)

    def expr(self, e):
        """returns (lean text, type)"""
        if isinstance(e, ast.Name):
            if e.id in self.env:
                return self.env[e.id]
            raise Untranslatable('name ' + e.id)
        if isinstance(e, ast.Constant) and isinstance(e.value, str):
            return '%s.toList' % lstr(e.value), 'T'
        if isinstance(e, ast.Constant) and isinstance(e.value, int) and not isinstance(e.value, bool):
            return '(%d : Int)' % e.value, 'I'
        if isinstance(e, ast.Subscript) and isinstance(e.slice, ast.Slice) and e.slice.lower is None and \
                e.slice.step is None and e.slice.upper is not None:
            v, tv = self.expr(e.value)
            k, tk = self.expr(e.slice.upper)
            if tv == 'T' and tk == 'I':
                return 'sliceTo %s %s' % (v, k), 'T'
        if isinstance(e, ast.Subscript) and ast.unparse(e) == "args['etc']":
            return 'etcArg', 'T'
        if isinstance(e, ast.Call) and isinstance(e.func, ast.Attribute) and e.func.attr == 'rfind' and \
                len(e.args) == 1 and isinstance(e.args[0], ast.Constant) and e.args[0].value == ' ':
            v, tv = self.expr(e.func.value)
            if tv == 'T':
                return 'rfindSpace %s' % v, 'I'
        if isinstance(e, ast.Call) and getattr(e.func, 'id', None) == 'len' and len(e.args) == 1:
            v, tv = self.expr(e.args[0])
            if tv == 'T':
                return '(%s.length : Int)' % v, 'I'
        if isinstance(e, ast.BinOp) and isinstance(e.op, ast.Add):
            a, ta = self.expr(e.left)
            b, tb = self.expr(e.right)
            if ta == tb == 'T':
                return '(%s ++ %s)' % (a, b), 'T'
            if ta == tb == 'I':
                return '(%s + %s)' % (a, b), 'I'
        raise Untranslatable('expression ' + ast.unparse(e))

    def cond(self, e):
        if isinstance(e, ast.Compare) and len(e.ops) == 1 and isinstance(e.ops[0], ast.Gt):
            l, r = e.left, e.comparators[0]
            # a > b / c  (true division by a positive constant)  ==  c * a > b
            if isinstance(r, ast.BinOp) and isinstance(r.op, ast.Div) and isinstance(r.right, ast.Constant) and \
                    isinstance(r.right.value, int) and r.right.value > 0:
                a, ta = self.expr(l)
                b, tb = self.expr(r.left)
                if ta == tb == 'I':
                    return '(%d : Int) * %s > %s' % (r.right.value, a, b)
            a, ta = self.expr(l)
            b, tb = self.expr(r)
            if ta == tb == 'I':
                return '%s > %s' % (a, b)
        if ast.unparse(e) == "'etc' in args":
            return 'hasEtc = true'
        raise Untranslatable('condition ' + ast.unparse(e))

    def assign_target(self, n):
        if isinstance(n, ast.Assign) and len(n.targets) == 1 and isinstance(n.targets[0], ast.Name):
            return n.targets[0].id
        return None

    def stmts(self, body):
        for n in body:
            t = self.assign_target(n)
            if t is not None:
                v, ty = self.expr(n.value)
                new = self.fresh(t)
                self.lines.append('let %s : %s := %s' % (new, 'Text' if ty == 'T' else 'Int', v))
                self.env[t] = (new, ty)
            elif isinstance(n, ast.If) and len(n.body) == 1 and self.assign_target(n.body[0]) is not None and \
                    (not n.orelse or (len(n.orelse) == 1 and self.assign_target(n.orelse[0]) == self.assign_target(n.body[0]))):
                t = self.assign_target(n.body[0])
                c = self.cond(n.test)
                a, ta = self.expr(n.body[0].value)
                if n.orelse:
                    b, tb = self.expr(n.orelse[0].value)
                else:
                    if t not in self.env:
                        raise Untranslatable('conditional assignment of an unbound variable ' + t)
                    b, tb = self.env[t]
                if ta != tb:
                    raise Untranslatable('branches of different types: ' + ast.unparse(n)[:80])
                new = self.fresh(t)
                self.lines.append('let %s : %s := if %s then %s else %s' % (new, 'Text' if ta == 'T' else 'Int', c, a, b))
                self.env[t] = (new, ta)
            else:
                raise Untranslatable('statement ' + ast.unparse(n)[:80])


def pieces():
    tree = parse_file('DocumentTemplate/DT_Var.py')
    cls = find_class(tree, 'Var')
    fn = [n for n in cls.body if isinstance(n, ast.FunctionDef) and n.name == 'render'][0]
    stages = [s for s in (stage_of(n) for n in fn.body) if s is not None]
    null = [n for n in fn.body if stage_of(n) == 'null']
    null_test = ast.unparse(null[0].test) if null else ''
    size = [n for n in fn.body if stage_of(n) == 'size']
    if len(size) != 1:
        raise Untranslatable('size block')
    sb = size[0].body
    if ast.unparse(sb[0]) != "size = args['size']" or not isinstance(sb[1], ast.Try) or \
            [ast.unparse(x) for x in sb[1].body] != ['size = int(size)'] or len(sb) != 3 or not isinstance(sb[2], ast.If) \
            or sb[2].orelse:
        raise Untranslatable('size block frame: ' + ast.unparse(size[0])[:200])
    tr = Tr()
    test = tr.cond(sb[2].test)
    tr.stmts(sb[2].body)
    final, ty = tr.env['val']
    if ty != 'T':
        raise Untranslatable('val is not text after the block')
    return stages, null_test, test, tr.lines, final


HEADER = '''/- GENERATED by harness/trans_var.py from /repo/src/DocumentTemplate/DT_Var.py (Var.render) on every run.  Do not edit. -/
import DTML.VarPipe
namespace DTML.GenVar
open DTML.Quote DTML.VarPipe

'''


def generate():
    try:
        stages, null_test, test, lines, final = pieces()
    except (Untranslatable, AttributeError, IndexError, KeyError, TypeError, ValueError) as e:
        # (a shape of the source the translator does not even recognise counts as outside the translated fragment)
        why = str(e).replace('-/', '- /')
        return HEADER + ('/- Var.render could not be translated: %s -/\n'
                         'def varRenderStages : List String := []\ndef varNullTest : String := ""\n'
                         'def truncGen (size : Int) (hasEtc : Bool) (etcArg : Text) (val : Text) : Text := []\n\n'
                         'end DTML.GenVar\n' % why)
    L = [HEADER.rstrip('\n'), '',
         'def varRenderStages : List String := ' + llist(stages),
         'def varNullTest : String := ' + lstr(null_test), '',
         "/-- the block `if len(val) > size: …` of the size / etc stage (`hasEtc` / `etcArg`: `'etc' in args`, `args['etc']`) -/",
         'def truncGen (size : Int) (hasEtc : Bool) (etcArg : Text) (val : Text) : Text :=',
         '  if %s then' % test]
    L += ['    ' + l for l in lines]
    L += ['    ' + final, '  else val', '', 'end DTML.GenVar', '']
    return '\n'.join(L)


def write(lean_dir):
    path = os.path.join(lean_dir, 'DTML', 'GenVar.lean')
    text = generate()
    old = open(path).read() if os.path.exists(path) else None
    if old != text:
        with open(path, 'w') as f:
            f.write(text)
    return text
