"""Python side of the parser correspondence: compile with the real classes, classify the outcome,
normalise `_v_blocks` into the same structural form the Lean driver prints (op "compile")."""
import re
import signal

ERR = re.compile(r'^(.*), for tag (.*), on line (\d+) of (.*)$', re.S)
TIMEOUT = 20


class Timeout(Exception):
    pass


def _alarm(signum, frame):
    raise Timeout()


def unquote_html(s):
    return s.replace('&quot;', '"').replace('&gt;', '>').replace('&lt;', '<').replace('&amp;', '&')


def with_alarm(fn, timeout=TIMEOUT):
    """fn() under a SIGALRM watchdog: ('ok', value) | ('timeout', None)"""
    old = signal.signal(signal.SIGALRM, _alarm)
    signal.alarm(timeout)
    try:
        try:
            return ('ok', fn())
        finally:
            signal.alarm(0)
            signal.signal(signal.SIGALRM, old)
    except Timeout:
        return ('timeout', None)


def compile_real(syntax, src, timeout=TIMEOUT):
    """returns dict(status='ok', blocks=...) | dict(status='parse-error', msg, tag, line) |
    dict(status='syntax-error') | dict(status='other', exc=...) | dict(status='timeout')"""
    from DocumentTemplate import HTML, String
    from DocumentTemplate.DT_Util import ParseError
    t = (HTML if syntax == 'html' else String)(src)
    old = signal.signal(signal.SIGALRM, _alarm)
    signal.alarm(timeout)
    try:
        try:
            blocks = t.parse(src)
        finally:
            signal.alarm(0)
            signal.signal(signal.SIGALRM, old)
    except Timeout:
        return {'status': 'timeout'}
    except ParseError as e:
        m = ERR.match(str(e.args[0])) if e.args else None
        if not m:
            return {'status': 'parse-error', 'msg': str(e), 'tag': None, 'line': None}
        tag = m.group(2)
        if syntax == 'html':
            tag = unquote_html(tag)
        return {'status': 'parse-error', 'msg': m.group(1), 'tag': tag, 'line': int(m.group(3))}
    except SyntaxError as e:
        return {'status': 'syntax-error', 'msg': str(e)[:80]}
    except RecursionError:
        return {'status': 'recursion'}
    except BaseException as e:  # noqa
        return {'status': 'other', 'exc': type(e).__name__ + ': ' + str(e)[:100]}
    return {'status': 'ok', 'blocks': blocks}


def expr_ok(src):
    """does Eval(src) compile?  (the model lists the expressions; Python syntax is external)"""
    from DocumentTemplate.DT_Util import Eval
    try:
        Eval(src)
        return True
    except SyntaxError:
        return False
    except RecursionError:
        return False


# --------------------------------------------------------------------------- normal form

def target(name, expr):
    """(name, isExpr) as the model prints it"""
    if expr is None:
        return [name, False]
    return [getattr(expr, 'expr', name) if False else name, True]


def pv(v):
    if isinstance(v, str):
        return v
    return {'dflt': repr(v)}


def params(d, skip=('', 'name', 'expr')):
    return [[k, pv(v)] for k, v in d.items() if k not in skip]


def cond_target(c):
    if isinstance(c, str):
        return [c, False]
    ev = c.__self__           # bound Eval.eval
    return [ev.expr, True]


def norm(blocks):
    return [norm1(b) for b in blocks]


def norm1(b):
    from DocumentTemplate import DT_Var, DT_In, DT_With, DT_Let, DT_Raise, DT_Try, DT_Return
    import TreeDisplay.TreeTag as TT
    if isinstance(b, str):
        return ['lit', b]
    if isinstance(b, tuple):
        if b[0] == 'v':
            t = cond_target(b[1])
            p = [['html_quote', {'dflt': '1'}]] if len(b) == 3 else []
            return ['var'] + t + [p, 's']
        if b[0] == 'i':
            if len(b) == 3 and b[2] is None:
                return ['call'] + cond_target(b[1])
            if len(b) == 4 and b[2] is None:
                return ['unless'] + cond_target(b[1]) + [norm(b[3])]
            secs = list(b[1:])
            els = None
            if len(secs) % 2 == 1:
                els = norm(secs[-1])
                secs = secs[:-1]
            conds = [cond_target(secs[i]) + [norm(secs[i + 1])] for i in range(0, len(secs), 2)]
            return ['if', conds, els]
    if isinstance(b, DT_Var.Var):
        t = [_ex(b.__name__, b.expr is not None), b.expr is not None]
        return ['var'] + t + [params(b.args), b.fmt]
    if isinstance(b, DT_Var.Comment):
        return ['comment']
    if isinstance(b, DT_Return.ReturnTag):
        return ['return', _ex(b.__name__, b.expr is not None), b.expr is not None]
    if hasattr(b, '__self__') and isinstance(b.__self__, DT_In.InClass):
        i = b.__self__
        return ['in', _ex(i.__name__, i.expr is not None), i.expr is not None, params(i.args), norm(i.section),
                norm(i.elses) if i.elses is not None else None]
    if isinstance(b, DT_With.With):
        return ['with', _ex(b.__name__, not isinstance(b.expr, str)), not isinstance(b.expr, str), [], norm(b.section)]
    if isinstance(b, DT_Let.Let):
        return ['let', None, norm(b.section)]
    if isinstance(b, DT_Raise.Raise):
        return ['raise', _ex(b.__name__, b.expr is not None), b.expr is not None, norm(b.section)]
    if isinstance(b, DT_Try.Try):
        return ['try', norm(b.section), [[n, norm(h)] for n, h in (getattr(b, 'handlers', None) or [])],
                norm(b.elseBlock) if b.elseBlock is not None else None,
                norm(b.finallyBlock) if b.finallyBlock is not None else None]
    if isinstance(b, TT.Tree):
        return ['tree']
    return ['?', repr(b)[:60]]


def _ex(name, is_expr):
    # RestrictionCapableEval keeps the expression stripped, newlines replaced by blanks
    if is_expr and isinstance(name, str):
        return name.strip().replace('\n', ' ')
    return name


def _pvm(v):
    """an attribute written without a value takes the table's default: when that default is a string, the real parser
    stores the string itself (indistinguishable from a written value)"""
    if isinstance(v, dict) and 'dflt' in v and v['dflt'][:1] in ('"', "'"):
        import ast
        try:
            return ast.literal_eval(v['dflt'])
        except Exception:  # noqa
            return v
    return v


def _params_m(ps):
    return [[k, _pvm(v)] for k, v in ps]


def norm_model(tree):
    """bring the model's tree to the same (slightly coarser) form as `norm`"""
    out = []
    for n in tree:
        k = n[0]
        if k in ('var', 'call', 'return', 'unless', 'in', 'with', 'raise'):
            n = list(n)
            n[1] = _ex(n[1], n[2])
        if k == 'lit':
            out.append(n)
        elif k == 'var':
            n = list(n)
            n[3] = _params_m(n[3])
            out.append(n)
        elif k in ('call', 'return'):
            out.append(n)
        elif k == 'comment':
            out.append(n)
        elif k == 'unless':
            out.append(['unless', n[1], n[2], norm_model(n[3])])
        elif k == 'if':
            out.append(['if', [[_ex(c[0], c[1]), c[1], norm_model(c[2])] for c in n[1]],
                        norm_model(n[2]) if n[2] is not None else None])
        elif k == 'in':
            out.append(['in', n[1], n[2], _params_m(n[3]), norm_model(n[4]), norm_model(n[5]) if n[5] is not None else None])
        elif k == 'with':
            out.append(['with', n[1], n[2], [], norm_model(n[4])])
        elif k == 'let':
            out.append(['let', None, norm_model(n[2])])
        elif k == 'raise':
            out.append(['raise', n[1], n[2], norm_model(n[3])])
        elif k == 'try':
            secs = n[1]
            hs, els, fin = [], None, None
            for tname, args, body in secs[1:]:
                if tname == 'except':
                    names = args.split() or ['']
                    hs += [[nm, norm_model(body)] for nm in names]
                elif tname == 'else':
                    els = norm_model(body)
                elif tname == 'finally':
                    fin = norm_model(body)
            out.append(['try', norm_model(secs[0][2]), hs, els, fin])
        elif k == 'tree':
            out.append(['tree'])
        else:
            out.append(n)
    return out
