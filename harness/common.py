"""Shared machinery for every property check.

Decision logic (DESIGN.md 2.5):
  1 regenerate lean/DTML/Gen.lean from /repo; lake build; audit (forbidden tokens, axioms)
  2 correspondence run: model (Lean driver) vs /repo working tree
  3 property oracle on the implementation (independent of the model) = failing-input search
  4 verdict: KNOWN-FINDING / VIOLATION / VIOLATION ... no-failing-input-found
  5 evidence/<id>.json
"""
import fcntl
import hashlib
import json
import os
import random
import re
import subprocess
import sys
import time
import traceback

HERE = os.path.dirname(os.path.abspath(__file__))
VERIF = os.path.dirname(HERE)
REPO = os.environ.get('VERIF_REPO', '/repo')
# VERIF_LEAN: another copy of the lake project (used while the project in /verif is being edited); default: /verif/lean
LEAN = os.environ.get('VERIF_LEAN') or os.path.join(VERIF, 'lean')
DRIVER = os.path.join(LEAN, '.lake', 'build', 'bin', 'dtml-driver')
# VERIF_EVID / VERIF_REPLAYS: where a run against a seeded change (bin/seedpar) writes, so that the committed evidence of the
# clean tree is never overwritten by it
EVID = os.environ.get('VERIF_EVID') or os.path.join(VERIF, 'evidence')
REPLAYS = os.environ.get('VERIF_REPLAYS') or os.path.join(VERIF, 'replays')
ALLOWED_AXIOMS = {'propext', 'Classical.choice', 'Quot.sound'}
FORBIDDEN = re.compile(
    r'\bsorry\b|\badmit\b|^\s*axiom\s|native_decide|bv_decide|implemented_by|'
    r'\bunsafe\s|maxHeartbeats\s+0|\bpartial\s+def\b')

# the real code, always from the working tree
sys.path.insert(0, os.path.join(REPO, 'src'))
os.environ.setdefault('PYTHONHASHSEED', '0')
sys.dont_write_bytecode = True


def seed():
    try:
        return int(os.environ.get('VERIF_SEED', '0'))
    except ValueError:
        return 0


def rng(tag=''):
    h = hashlib.sha256(('%d/%s' % (seed(), tag)).encode()).digest()
    return random.Random(int.from_bytes(h[:8], 'big'))


class Result:
    """What a property module hands back."""

    def __init__(self, pid):
        self.pid = pid
        self.evaluations = 0          # cases run on the implementation
        self.nontrivial = set()       # distinct canonical non-trivial cases
        self.samples = []             # a few cases written out
        self.rule = ''
        self.corr_checked = 0         # model-vs-impl comparisons
        self.corr_mismatch = []       # [{'case':..., 'impl':..., 'model':...}]
        self.oracle_fail = []         # [{'case':..., 'what':...}]  (on the implementation)
        self.known_hits = {}          # finding id -> example
        self.dist = {}                # input distribution
        self.assumptions = []
        self.partial = []
        self.exhaustive = False
        self.extra = {}
        self.harness_errors = []

    def count(self, key, n=1):
        self.dist[key] = self.dist.get(key, 0) + n

    def nt(self, key):
        self.nontrivial.add(key if isinstance(key, (str, int, tuple)) else json.dumps(key, sort_keys=True))

    def sample(self, case, every=1, cap=6):
        if len(self.samples) < cap:
            self.samples.append(case)


# ----------------------------------------------------------------------------
# Lean side

def gen_consts():
    """Regenerate lean/DTML/Gen.lean from /repo's current source."""
    from consts import generate
    text = generate()
    path = os.path.join(LEAN, 'DTML', 'Gen.lean')
    old = None
    if os.path.exists(path):
        with open(path) as f:
            old = f.read()
    if old != text:
        with open(path, 'w') as f:
            f.write(text)
    # control flow translated from the source (DT_InSV.opt -> GenCode.lean)
    from consts import write_gencode
    write_gencode()
    return old is not None and old != text


def lake_build(targets=()):
    """lake build, serialised with a file lock.  Returns (ok, log)."""
    lockp = os.path.join(LEAN, '.build.lock')
    with open(lockp, 'w') as lk:
        fcntl.flock(lk, fcntl.LOCK_EX)
        try:
            p = subprocess.run(['lake', 'build'] + list(targets), cwd=LEAN,
                               stdout=subprocess.PIPE, stderr=subprocess.STDOUT,
                               text=True, timeout=3000)
            return p.returncode == 0, p.stdout
        except subprocess.TimeoutExpired as e:
            return False, 'lake build timeout\n' + (e.stdout or '')
        finally:
            fcntl.flock(lk, fcntl.LOCK_UN)


def strip_comments(src):
    """remove /- ... -/ (nested) and -- comments; string and character literals are kept intact"""
    out = []
    i = 0
    depth = 0
    n = len(src)
    while i < n:
        if depth:
            if src.startswith('/-', i):
                depth += 1
                i += 2
            elif src.startswith('-/', i):
                depth -= 1
                i += 2
            else:
                if src[i] == '\n':
                    out.append('\n')
                i += 1
            continue
        ch = src[i]
        if ch == '"':
            j = i + 1
            while j < n and src[j] != '"':
                j += 2 if src[j] == '\\' else 1
            out.append(src[i:j + 1])
            i = j + 1
        elif ch == "'" and i + 2 < n and src[i + 1] == '\\':
            j = src.find("'", i + 3)
            j = j if j >= 0 else i
            out.append(src[i:j + 1])
            i = j + 1
        elif ch == "'" and i + 2 < n and src[i + 2] == "'":
            out.append(src[i:i + 3])
            i += 3
        elif src.startswith('/-', i):
            depth += 1
            i += 2
        elif src.startswith('--', i):
            while i < n and src[i] != '\n':
                i += 1
        else:
            out.append(ch)
            i += 1
    return ''.join(out)


def lean_files():
    res = []
    for root, dirs, files in os.walk(LEAN):
        if '.lake' in root:
            continue
        for f in files:
            if f.endswith('.lean'):
                res.append(os.path.join(root, f))
    return sorted(res)


def grep_forbidden():
    hits = []
    for p in lean_files():
        with open(p) as f:
            src = strip_comments(f.read())
        if os.path.basename(p) == 'Driver.lean':
            # the driver's IO loop is `partial`; it is not part of any theorem
            src = src.replace('partial def loop', 'def loop').replace('partial def parseTree', 'def parseTree').replace('partial def jNode', 'def jNode').replace('partial def', 'def')
        for ln, line in enumerate(src.split('\n'), 1):
            if FORBIDDEN.search(line):
                hits.append('%s:%d: %s' % (os.path.relpath(p, LEAN), ln, line.strip()))
    return hits


THM = re.compile(r'^(?:protected\s+)?theorem\s+([A-Za-z_][A-Za-z0-9_\.\']*)', re.M)
NS = re.compile(r'^namespace\s+(\S+)', re.M)


def property_theorems(pid):
    """Names of the theorems of lean/DTML/Props/<pid>.lean (fully qualified; nested namespaces are followed)."""
    path = os.path.join(LEAN, 'DTML', 'Props', pid + '.lean')
    with open(path) as f:
        src = strip_comments(f.read())
    stack = []          # open namespaces / sections: (kind, name)
    names = []
    for line in src.split('\n'):
        m = re.match(r'^\s*namespace\s+(\S+)', line)
        if m:
            stack.append(('ns', m.group(1)))
            continue
        if re.match(r'^\s*(?:noncomputable\s+)?mutual\s*$', line):
            stack.append(('mut', ''))
            continue
        m = re.match(r'^\s*section\b\s*(\S*)', line)
        if m:
            stack.append(('sec', m.group(1)))
            continue
        m = re.match(r'^\s*end\b\s*(\S*)\s*$', line)
        if m and stack:
            stack.pop()
            continue
        m = re.match(r'^(?:private\s+|protected\s+)?theorem\s+([A-Za-z_][A-Za-z0-9_\.\']*)', line)
        if m and not line.startswith('private'):
            prefix = '.'.join(n for k, n in stack if k == 'ns')
            names.append((prefix + '.' if prefix else '') + m.group(1))
    return names


def audit_axioms(pid):
    """#print axioms for every theorem of Props/<pid>; returns (names, bad, log)."""
    names = property_theorems(pid)
    tmp = os.path.join(LEAN, '.lake', 'audit_%s_%d.lean' % (pid, os.getpid()))
    os.makedirs(os.path.dirname(tmp), exist_ok=True)
    with open(tmp, 'w') as f:
        f.write('import DTML.Props.%s\n' % pid)
        for n in names:
            f.write('#print axioms %s\n' % n)
    try:
        p = subprocess.run(['lake', 'env', 'lean', tmp], cwd=LEAN, stdout=subprocess.PIPE,
                           stderr=subprocess.STDOUT, text=True, timeout=900)
    finally:
        try:
            os.unlink(tmp)
        except OSError:
            pass
    out = p.stdout
    bad = []
    seen = {}
    # "'name' depends on axioms: [a, b]" or "'name' does not depend on any axioms"
    for m in re.finditer(r"'([^']+)' depends on axioms: \[([^\]]*)\]", out):
        axs = [a.strip() for a in m.group(2).replace('\n', ' ').split(',') if a.strip()]
        seen[m.group(1)] = axs
        extra = [a for a in axs if a not in ALLOWED_AXIOMS]
        if extra:
            bad.append('%s uses %s' % (m.group(1), extra))
    for m in re.finditer(r"'([^']+)' does not depend on any axioms", out):
        seen[m.group(1)] = []
    for n in names:
        if n not in seen:
            bad.append('%s: no axiom report (%s)' % (n, 'lean exit %d' % p.returncode))
    if p.returncode != 0:
        bad.append('audit lean exit %d: %s' % (p.returncode, out[-800:]))
    return names, seen, bad, out


def run_driver(reqs, timeout=1800):
    """Send requests (list of dicts) to the model driver; returns list of responses
    ({'ok':...} or {'error':...})."""
    if not reqs:
        return []
    data = '\n'.join(json.dumps(r) for r in reqs) + '\n'
    p = subprocess.run([DRIVER], input=data, stdout=subprocess.PIPE, stderr=subprocess.PIPE,
                       text=True, timeout=timeout)
    if p.returncode != 0:
        raise RuntimeError('driver exit %d: %s' % (p.returncode, p.stderr[-2000:]))
    lines = p.stdout.split('\n')
    if lines and lines[-1] == '':
        lines.pop()
    if len(lines) != len(reqs):
        raise RuntimeError('driver returned %d lines for %d requests; stderr=%s' %
                           (len(lines), len(reqs), p.stderr[-2000:]))
    return [json.loads(l) for l in lines]


# ----------------------------------------------------------------------------
# known findings

def load_findings(pid):
    path = os.path.join(VERIF, 'known_findings.json')
    if not os.path.exists(path):
        return []
    with open(path) as f:
        allf = json.load(f)
    return [x for x in allf if x.get('property') == pid and x.get('kind') == 'finding']


# ----------------------------------------------------------------------------
# verdict

def write_replay(pid, name, obj):
    os.makedirs(REPLAYS, exist_ok=True)
    path = os.path.join(REPLAYS, '%s_%s.json' % (pid, name))
    with open(path, 'w') as f:
        json.dump(obj, f, indent=1, sort_keys=True, default=repr)
    return path


def finish(pid, tier, res, build_ok, build_log, audit_bad, thms, axioms, t0,
           forbidden_hits, search_more=None):
    """Apply the verdict rules, write evidence, print lines, return exit code."""
    lines = []
    rc = 0
    findings = load_findings(pid)
    for fid, ex in sorted(res.known_hits.items()):
        what = next((f['what'] for f in findings if f['id'] == fid), fid)
        lines.append('KNOWN-FINDING: property=%s %s: %s' % (pid, fid, what))

    proof_broken = []
    if not build_ok:
        proof_broken.append({'what': 'lake build failed', 'log_tail': build_log[-3000:]})
    if audit_bad:
        proof_broken.append({'what': 'axiom audit', 'detail': audit_bad})
    if forbidden_hits:
        proof_broken.append({'what': 'forbidden tokens', 'detail': forbidden_hits})

    violations = 0
    if res.oracle_fail:
        violations = len(res.oracle_fail)
        path = write_replay(pid, 'violation', {
            'property': pid, 'kind': 'failing-input', 'first': res.oracle_fail[0],
            'count': len(res.oracle_fail), 'more': res.oracle_fail[1:10],
            'proof_broken': proof_broken,
            'correspondence_mismatches': res.corr_mismatch[:5]})
        lines.append('VIOLATION property=%s replay=%s' % (pid, path))
        rc = 1
    elif proof_broken or res.corr_mismatch:
        # the property is no longer shown to hold; widen the search once
        extra = []
        if search_more is not None:
            try:
                extra = search_more() or []
            except Exception:
                res.harness_errors.append(traceback.format_exc())
        if extra:
            violations = len(extra)
            path = write_replay(pid, 'violation', {
                'property': pid, 'kind': 'failing-input', 'first': extra[0],
                'count': len(extra), 'proof_broken': proof_broken,
                'correspondence_mismatches': res.corr_mismatch[:5]})
            lines.append('VIOLATION property=%s replay=%s' % (pid, path))
        else:
            violations = 1
            broken = []
            if proof_broken:
                broken.append('theorems of lean/DTML/Props/%s.lean no longer check '
                              '(or Gen.lean obligations changed)' % pid)
            if res.corr_mismatch:
                broken.append('model/implementation correspondence for %s' % pid)
            path = write_replay(pid, 'unproved', {
                'property': pid, 'kind': 'no-failing-input-found',
                'no_longer_checks': broken, 'proof_broken': proof_broken,
                'correspondence_mismatches': res.corr_mismatch[:10]})
            lines.append('VIOLATION property=%s replay=%s no-failing-input-found' % (pid, path))
        rc = 1

    if res.harness_errors and rc == 0:
        rc = 2

    names = thms
    discharged = len([n for n in names if n in axioms and
                      all(a in ALLOWED_AXIOMS for a in axioms[n])]) if build_ok else 0
    ev = {
        'property_id': pid,
        'tier': tier,
        'seed': seed(),
        'level': 'proof',
        'coverage': {
            'obligations': len(names),
            'discharged': discharged,
            'checker_cmd': 'cd lean && lake build && lake env lean <#print axioms of Props/%s>%s' % (
                pid, ' && lake env leanchecker DTML.Props.%s' % pid if tier == 'thorough' else ''),
            'trusted_base': [
                'Lean 4.33.0 kernel',
                'axioms used: ' + ', '.join(sorted({a for n in names for a in axioms.get(n, [])})),
                'hand-written model lean/DTML/*.lean validated (not verified) against /repo by the correspondence run below',
                'harness/consts.py (tables -> Gen.lean) and harness canonicalisation',
            ] + res.assumptions,
            'theorems': names,
            'evaluations': res.evaluations,
            'distinct_nontrivial': len(res.nontrivial),
            'rule': res.rule,
            'samples': res.samples[:8],
            'traces_validated_against_impl': res.corr_checked,
            'correspondence_mismatches': len(res.corr_mismatch),
            'oracle_failures': len(res.oracle_fail),
            'input_distribution': res.dist,
            'partial': res.partial,
            'known_findings_hit': sorted(res.known_hits),
            'exhaustive': bool(res.exhaustive),
            'build_ok': build_ok,
        },
        'assumptions': res.assumptions,
        'wall_s': round(time.time() - t0, 2),
        'violations': violations,
    }
    ev['coverage'].update(res.extra)
    if res.harness_errors:
        ev['coverage']['harness_errors'] = res.harness_errors[:3]
    os.makedirs(EVID, exist_ok=True)
    with open(os.path.join(EVID, pid + '.json'), 'w') as f:
        json.dump(ev, f, indent=1, sort_keys=True, default=repr)
    for l in lines:
        print(l)
    print('%s tier=%s seed=%d: theorems=%d/%d evaluations=%d nontrivial=%d corr=%d mismatches=%d '
          'oracle_failures=%d wall=%.1fs exit=%d' % (
              pid, tier, seed(), discharged, len(names), res.evaluations, len(res.nontrivial),
              res.corr_checked, len(res.corr_mismatch), len(res.oracle_fail),
              time.time() - t0, rc))
    if res.harness_errors:
        print('HARNESS-ERROR', res.harness_errors[0][-1500:])
    return rc
