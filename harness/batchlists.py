"""Correspondence for the batch lists (`next-batches` / `previous-batches`) — part of the C11 check.

Model: Batch.nextBatches / Batch.prevBatches (lean/DTML/Batch.lean), which Props/C11 proves equal to the loops translated
from sequence_variables.next_batches / previous_batches on every run, and about which `next_batches_tile`,
`previous_batches_tile`, `next_batches_fuel`, `batch_lists_start_at_links` are stated.  Here the model's lists are compared
with what the real tag hands out, for every parameter tuple of a grid that includes what the theorems do not assume:
overlap >= size, negative and zero parameters, orphan beyond the length, lazy sequences.

The lists are read where the tag defines them: `next-batches` on the last displayed element, `previous-batches` on the
first one (the methods consult next-sequence / previous-sequence, which renderwb sets there).
"""
import signal

import common


class Hang(Exception):
    pass


def _alarm(*a):
    raise Hang()


class Lazy:
    """what SequenceFromIter is to opt(): negative indexes raise, no len() needed before the end"""

    def __init__(self, n):
        self.n = n

    def __getitem__(self, i):
        if i < 0 or i >= self.n:
            raise IndexError(i)
        return i

    def __len__(self):
        return self.n


_T = {}


def template(src):
    from DocumentTemplate.DT_HTML import HTML
    t = _T.get(src)
    if t is None:
        t = _T[src] = HTML(src)
    return t


def read(md, name):
    try:
        bl = md.getitem(name, 0)
    except KeyError:
        return 'KeyError'
    out = []
    for b in bl:
        out.append([b['batch-start-index'], b['batch-end-index'], b['batch-size']])
        if len(out) > 500:
            break
    return out


def observe(L, p, lazy):
    """a `Hang` is only reported when a second attempt (collector off, 30 s of CPU time) does not return either"""
    o = _observe(L, p, lazy, 2.0)
    if o.get('exc') == 'Hang':
        import gc
        gc.collect()
        was = gc.isenabled()
        gc.disable()
        try:
            o = _observe(L, p, lazy, 30.0)
        finally:
            if was:
                gc.enable()
    return o


def _observe(L, p, lazy, limit):
    attrs = ' '.join('%s=%d' % (k, p[k]) for k in ('start', 'end', 'size', 'orphan', 'overlap') if p[k] is not None)
    rows = []

    def rec(md):
        n = md.getitem('sequence-number', 0)
        row = {'n': n}
        if not rows:
            row['pb'] = read(md, 'previous-batches')
        if md.getitem('sequence-end', 0):
            row['nb'] = read(md, 'next-batches')
        rows.append(row)
        return ''
    src = '<dtml-in seq %s><dtml-call "rec(_)"><dtml-else>EMPTY</dtml-in>' % attrs
    seq = Lazy(L) if lazy else list(range(L))
    old = signal.signal(signal.SIGVTALRM, _alarm)
    signal.setitimer(signal.ITIMER_VIRTUAL, limit)
    try:
        out = template(src)(seq=seq, rec=rec)
    except Hang:
        return {'exc': 'Hang', 'src': src}
    except Exception as e:  # noqa
        return {'exc': type(e).__name__, 'src': src}
    finally:
        signal.setitimer(signal.ITIMER_VIRTUAL, 0)
        signal.signal(signal.SIGVTALRM, old)
    if out == 'EMPTY' or not rows:
        return {'empty': True, 'src': src}
    return {'src': src, 'nums': [r['n'] for r in rows], 'pb': rows[0].get('pb'), 'nb': rows[-1].get('nb')}


def grid(tier, r):
    cases = []
    lens = range(1, 10) if tier == 'quick' else range(1, 15)
    for L in lens:
        for size in (None, 1, 2, 3, 5):
            for overlap in (None, 0, 1, 2, 3, 6):
                for orphan in (None, 0, 1, 2, 4):
                    for start in (None, 1, 2, 4, L, L + 2):
                        p = {'start': start, 'end': None, 'size': size, 'orphan': orphan, 'overlap': overlap}
                        cases.append((L, p))
    # explicit ends, zero / negative parameters
    for _ in range(600 if tier == 'quick' else 6000):
        L = r.randint(1, 16)
        p = {k: (None if r.random() < 0.35 else r.randint(lo, hi)) for k, lo, hi in (
            ('start', -2, 18), ('end', -2, 18), ('size', -1, 8), ('orphan', 0, 5), ('overlap', 0, 8))}
        cases.append((L, p))
    if tier == 'quick':
        # the seed chooses which third of the grid is rendered
        k = common.seed() % 3
        cases = [c for i, c in enumerate(cases) if i % 3 == k or i >= len(cases) - 600]
    return cases


def run(res, tier):
    """returns the number of comparisons; mismatches go to res.corr_mismatch"""
    r = common.rng('C11-batchlists')
    cases = grid(tier, r)
    reqs, obs = [], []
    for L, p in cases:
        for lazy in (False, True):
            if lazy and (p['start'] or 0) < 0:
                continue
            o = observe(L, p, lazy)
            obs.append((L, p, lazy, o))
            reqs.append({'op': 'batchlists', 'len': L, 'lazy': lazy,
                         **{k: (p[k] if p[k] is not None else 0) for k in p}})
    resp = common.run_driver(reqs)
    n = 0
    nonempty = 0
    for (L, p, lazy, o), m in zip(obs, resp):
        res.evaluations += 1
        case = {'len': L, 'params': p, 'lazy': lazy, 'src': o.get('src')}
        if 'error' in m:
            res.corr_mismatch.append({'case': case, 'impl': o, 'model': m, 'what': 'batch lists: model error'})
            continue
        m = m['ok']
        if o.get('empty'):
            continue
        if 'exc' in o:
            # a rendering that raises has no lists to compare (negative explicit indexes on lazy sequences ...); a hang
            # is a violation of the property itself
            if o['exc'] == 'Hang':
                res.oracle_fail.append({'case': case, 'what': 'reading next-batches / previous-batches does not terminate'})
            continue
        n += 1
        if o['nums'] != list(range(m['start'], m['end'] + 1)):
            continue      # the window itself is compared by the main C11 correspondence
        if o['nb'] != m['nb'] or o['pb'] != m['pb']:
            res.corr_mismatch.append({'case': case, 'impl': {'nb': o['nb'], 'pb': o['pb']},
                                      'model': {'nb': m['nb'], 'pb': m['pb']}, 'what': 'batch lists differ'})
        if m['nb'] or m['pb']:
            nonempty += 1
            res.nt(('bl', L, tuple(sorted((k, v) for k, v in p.items() if v is not None)), lazy))
    res.corr_checked += n
    res.count('batch-list comparisons', n)
    res.count('batch-list comparisons with a non-empty list', nonempty)
    return n
