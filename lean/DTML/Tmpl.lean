/-
Model of the template OBJECT as a state machine (DT_String.String): persistent state `raw`
(source, or the file name for file-based templates), `globals` (defaults), `vars`; volatile
state `cooked` (`_v_blocks`/`_v_cooked`, dropped by `__getstate__`).  Compiling and rendering
a compiled program are parameters of the engine.
-/
namespace DTML.Tmpl

variable {Src Prog Dict Inp Out : Type}

/-- what the engine is built from: the compiler, the renderer of a compiled program, how a
dictionary is updated, and (for file-based templates) the file system -/
structure Engine (Src Prog Dict Inp Out : Type) where
  parse : Src → Prog
  exec : Prog → Dict → Dict → Inp → Out
  initvars : Dict → Dict → Dict          -- mapping, keywords ↦ defaults
  update : Dict → Dict → Dict            -- d.update(kw)
  empty : Dict

structure Tmpl (Src Prog Dict : Type) where
  raw : Src
  globals : Dict
  vars : Dict
  cooked : Option Prog := none           -- `_v_blocks` (with `_v_cooked`)

inductive Op (Src Dict Inp : Type) where
  | render (i : Inp)                      -- template(client, mapping, **kw)
  | pickle                                -- loads(dumps(t)): __getstate__ drops _v_ attributes
  | deepcopy                              -- copy.deepcopy(t): same reduction
  | cook                                  -- t.cook()
  | mungeSrc (s : Src)                    -- t.munge(source)
  | mungeVars (m kw : Dict)               -- t.munge(None, mapping, **kw)
  | mungeBoth (s : Src) (m kw : Dict)     -- t.munge(source, mapping, **kw)
  | var (kw : Dict)                       -- t.var(**kw)
  | default (kw : Dict)                   -- t.default(**kw)

/-- a freshly constructed template: `Template(source, mapping, **kw)` -/
def fresh (E : Engine Src Prog Dict Inp Out) (s : Src) (m kw : Dict) : Tmpl Src Prog Dict :=
  { raw := s, globals := E.initvars m kw, vars := E.empty }

/-- the program a call uses: the cached one, or a fresh compilation (which it caches) -/
def ensureCooked (E : Engine Src Prog Dict Inp Out) (t : Tmpl Src Prog Dict) : Tmpl Src Prog Dict :=
  match t.cooked with
  | some _ => t
  | none => { t with cooked := some (E.parse t.raw) }

/-- one operation: the new state and, for a call, its result -/
def step (E : Engine Src Prog Dict Inp Out) (t : Tmpl Src Prog Dict) : Op Src Dict Inp → Tmpl Src Prog Dict × Option Out
  | .render i =>
    let t' := ensureCooked E t
    (t', t'.cooked.map fun p => E.exec p t'.globals t'.vars i)
  | .pickle => ({ t with cooked := none }, none)
  | .deepcopy => ({ t with cooked := none }, none)
  | .cook => ({ t with cooked := some (E.parse t.raw) }, none)
  | .mungeSrc s => ({ t with raw := s, cooked := some (E.parse s) }, none)
  | .mungeVars m kw => ({ t with globals := E.initvars m kw, vars := E.empty, cooked := some (E.parse t.raw) }, none)
  | .mungeBoth s m kw => ({ raw := s, globals := E.initvars m kw, vars := E.empty, cooked := some (E.parse s) }, none)
  | .var kw => ({ t with vars := E.update t.vars kw }, none)
  | .default kw => ({ t with globals := E.update t.globals kw }, none)

def run (E : Engine Src Prog Dict Inp Out) (t : Tmpl Src Prog Dict) (ops : List (Op Src Dict Inp)) : Tmpl Src Prog Dict :=
  ops.foldl (fun t op => (step E t op).1) t

end DTML.Tmpl
