/-
C10 — dtml-in visits each element once, in order, with correct sequence variables.
Model: DTML/Render.lean (`Blk.in_` → `inLoop`/`inIter` = InClass.renderwob, `SeqVars` +
`seqLookup` = sequence_variables.__getitem__ for the documented names, `toRoman`).
The batched renderer's window arithmetic is C11's model (Batch.lean).
-/
import DTML.Render
import DTML.Props.C08
set_option linter.unusedVariables false
namespace DTML.Props.C10
open DTML.Render

/-! #### one body rendering per element, in order -/

/-- the sequence-variables frame as the loop sets it for element `i` -/
def svAt (sv : SeqVars) (i : Nat) : SeqVars :=
  { sv with index := i, ended := sv.ended || i + 1 == sv.items.length, started := i == 0 }

/-- the namespace at element `i`: the loop's sequence-variables frame (top of stack) updated -/
def setSeq (sv' : SeqVars) (st : St) : St :=
  match st.stack with
  | .seq _ :: fs => { st with stack := .seq sv' :: fs }
  | _ => st

theorem itemDenied_noguard (env : Env) (sv : SeqVars) (i : Nat) (hg : env.guardOn = false) : itemDenied env sv i = false := by
  simp [itemDenied, hg]

theorem startedAt_noguard (env : Env) (o : InOpts) (sv : SeqVars) (i : Nat) (hg : env.guardOn = false) :
    startedAt env o sv i = (i == 0) := by
  unfold startedAt
  by_cases h : i = 0
  · simp [h]
  · simp [h, itemDenied_noguard env sv _ hg]

/-- **The loop's step rule** (no item guard installed; with a guard see C05): nothing past the end;
otherwise element `i` is rendered once with the sequence variables of position `i`, then the loop
continues with `i + 1` -/
theorem inLoop_step (env : Env) (hg : env.guardOn = false) (fuel : Nat) (sv : SeqVars) (o : InOpts) (body : List Blk)
    (i : Nat) (st : St) :
    inLoop env (fuel + 1) sv o body i st =
      if i ≥ sv.items.length then (.ok [], st)
      else
        match inIter env fuel (svAt sv i) o body i (setSeq (svAt sv i) st) with
        | (.ok p, st2) =>
          (match inLoop env fuel (svAt sv i) o body (i + 1) st2 with
           | (.ok ps, st3) => (.ok (p :: ps), st3)
           | r => r)
        | (.raise e, st2) => (.raise e, st2)
        | (.ret v, st2) => (.ret v, st2)
        | (.oom, st2) => (.oom, st2) := by
  simp only [inLoop, svAt, setSeq, itemDenied_noguard env sv i hg, startedAt_noguard env o sv i hg, hg]
  rfl

theorem svAt_items (sv : SeqVars) (i : Nat) : (svAt sv i).items = sv.items := rfl

/-- **Once per element**: a loop that completes from element `i` has rendered the body exactly
once for each of the elements `i … n-1` (one result per element, in order) -/
theorem in_once_per_element (env : Env) (hg : env.guardOn = false) : ∀ (fuel : Nat) (sv : SeqVars) (o : InOpts) (body : List Blk) (i : Nat)
    (st st' : St) (ps : List Piece),
    inLoop env fuel sv o body i st = (.ok ps, st') → ps.length = sv.items.length - i := by
  intro fuel
  induction fuel with
  | zero => intro sv o body i st st' ps h; simp [inLoop] at h
  | succ n ih =>
    intro sv o body i st st' ps h
    rw [inLoop_step env hg] at h
    split at h
    · rename_i hge
      simp only [Prod.mk.injEq, Res.ok.injEq] at h
      obtain ⟨rfl, _⟩ := h
      simp; omega
    · rename_i hlt
      split at h
      · rename_i p st2 hit
        split at h
        · rename_i qs st3 hl
          simp only [Prod.mk.injEq, Res.ok.injEq] at h
          obtain ⟨rfl, _⟩ := h
          have := ih (svAt sv i) o body (i + 1) st2 st3 qs hl
          simp only [List.length_cons, this, svAt_items]
          omega
        · rename_i r hne
          cases hr : inLoop env n (svAt sv i) o body (i + 1) st2 with
          | mk r1 s1 =>
            rw [hr] at h
            cases r1 with
            | ok qs => exact (hne qs s1 hr).elim
            | raise e => cases h
            | ret v => cases h
            | oom => cases h
      · cases h
      · cases h
      · cases h

/-- the element rendered at position `i` sees index `i`; `sequence-start` only at the first,
`sequence-end` only at the last element -/
theorem position_flags (sv : SeqVars) (i : Nat) (h0 : sv.ended = false) (hi : i < sv.items.length) :
    (svAt sv i).index = i ∧ ((svAt sv i).started = true ↔ i = 0) ∧
    ((svAt sv i).ended = true ↔ i = sv.items.length - 1) := by
  refine ⟨rfl, ?_, ?_⟩
  · simp [svAt]
  · simp only [svAt, h0, Bool.false_or, beq_iff_eq]; omega

/-- the `ended` flag stays false until the last element: the loop's variables at `i+1` are
computed from those at `i` exactly as from the initial ones -/
theorem svAt_svAt (sv : SeqVars) (i j : Nat) (h0 : sv.ended = false) (hi : i + 1 < sv.items.length) :
    svAt (svAt sv i) j = svAt sv j := by
  have : (i + 1 == sv.items.length) = false := by simp; omega
  simp [svAt, h0, this]

/-! #### the documented variables have their documented values -/

private theorem isPrefixOf_append (p s : Text) : p.isPrefixOf (p ++ s) = true := by
  induction p with
  | nil => simp [List.isPrefixOf]
  | cons a t ih => simp [List.isPrefixOf, ih]

theorem stripPrefix_append (p s : Text) : stripPrefix p (p ++ s) = some s := by
  simp [stripPrefix, isPrefixOf_append]

/-- the fixed-name variables, in terms of the element's position `sv.index` in the whole sequence -/
theorem seqvar_values (sv : SeqVars) :
    seqFixed sv "index".toList = some (.int sv.index) ∧
    seqFixed sv "number".toList = some (.int (sv.index + 1)) ∧
    seqFixed sv "letter".toList = some (.str [Char.ofNat (97 + sv.index)]) ∧
    seqFixed sv "Letter".toList = some (.str [Char.ofNat (65 + sv.index)]) ∧
    seqFixed sv "even".toList = some (.bool (sv.index % 2 == 0)) ∧
    seqFixed sv "odd".toList = some (.int (sv.index % 2)) ∧
    seqFixed sv "start".toList = some (.int (if sv.started then 1 else 0)) ∧
    seqFixed sv "end".toList = some (.int (if sv.ended then 1 else 0)) ∧
    seqFixed sv "length".toList = some (.int sv.items.length) ∧
    seqFixed sv "item".toList = some (seqItem sv sv.index) := by
  refine ⟨?_, ?_, ?_, ?_, ?_, ?_, ?_, ?_, ?_, ?_⟩ <;> simp [seqFixed, letterOf]

theorem seqvar_roman (sv : SeqVars) (h : sv.index + 1 < 5000) :
    seqFixed sv "Roman".toList = some (.str (toRoman (sv.index + 1))) ∧
    seqFixed sv "roman".toList = some (.str ((toRoman (sv.index + 1)).map Char.toLower)) := by
  constructor <;> simp [seqFixed, h]

/-- `sequence-item` is the element, `sequence-key` / `sequence-item` the two halves of a 2-tuple -/
theorem item_and_key (sv : SeqVars) (k v x : Val) :
    (sv.items[sv.index]? = some (.tuple [k, v]) → seqItem sv sv.index = v ∧ seqKeyRes sv = match (SeqRes.val k) with | r => r) ∧
    (sv.items[sv.index]? = some x → (∀ a b, x ≠ .tuple [a, b]) → seqItem sv sv.index = x) := by
  constructor
  · intro h
    simp [seqItem, seqKeyRes, h]
  · intro h hx
    simp only [seqItem, h]

/-- **through the namespace**: `sequence-<name>` resolves to the fixed-name variable -/
theorem lookup_sequence_name (sv : SeqVars) (suffix : Text)
    (h1 : stripPrefix "sequence-var-".toList ("sequence-".toList ++ suffix) = none)
    (hk : suffix ≠ "key".toList) :
    seqLookup sv ("sequence-".toList ++ suffix) = ofOpt (seqFixed sv suffix) := by
  unfold seqLookup
  rw [h1]
  simp only [stripPrefix_append, hk, if_false]

/-- **sequence-var-x is the element's x** (attribute, or key with `mapping`) -/
theorem lookup_sequence_var (sv : SeqVars) (x : Text) :
    seqLookup sv ("sequence-var-".toList ++ x) = ofOpt (seqValue sv sv.index x) := by
  unfold seqLookup
  simp only [stripPrefix_append]

theorem sequence_var_attr (sv : SeqVars) (x : Text) (id : Nat) (attrs : List (Text × Val))
    (h : seqItem sv sv.index = .obj id attrs) (hm : sv.mapping = false) :
    seqValue sv sv.index x = attrs.lookup x := by
  simp [seqValue, h, hm]

theorem sequence_var_key (sv : SeqVars) (x : Text) (kvs : List (Text × Val))
    (h : seqItem sv sv.index = .dict kvs) (hm : sv.mapping = true) :
    seqValue sv sv.index x = kvs.lookup x := by
  simp [seqValue, h, hm]

/-- **first-x / last-x**: for an element that is not the first (last) displayed one, true exactly
when its x differs from the previous (next) element's x -/
theorem first_last_spec (sv : SeqVars) (x : Text) (j : Nat) (a b : Val)
    (ha : seqValueStrict sv sv.index x = .val a) (hb : seqValueStrict sv j x = .val b) :
    neighbourDiffers sv j x = (match SeqRes.val (.bool (!(valBeq 3 a b))) with | r => r) := by
  simp [neighbourDiffers, ha, hb]

theorem lookup_first (sv : SeqVars) (x : Text)
    (h1 : stripPrefix "sequence-var-".toList ("first-".toList ++ x) = none)
    (h2 : stripPrefix "sequence-".toList ("first-".toList ++ x) = none) :
    seqLookup sv ("first-".toList ++ x) =
      if sv.started then .val (.int 1) else neighbourDiffers sv (sv.index - 1) x := by
  unfold seqLookup
  rw [h1, h2]
  simp only [stripPrefix_append]

theorem lookup_last (sv : SeqVars) (x : Text)
    (h1 : stripPrefix "sequence-var-".toList ("last-".toList ++ x) = none)
    (h2 : stripPrefix "sequence-".toList ("last-".toList ++ x) = none)
    (h3 : stripPrefix "first-".toList ("last-".toList ++ x) = none) :
    seqLookup sv ("last-".toList ++ x) =
      if sv.ended then .val (.int 1) else neighbourDiffers sv (sv.index + 1) x := by
  unfold seqLookup
  rw [h1, h2, h3]
  simp only [stripPrefix_append]

/-- **prefix=p**: `p_<name>` is the same variable as `sequence-<name>` -/
theorem prefix_alias (sv : SeqVars) (p suffix : Text) (hp : sv.prefix_ = some p)
    (h1 : stripPrefix "sequence-var-".toList (p ++ '_' :: suffix) = none)
    (h2 : stripPrefix "sequence-".toList (p ++ '_' :: suffix) = none)
    (h3 : stripPrefix "first-".toList (p ++ '_' :: suffix) = none)
    (h4 : stripPrefix "last-".toList (p ++ '_' :: suffix) = none)
    (h5 : stripPrefix "sequence-var-".toList ("sequence-".toList ++ suffix) = none) :
    seqLookup sv (p ++ '_' :: suffix) = seqLookup sv ("sequence-".toList ++ suffix) := by
  have hpp : stripPrefix (p ++ ['_']) (p ++ '_' :: suffix) = some suffix := by
    have : p ++ '_' :: suffix = (p ++ ['_']) ++ suffix := by simp
    rw [this, stripPrefix_append]
  conv => lhs; unfold seqLookup
  conv => rhs; unfold seqLookup
  rw [h1, h2, h3, h4, h5]
  simp only [hp, hpp, stripPrefix_append]

/-! #### the else body, and what remains visible -/

/-- **The else body is rendered exactly when the sequence is empty** -/
theorem else_iff_empty (env : Env) (fuel : Nat) (src : Src) (o : InOpts) (body e : List Blk) (st st' : St)
    (xs : List Val) (h : evalSrc env fuel src st = (.ok (.list xs), st')) :
    (xs = [] → renderBlk env (fuel + 1) (.in_ src o body (some e)) st = oneRes (renderJoined env fuel e st')) ∧
    (xs ≠ [] → ∀ e', renderBlk env (fuel + 1) (.in_ src o body (some e)) st =
                      renderBlk env (fuel + 1) (.in_ src o body e') st) := by
  constructor
  · intro hx
    subst hx
    unfold renderBlk
    simp only [h]
  · intro hx e'
    cases xs with
    | nil => exact (hx rfl).elim
    | cons a t =>
      unfold renderBlk
      simp only [h]

/-- **Element attributes are visible in the body unless no_push_item is given**: the body of
element `i` runs with the element on top of the namespace (as an instance, or as a mapping
with `mapping`), and with nothing pushed under no_push_item -/
theorem item_pushed (env : Env) (fuel : Nat) (sv : SeqVars) (o : InOpts) (body : List Blk) (i : Nat) (st : St)
    (id : Nat) (attrs : List (Text × Val)) (hitem : sv.items[i]? = some (.obj id attrs)) :
    (o.noPush = true → inIter env (fuel + 1) sv o body i st = renderJoined env fuel body st) ∧
    (o.noPush = false → o.mapping = false →
      inIter env (fuel + 1) sv o body i st = framed env fuel (.inst (.obj id attrs) []) body st) := by
  constructor
  · intro h; simp [inIter, h]
  · intro h hm; simp [inIter, h, hm, seqItem, hitem]

/-- **Nothing the tag binds remains visible after its end tag** (C08) -/
theorem in_scope_ends (env : Env) (fuel : Nat) (src : Src) (o : InOpts) (body : List Blk) (els : Option (List Blk)) (st : St) :
    (renderBlk env fuel (.in_ src o body els) st).2.stack.map C08.erase = st.stack.map C08.erase :=
  (C08.block_preserves_stack env fuel (.in_ src o body els) st).1

/-! #### Roman numerals -/

def romanVal (c : Char) : Nat :=
  if c = 'M' then 1000 else if c = 'D' then 500 else if c = 'C' then 100 else if c = 'L' then 50
  else if c = 'X' then 10 else if c = 'V' then 5 else if c = 'I' then 1 else 0

/-- value of a numeral: a symbol smaller than its right neighbour is subtracted -/
def fromRoman : Text → Nat
  | [] => 0
  | [c] => romanVal c
  | c :: d :: t => if romanVal c < romanVal d then fromRoman (d :: t) - romanVal c else romanVal c + fromRoman (d :: t)

/-- **sequence-Roman denotes the number**, for every position the numeral system covers
(a proof by evaluation over the whole finite range 0 … 4999) -/
theorem roman_denotes : (List.range 5000).all (fun n => fromRoman (toRoman n) == n) = true := by
  decide +kernel

theorem roman_value (n : Nat) (h : n < 5000) : fromRoman (toRoman n) = n := by
  have := List.all_eq_true.mp roman_denotes n (List.mem_range.mpr h)
  simpa using this

/-! #### the hypotheses are satisfiable -/

section Example
private def okPieces : Res (List Piece) → Option (List Piece)
  | .ok ps => some ps
  | _ => none
private def items : Val := .list [.obj 1 [("x".toList, .int 5)], .obj 2 [("x".toList, .int 5)], .obj 3 [("x".toList, .int 6)]]
set_option maxHeartbeats 4000000 in
example : okPieces (renderBlk {} 40 (.in_ (.name "seq".toList) {} [.var (.name "sequence-number".toList) false none none,
      .var (.name "x".toList) false none none, .lit ";".toList] none)
    { stack := [.dict [("seq".toList, items)]] }).1 = some [.text "15;25;36;".toList] := by decide +kernel
set_option maxHeartbeats 4000000 in
example : okPieces (renderBlk {} 40 (.in_ (.name "seq".toList) {} [.var (.name "first-x".toList) false none none,
      .var (.name "sequence-Roman".toList) false none none, .lit ";".toList] none)
    { stack := [.dict [("seq".toList, items)]] }).1 = some [.text "1I;FalseII;TrueIII;".toList] := by decide +kernel
end Example

end DTML.Props.C10
