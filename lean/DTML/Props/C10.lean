/-
C10 — dtml-in visits each element once, in order, with correct sequence variables.
Model: DTML/Render.lean (`Blk.in_` → `inLoop`/`inIter` = InClass.renderwob, `SeqVars` +
`seqLookup` = sequence_variables.__getitem__ for the documented names, `toRoman`).
The batched renderer's window arithmetic is C11's model (Batch.lean).
-/
import DTML.Render
import DTML.Props.C08
import DTML.Props.C11
import DTML.Props.C02
import DTML.GenIn
import DTML.Lemmas.InGen
import DTML.Lemmas.SeqVar
set_option linter.unusedVariables false
namespace DTML.Props.C10
open DTML.Render

/-! #### one body rendering per element, in order -/

/-- the sequence-variables frame as the loop sets it for element `i` -/
def svAt (sv : SeqVars) (i : Nat) : SeqVars :=
  { sv with index := i, ended := sv.ended || i + 1 == sv.items.length, started := i == 0 }

/-- the namespace at element `i`: the loop's sequence-variables frame (top of stack) updated -/
def setSeq (sv' : SeqVars) (st : St) : St :=
  match st.stack with
  | .seq _ :: fs => { st with stack := .seq sv' :: fs }
  | _ => st

theorem itemDenied_noguard (env : Env) (sv : SeqVars) (i : Nat) (hg : env.guardOn = false) : itemDenied env sv i = false := by
  simp [itemDenied, hg]

theorem startedAt_noguard (env : Env) (o : InOpts) (sv : SeqVars) (i : Nat) (hg : env.guardOn = false) :
    startedAt env o sv i = (i == 0) := by
  unfold startedAt
  by_cases h : i = 0
  · simp [h]
  · simp [h, itemDenied_noguard env sv _ hg]

/-- **The loop's step rule** (no item guard installed; with a guard see C05): nothing past the end;
otherwise element `i` is rendered once with the sequence variables of position `i`, then the loop
continues with `i + 1` -/
theorem inLoop_step (env : Env) (hg : env.guardOn = false) (fuel : Nat) (sv : SeqVars) (o : InOpts) (body : List Blk)
    (i : Nat) (st : St) :
    inLoop env (fuel + 1) sv o body i st =
      if i ≥ sv.items.length then (.ok [], st)
      else
        match inIter env fuel (svAt sv i) o body i (setSeq (svAt sv i) st) with
        | (.ok p, st2) =>
          (match inLoop env fuel (svAt sv i) o body (i + 1) st2 with
           | (.ok ps, st3) => (.ok (p :: ps), st3)
           | r => r)
        | (.raise e, st2) => (.raise e, st2)
        | (.ret v, st2) => (.ret v, st2)
        | (.oom, st2) => (.oom, st2) := by
  simp only [inLoop, svAt, setSeq, itemDenied_noguard env sv i hg, startedAt_noguard env o sv i hg, hg]
  rfl

theorem svAt_items (sv : SeqVars) (i : Nat) : (svAt sv i).items = sv.items := rfl

/-- **Once per element**: a loop that completes from element `i` has rendered the body exactly
once for each of the elements `i … n-1` (one result per element, in order) -/
theorem in_once_per_element (env : Env) (hg : env.guardOn = false) : ∀ (fuel : Nat) (sv : SeqVars) (o : InOpts) (body : List Blk) (i : Nat)
    (st st' : St) (ps : List Piece),
    inLoop env fuel sv o body i st = (.ok ps, st') → ps.length = sv.items.length - i := by
  intro fuel
  induction fuel with
  | zero => intro sv o body i st st' ps h; simp [inLoop] at h
  | succ n ih =>
    intro sv o body i st st' ps h
    rw [inLoop_step env hg] at h
    split at h
    · rename_i hge
      simp only [Prod.mk.injEq, Res.ok.injEq] at h
      obtain ⟨rfl, _⟩ := h
      simp; omega
    · rename_i hlt
      split at h
      · rename_i p st2 hit
        split at h
        · rename_i qs st3 hl
          simp only [Prod.mk.injEq, Res.ok.injEq] at h
          obtain ⟨rfl, _⟩ := h
          have := ih (svAt sv i) o body (i + 1) st2 st3 qs hl
          simp only [List.length_cons, this, svAt_items]
          omega
        · rename_i r hne
          cases hr : inLoop env n (svAt sv i) o body (i + 1) st2 with
          | mk r1 s1 =>
            rw [hr] at h
            cases r1 with
            | ok qs => exact (hne qs s1 hr).elim
            | raise e => cases h
            | ret v => cases h
            | oom => cases h
      · cases h
      · cases h
      · cases h

/-- the element rendered at position `i` sees index `i`; `sequence-start` only at the first,
`sequence-end` only at the last element -/
theorem position_flags (sv : SeqVars) (i : Nat) (h0 : sv.ended = false) (hi : i < sv.items.length) :
    (svAt sv i).index = i ∧ ((svAt sv i).started = true ↔ i = 0) ∧
    ((svAt sv i).ended = true ↔ i = sv.items.length - 1) := by
  refine ⟨rfl, ?_, ?_⟩
  · simp [svAt]
  · simp only [svAt, h0, Bool.false_or, beq_iff_eq]; omega

/-- the `ended` flag stays false until the last element: the loop's variables at `i+1` are
computed from those at `i` exactly as from the initial ones -/
theorem svAt_svAt (sv : SeqVars) (i j : Nat) (h0 : sv.ended = false) (hi : i + 1 < sv.items.length) :
    svAt (svAt sv i) j = svAt sv j := by
  have : (i + 1 == sv.items.length) = false := by simp; omega
  simp [svAt, h0, this]

/-! #### the documented variables have their documented values -/

private theorem isPrefixOf_append (p s : Text) : p.isPrefixOf (p ++ s) = true := by
  induction p with
  | nil => simp [List.isPrefixOf]
  | cons a t ih => simp [List.isPrefixOf, ih]

theorem stripPrefix_append (p s : Text) : stripPrefix p (p ++ s) = some s := by
  simp [stripPrefix, isPrefixOf_append]

/-- the fixed-name variables, in terms of the element's position `sv.index` in the whole sequence -/
theorem seqvar_values (sv : SeqVars) :
    seqFixed sv "index".toList = some (.int sv.index) ∧
    seqFixed sv "number".toList = some (.int (sv.index + 1)) ∧
    seqFixed sv "letter".toList = some (.str [Char.ofNat (97 + sv.index)]) ∧
    seqFixed sv "Letter".toList = some (.str [Char.ofNat (65 + sv.index)]) ∧
    seqFixed sv "even".toList = some (.bool (sv.index % 2 == 0)) ∧
    seqFixed sv "odd".toList = some (.int (sv.index % 2)) ∧
    seqFixed sv "start".toList = some (.int (if sv.started then 1 else 0)) ∧
    seqFixed sv "end".toList = some (.int (if sv.ended then 1 else 0)) ∧
    seqFixed sv "length".toList = some (.int sv.items.length) ∧
    seqFixed sv "item".toList = some (seqItem sv sv.index) := by
  refine ⟨?_, ?_, ?_, ?_, ?_, ?_, ?_, ?_, ?_, ?_⟩ <;> simp [seqFixed, letterOf]

theorem seqvar_roman (sv : SeqVars) (h : sv.index + 1 < 5000) :
    seqFixed sv "Roman".toList = some (.str (toRoman (sv.index + 1))) ∧
    seqFixed sv "roman".toList = some (.str ((toRoman (sv.index + 1)).map Char.toLower)) := by
  constructor <;> simp [seqFixed, h]

/-- `sequence-item` is the element, `sequence-key` / `sequence-item` the two halves of a 2-tuple -/
theorem item_and_key (sv : SeqVars) (k v x : Val) :
    (sv.items[sv.index]? = some (.tuple [k, v]) → seqItem sv sv.index = v ∧ seqKeyRes sv = match (SeqRes.val k) with | r => r) ∧
    (sv.items[sv.index]? = some x → (∀ a b, x ≠ .tuple [a, b]) → seqItem sv sv.index = x) := by
  constructor
  · intro h
    simp [seqItem, seqKeyRes, h]
  · intro h hx
    simp only [seqItem, h]

/-- **through the namespace**: `sequence-<name>` resolves to the fixed-name variable -/
theorem lookup_sequence_name (sv : SeqVars) (suffix : Text)
    (h1 : stripPrefix "sequence-var-".toList ("sequence-".toList ++ suffix) = none)
    (hk : suffix ≠ "key".toList) :
    seqLookup sv ("sequence-".toList ++ suffix) = ofOpt (seqFixed sv suffix) := by
  unfold seqLookup
  rw [h1]
  simp only [stripPrefix_append, hk, if_false]

/-- **sequence-var-x is the element's x** (attribute, or key with `mapping`) -/
theorem lookup_sequence_var (sv : SeqVars) (x : Text) :
    seqLookup sv ("sequence-var-".toList ++ x) = ofOpt (seqValue sv sv.index x) := by
  unfold seqLookup
  simp only [stripPrefix_append]

theorem sequence_var_attr (sv : SeqVars) (x : Text) (id : Nat) (attrs : List (Text × Val))
    (h : seqItem sv sv.index = .obj id attrs) (hm : sv.mapping = false) :
    seqValue sv sv.index x = attrs.lookup x := by
  simp [seqValue, h, hm]

theorem sequence_var_key (sv : SeqVars) (x : Text) (kvs : List (Text × Val))
    (h : seqItem sv sv.index = .dict kvs) (hm : sv.mapping = true) :
    seqValue sv sv.index x = kvs.lookup x := by
  simp [seqValue, h, hm]

/-- **first-x / last-x**: for an element that is not the first (last) displayed one, true exactly
when its x differs from the previous (next) element's x -/
theorem first_last_spec (sv : SeqVars) (x : Text) (j : Nat) (a b : Val)
    (ha : seqValueStrict sv sv.index x = .val a) (hb : seqValueStrict sv j x = .val b) :
    neighbourDiffers sv j x = (match SeqRes.val (.bool (!(valBeq 3 a b))) with | r => r) := by
  simp [neighbourDiffers, ha, hb]

theorem lookup_first (sv : SeqVars) (x : Text)
    (h1 : stripPrefix "sequence-var-".toList ("first-".toList ++ x) = none)
    (h2 : stripPrefix "sequence-".toList ("first-".toList ++ x) = none) :
    seqLookup sv ("first-".toList ++ x) =
      if sv.started then .val (.int 1) else neighbourDiffers sv (sv.index - 1) x := by
  unfold seqLookup
  rw [h1, h2]
  simp only [stripPrefix_append]

theorem lookup_last (sv : SeqVars) (x : Text)
    (h1 : stripPrefix "sequence-var-".toList ("last-".toList ++ x) = none)
    (h2 : stripPrefix "sequence-".toList ("last-".toList ++ x) = none)
    (h3 : stripPrefix "first-".toList ("last-".toList ++ x) = none) :
    seqLookup sv ("last-".toList ++ x) =
      if sv.ended then .val (.int 1) else neighbourDiffers sv (sv.index + 1) x := by
  unfold seqLookup
  rw [h1, h2, h3]
  simp only [stripPrefix_append]

/-- **prefix=p**: `p_<name>` is the same variable as `sequence-<name>` -/
theorem prefix_alias (sv : SeqVars) (p suffix : Text) (hp : sv.prefix_ = some p)
    (h1 : stripPrefix "sequence-var-".toList (p ++ '_' :: suffix) = none)
    (h2 : stripPrefix "sequence-".toList (p ++ '_' :: suffix) = none)
    (h3 : stripPrefix "first-".toList (p ++ '_' :: suffix) = none)
    (h4 : stripPrefix "last-".toList (p ++ '_' :: suffix) = none)
    (h5 : stripPrefix "sequence-var-".toList ("sequence-".toList ++ suffix) = none) :
    seqLookup sv (p ++ '_' :: suffix) = seqLookup sv ("sequence-".toList ++ suffix) := by
  have hpp : stripPrefix (p ++ ['_']) (p ++ '_' :: suffix) = some suffix := by
    have : p ++ '_' :: suffix = (p ++ ['_']) ++ suffix := by simp
    rw [this, stripPrefix_append]
  conv => lhs; unfold seqLookup
  conv => rhs; unfold seqLookup
  rw [h1, h2, h3, h4, h5]
  simp only [hp, hpp, stripPrefix_append]

/-! #### the else body, and what remains visible -/

/-- **The else body is rendered exactly when the sequence is empty** -/
theorem else_iff_empty (env : Env) (fuel : Nat) (src : Src) (o : InOpts) (body e : List Blk) (st st' : St)
    (xs : List Val) (h : evalSrc env fuel src st = (.ok (.list xs), st')) :
    (xs = [] → renderBlk env (fuel + 1) (.in_ src o body (some e)) st = oneRes (renderJoined env fuel e st')) ∧
    (xs ≠ [] → ∀ e', renderBlk env (fuel + 1) (.in_ src o body (some e)) st =
                      renderBlk env (fuel + 1) (.in_ src o body e') st) := by
  constructor
  · intro hx
    subst hx
    unfold renderBlk
    simp only [h]
  · intro hx e'
    cases xs with
    | nil => exact (hx rfl).elim
    | cons a t =>
      unfold renderBlk
      simp only [h]

/-- **Element attributes are visible in the body unless no_push_item is given**: the body of
element `i` runs with the element on top of the namespace (as an instance, or as a mapping
with `mapping`), and with nothing pushed under no_push_item -/
theorem item_pushed (env : Env) (fuel : Nat) (sv : SeqVars) (o : InOpts) (body : List Blk) (i : Nat) (st : St)
    (id : Nat) (attrs : List (Text × Val)) (hitem : sv.items[i]? = some (.obj id attrs)) :
    (o.noPush = true → inIter env (fuel + 1) sv o body i st = renderJoined env fuel body st) ∧
    (o.noPush = false → o.mapping = false →
      inIter env (fuel + 1) sv o body i st = framed env fuel (.inst (.obj id attrs) []) body st) := by
  constructor
  · intro h; simp [inIter, h]
  · intro h hm; simp [inIter, h, hm, seqItem, hitem]

/-- **Nothing the tag binds remains visible after its end tag** (C08) -/
theorem in_scope_ends (env : Env) (fuel : Nat) (src : Src) (o : InOpts) (body : List Blk) (els : Option (List Blk)) (st : St) :
    (renderBlk env fuel (.in_ src o body els) st).2.stack.map C08.erase = st.stack.map C08.erase :=
  (C08.block_preserves_stack env fuel (.in_ src o body els) st).1

/-! #### Roman numerals -/

def romanVal (c : Char) : Nat :=
  if c = 'M' then 1000 else if c = 'D' then 500 else if c = 'C' then 100 else if c = 'L' then 50
  else if c = 'X' then 10 else if c = 'V' then 5 else if c = 'I' then 1 else 0

/-- value of a numeral: a symbol smaller than its right neighbour is subtracted -/
def fromRoman : Text → Nat
  | [] => 0
  | [c] => romanVal c
  | c :: d :: t => if romanVal c < romanVal d then fromRoman (d :: t) - romanVal c else romanVal c + fromRoman (d :: t)

/-- **sequence-Roman denotes the number**, for every position the numeral system covers
(a proof by evaluation over the whole finite range 0 … 4999) -/
theorem roman_denotes : (List.range 5000).all (fun n => fromRoman (toRoman n) == n) = true := by
  decide +kernel

theorem roman_value (n : Nat) (h : n < 5000) : fromRoman (toRoman n) = n := by
  have := List.all_eq_true.mp roman_denotes n (List.mem_range.mpr h)
  simpa using this

/-! #### the hypotheses are satisfiable -/

section Example
private def okPieces : Res (List Piece) → Option (List Piece)
  | .ok ps => some ps
  | _ => none
private def items : Val := .list [.obj 1 [("x".toList, .int 5)], .obj 2 [("x".toList, .int 5)], .obj 3 [("x".toList, .int 6)]]
set_option maxHeartbeats 4000000 in
example : okPieces (renderBlk {} 40 (.in_ (.name "seq".toList) {} [.var (.name "sequence-number".toList) false none none,
      .var (.name "x".toList) false none none, .lit ";".toList] none)
    { stack := [.dict [("seq".toList, items)]] }).1 = some [.text "15;25;36;".toList] := by decide +kernel
set_option maxHeartbeats 4000000 in
example : okPieces (renderBlk {} 40 (.in_ (.name "seq".toList) {} [.var (.name "first-x".toList) false none none,
      .var (.name "sequence-Roman".toList) false none none, .lit ";".toList] none)
    { stack := [.dict [("seq".toList, items)]] }).1 = some [.text "1I;FalseII;TrueIII;".toList] := by decide +kernel
end Example

/-! #### batched loops (`renderwb`): the window is visited once per element, with the batch variables

`Blk.inx_` with batch parameters → `inBatch` / `inLoopB`; the window comes from `Batch.window` (C11's model), so C11's
theorems about windows and links apply to what the interpreter renders. -/

namespace Batched

/-- the variables element `i` of the window sees -/
def svB (sv : SeqVars) (w : BWin) (i : Nat) : SeqVars := { batchStep sv w i with index := i }

/-- **The batched loop's step rule** (no item guard installed): nothing at or past the end of the window; otherwise
element `i` is rendered once with the variables of position `i`, then the loop continues with `i + 1` and
`sequence-start` cleared once the first element of the window has been rendered -/
theorem inLoopB_rule (env : Env) (hg : env.guardOn = false) (fuel : Nat) (sv : SeqVars) (o : InOpts) (w : BWin)
    (body : List Blk) (i : Nat) (st : St) :
    inLoopB env (fuel + 1) sv o w body i st =
      if i ≥ w.stop then (.ok [], st)
      else
        match inIter env fuel (svB sv w i) o body i (setSeq (svB sv w i) st) with
        | (.ok p, st2) =>
          (match inLoopB env fuel (afterItem (svB sv w i) w i) o w body (i + 1) st2 with
           | (.ok ps, st3) => (.ok (p :: ps), st3)
           | r => r)
        | (.raise e, st2) => (.raise e, st2)
        | (.ret v, st2) => (.ret v, st2)
        | (.oom, st2) => (.oom, st2) := by
  simp only [inLoopB, svB, setSeq, itemDenied_noguard env _ i hg, hg]
  rfl

/-- **Once per element of the window**: a batched loop that completes from element `i` has rendered the body exactly
once for each of the elements `i … stop-1` -/
theorem once_per_window_element (env : Env) (hg : env.guardOn = false) : ∀ (fuel : Nat) (sv : SeqVars) (o : InOpts) (w : BWin)
    (body : List Blk) (i : Nat) (st st' : St) (ps : List Piece),
    inLoopB env fuel sv o w body i st = (.ok ps, st') → ps.length = w.stop - i := by
  intro fuel
  induction fuel with
  | zero => intro sv o w body i st st' ps h; simp [inLoopB] at h
  | succ n ih =>
    intro sv o w body i st st' ps h
    rw [inLoopB_rule env hg] at h
    split at h
    · rename_i hge
      simp only [Prod.mk.injEq, Res.ok.injEq] at h
      obtain ⟨rfl, _⟩ := h
      simp; omega
    · rename_i hlt
      split at h
      · rename_i p st2 hit
        split at h
        · rename_i qs st3 hl
          simp only [Prod.mk.injEq, Res.ok.injEq] at h
          obtain ⟨rfl, _⟩ := h
          have := ih _ o w body (i + 1) st2 st3 qs hl
          simp only [List.length_cons, this]
          omega
        · rename_i r hne
          cases hr : inLoopB env n (afterItem (svB sv w i) w i) o w body (i + 1) st2 with
          | mk r1 s1 =>
            rw [hr] at h
            cases r1 with
            | ok qs => exact (hne qs s1 hr).elim
            | raise e => cases h
            | ret v => cases h
            | oom => cases h
      · cases h
      · cases h
      · cases h

/-- storing a batch variable changes neither the position flags nor the elements -/
theorem set_fields (sv : SeqVars) (n : Render.Text) (v : Val) :
    (sv.set n v).items = sv.items ∧ (sv.set n v).started = sv.started ∧ (sv.set n v).ended = sv.ended ∧
    (sv.set n v).index = sv.index ∧ (sv.set n v).prefix_ = sv.prefix_ ∧ (sv.set n v).mapping = sv.mapping := by
  unfold SeqVars.set
  cases sv.prefix_ <;> exact ⟨rfl, rfl, rfl, rfl, rfl, rfl⟩

theorem prevInfo_fields (sv : SeqVars) (w : BWin) (f : Bool) :
    (prevInfo sv w f).items = sv.items ∧ (prevInfo sv w f).started = sv.started ∧ (prevInfo sv w f).ended = sv.ended := by
  unfold prevInfo
  cases f <;> simp [set_fields]

theorem nextInfo_fields (sv : SeqVars) (w : BWin) (f : Bool) :
    (nextInfo sv w f).items = sv.items ∧ (nextInfo sv w f).started = sv.started ∧ (nextInfo sv w f).ended = sv.ended := by
  unfold nextInfo
  cases f <;> simp [set_fields]

theorem batchInfo_fields (sv : SeqVars) (w : BWin) (i : Nat) :
    (batchInfo sv w i).items = sv.items ∧ (batchInfo sv w i).started = sv.started ∧ (batchInfo sv w i).ended = sv.ended := by
  unfold batchInfo
  dsimp only
  split <;> split <;> simp [prevInfo_fields, nextInfo_fields]

theorem batchStep_fields (sv : SeqVars) (w : BWin) (i : Nat) :
    (batchStep sv w i).items = sv.items ∧ (batchStep sv w i).started = sv.started ∧
    (batchStep sv w i).ended = (sv.ended || (i + 1 == w.stop)) := by
  unfold batchStep
  dsimp only
  have h1 : ((sv.set (txt "previous-sequence") (.int 0)).set (txt "next-sequence") (.int 0)).items = sv.items ∧
      ((sv.set (txt "previous-sequence") (.int 0)).set (txt "next-sequence") (.int 0)).started = sv.started ∧
      ((sv.set (txt "previous-sequence") (.int 0)).set (txt "next-sequence") (.int 0)).ended = sv.ended := by
    have a := set_fields (sv.set (txt "previous-sequence") (.int 0)) (txt "next-sequence") (.int 0)
    have b := set_fields sv (txt "previous-sequence") (.int 0)
    exact ⟨a.1.trans b.1, a.2.1.trans b.2.1, a.2.2.1.trans b.2.2.1⟩
  generalize (sv.set (txt "previous-sequence") (.int 0)).set (txt "next-sequence") (.int 0) = s1 at h1 ⊢
  have h2 : (if (i == w.first || i + 1 == w.stop) = true then batchInfo s1 w i else s1).items = sv.items ∧
      (if (i == w.first || i + 1 == w.stop) = true then batchInfo s1 w i else s1).started = sv.started ∧
      (if (i == w.first || i + 1 == w.stop) = true then batchInfo s1 w i else s1).ended = sv.ended := by
    split
    · have c := batchInfo_fields s1 w i
      exact ⟨c.1.trans h1.1, c.2.1.trans h1.2.1, c.2.2.trans h1.2.2⟩
    · exact h1
  generalize (if (i == w.first || i + 1 == w.stop) = true then batchInfo s1 w i else s1) = s2 at h2 ⊢
  by_cases hl : (i + 1 == w.stop) = true
  · simp only [hl, if_true, Bool.or_true]
    exact ⟨h2.1, h2.2.1, trivial⟩
  · have hl' : (i + 1 == w.stop) = false := by simpa using hl
    simp only [hl', Bool.false_eq_true, if_false, Bool.or_false]
    exact h2

/-- **Position flags inside the window**: the element rendered at position `i` sees index `i` (its position in the
whole sequence); `sequence-end` exactly on the last element of the window; `sequence-start` is whatever the loop
carries, i.e. set until the first element of the window has been rendered (`afterItem`) -/
theorem window_flags (sv : SeqVars) (w : BWin) (i : Nat) (h0 : sv.ended = false) :
    (svB sv w i).index = i ∧ (svB sv w i).items = sv.items ∧ (svB sv w i).started = sv.started ∧
    ((svB sv w i).ended = true ↔ i + 1 = w.stop) := by
  have h := batchStep_fields sv w i
  unfold svB
  refine ⟨rfl, h.1, h.2.1, ?_⟩
  show (batchStep sv w i).ended = true ↔ i + 1 = w.stop
  rw [h.2.2, h0]
  simp

/-- `sequence-start` through the window: set on the first element, cleared afterwards -/
theorem start_cleared (sv : SeqVars) (w : BWin) (i : Nat) :
    (afterItem sv w i).started = (sv.started && !(i == w.first)) := by
  unfold afterItem
  by_cases h : i = w.first
  · simp [h]
  · have : (i == w.first) = false := by simpa using h
    simp [this]

/-- **The rendered window is C11's window**: for a non-empty sequence and `orphan ≥ 0`, the loop of a batched
dtml-in starts at element `start` and stops after element `end` of `Batch.window` (1-based), which lies inside the
sequence (`C11.opt_window`) — so `end - start + 1` elements are rendered -/
theorem window_is_batch_window (bp : BatchP) (len : Nat) (hl : 1 ≤ len) (ho : 0 ≤ bp.orphan) :
    let w := Batch.window bp.start bp.end_ bp.size bp.orphan ⟨len, false⟩
    ((bwinOf bp len).first : Int) = w.1 - 1 ∧ ((bwinOf bp len).stop : Int) = w.2.1 ∧
    (bwinOf bp len).first < (bwinOf bp len).stop ∧ (bwinOf bp len).stop ≤ len := by
  have h := C11.opt_window bp.start bp.end_ bp.size bp.orphan ⟨len, false⟩ (by show (1 : Int) ≤ (len : Int); omega) ho
  simp only at h ⊢
  obtain ⟨h1, h2, h3⟩ := h
  simp only [bwinOf]
  refine ⟨by omega, by omega, by omega, by omega⟩

/-- the number of elements a completed batched loop has rendered: `end - start + 1` of the window -/
theorem batched_count (env : Env) (hg : env.guardOn = false) (fuel : Nat) (sv : SeqVars) (o : InOpts) (bp : BatchP)
    (len : Nat) (hl : 1 ≤ len) (ho : 0 ≤ bp.orphan) (body : List Blk) (st st' : St) (ps : List Piece)
    (h : inLoopB env fuel sv o (bwinOf bp len) body (bwinOf bp len).first st = (.ok ps, st')) :
    (ps.length : Int) =
      (Batch.window bp.start bp.end_ bp.size bp.orphan ⟨len, false⟩).2.1 -
      (Batch.window bp.start bp.end_ bp.size bp.orphan ⟨len, false⟩).1 + 1 := by
  have hc := once_per_window_element env hg fuel sv o (bwinOf bp len) body _ st st' ps h
  have hw := window_is_batch_window bp len hl ho
  simp only at hw
  omega

/-! ##### the batch variables -/

theorem lookup_setKV_same (kvs : List (Render.Text × Val)) (k : Render.Text) (v : Val) : (setKV kvs k v).lookup k = some v := by
  unfold setKV
  induction kvs with
  | nil => simp [List.lookup]
  | cons kv t ih =>
    obtain ⟨k', v'⟩ := kv
    by_cases h : k' = k
    · subst h; simpa [List.filter] using ih
    · have hne : (k' != k) = true := by simpa using h
      have hne' : (k == k') = false := by
        simp only [beq_eq_false_iff_ne, ne_eq]; exact fun e => h e.symm
      simp only [List.filter, hne, List.cons_append, List.lookup_cons, hne']
      exact ih

theorem lookup_setKV_other (kvs : List (Render.Text × Val)) (k k' : Render.Text) (v : Val) (h : k' ≠ k) :
    (setKV kvs k v).lookup k' = kvs.lookup k' := by
  unfold setKV
  induction kvs with
  | nil =>
    have : (k' == k) = false := by simpa using h
    simp [List.lookup, this]
  | cons kv t ih =>
    obtain ⟨k2, v2⟩ := kv
    by_cases h2 : k2 = k
    · subst h2
      have hk : (k' == k2) = false := by simpa using h
      simp only [List.filter, bne_self_eq_false, List.lookup_cons, hk]
      exact ih
    · have hne : (k2 != k) = true := by simpa using h2
      simp only [List.filter, hne, List.cons_append, List.lookup_cons]
      split
      · rfl
      · exact ih

/-- the name under which a batch variable is stored a second time contains an underscore -/
theorem alias_has_underscore (p n : Render.Text) : '_' ∈ prefixAlias p n := by
  unfold prefixAlias
  split <;> simp

theorem extra_set_same (sv : SeqVars) (n : Render.Text) (v : Val) (hn : '_' ∉ n) : (sv.set n v).extra.lookup n = some v := by
  unfold SeqVars.set
  cases hp : sv.prefix_ with
  | none => simp only [lookup_setKV_same]
  | some p =>
    have hne : n ≠ prefixAlias p n := fun e => hn (e ▸ alias_has_underscore p n)
    simp only [lookup_setKV_other _ _ _ _ hne, lookup_setKV_same]

/-- … and storing one variable leaves the others as they were -/
theorem extra_set_other (sv : SeqVars) (n k : Render.Text) (v : Val) (hk : '_' ∉ k) (hne : k ≠ n) :
    (sv.set n v).extra.lookup k = sv.extra.lookup k := by
  unfold SeqVars.set
  cases hp : sv.prefix_ with
  | none => simp only [lookup_setKV_other _ _ _ _ hne]
  | some p =>
    have hne2 : k ≠ prefixAlias p n := fun e => hk (e ▸ alias_has_underscore p n)
    simp only [lookup_setKV_other _ _ _ _ hne2, lookup_setKV_other _ _ _ _ hne]

/-- what the variables' own dictionary holds is what a lookup finds -/
theorem seqGet_of_extra (sv : SeqVars) (k : Render.Text) (v : Val) (h : sv.extra.lookup k = some v) : seqGet sv k = .val v := by
  unfold seqGet
  rw [h]

/-- **a stored batch variable is found under its name** (with or without `prefix=`: the prefixed copy has another
name, since batch variable names contain no underscore) -/
theorem get_set_same (sv : SeqVars) (n : Render.Text) (v : Val) (hn : '_' ∉ n) : seqGet (sv.set n v) n = .val v :=
  seqGet_of_extra _ _ _ (extra_set_same sv n v hn)

/-- **with `prefix=p` the same value is also found under the prefixed name** (`previous-sequence` ↦
`p_previous-sequence`, `sequence-step-size` ↦ `p_step_size`) -/
theorem get_set_alias (sv : SeqVars) (p n : Render.Text) (v : Val) (hp : sv.prefix_ = some p) :
    seqGet (sv.set n v) (prefixAlias p n) = .val v := by
  apply seqGet_of_extra
  unfold SeqVars.set
  simp only [hp, lookup_setKV_same]

/-- **The previous batch as announced** (on the first element of a window that has predecessors, and by the
`previous` form of the tag): previous-sequence is 1 and the -start-index / -end-index / -size variables describe
`opt(0, start - 1 + overlap, size, orphan)` — C11's `links.prevStart / prevEnd` -/
theorem prev_vars (sv : SeqVars) (w : BWin) :
    seqGet (prevInfo sv w true) (txt "previous-sequence") = .val (.int 1) ∧
    (∀ f, seqGet (prevInfo sv w f) (txt "previous-sequence-start-index") =
      .val (.int ((Batch.opt 0 (w.first + w.overlap) w.sz w.orphan ⟨sv.items.length, false⟩).1 - 1))) ∧
    (∀ f, seqGet (prevInfo sv w f) (txt "previous-sequence-end-index") =
      .val (.int ((Batch.opt 0 (w.first + w.overlap) w.sz w.orphan ⟨sv.items.length, false⟩).2.1 - 1))) ∧
    (∀ f, seqGet (prevInfo sv w f) (txt "previous-sequence-size") =
      .val (.int ((Batch.opt 0 (w.first + w.overlap) w.sz w.orphan ⟨sv.items.length, false⟩).2.1 + 1 -
                  (Batch.opt 0 (w.first + w.overlap) w.sz w.orphan ⟨sv.items.length, false⟩).1))) := by
  refine ⟨?_, ?_, ?_, ?_⟩
  · apply seqGet_of_extra
    unfold prevInfo
    simp only [if_true]
    rw [extra_set_other _ _ _ _ (by decide) (by decide), extra_set_other _ _ _ _ (by decide) (by decide),
      extra_set_other _ _ _ _ (by decide) (by decide)]
    exact extra_set_same _ _ _ (by decide)
  · intro f
    apply seqGet_of_extra
    unfold prevInfo
    dsimp only
    rw [extra_set_other _ _ _ _ (by decide) (by decide), extra_set_other _ _ _ _ (by decide) (by decide)]
    exact extra_set_same _ _ _ (by decide)
  · intro f
    apply seqGet_of_extra
    unfold prevInfo
    dsimp only
    rw [extra_set_other _ _ _ _ (by decide) (by decide)]
    exact extra_set_same _ _ _ (by decide)
  · intro f
    apply seqGet_of_extra
    unfold prevInfo
    dsimp only
    exact extra_set_same _ _ _ (by decide)

/-- **The next batch as announced** (on the last element of a window that has successors, and by the `next` form):
next-sequence is 1 and the variables describe `opt(end + 1 - overlap, 0, size, orphan)` — C11's
`links.nextStart / nextEnd` -/
theorem next_vars (sv : SeqVars) (w : BWin) :
    seqGet (nextInfo sv w true) (txt "next-sequence") = .val (.int 1) ∧
    (∀ f, seqGet (nextInfo sv w f) (txt "next-sequence-start-index") =
      .val (.int ((Batch.opt (w.stop + 1 - w.overlap) 0 w.sz w.orphan ⟨sv.items.length, false⟩).1 - 1))) ∧
    (∀ f, seqGet (nextInfo sv w f) (txt "next-sequence-end-index") =
      .val (.int ((Batch.opt (w.stop + 1 - w.overlap) 0 w.sz w.orphan ⟨sv.items.length, false⟩).2.1 - 1))) ∧
    (∀ f, seqGet (nextInfo sv w f) (txt "next-sequence-size") =
      .val (.int ((Batch.opt (w.stop + 1 - w.overlap) 0 w.sz w.orphan ⟨sv.items.length, false⟩).2.1 + 1 -
                  (Batch.opt (w.stop + 1 - w.overlap) 0 w.sz w.orphan ⟨sv.items.length, false⟩).1))) := by
  refine ⟨?_, ?_, ?_, ?_⟩
  · apply seqGet_of_extra
    unfold nextInfo
    simp only [if_true]
    rw [extra_set_other _ _ _ _ (by decide) (by decide), extra_set_other _ _ _ _ (by decide) (by decide),
      extra_set_other _ _ _ _ (by decide) (by decide)]
    exact extra_set_same _ _ _ (by decide)
  · intro f
    apply seqGet_of_extra
    unfold nextInfo
    dsimp only
    rw [extra_set_other _ _ _ _ (by decide) (by decide), extra_set_other _ _ _ _ (by decide) (by decide)]
    exact extra_set_same _ _ _ (by decide)
  · intro f
    apply seqGet_of_extra
    unfold nextInfo
    dsimp only
    rw [extra_set_other _ _ _ _ (by decide) (by decide)]
    exact extra_set_same _ _ _ (by decide)
  · intro f
    apply seqGet_of_extra
    unfold nextInfo
    dsimp only
    exact extra_set_same _ _ _ (by decide)

/-- the announced neighbours are C11's links of the window `start = first + 1`, `end = stop` -/
theorem vars_are_links (w : BWin) (len : Nat) :
    (Batch.links (w.first + 1) w.stop w.sz w.orphan w.overlap ⟨len, false⟩).prevStart =
      (Batch.opt 0 (w.first + w.overlap) w.sz w.orphan ⟨len, false⟩).1 ∧
    (Batch.links (w.first + 1) w.stop w.sz w.orphan w.overlap ⟨len, false⟩).prevEnd =
      (Batch.opt 0 (w.first + w.overlap) w.sz w.orphan ⟨len, false⟩).2.1 ∧
    (Batch.links (w.first + 1) w.stop w.sz w.orphan w.overlap ⟨len, false⟩).nextStart =
      (Batch.opt (w.stop + 1 - w.overlap) 0 w.sz w.orphan ⟨len, false⟩).1 ∧
    (Batch.links (w.first + 1) w.stop w.sz w.orphan w.overlap ⟨len, false⟩).nextEnd =
      (Batch.opt (w.stop + 1 - w.overlap) 0 w.sz w.orphan ⟨len, false⟩).2.1 := by
  have h : ((w.first : Int) + 1 - 1 + w.overlap) = (w.first : Int) + w.overlap := by omega
  simp only [Batch.links, h, and_self]

/-- **Nothing a batched dtml-in binds remains visible after its end tag** (C08), whatever the options -/
theorem inx_scope_ends (env : Env) (fuel : Nat) (src : Src) (o : InOpts) (x : InXOpts) (body : List Blk)
    (els : Option (List Blk)) (st : St) :
    (renderBlk env fuel (.inx_ src o x body els) st).2.stack.map C08.erase = st.stack.map C08.erase ∧
    (renderBlk env fuel (.inx_ src o x body els) st).2.level = st.level :=
  C08.block_preserves_stack env fuel (.inx_ src o x body els) st

/-! ##### batch parameters given by variable name (`start=query_start`) -/

/-- **`start` by name never fails**: when looking the variable up raises (undefined name, a callable that raises),
`renderwb` takes 1 and goes on with the remaining parameters -/
theorem start_by_name_failure_is_one (env : Env) (fuel : Nat) (n : Render.Text) (rest : List (Render.Text × Render.Text))
    (bp : BatchP) (bad : Bool) (st st' : St) (e : Exc) (h : getitem env fuel n true st = (.raise e, st')) :
    resolveNames env (fuel + 1) (("start".toList, n) :: rest) bp bad st =
      resolveNames env fuel rest { bp with start := 1 } bad st' := by
  simp only [resolveNames, h, setParam]
  rfl

/-- … for every other parameter the failure propagates (here: `size`) -/
theorem size_by_name_failure_propagates (env : Env) (fuel : Nat) (n : Render.Text) (rest : List (Render.Text × Render.Text))
    (bp : BatchP) (bad : Bool) (st st' : St) (e : Exc) (h : getitem env fuel n true st = (.raise e, st')) :
    resolveNames env (fuel + 1) (("size".toList, n) :: rest) bp bad st = (.raise e, st') := by
  simp only [resolveNames, h]
  rfl

/-- a number is taken as it is, a numeral string is converted (`int_param`) -/
theorem param_by_name_value (env : Env) (fuel : Nat) (n : Render.Text) (rest : List (Render.Text × Render.Text))
    (bp : BatchP) (bad : Bool) (st st' : St) (i : Int) (h : getitem env fuel n true st = (.ok (.int i), st')) :
    resolveNames env (fuel + 1) (("size".toList, n) :: rest) bp bad st =
      resolveNames env fuel rest { bp with size := i } bad st' := by
  simp only [resolveNames, h, paramInt, setParam]
  rfl

example : (match paramInt (.str "12".toList) with | .ok i => i | _ => -1) = 12 := by decide
example : (match paramInt (.str "x".toList) with | .valueError => true | _ => false) = true := by decide

/-! ##### non-vacuity: a concrete batched rendering, evaluated in the kernel (five elements, start=2 size=2) -/
section Example
private def okText : Res (List Piece) → Option (List Piece)
  | .ok ps => some ps
  | _ => none
private def five : Val := .list [.int 10, .int 20, .int 30, .int 40, .int 50]
private def v (n : String) : Blk := .var (.name n.toList) false none none
set_option maxHeartbeats 4000000 in
example : okText (renderBlk {} 60 (.inx_ (.name "seq".toList) {} { batch := some { start := 2, size := 2 } }
      [v "sequence-number", .lit ":".toList, v "previous-sequence", .lit ":".toList, v "next-sequence", .lit ":".toList,
       v "next-sequence-start-number", .lit ";".toList] none)
    { stack := [.dict [("seq".toList, five)]] }).1 = some [.text "2:1:0:4;3:0:1:4;".toList] := by decide +kernel
set_option maxHeartbeats 4000000 in
example : okText (renderBlk {} 60 (.inx_ (.name "seq".toList) {} { batch := some { start := 2, size := 2, previous := true } }
      [v "previous-sequence-start-number", .lit "-".toList, v "previous-sequence-end-number", .lit ";".toList]
      (some [.lit "none".toList]))
    { stack := [.dict [("seq".toList, five)]] }).1 = some [.text "1-1;".toList] := by decide +kernel
end Example

end Batched

/-! ### The per-item pushes rest on the instance lookup of the source (regenerated on every run, proved in Props/C02) -/
theorem gen_item_lookup_is_model (env : Env) (v : Val) (cache : List (Text × Val)) (key : Text) (tr : List Event) :
    GenNs.instGetitemGen env v cache key tr = frameGet env (.inst v cache) key tr :=
  C02.gen_instancedict_getitem_is_model env v cache key tr

/-! ### The loop of `InClass.renderwob`, translated from the source on every run (GenIn.lean), is the interpreter's `inLoop`

The translation keeps `sequence-start` as the source does - a stored flag, cleared after element 0 has been rendered or when
element 1 is skipped as unauthorized - where the interpreter computes it from the refusals (`startedAt`); the hypothesis says
the stored flag is right on entry (it is `true` at index 0: the prologue's fresh `sequence_variables`). -/

/-- one pass through the body of `for index in range(l_)` (the flags stored, the element fetched - through the item guard when
one is installed -, the tuple convention, what is pushed and popped around `render_blocks(section, md)`, `continue` / the
re-raised ValidationError) is one unfolding of `inLoop`, for every element, namespace and option set -/
theorem gen_in_step_is_model (env : Env) (fuel : Nat) (o : InOpts) (body : List Blk) (sv : SeqVars) (i : Nat) (st : St)
    (hi : i < sv.items.length) (hs : sv.started = startedAt env o sv i) :
    inLoop env (fuel + 1) sv o body i st =
      GenIn.inCont (GenIn.inStepGen env fuel o body sv i st) (fun sv' st' => inLoop env fuel sv' o body (i + 1) st') :=
  Lemmas.InGen.in_step_eq env fuel o body sv i st hi hs

/-- a pass hands on the same sequence and the flag the interpreter computes for the next element -/
theorem gen_in_step_keeps_start (env : Env) (fuel : Nat) (o : InOpts) (body : List Blk) (sv : SeqVars) (i : Nat) (st : St)
    (hi : i < sv.items.length) (hs : sv.started = startedAt env o sv i) (sv' : SeqVars)
    (h : Lemmas.InGen.stepVars (GenIn.inStepGen env fuel o body sv i st) = some sv') :
    sv'.items = sv.items ∧ sv'.started = startedAt env o sv' (i + 1) :=
  Lemmas.InGen.step_keeps env fuel o body sv i st hi hs sv' h

/-- the loop as the source runs it (index `i`, `i + 1`, … while `index < l_`, the pieces appended in order) is `inLoop` -/
theorem gen_in_loop_is_model (env : Env) (o : InOpts) (body : List Blk) (fuel : Nat) (sv : SeqVars) (i : Nat) (st : St)
    (hs : sv.started = startedAt env o sv i) :
    GenIn.inLoopGen env fuel o body sv i st = inLoop env fuel sv o body i st :=
  Lemmas.InGen.in_loop_eq env o body fuel sv i st hs

/-- from the first index of `range(l_)`, on the variables the prologue of dtml-in builds (`renderIn` / `renderInX` start
`inLoop` on exactly these) -/
theorem gen_in_loop_from_start (env : Env) (o : InOpts) (body : List Blk) (fuel : Nat) (xs : List Val) (st : St) :
    GenIn.inLoopGen env fuel o body { items := xs, mapping := o.mapping, prefix_ := o.prefix_ } GenIn.inLoopStart st =
      inLoop env fuel { items := xs, mapping := o.mapping, prefix_ := o.prefix_ } o body 0 st :=
  Lemmas.InGen.in_loop_eq env o body fuel _ 0 st rfl

/-- non-vacuity of the hypothesis past index 0: with a refused first element that is skipped the flag is still set at element 1 -/
example : startedAt { guardOn := true, deniedItems := [7] } { skipUnauth := true }
    { items := [.obj 7 [], .int 1] } 1 = true := by decide
/-! ### The per-index methods of `sequence_variables` are those of the source

`GenSeqVar.numberGen … lengthGen` are regenerated on every run by translating the methods `number`, `even`, `odd`, `letter`,
`Letter`, `key`, `item`, `Roman`, `roman`, `value`, `first`, `last`, `length` of class `sequence_variables` in /repo statement
by statement (harness/trans_seqvar.py): every expression (`index + 1`, `index % 2 == 0`, `index % 2`, `ord('a') + index`,
`self.items[index][0]`, the 2-tuple test, `data['mapping']`, `index - 1` / `index + 1`, the `sequence-start` /
`sequence-end` short cuts returning 1) stands in the generated text as it stands in the source, over a run-time library of
Python's operations on the model's values.  `roman.toRoman` is third party and stays the model's `toRoman`. -/
section GenSeqVar
open DTML.GenSeqVar DTML.Lemmas.SeqVar

/-- `number`, `even`, `odd`, `length`, `Roman`, `roman` compute what `seqFixed` lists for them, for every index -/
theorem gen_seqvar_arith_is_model (sv : SeqVars) (i : Nat) (v : Val) :
    numberGen sv (.int i) = .ok (.int (i + 1)) ∧
    evenGen sv (.int i) = .ok (.bool (i % 2 == 0)) ∧
    oddGen sv (.int i) = .ok (.int (i % 2)) ∧
    lengthGen sv v = .ok (.int sv.items.length) ∧
    RomanGen sv (.int i) =
      (if i + 1 < 5000 then .ok (.str (toRoman (i + 1))) else .raise (exc "OutOfRangeError")) ∧
    romanGen sv (.int i) =
      (if i + 1 < 5000 then .ok (.str ((toRoman (i + 1)).map Char.toLower)) else .raise (exc "OutOfRangeError")) := by
  have hR : RomanGen sv (.int i) =
      (if i + 1 < 5000 then .ok (.str (toRoman (i + 1))) else .raise (exc "OutOfRangeError")) := by
    simp only [RomanGen, pyLet, pyInt, pyAdd, arith, lit, pyToRoman, bind_ok, asInt_int]
    have e : ((i : Int) + 1).toNat = i + 1 := by omega
    by_cases hl : i + 1 < 5000
    · have : (0 : Int) < (i : Int) + 1 ∧ (i : Int) + 1 < 5000 := by omega
      rw [if_pos hl, if_pos this, e]
    · have : ¬ ((0 : Int) < (i : Int) + 1 ∧ (i : Int) + 1 < 5000) := by omega
      have h0 : ¬ ((i : Int) + 1 = 0) := by omega
      rw [if_neg hl, if_neg this, if_neg h0]
  refine ⟨?_, ?_, ?_, ?_, hR, ?_⟩
  · simp [numberGen, pyAdd, arith, lit]
  · have h : (((i : Int) % 2) == 0) = (i % 2 == 0) := by
      rw [Bool.eq_iff_iff, beq_iff_eq, beq_iff_eq]; omega
    simp only [evenGen, pyEq, pyMod, arith, lit, valBeq, fmod2, bind_ok, asInt_int]
    simp [h]
  · simp [oddGen, pyMod, arith, lit, fmod2]
  · simp [lengthGen, pyLet, pyLen, selfItems]
  · simp only [romanGen, pyCall1, bind_ok, hR, pyLower]
    by_cases hl : i + 1 < 5000
    · simp [hl]
    · simp [hl]

/-- `letter` / `Letter`: `chr(ord('a') + index)` is `letterOf 97`, `chr(ord('A') + index)` is `letterOf 65`, as long as the
code point exists (beyond `sys.maxunicode` the source raises ValueError) -/
theorem gen_seqvar_letter_is_model (sv : SeqVars) (i : Nat) :
    (97 + i < maxCode → letterGen sv (.int i) = .ok (.str (letterOf 97 i))) ∧
    (65 + i < maxCode → LetterGen sv (.int i) = .ok (.str (letterOf 65 i))) ∧
    (¬ 97 + i < maxCode → letterGen sv (.int i) = .raise (exc "ValueError")) ∧
    (¬ 65 + i < maxCode → LetterGen sv (.int i) = .raise (exc "ValueError")) := by
  have ha : pyOrd (pyStr "a") = .ok (.int (97 : Nat)) := by rfl
  have hA : pyOrd (pyStr "A") = .ok (.int (65 : Nat)) := by rfl
  refine ⟨fun h => ?_, fun h => ?_, fun h => ?_, fun h => ?_⟩
  · simp only [letterGen, ha, chr_add_ok 97 i h]
  · simp only [LetterGen, hA, chr_add_ok 65 i h]
  · simp only [letterGen, ha, chr_add_out 97 i h]
  · simp only [LetterGen, hA, chr_add_out 65 i h]

/-- `item`: the element, the second half of a 2-tuple - `seqItem` (an index past the end raises IndexError) -/
theorem gen_seqvar_item_is_model (sv : SeqVars) (i : Nat) :
    itemGen sv (.int i) =
      (match sv.items[i]? with | some _ => .ok (seqItem sv i) | none => .raise (exc "IndexError")) := by
  simp only [itemGen, pyLet, items_at]
  cases h : sv.items[i]? with
  | none => rfl
  | some v => simp only [bind_ok]; exact unwrap_eq sv i v h

/-- `key` = `items[index][0]` is `seqKeyRes` (a KeyError = "not in this frame") -/
theorem gen_seqvar_key_is_model (sv : SeqVars) (h : sv.index < sv.items.length) :
    toSeqRes (keyGen sv (.int sv.index)) = seqKeyRes sv := by
  simp only [keyGen, items_at, seqKeyRes]
  have hs : sv.items[sv.index]? = some sv.items[sv.index] := by simp [h]
  rw [hs]
  cases sv.items[sv.index] with
  | tuple xs => cases xs <;> simp [pySubscr, lit, subscr, pyIdx, toSeqRes, exc_def]
  | list xs => cases xs <;> simp [pySubscr, lit, subscr, pyIdx, toSeqRes, exc_def]
  | str xs => cases xs <;> simp [pySubscr, lit, subscr, pyIdx, toSeqRes, exc_def]
  | bytes xs => cases xs <;> simp [pySubscr, lit, subscr, pyIdx, toSeqRes, exc_def]
  | _ => simp [pySubscr, lit, subscr, toSeqRes, exc_def]

/-- on a 2-tuple `key` is the model's `seqKey` -/
theorem gen_seqvar_key_is_seqKey (sv : SeqVars) (i : Nat) (k : Val) (h : seqKey sv i = some k) :
    keyGen sv (.int i) = .ok k := by
  simp only [keyGen, items_at]
  unfold seqKey at h
  split at h
  · rename_i k' v' hk
    rw [hk]
    simp only [Option.some.injEq] at h
    simp [pySubscr, lit, subscr, pyIdx, h]
  · cases h

theorem gen_seqvar_value_unfolds (sv : SeqVars) (i : Nat) (x : Text) :
    valueGen sv (.int i) (.str x) =
      (match sv.items[i]? with | some _ => valueOf sv (seqItem sv i) x | none => .raise (exc "IndexError")) := by
  simp only [valueGen, pyLet, items_at]
  cases h : sv.items[i]? with
  | none => rfl
  | some v => simp only [bind_ok, unwrap_eq sv i v h]; rfl

/-- `value(index, name)` is `seqValueStrict` (what first-x / last-x compare) for every index inside the sequence -/
theorem gen_seqvar_value_is_model (sv : SeqVars) (i : Nat) (x : Text) (h : i < sv.items.length) :
    toSVal (valueGen sv (.int i) (.str x)) = seqValueStrict sv i x := by
  rw [gen_seqvar_value_unfolds]
  have hs : sv.items[i]? = some sv.items[i] := by simp [h]
  rw [hs]
  exact valueOf_strict sv i x

/-- `self.value(…)` inside `try … except Exception: pass` (how `sequence-var-x` reads it) is `seqValue`, for every index -/
theorem gen_seqvar_value_is_seqValue (sv : SeqVars) (i : Nat) (x : Text) :
    optOf (valueGen sv (.int i) (.str x)) = seqValue sv i x := by
  rw [gen_seqvar_value_unfolds]
  cases hs : sv.items[i]? with
  | none => simp [optOf, seqValue, seqItem, hs]
  | some v =>
    simp only [valueOf, seqValue, data_mapping]
    cases hm : sv.mapping <;> cases seqItem sv i <;>
      simp only [pyIf, truthy, pySubscr, subscr, pyGetattr, exc_def, bind_ok, optOf, asInt, if_true, if_false,
        Bool.false_eq_true]
    all_goals (first | rfl | (cases List.lookup x _ <;> rfl))

/-- the positions the loop produces: an index inside the sequence, a predecessor unless `sequence-start` is set, a
successor unless `sequence-end` is set (decidable) -/
def WellPlaced (sv : SeqVars) : Prop :=
  sv.noIndex = false ∧ sv.index < sv.items.length ∧ (sv.started = false → 1 ≤ sv.index) ∧
    (sv.ended = false → sv.index + 1 < sv.items.length)

instance (sv : SeqVars) : Decidable (WellPlaced sv) := by unfold WellPlaced; infer_instance

/-- every frame the loop sets (`svAt`) is well placed -/
theorem svAt_wellPlaced (sv : SeqVars) (i : Nat) (hn : sv.noIndex = false) (hi : i < sv.items.length) :
    WellPlaced (svAt sv i) := by
  refine ⟨hn, hi, ?_, ?_⟩
  · simp only [svAt]; intro h; have : i ≠ 0 := by simpa using h
    omega
  · simp only [svAt]; intro h
    have h2 : ¬ (i + 1 = sv.items.length) := by
      intro e; simp [e] at h
    show i + 1 < sv.items.length
    omega

example : WellPlaced { items := [.int 1, .int 2, .int 3], index := 1, started := false, ended := false } := by decide

private theorem neighbours (sv : SeqVars) (x : Text) (i j : Nat) (hi : i < sv.items.length) (hj : j < sv.items.length) :
    toSeqRes (pyNe (pyCall2 (valueGen sv) (.ok (.int i)) (.ok (.str x))) (pyCall2 (valueGen sv) (.ok (.int j)) (.ok (.str x)))) =
      (match seqValueStrict sv i x with
       | .raise e => .raise e
       | .keyMissing => .missing
       | .val a =>
         match seqValueStrict sv j x with
         | .raise e => .raise e
         | .keyMissing => .missing
         | .val b => .val (.bool (!(valBeq 3 a b)))) := by
  rw [← gen_seqvar_value_is_model sv i x hi, ← gen_seqvar_value_is_model sv j x hj]
  simp only [pyCall2, bind_ok, pyNe]
  cases valueGen sv (.int i) (.str x) <;> cases valueGen sv (.int j) (.str x) <;> rfl

/-- `first(name)`: 1 while `sequence-start` is set, else whether the element's `name` differs from its predecessor's
(`index - 1` of the source) - the `first-` branch of `seqLookup` -/
theorem gen_seqvar_first_is_model (sv : SeqVars) (x : Text) (k : Val) (hw : WellPlaced sv) :
    toSeqRes (firstGen sv (.str x) k) =
      (if sv.started then .val (.int 1) else neighbourDiffers sv (sv.index - 1) x) := by
  obtain ⟨hn, hi, hs, he⟩ := hw
  simp only [firstGen, data_start, pyIf, bind_ok]
  cases hst : sv.started with
  | true => simp [truthy, lit, toSeqRes]
  | false =>
    have h1 := hs hst
    have hsub : pySub (.ok (.int sv.index)) (lit 1) = .ok (.int ((sv.index - 1 : Nat) : Int)) := by
      simp only [pySub, arith, lit, bind_ok, asInt_int]
      congr 2; omega
    simp only [truthy, pyLet, data_index sv hn, bind_ok, hsub]
    simp only [show ((0 : Int) != 0) = false from rfl, Bool.false_eq_true, if_false]
    rw [neighbours sv x sv.index (sv.index - 1) hi (by omega)]
    rfl

/-- `last(name)`: 1 while `sequence-end` is set, else whether the element's `name` differs from its successor's
(`index + 1` of the source) - the `last-` branch of `seqLookup` -/
theorem gen_seqvar_last_is_model (sv : SeqVars) (x : Text) (k : Val) (hw : WellPlaced sv) :
    toSeqRes (lastGen sv (.str x) k) =
      (if sv.ended then .val (.int 1) else neighbourDiffers sv (sv.index + 1) x) := by
  obtain ⟨hn, hi, hs, he⟩ := hw
  simp only [lastGen, data_end, pyIf, bind_ok]
  cases hst : sv.ended with
  | true => simp [truthy, lit, toSeqRes]
  | false =>
    have h1 := he hst
    have hadd : pyAdd (.ok (.int sv.index)) (lit 1) = .ok (.int ((sv.index + 1 : Nat) : Int)) := by
      simp only [pyAdd, arith, lit, bind_ok, asInt_int]
      congr 2
    simp only [truthy, pyLet, data_index sv hn, bind_ok, hadd]
    simp only [show ((0 : Int) != 0) = false from rfl, Bool.false_eq_true, if_false]
    rw [neighbours sv x sv.index (sv.index + 1) hi h1]
    rfl

/-- **the fixed-name table of the model is the methods of the source**: for every per-index name of `seqFixed`, its entry
is what the source's method of that name returns for `sequence-index` -/
theorem gen_seqvar_fixed_is_model (sv : SeqVars) (hi : sv.index < sv.items.length) (hc : 97 + sv.index < maxCode) :
    seqFixed sv "number".toList = optOf (numberGen sv (.int sv.index)) ∧
    seqFixed sv "even".toList = optOf (evenGen sv (.int sv.index)) ∧
    seqFixed sv "odd".toList = optOf (oddGen sv (.int sv.index)) ∧
    seqFixed sv "letter".toList = optOf (letterGen sv (.int sv.index)) ∧
    seqFixed sv "Letter".toList = optOf (LetterGen sv (.int sv.index)) ∧
    seqFixed sv "Roman".toList = optOf (RomanGen sv (.int sv.index)) ∧
    seqFixed sv "roman".toList = optOf (romanGen sv (.int sv.index)) ∧
    seqFixed sv "length".toList = optOf (lengthGen sv (.int sv.index)) ∧
    seqFixed sv "item".toList = optOf (itemGen sv (.int sv.index)) := by
  obtain ⟨h1, h2, h3, h4, h5, h6⟩ := gen_seqvar_arith_is_model sv sv.index (.int sv.index)
  obtain ⟨l1, l2, _, _⟩ := gen_seqvar_letter_is_model sv sv.index
  have hs : sv.items[sv.index]? = some sv.items[sv.index] := by simp [hi]
  rw [h1, h2, h3, h4, h5, h6, l1 hc, l2 (by omega), gen_seqvar_item_is_model, hs]
  refine ⟨?_, ?_, ?_, ?_, ?_, ?_, ?_, ?_, ?_⟩
  · simp [seqFixed, optOf]
  · simp [seqFixed, optOf]
  · simp [seqFixed, optOf]
  · simp [seqFixed, optOf]
  · simp [seqFixed, optOf]
  · by_cases h : sv.index + 1 < 5000 <;> simp [seqFixed, optOf, h]
  · by_cases h : sv.index + 1 < 5000 <;> simp [seqFixed, optOf, h]
  · simp [seqFixed, optOf]
  · simp [seqFixed, optOf]

end GenSeqVar

/-! ### The loop of `InClass.renderwb` (the batched dtml-in), translated from the source on every run, is `inLoopB`

C11's theorems are about the window `opt` computes; these tie the loop that walks it.  `w` holds the window as the
prologue leaves it (`first` = start - 1, `stop` = end); the hypothesis `w.stop ≤ sv.items.length` is what the prologue
establishes (`window_is_batch_window`, and the clamp `try: sequence[end - 1] except IndexError: end = len(sequence)`). -/

/-- what a pass stores before the element is fetched - the presets of previous-sequence / next-sequence, the batching
information on the first and on the last displayed element (the `opt` calls with the arguments of the source, the flags
only on the first / last element, the three derived entries), `sequence-end` - is `batchStep` -/
theorem gen_in_batch_pre_is_model (sv : SeqVars) (w : BWin) (i : Nat) : GenIn.inBatchPreGen sv w i = batchStep sv w i :=
  Lemmas.InGen.batchPre_eq sv w i

/-- one pass through the body of `for index in range(first, end)` is one unfolding of `inLoopB` -/
theorem gen_in_batch_step_is_model (env : Env) (fuel : Nat) (o : InOpts) (w : BWin) (body : List Blk) (sv : SeqVars) (i : Nat)
    (st : St) (hw : i < w.stop) (hi : i < sv.items.length) :
    inLoopB env (fuel + 1) sv o w body i st =
      GenIn.inCont (GenIn.inBatchStepGen env fuel o w body sv i st) (fun sv' st' => inLoopB env fuel sv' o w body (i + 1) st') :=
  Lemmas.InGen.in_batch_step_eq env fuel o w body sv i st hw (by rw [(Batched.batchStep_fields sv w i).1]; exact hi)

/-- the loop as the source runs it (index `i`, `i + 1`, … while `index < end`) is `inLoopB` -/
theorem gen_in_batch_loop_is_model (env : Env) (o : InOpts) (w : BWin) (body : List Blk) : ∀ (fuel : Nat) (sv : SeqVars) (i : Nat)
    (st : St), w.stop ≤ sv.items.length →
    GenIn.inBatchLoopGen env fuel o w body sv i st = inLoopB env fuel sv o w body i st := by
  intro fuel
  induction fuel with
  | zero => intro sv i st _; simp [GenIn.inBatchLoopGen, inLoopB]
  | succ f ih =>
    intro sv i st hlen
    rcases Nat.lt_or_ge i w.stop with hw | hw
    · have hi : i < sv.items.length := by omega
      have hi' : i < (batchStep sv w i).items.length := by rw [(Batched.batchStep_fields sv w i).1]; exact hi
      rw [gen_in_batch_step_is_model env f o w body sv i st hw hi, GenIn.inBatchLoopGen]
      simp only [show ((i : Int) < (w.stop : Int)) from by omega, if_true]
      apply Lemmas.InGen.inCont_congr
      intro sv' h st'
      have hk := Lemmas.InGen.batch_step_items env f o w body sv i st hi' sv' h
      exact ih sv' (i + 1) st' (by rw [hk, (Batched.batchStep_fields sv w i).1]; exact hlen)
    · rw [GenIn.inBatchLoopGen, inLoopB]
      simp only [show ¬ ((i : Int) < (w.stop : Int)) from by omega, if_false, hw, if_true]

/-- from the first index of `range(first, end)`, on the window `bwinOf` computes for a non-empty sequence -/
theorem gen_in_batch_loop_from_start (env : Env) (o : InOpts) (body : List Blk) (fuel : Nat) (bp : BatchP) (sv : SeqVars) (st : St)
    (hl : 1 ≤ sv.items.length) (ho : 0 ≤ bp.orphan) :
    GenIn.inBatchLoopStart (bwinOf bp sv.items.length) = ((bwinOf bp sv.items.length).first : Int) ∧
    GenIn.inBatchLoopGen env fuel o (bwinOf bp sv.items.length) body sv (bwinOf bp sv.items.length).first st =
      inLoopB env fuel sv o (bwinOf bp sv.items.length) body (bwinOf bp sv.items.length).first st :=
  ⟨rfl, gen_in_batch_loop_is_model env o _ body fuel sv _ st (Batched.window_is_batch_window bp sv.items.length hl ho).2.2.2⟩

/-- the hypotheses are satisfiable: a window inside a five-element sequence -/
example : (bwinOf { start := 2, size := 2 } 5).stop ≤ 5 := by decide

/-! ### The dispatch of `sequence_variables.__getitem__` is that of the source

`GenSeqVar.getitemGen` / `tailGen` are regenerated on every run from `__getitem__` (harness/trans_seqvar.py): the dictionary
first, `key.rfind('-')` and the test `l_ < 0`, the two slices `key[l_ + 1:]` / `key[:l_]`, the alt_prefix branch
(`startswith`, `key[len(alt_prefix):].replace('_', '-')`, `self[suffix]` inside `try … except KeyError`, `'sequence-' +
suffix`), then `hasattr(self, suffix)` with `data[prefix + '-index']`, the table `special_prefixes` (its keys and what each
routes to, the statistics added by the loop), `prefix[-4:] == '-var'` with `self.value(data[prefix + '-index'], suffix)`
inside `try … except Exception`, `sequence-query`, `raise KeyError(key)`. -/
section GenDispatch
open DTML.GenSeqVar DTML.Lemmas.SeqVar

/-- the dictionary comes first -/
theorem gen_getitem_data_is_model (sv : SeqVars) (fuel : Nat) (key : Text) (v : Val) (h : dataHas sv key = some v) :
    getitemGen sv (fuel + 1) key = .ok v := by
  simp only [getitemGen, h]

/-- a key `p-m` outside the dictionary is split at its last '-' into prefix `p` and suffix `m` -/
theorem gen_getitem_split (sv : SeqVars) (fuel : Nat) (p m : Text) (hm : '-' ∉ m)
    (hd : dataHas sv (p ++ '-' :: m) = none) :
    getitemGen sv (fuel + 1) (p ++ '-' :: m) = tailGen sv (getitemGen sv fuel) (p ++ '-' :: m) m p :=
  getitem_split sv fuel p m hm hd

/-- a key without '-' and no `prefix=`: KeyError -/
theorem gen_getitem_plain_key_missing (sv : SeqVars) (fuel : Nat) (key : Text) (hk : '-' ∉ key)
    (hp : sv.prefix_ = none) (hd : dataHas sv key = none) :
    getitemGen sv (fuel + 1) key = .keyError key := by
  have hl : rfind '-' key < 0 := by rw [rfind_none '-' key hk]; omega
  simp only [getitemGen, hd, hl, if_true, altPrefix, hp]

/-- the per-index names the loop does not store: the fixed-name variables of the model, outside the dictionary -/
def fixedKeys : List Text :=
  ["sequence-number".toList, "sequence-even".toList, "sequence-odd".toList, "sequence-letter".toList,
   "sequence-Letter".toList, "sequence-Roman".toList, "sequence-roman".toList, "sequence-length".toList,
   "sequence-item".toList, "sequence-key".toList]

/-- **`sequence-<name>` is routed to the method `<name>` with `data['sequence-index']`**, which is the entry of
`seqFixed` (`seqKeyRes` for `sequence-key`) -/
theorem gen_getitem_fixed_is_model (sv : SeqVars) (fuel : Nat) (hn : sv.noIndex = false)
    (hi : sv.index < sv.items.length) (hc : 97 + sv.index < maxCode)
    (hd : ∀ k ∈ fixedKeys, dataHas sv k = none) :
    optOf (getitemGen sv (fuel + 1) "sequence-number".toList) = seqFixed sv "number".toList ∧
    optOf (getitemGen sv (fuel + 1) "sequence-even".toList) = seqFixed sv "even".toList ∧
    optOf (getitemGen sv (fuel + 1) "sequence-odd".toList) = seqFixed sv "odd".toList ∧
    optOf (getitemGen sv (fuel + 1) "sequence-letter".toList) = seqFixed sv "letter".toList ∧
    optOf (getitemGen sv (fuel + 1) "sequence-Letter".toList) = seqFixed sv "Letter".toList ∧
    optOf (getitemGen sv (fuel + 1) "sequence-Roman".toList) = seqFixed sv "Roman".toList ∧
    optOf (getitemGen sv (fuel + 1) "sequence-roman".toList) = seqFixed sv "roman".toList ∧
    optOf (getitemGen sv (fuel + 1) "sequence-length".toList) = seqFixed sv "length".toList ∧
    optOf (getitemGen sv (fuel + 1) "sequence-item".toList) = seqFixed sv "item".toList ∧
    toSeqRes (getitemGen sv (fuel + 1) "sequence-key".toList) = seqKeyRes sv := by
  obtain ⟨f1, f2, f3, f4, f5, f6, f7, f8, f9⟩ := gen_seqvar_fixed_is_model sv hi hc
  have route : ∀ m : Text, '-' ∉ m → hasattrSelf m = true → ("sequence".toList ++ '-' :: m) ∈ fixedKeys →
      getitemGen sv (fuel + 1) ("sequence".toList ++ '-' :: m) = callAttr sv m (.int sv.index) :=
    fun m h1 h2 h3 => getitem_sequence sv fuel m h1 h2 hn (hd _ h3)
  refine ⟨?_, ?_, ?_, ?_, ?_, ?_, ?_, ?_, ?_, ?_⟩
  · rw [f1, ← show callAttr sv "number".toList (.int sv.index) = numberGen sv (.int sv.index) by simp [callAttr],
      ← route "number".toList (by decide) (by decide) (by decide)]; rfl
  · rw [f2, ← show callAttr sv "even".toList (.int sv.index) = evenGen sv (.int sv.index) by simp [callAttr],
      ← route "even".toList (by decide) (by decide) (by decide)]; rfl
  · rw [f3, ← show callAttr sv "odd".toList (.int sv.index) = oddGen sv (.int sv.index) by simp [callAttr],
      ← route "odd".toList (by decide) (by decide) (by decide)]; rfl
  · rw [f4, ← show callAttr sv "letter".toList (.int sv.index) = letterGen sv (.int sv.index) by simp [callAttr],
      ← route "letter".toList (by decide) (by decide) (by decide)]; rfl
  · rw [f5, ← show callAttr sv "Letter".toList (.int sv.index) = LetterGen sv (.int sv.index) by simp [callAttr],
      ← route "Letter".toList (by decide) (by decide) (by decide)]; rfl
  · rw [f6, ← show callAttr sv "Roman".toList (.int sv.index) = RomanGen sv (.int sv.index) by simp [callAttr],
      ← route "Roman".toList (by decide) (by decide) (by decide)]; rfl
  · rw [f7, ← show callAttr sv "roman".toList (.int sv.index) = romanGen sv (.int sv.index) by simp [callAttr],
      ← route "roman".toList (by decide) (by decide) (by decide)]; rfl
  · rw [f8, ← show callAttr sv "length".toList (.int sv.index) = lengthGen sv (.int sv.index) by simp [callAttr],
      ← route "length".toList (by decide) (by decide) (by decide)]; rfl
  · rw [f9, ← show callAttr sv "item".toList (.int sv.index) = itemGen sv (.int sv.index) by simp [callAttr],
      ← route "item".toList (by decide) (by decide) (by decide)]; rfl
  · rw [← gen_seqvar_key_is_model sv hi,
      ← show callAttr sv "key".toList (.int sv.index) = keyGen sv (.int sv.index) by simp [callAttr],
      ← route "key".toList (by decide) (by decide) (by decide)]; rfl

/-- **`sequence-var-x`** (no '-' in `x`): `self.value(data['sequence-index'], x)`, any exception of it a KeyError -
the `sequence-var-` branch of `seqLookup` -/
theorem gen_getitem_var_is_model (sv : SeqVars) (fuel : Nat) (x : Text) (hx : '-' ∉ x) (hn : sv.noIndex = false)
    (hd : dataHas sv ("sequence-var-".toList ++ x) = none) (hi : dataHas sv "sequence-var-index".toList = none) :
    toSeqRes (getitemGen sv (fuel + 1) ("sequence-var-".toList ++ x)) = seqLookup sv ("sequence-var-".toList ++ x) := by
  rw [lookup_sequence_var]
  have ek : "sequence-var-".toList ++ x = "sequence-var".toList ++ '-' :: x := by
    rw [show "sequence-var-".toList = "sequence-var".toList ++ ['-'] by decide]; simp
  rw [ek] at hd ⊢
  rw [getitem_split sv fuel _ x hx hd]
  have e : "sequence-var".toList ++ "-index".toList = "sequence-var-index".toList := by decide
  have hs : isSpecialPrefix "sequence-var".toList = false := by decide
  have h4 : sliceFrom "sequence-var".toList (-4) = "-var".toList := by decide
  have h5 : sliceTo "sequence-var".toList (-4) = "sequence".toList := by decide
  have e2 : "sequence".toList ++ "-index".toList = "sequence-index".toList := by decide
  have hq : ¬ ("sequence-var".toList ++ '-' :: x = "sequence-query".toList) := by
    intro h; simp at h
  simp only [tailGen, e, hs, h4, h5, e2, if_true, hq, if_false, Bool.false_eq_true, pyData, bind_ok, data_index' sv hn,
    pyCall2]
  have key : toSeqRes (match valueGen sv (.int sv.index) (.str x) with
      | .ok r => .ok r | _ => .keyError ("sequence-var".toList ++ '-' :: x)) = ofOpt (seqValue sv sv.index x) := by
    rw [← gen_seqvar_value_is_seqValue sv sv.index x]
    cases valueGen sv (.int sv.index) (.str x) <;> rfl
  cases hgg : dataGet sv "sequence-var-index".toList with
  | ok v => unfold dataHas at hi; rw [hgg] at hi; cases hi
  | keyError _ => dsimp only; split <;> exact key
  | raise _ => dsimp only; split <;> exact key

/-- **`first-x`** (no '-' in `x`) is routed through `special_prefixes` to `first(x, key)` - the `first-` branch of
`seqLookup` -/
theorem gen_getitem_first_is_model (sv : SeqVars) (fuel : Nat) (x : Text) (hx : '-' ∉ x) (hw : WellPlaced sv)
    (hd : dataHas sv ("first-".toList ++ x) = none) (hi : dataHas sv "first-index".toList = none) :
    toSeqRes (getitemGen sv (fuel + 1) ("first-".toList ++ x)) = seqLookup sv ("first-".toList ++ x) := by
  rw [lookup_first sv x (by simp [stripPrefix]) (by simp [stripPrefix])]
  have ek : "first-".toList ++ x = "first".toList ++ '-' :: x := by
    rw [show "first-".toList = "first".toList ++ ['-'] by decide]; simp
  rw [ek] at hd ⊢
  rw [getitem_first sv fuel x hx hd hi, gen_seqvar_first_is_model sv x _ hw]

/-- **`last-x`** likewise: `last(x, key)` - the `last-` branch of `seqLookup` -/
theorem gen_getitem_last_is_model (sv : SeqVars) (fuel : Nat) (x : Text) (hx : '-' ∉ x) (hw : WellPlaced sv)
    (hd : dataHas sv ("last-".toList ++ x) = none) (hi : dataHas sv "last-index".toList = none) :
    toSeqRes (getitemGen sv (fuel + 1) ("last-".toList ++ x)) = seqLookup sv ("last-".toList ++ x) := by
  rw [lookup_last sv x (by simp [stripPrefix]) (by simp [stripPrefix]) (by simp [stripPrefix])]
  have ek : "last-".toList ++ x = "last".toList ++ '-' :: x := by
    rw [show "last-".toList = "last".toList ++ ['-'] by decide]; simp
  rw [ek] at hd ⊢
  rw [getitem_last sv fuel x hx hd hi, gen_seqvar_last_is_model sv x _ hw]

/-- the hypotheses are satisfiable: a frame of the loop with an empty dictionary of extras -/
example : ∀ k ∈ fixedKeys, dataHas { items := [.int 1, .int 2], index := 1, started := false } k = none := by decide

end GenDispatch
/-! ### The whole of `InClass.renderwob` (prologue, loop, epilogue), translated from the source on every run

Outside the model's dtml-in (and so outside these equalities): multi-key and `/func/desc` sort specifications (`sortPart` is one
key, default comparison), lazy sequences (`SequenceFromIter`: `ensureSubscription` is the identity on lists / tuples / strings,
the keys of a mapping), the batch parameters (`renderwb`: its loop is tied by `gen_in_batch_*`, its prologue by the window
theorems of C11). -/

private theorem tail_eq (env : Env) (f : Nat) (src : Src) (o : InOpts) (x : InXOpts) (body : List Blk) (xs : List Val) (v : Val) (st' : St) :
    Lemmas.InGen.contR (evalSortKey env (f + 1) x st') (fun key sA =>
        Lemmas.InGen.contR (sortPart env o { sortKey := key } xs sA) (fun sorted sB =>
          Lemmas.InGen.contR (evalReverse env (f + 1) x sB) (fun rev s1 =>
            Lemmas.InGen.loopPart env (f + 1) o body (applyReverse rev sorted) (cacheOf src v) s1))) =
    (match evalSortKey env (f + 1) x st' with
             | (.ok key, sA) =>
               (match sortPart env o { sortKey := key } xs sA with
                | (.ok sorted, sB) =>
                  (match evalReverse env (f + 1) x sB with
                   | (.ok rev, st1) => Lemmas.InGen.loopPart env (f + 1) o body (applyReverse rev sorted) (cacheOf src v) st1
                   | (.raise e, st1) => (.raise e, st1)
                   | (.ret x, st1) => (.ret x, st1)
                   | (.oom, st1) => (.oom, st1))
                | (.raise e, sB) => (.raise e, sB)
                | (.ret x, sB) => (.ret x, sB)
                | (.oom, sB) => (.oom, sB))
             | (.raise e, sA) => (.raise e, sA)
             | (.ret x, sA) => (.ret x, sA)
             | (.oom, sA) => (.oom, sA)) := by
  generalize evalSortKey env (f + 1) x st' = r
  rcases r with ⟨r, sA⟩
  cases r with
  | ok key =>
    simp only [Lemmas.InGen.contR]
    generalize sortPart env o _ xs sA = r2
    rcases r2 with ⟨r2, sB⟩
    cases r2 with
    | ok sorted =>
      simp only []
      generalize evalReverse env (f + 1) x sB = r3
      rcases r3 with ⟨r3, s1⟩
      cases r3 <;> rfl
    | raise e => rfl
    | ret v => rfl
    | oom => rfl
  | raise e => rfl
  | ret v => rfl
  | oom => rfl

/-- **the whole unbatched tag**: the prologue of `renderwob` as the source runs it (the sequence by name or by expression,
`sequence_ensure_subscription`, the refusal of a string, the else section exactly when `sequence[0]` fails, the sort step, then
the reverse step, the variables built and pushed on top of the cache of a named sequence), the loop from `inLoopStart`, the
join and the pops of the `finally`, is `renderBlk` on dtml-in with sort / reverse options, for every namespace and fuel -/
theorem gen_in_tag_is_model (env : Env) (fuel : Nat) (src : Src) (o : InOpts) (x : InXOpts) (body : List Blk)
    (els : Option (List Blk)) (st : St) (hb : x.batch = none) :
    oneRes (GenIn.inTagGen env fuel src o x body els st) = renderBlk env (fuel + 1) (.inx_ src o x body els) st := by
  cases fuel with
  | zero =>
    unfold renderBlk
    cases src <;> simp [GenIn.inTagGen, GenIn.mdGetitem, GenIn.callExpr, evalSrc, oneRes]
  | succ f =>
    unfold renderBlk
    simp only [hb]
    cases src with
    | name n =>
      simp only [GenIn.inTagGen, GenIn.mdGetitem]
      generalize evalSrc env (f + 1) (.name n) st = r0
      rcases r0 with ⟨r0, st'⟩
      cases r0 with
      | ok v =>
        cases v with
        | list xs =>
          cases xs with
          | nil => cases els <;> simp [GenIn.ensureSubscription, GenIn.inArrangeGen, GenIn.isStr, GenIn.seqProbe, GenIn.seqItems, oneRes, pieceEmpty]
          | cons a t =>
            simp only [GenIn.ensureSubscription]
            rw [Lemmas.InGen.arrange_eq env f o _ body els _ _ st' rfl (by simp [GenIn.seqItems])]
            simp only [Lemmas.InGen.sortPart_key]
            exact tail_eq env f (.name n) o x body (a :: t) (Val.list (a :: t)) st'
        | tuple xs =>
          cases xs with
          | nil => cases els <;> simp [GenIn.ensureSubscription, GenIn.inArrangeGen, GenIn.isStr, GenIn.seqProbe, GenIn.seqItems, oneRes, pieceEmpty]
          | cons a t =>
            simp only [GenIn.ensureSubscription]
            rw [Lemmas.InGen.arrange_eq env f o _ body els _ _ st' rfl (by simp [GenIn.seqItems])]
            simp only [Lemmas.InGen.sortPart_key]
            exact tail_eq env f (.name n) o x body (a :: t) (Val.tuple (a :: t)) st'
        | dict kvs =>
          cases kvs with
          | nil => cases els <;> simp [GenIn.ensureSubscription, GenIn.inArrangeGen, GenIn.isStr, GenIn.seqProbe, GenIn.seqItems, oneRes, pieceEmpty]
          | cons a t =>
            simp only [GenIn.ensureSubscription]
            rw [Lemmas.InGen.arrange_eq env f o _ body els _ _ st' rfl (by simp [GenIn.seqItems])]
            simp only [Lemmas.InGen.sortPart_key]
            exact tail_eq env f (.name n) o x body ((a :: t).map fun kv => Val.str kv.1) (Val.dict (a :: t)) st'
        | str s => simp [GenIn.ensureSubscription, GenIn.inArrangeGen, GenIn.isStr, oneRes]
        | _ => simp [GenIn.ensureSubscription, oneRes]
      | raise e => simp [oneRes]
      | ret v => simp [oneRes]
      | oom => simp [oneRes]
    | expr e =>
      simp only [GenIn.inTagGen, GenIn.callExpr]
      generalize evalSrc env (f + 1) (.expr e) st = r0
      rcases r0 with ⟨r0, st'⟩
      cases r0 with
      | ok v =>
        cases v with
        | list xs =>
          cases xs with
          | nil => cases els <;> simp [GenIn.ensureSubscription, GenIn.inArrangeGen, GenIn.isStr, GenIn.seqProbe, GenIn.seqItems, oneRes, pieceEmpty]
          | cons a t =>
            simp only [GenIn.ensureSubscription]
            rw [Lemmas.InGen.arrange_eq env f o _ body els _ _ st' rfl (by simp [GenIn.seqItems])]
            simp only [Lemmas.InGen.sortPart_key]
            exact tail_eq env f (.expr e) o x body (a :: t) (Val.list (a :: t)) st'
        | tuple xs =>
          cases xs with
          | nil => cases els <;> simp [GenIn.ensureSubscription, GenIn.inArrangeGen, GenIn.isStr, GenIn.seqProbe, GenIn.seqItems, oneRes, pieceEmpty]
          | cons a t =>
            simp only [GenIn.ensureSubscription]
            rw [Lemmas.InGen.arrange_eq env f o _ body els _ _ st' rfl (by simp [GenIn.seqItems])]
            simp only [Lemmas.InGen.sortPart_key]
            exact tail_eq env f (.expr e) o x body (a :: t) (Val.tuple (a :: t)) st'
        | dict kvs =>
          cases kvs with
          | nil => cases els <;> simp [GenIn.ensureSubscription, GenIn.inArrangeGen, GenIn.isStr, GenIn.seqProbe, GenIn.seqItems, oneRes, pieceEmpty]
          | cons a t =>
            simp only [GenIn.ensureSubscription]
            rw [Lemmas.InGen.arrange_eq env f o _ body els _ _ st' rfl (by simp [GenIn.seqItems])]
            simp only [Lemmas.InGen.sortPart_key]
            exact tail_eq env f (.expr e) o x body ((a :: t).map fun kv => Val.str kv.1) (Val.dict (a :: t)) st'
        | str s => simp [GenIn.ensureSubscription, GenIn.inArrangeGen, GenIn.isStr, oneRes]
        | _ => simp [GenIn.ensureSubscription, oneRes]
      | raise e => simp [oneRes]
      | ret v => simp [oneRes]
      | oom => simp [oneRes]

/-- the same for the plain dtml-in (`.in_`: no sort / reverse options) -/
theorem gen_in_tag_is_in (env : Env) (fuel : Nat) (src : Src) (o : InOpts) (body : List Blk) (els : Option (List Blk)) (st : St) :
    oneRes (GenIn.inTagGen env fuel src o {} body els st) = renderBlk env (fuel + 1) (.in_ src o body els) st := by
  rw [gen_in_tag_is_model env fuel src o {} body els st rfl]
  cases fuel with
  | zero => unfold renderBlk; cases src <;> simp [evalSrc]
  | succ f =>
    unfold renderBlk
    simp [evalSortKey, evalReverse, sortPart, applyReverse, cacheOf]

/-- **the else section is rendered exactly when the sequence is empty** (the generated prologue; `else_iff_empty` is the same
statement about the model) -/
theorem gen_in_else_iff_empty (env : Env) (fuel : Nat) (src : Src) (o : InOpts) (x : InXOpts) (body e : List Blk) (st st' : St)
    (xs : List Val) (h : evalSrc env fuel src st = (.ok (.list xs), st')) :
    (xs = [] → GenIn.inTagGen env fuel src o x body (some e) st = renderJoined env fuel e st') ∧
    (xs ≠ [] → ∀ e', GenIn.inTagGen env fuel src o x body (some e) st = GenIn.inTagGen env fuel src o x body e' st) := by
  constructor
  · intro hx
    subst hx
    cases src <;>
      simp [GenIn.inTagGen, GenIn.mdGetitem, GenIn.callExpr, h, GenIn.ensureSubscription, GenIn.inArrangeGen, GenIn.isStr,
        GenIn.seqProbe, GenIn.seqItems]
  · intro hx e'
    cases xs with
    | nil => exact (hx rfl).elim
    | cons a t =>
      have h0 : (0 : Int) ≤ (t.length : Int) + 1 := by omega
      cases src <;>
        simp [GenIn.inTagGen, GenIn.mdGetitem, GenIn.callExpr, h, GenIn.ensureSubscription, GenIn.inArrangeGen, GenIn.isStr,
          GenIn.seqProbe, GenIn.seqItems, h0]

/-- **sort, then reverse** (C13 rests on this order): between the emptiness probe and the loop the source evaluates the sort key,
sorts, evaluates the reverse condition, reverses - in this order -/
theorem gen_in_sort_then_reverse (env : Env) (f : Nat) (o : InOpts) (x : InXOpts) (body : List Blk) (els : Option (List Blk)) (V : Val)
    (cache : Option Frame) (st : St) (hs : GenIn.isStr V = false) (hp : GenIn.seqItems V ≠ []) :
    oneRes (GenIn.inArrangeGen env (f + 1) o x body els V cache st) =
      Lemmas.InGen.contR (evalSortKey env (f + 1) x st) (fun key sA =>
        Lemmas.InGen.contR (sortPart env o { x with sortKey := key } (GenIn.seqItems V) sA) (fun sorted sB =>
          Lemmas.InGen.contR (evalReverse env (f + 1) x sB) (fun rev s1 =>
            Lemmas.InGen.loopPart env (f + 1) o body (applyReverse rev sorted) cache.toList s1))) :=
  Lemmas.InGen.arrange_eq env f o x body els V cache st hs hp

end DTML.Props.C10
