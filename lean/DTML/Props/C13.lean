/-
C13 — Sorting yields a stable, correctly ordered permutation and never mutates input.
Model: DTML/Sort.lean.
-/
import DTML.Sort
set_option linter.unusedVariables false
namespace DTML.Props.C13
open DTML.Sort Std

/-! #### the comparison is a total preorder (whatever the fields are) -/

private theorem transCmp_on {α β : Type} (cmp : β → β → Ordering) [TransCmp cmp] (g : α → β) :
    TransCmp (fun a b => cmp (g a) (g b)) where
  eq_swap := OrientedCmp.eq_swap (cmp := cmp)
  isLE_trans := TransCmp.isLE_trans (cmp := cmp)

private theorem transCmp_swap {α : Type} (cmp : α → α → Ordering) [TransCmp cmp] :
    TransCmp (fun a b => (cmp a b).swap) := by
  have h : (fun a b => (cmp a b).swap) = (fun a b => cmp b a) := by
    funext a b; exact (OrientedCmp.eq_swap (cmp := cmp)).symm
  rw [h]; exact TransCmp.opposite

private theorem transCmp_then {α : Type} (c₁ c₂ : α → α → Ordering) [TransCmp c₁] [TransCmp c₂] :
    TransCmp (fun a b => (c₁ a b).then (c₂ a b)) :=
  inferInstanceAs (TransCmp (compareLex c₁ c₂))

private theorem transCmp_eq {α : Type} : TransCmp (fun (_ _ : α) => Ordering.eq) where
  eq_swap := rfl
  isLE_trans := fun _ _ => rfl

instance : TransCmp cmpCode := by unfold cmpCode; infer_instance

private theorem transCmp_field (lower : Text → Text) (f : Field) : TransCmp (cmpField lower f) := by
  unfold cmpField
  have h0 := transCmp_on cmpCode (code lower (f.kind == .nocase))
  have h1 := @transCmp_swap _ _ h0
  have h2 := @transCmp_swap _ _ h1
  cases e1 : (f.kind == CmpKind.rcmp) <;> cases e2 : f.desc
  · simpa using h0
  · simpa using h1
  · simpa using h1
  · simpa using h2

theorem cmpKeys_transCmp (lower : Text → Text) (fs : List Field) : TransCmp (cmpKeys lower fs) := by
  induction fs with
  | nil => exact transCmp_eq
  | cons f fs ih =>
    have h1 := transCmp_field lower f
    have h2 := @transCmp_on _ _ (cmpField lower f) h1 (fun (a : List (Option Key)) => a.head?.join)
    have h3 := @transCmp_on _ _ (cmpKeys lower fs) ih (fun (a : List (Option Key)) => a.tail)
    exact @transCmp_then _ _ _ h2 h3

theorem le_trans (lower : Text → Text) (fs : List Field) (a b c : Elt) :
    le lower fs a b = true → le lower fs b c = true → le lower fs a c = true := by
  have := cmpKeys_transCmp lower fs
  exact fun h1 h2 => TransCmp.isLE_trans (cmp := cmpKeys lower fs) h1 h2

theorem le_total (lower : Text → Text) (fs : List Field) (a b : Elt) :
    (le lower fs a b || le lower fs b a) = true := by
  have := cmpKeys_transCmp lower fs
  unfold le
  rw [OrientedCmp.eq_swap (cmp := cmpKeys lower fs) (a := b.2) (b := a.2)]
  cases cmpKeys lower fs a.2 b.2 <;> rfl

/-! #### the property -/

/-- the sorted sequence is a permutation of the original elements -/
theorem sort_perm (lower : Text → Text) (fs : List Field) (l : List Elt) :
    (sortElts lower fs l).Perm l := List.mergeSort_perm l _

/-- it is ordered: every element is ≤ every later one under the lexicographic
comparison of the fields (function and direction per field, None smallest) -/
theorem sort_ordered (lower : Text → Text) (fs : List Field) (l : List Elt) :
    (sortElts lower fs l).Pairwise (fun a b => le lower fs a b = true) :=
  List.pairwise_mergeSort (le_trans lower fs) (le_total lower fs) l

/-- it is stable: two elements that do not compare greater keep their original
relative order — in particular elements with equal keys. -/
theorem sort_stable (lower : Text → Text) (fs : List Field) (l : List Elt) (a b : Elt)
    (hab : le lower fs a b = true) (h : [a, b].Sublist l) :
    [a, b].Sublist (sortElts lower fs l) :=
  List.pair_sublist_mergeSort (le_trans lower fs) (le_total lower fs) hab h

/-- more generally every already-ordered subsequence survives as a subsequence -/
theorem sort_keeps_sorted_sublists (lower : Text → Text) (fs : List Field) (l ys : List Elt)
    (hs : ys.Pairwise (fun a b => le lower fs a b = true)) (h : ys.Sublist l) :
    ys.Sublist (sortElts lower fs l) :=
  List.sublist_mergeSort (le_trans lower fs) (le_total lower fs) hs h

/-- sorting a sequence that is already in order returns it unchanged -/
theorem sort_sorted_id (lower : Text → Text) (fs : List Field) (l : List Elt)
    (hs : l.Pairwise (fun a b => le lower fs a b = true)) : sortElts lower fs l = l :=
  List.mergeSort_of_pairwise hs

/-- missing and None keys are the smallest key of an ascending field: an
element whose first key is None never comes after one whose first key is set -/
theorem none_first (lower : Text → Text) (f : Field) (fs : List Field) (hk : f.kind ≠ .rcmp)
    (hd : f.desc = false) (a b : Elt) (ka : Key)
    (ha : a.2.head?.join = some ka) (hb : b.2.head?.join = none) :
    le lower (f :: fs) a b = false := by
  have hk' : (f.kind == CmpKind.rcmp) = false := by simpa using hk
  simp only [le, cmpKeys, ha, hb, cmpField, hk', hd, Bool.false_eq_true, if_false]
  cases ka <;> simp [code, cmpCode, compareLex, compareOn, Ordering.then, compare, compareOfLessAndEq]

/-- `/desc` inverts that key's order -/
theorem desc_inverts (lower : Text → Text) (k : CmpKind) (a b : Option Key) :
    cmpField lower ⟨k, true⟩ a b = (cmpField lower ⟨k, false⟩ a b).swap := by
  simp [cmpField]

/-- `/nocase` compares the lower-cased texts -/
theorem nocase_compares_lowered (lower : Text → Text) (s t : Text) :
    cmpField lower ⟨.nocase, false⟩ (some (.str s)) (some (.str t)) =
      cmpField lower ⟨.cmp, false⟩ (some (.str (lower s))) (some (.str (lower t))) := by
  simp [cmpField, code]

/-- key extraction: a callable attribute contributes its result, a non-basic,
non-callable value (bool, date, Decimal, …) itself, None and a missing
attribute the smallest key -/
theorem key_extraction (k : Key) :
    extract (.plain k) = some k ∧ extract (.callable k) = some k ∧ extract (.nonbasic k) = some k ∧
    extract .noneVal = none ∧ extract .missing = none := ⟨rfl, rfl, rfl, rfl, rfl⟩

/-- `reverse` shows the exact reverse of what would otherwise be shown -/
theorem reverse_exact (lower : Text → Text) (fs : Option (List Field)) (l : List Elt) :
    display lower fs true l = (display lower fs false l).reverse := by
  simp [display]

/-- without sort and reverse the sequence is shown as it is -/
theorem no_sort_identity (lower : Text → Text) (l : List Elt) : display lower none false l = l := rfl

/-- the displayed sequence is always a permutation of the caller's -/
theorem display_perm (lower : Text → Text) (fs : Option (List Field)) (rev : Bool) (l : List Elt) :
    (display lower fs rev l).Perm l := by
  unfold display
  cases fs with
  | none => cases rev <;> simp [List.reverse_perm]
  | some fs =>
    cases rev
    · simpa using sort_perm lower fs l
    · simpa using (List.reverse_perm _).trans (sort_perm lower fs l)

/-- non-vacuity / tests on concrete data (mergeSort is defined by well-founded
recursion and does not reduce in `decide`; the comparator does) -/
example : le id [⟨.cmp, false⟩] (1, [none]) (0, [some (.int 3)]) = true := by decide
example : le id [⟨.cmp, false⟩] (0, [some (.int 3)]) (1, [none]) = false := by decide
example : le id [⟨.cmp, true⟩, ⟨.cmp, false⟩] (1, [some (.int 2), some (.str "z".toList)])
    (2, [some (.int 1), some (.str "a".toList)]) = true := by decide
example : le id [⟨.cmp, false⟩] (0, [some (.int 3)]) (3, [some (.int 3)]) = true ∧
    [((0 : Nat), [some (Key.int 3)]), (3, [some (Key.int 3)])].Sublist
      [(0, [some (.int 3)]), (1, [none]), (2, [some (.int 1)]), (3, [some (.int 3)])] := by
  constructor
  · decide
  · exact .cons_cons _ (.cons _ (.cons _ (.cons_cons _ .slnil)))

end DTML.Props.C13
