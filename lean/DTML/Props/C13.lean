/-
C13 — Sorting yields a stable, correctly ordered permutation and never mutates input.
Model: DTML/Sort.lean.
-/
import DTML.Sort
import DTML.Render
import DTML.GenRender
import DTML.Lemmas.SortGen
set_option linter.unusedVariables false
namespace DTML.Props.C13
open DTML.Sort Std

/-! #### the comparison is a total preorder (whatever the fields are) -/

private theorem transCmp_on {α β : Type} (cmp : β → β → Ordering) [TransCmp cmp] (g : α → β) :
    TransCmp (fun a b => cmp (g a) (g b)) where
  eq_swap := OrientedCmp.eq_swap (cmp := cmp)
  isLE_trans := TransCmp.isLE_trans (cmp := cmp)

private theorem transCmp_swap {α : Type} (cmp : α → α → Ordering) [TransCmp cmp] :
    TransCmp (fun a b => (cmp a b).swap) := by
  have h : (fun a b => (cmp a b).swap) = (fun a b => cmp b a) := by
    funext a b; exact (OrientedCmp.eq_swap (cmp := cmp)).symm
  rw [h]; exact TransCmp.opposite

private theorem transCmp_then {α : Type} (c₁ c₂ : α → α → Ordering) [TransCmp c₁] [TransCmp c₂] :
    TransCmp (fun a b => (c₁ a b).then (c₂ a b)) :=
  inferInstanceAs (TransCmp (compareLex c₁ c₂))

private theorem transCmp_eq {α : Type} : TransCmp (fun (_ _ : α) => Ordering.eq) where
  eq_swap := rfl
  isLE_trans := fun _ _ => rfl

instance : TransCmp cmpCode := by unfold cmpCode; infer_instance

private theorem transCmp_field (lower : Text → Text) (f : Field) : TransCmp (cmpField lower f) := by
  unfold cmpField
  have h0 := transCmp_on cmpCode (code lower (f.kind == .nocase))
  have h1 := @transCmp_swap _ _ h0
  have h2 := @transCmp_swap _ _ h1
  cases e1 : (f.kind == CmpKind.rcmp) <;> cases e2 : f.desc
  · simpa using h0
  · simpa using h1
  · simpa using h1
  · simpa using h2

theorem cmpKeys_transCmp (lower : Text → Text) (fs : List Field) : TransCmp (cmpKeys lower fs) := by
  induction fs with
  | nil => exact transCmp_eq
  | cons f fs ih =>
    have h1 := transCmp_field lower f
    have h2 := @transCmp_on _ _ (cmpField lower f) h1 (fun (a : List (Option Key)) => a.head?.join)
    have h3 := @transCmp_on _ _ (cmpKeys lower fs) ih (fun (a : List (Option Key)) => a.tail)
    exact @transCmp_then _ _ _ h2 h3

theorem le_trans (lower : Text → Text) (fs : List Field) (a b c : Elt) :
    le lower fs a b = true → le lower fs b c = true → le lower fs a c = true := by
  have := cmpKeys_transCmp lower fs
  exact fun h1 h2 => TransCmp.isLE_trans (cmp := cmpKeys lower fs) h1 h2

theorem le_total (lower : Text → Text) (fs : List Field) (a b : Elt) :
    (le lower fs a b || le lower fs b a) = true := by
  have := cmpKeys_transCmp lower fs
  unfold le
  rw [OrientedCmp.eq_swap (cmp := cmpKeys lower fs) (a := b.2) (b := a.2)]
  cases cmpKeys lower fs a.2 b.2 <;> rfl

/-! #### the property -/

/-- the sorted sequence is a permutation of the original elements -/
theorem sort_perm (lower : Text → Text) (fs : List Field) (l : List Elt) :
    (sortElts lower fs l).Perm l := List.mergeSort_perm l _

/-- it is ordered: every element is ≤ every later one under the lexicographic
comparison of the fields (function and direction per field, None smallest) -/
theorem sort_ordered (lower : Text → Text) (fs : List Field) (l : List Elt) :
    (sortElts lower fs l).Pairwise (fun a b => le lower fs a b = true) :=
  List.pairwise_mergeSort (le_trans lower fs) (le_total lower fs) l

/-- it is stable: two elements that do not compare greater keep their original
relative order — in particular elements with equal keys. -/
theorem sort_stable (lower : Text → Text) (fs : List Field) (l : List Elt) (a b : Elt)
    (hab : le lower fs a b = true) (h : [a, b].Sublist l) :
    [a, b].Sublist (sortElts lower fs l) :=
  List.pair_sublist_mergeSort (le_trans lower fs) (le_total lower fs) hab h

/-- more generally every already-ordered subsequence survives as a subsequence -/
theorem sort_keeps_sorted_sublists (lower : Text → Text) (fs : List Field) (l ys : List Elt)
    (hs : ys.Pairwise (fun a b => le lower fs a b = true)) (h : ys.Sublist l) :
    ys.Sublist (sortElts lower fs l) :=
  List.sublist_mergeSort (le_trans lower fs) (le_total lower fs) hs h

/-- sorting a sequence that is already in order returns it unchanged -/
theorem sort_sorted_id (lower : Text → Text) (fs : List Field) (l : List Elt)
    (hs : l.Pairwise (fun a b => le lower fs a b = true)) : sortElts lower fs l = l :=
  List.mergeSort_of_pairwise hs

/-- missing and None keys are the smallest key of an ascending field: an
element whose first key is None never comes after one whose first key is set -/
theorem none_first (lower : Text → Text) (f : Field) (fs : List Field) (hk : f.kind ≠ .rcmp)
    (hd : f.desc = false) (a b : Elt) (ka : Key)
    (ha : a.2.head?.join = some ka) (hb : b.2.head?.join = none) :
    le lower (f :: fs) a b = false := by
  have hk' : (f.kind == CmpKind.rcmp) = false := by simpa using hk
  simp only [le, cmpKeys, ha, hb, cmpField, hk', hd, Bool.false_eq_true, if_false]
  cases ka <;> simp [code, cmpCode, compareLex, compareOn, Ordering.then, compare, compareOfLessAndEq]

/-- `/desc` inverts that key's order -/
theorem desc_inverts (lower : Text → Text) (k : CmpKind) (a b : Option Key) :
    cmpField lower ⟨k, true⟩ a b = (cmpField lower ⟨k, false⟩ a b).swap := by
  simp [cmpField]

/-- `/nocase` compares the lower-cased texts -/
theorem nocase_compares_lowered (lower : Text → Text) (s t : Text) :
    cmpField lower ⟨.nocase, false⟩ (some (.str s)) (some (.str t)) =
      cmpField lower ⟨.cmp, false⟩ (some (.str (lower s))) (some (.str (lower t))) := by
  simp [cmpField, code]

/-- key extraction: a callable attribute contributes its result, a non-basic,
non-callable value (bool, date, Decimal, …) itself, None and a missing
attribute the smallest key -/
theorem key_extraction (k : Key) :
    extract (.plain k) = some k ∧ extract (.callable k) = some k ∧ extract (.nonbasic k) = some k ∧
    extract .noneVal = none ∧ extract .missing = none := ⟨rfl, rfl, rfl, rfl, rfl⟩

/-- `reverse` shows the exact reverse of what would otherwise be shown -/
theorem reverse_exact (lower : Text → Text) (fs : Option (List Field)) (l : List Elt) :
    display lower fs true l = (display lower fs false l).reverse := by
  simp [display]

/-- without sort and reverse the sequence is shown as it is -/
theorem no_sort_identity (lower : Text → Text) (l : List Elt) : display lower none false l = l := rfl

/-- the displayed sequence is always a permutation of the caller's -/
theorem display_perm (lower : Text → Text) (fs : Option (List Field)) (rev : Bool) (l : List Elt) :
    (display lower fs rev l).Perm l := by
  unfold display
  cases fs with
  | none => cases rev <;> simp [List.reverse_perm]
  | some fs =>
    cases rev
    · simpa using sort_perm lower fs l
    · simpa using (List.reverse_perm _).trans (sort_perm lower fs l)

/-- non-vacuity / tests on concrete data (mergeSort is defined by well-founded
recursion and does not reduce in `decide`; the comparator does) -/
example : le id [⟨.cmp, false⟩] (1, [none]) (0, [some (.int 3)]) = true := by decide
example : le id [⟨.cmp, false⟩] (0, [some (.int 3)]) (1, [none]) = false := by decide
example : le id [⟨.cmp, true⟩, ⟨.cmp, false⟩] (1, [some (.int 2), some (.str "z".toList)])
    (2, [some (.int 1), some (.str "a".toList)]) = true := by decide
example : le id [⟨.cmp, false⟩] (0, [some (.int 3)]) (3, [some (.int 3)]) = true ∧
    [((0 : Nat), [some (Key.int 3)]), (3, [some (Key.int 3)])].Sublist
      [(0, [some (.int 3)]), (1, [none]), (2, [some (.int 1)]), (3, [some (.int 3)])] := by
  constructor
  · decide
  · exact .cons_cons _ (.cons _ (.cons _ (.cons_cons _ .slnil)))

/-! #### inside the interpreter: the sequence a `dtml-in sort=key [reverse]` iterates over

`Render.arrange` is what the interpreter model does between fetching the sequence and looping over it
(`sort_sequence` with one key and the default comparison, then `reverse_sequence`).  The theorems below state the
property for it: a permutation of the caller's elements, ordered by key, stable, `_Smallest` keys first, `reverse`
the exact reverse; the caller's list is a value of the model and cannot change. -/

namespace Interp
open DTML.Render

theorem textLe_refl : ∀ a : Render.Text, textLe a a = true
  | [] => rfl
  | c :: cs => by simp [textLe, textLe_refl cs]

theorem textLe_total : ∀ a b : Render.Text, textLe a b = true ∨ textLe b a = true
  | [], _ => Or.inl (by cases ‹Render.Text› <;> rfl)
  | _ :: _, [] => Or.inr rfl
  | a :: as, b :: bs => by
    rcases Nat.lt_trichotomy a.toNat b.toNat with h | h | h
    · left; simp [textLe, h]
    · rcases textLe_total as bs with h2 | h2
      · left; simp [textLe, h, h2]
      · right; simp [textLe, h, h2]
    · right; simp [textLe, h]

theorem textLe_trans : ∀ a b c : Render.Text, textLe a b = true → textLe b c = true → textLe a c = true
  | [], _, c, _, _ => by cases c <;> rfl
  | _ :: _, [], _, h, _ => by simp [textLe] at h
  | _ :: _, _ :: _, [], _, h => by simp [textLe] at h
  | a :: as, b :: bs, c :: cs, h1, h2 => by
    simp only [textLe] at h1 h2 ⊢
    by_cases hab : a.toNat < b.toNat
    · by_cases hbc : b.toNat < c.toNat
      · have : a.toNat < c.toNat := Nat.lt_trans hab hbc
        simp [this]
      · by_cases hcb : c.toNat < b.toNat
        · simp [hbc, hcb] at h2
        · have : b.toNat = c.toNat := by omega
          have : a.toNat < c.toNat := by omega
          simp [this]
    · by_cases hba : b.toNat < a.toNat
      · simp [hab, hba] at h1
      · have hab' : a.toNat = b.toNat := by omega
        simp only [hab, hba, if_false] at h1
        by_cases hbc : b.toNat < c.toNat
        · have : a.toNat < c.toNat := by omega
          simp [this]
        · by_cases hcb : c.toNat < b.toNat
          · simp [hbc, hcb] at h2
          · simp only [hbc, hcb, if_false] at h2
            have h3 : ¬ a.toNat < c.toNat := by omega
            have h4 : ¬ c.toNat < a.toNat := by omega
            simp only [h3, h4, if_false]
            exact textLe_trans as bs cs h1 h2

/-- the comparison of sort keys is a total preorder -/
theorem skey_total (a b : SKey) : (SKey.le a b || SKey.le b a) = true := by
  cases a <;> cases b <;> simp [SKey.le, SKey.rank]
  · omega
  · rename_i s t; exact textLe_total s t

theorem skey_trans (a b c : SKey) (h1 : SKey.le a b = true) (h2 : SKey.le b c = true) : SKey.le a c = true := by
  cases a <;> cases b <;> cases c <;> simp [SKey.le, SKey.rank] at h1 h2 ⊢
  · omega
  · rename_i s t u; exact textLe_trans s t u h1 h2

abbrev Dec := SKey × Val
def decLe (a b : Dec) : Bool := SKey.le a.1 b.1

theorem decLe_total (a b : Dec) : (decLe a b || decLe b a) = true := skey_total a.1 b.1
theorem decLe_trans (a b c : Dec) (h1 : decLe a b = true) (h2 : decLe b c = true) : decLe a c = true :=
  skey_trans a.1 b.1 c.1 h1 h2

/-- decorating keeps every element, in order -/
theorem sortKeys_elements (env : Env) (m : Bool) (k : Render.Text) : ∀ (xs : List Val) (st st' : St) (dec : List Dec),
    sortKeys env m k xs st = (.ok dec, st') → dec.map (·.2) = xs
  | [], st, st', dec, h => by
    simp only [sortKeys, Prod.mk.injEq, Res.ok.injEq] at h
    rw [← h.1]; rfl
  | x :: xs, st, st', dec, h => by
    unfold sortKeys at h
    split at h
    · rename_i key st1 hk
      split at h
      · rename_i r st2 hr
        simp only [Prod.mk.injEq, Res.ok.injEq] at h
        rw [← h.1]
        simp [sortKeys_elements env m k xs st1 st2 r hr]
      · rename_i r hne
        cases hr : sortKeys env m k xs st1 with
        | mk r1 s1 =>
          rw [hr] at h
          cases r1 with
          | ok q => exact (hne q s1 hr).elim
          | raise e => cases h
          | ret v => cases h
          | oom => cases h
    · cases h
    · cases h
    · cases h

/-- what `arrange` answers when it answers: the decorated elements, sorted stably by key (when a key is given), the
keys dropped again, reversed when `reverse` is given -/
theorem arrange_ok (env : Env) (o : InOpts) (x : InXOpts) (xs ys : List Val) (st st' : St)
    (h : arrange env o x xs st = (.ok ys, st')) :
    (x.sortKey = none ∧ ys = (if x.reverse then xs.reverse else xs)) ∨
    (∃ k dec st1, x.sortKey = some k ∧ sortKeys env o.mapping k xs st = (.ok dec, st1) ∧
      ys = (if x.reverse then ((sortDec dec).map (·.2)).reverse else (sortDec dec).map (·.2))) := by
  unfold arrange sortPart at h
  cases hk : x.sortKey with
  | none =>
    left
    simp only [hk, Prod.mk.injEq, Res.ok.injEq] at h
    exact ⟨rfl, h.1.symm⟩
  | some k =>
    right
    simp only [hk] at h
    cases hs : sortKeys env o.mapping k xs st with
    | mk r st1 =>
      rw [hs] at h
      cases r with
      | ok dec =>
        refine ⟨k, dec, st1, rfl, hs, ?_⟩
        simp only at h
        by_cases hc : (decide (dec.length ≥ 2) && !sortable (dec.map (·.1))) = true
        · simp only [hc, if_true] at h
          cases h
        · simp only [hc, Bool.false_eq_true, if_false, Prod.mk.injEq, Res.ok.injEq] at h
          rw [← h.1]
      | raise e => simp at h
      | ret v => simp at h
      | oom => simp at h

theorem sortDec_perm (dec : List Dec) : (sortDec dec).Perm dec := by
  unfold sortDec
  have h1 : ((dec.filter (fun d => d.1 == .smallest)).reverse ++
      (dec.filter (fun d => !(d.1 == .smallest))).mergeSort (fun a b => SKey.le a.1 b.1)).Perm
      (dec.filter (fun d => d.1 == .smallest) ++ dec.filter (fun d => !(d.1 == .smallest))) :=
    (List.reverse_perm _).append (List.mergeSort_perm _ _)
  exact h1.trans (List.filter_append_perm _ dec)

/-- the interpreter sorts with the key of this rendering (`sort_expr`'s value, else `sort=`) and then reverses when
`reverse_expr` is true (or `reverse` is given): `arrange` is exactly these two steps for literal options -/
theorem arrange_is_sort_then_reverse (env : Env) (o : InOpts) (x : InXOpts) (xs : List Val) (st : St) :
    arrange env o x xs st =
      (match sortPart env o x xs st with
       | (.ok ys, st') => (.ok (applyReverse x.reverse ys), st')
       | r => r) := rfl

/-- **the elements shown are a permutation of the caller's elements** (nothing lost, nothing shown twice) -/
theorem arrange_perm (env : Env) (o : InOpts) (x : InXOpts) (xs ys : List Val) (st st' : St)
    (h : arrange env o x xs st = (.ok ys, st')) : ys.Perm xs := by
  rcases arrange_ok env o x xs ys st st' h with ⟨_, rfl⟩ | ⟨k, dec, st1, _, hd, rfl⟩
  · split
    · exact List.reverse_perm xs
    · exact List.Perm.refl xs
  · have he := sortKeys_elements env o.mapping k xs st st1 dec hd
    have hp : ((sortDec dec).map (·.2)).Perm xs := by
      rw [← he]; exact (sortDec_perm dec).map _
    split
    · exact (List.reverse_perm _).trans hp
    · exact hp

theorem le_smallest (a b : Dec) (ha : (a.1 == SKey.smallest) = true) : SKey.le a.1 b.1 = true := by
  have : a.1 = .smallest := by simpa using ha
  rw [this]
  cases b.1 <;> simp [SKey.le, SKey.rank]

/-- **sorted**: without `reverse`, every shown element's key is ≤ the key of every later one; a `None` / missing key
(or a callable key that raised) is the smallest, so those elements come first -/
theorem arrange_ordered (dec : List Dec) : (sortDec dec).Pairwise (fun a b => SKey.le a.1 b.1 = true) := by
  unfold sortDec
  rw [List.pairwise_append]
  refine ⟨?_, List.pairwise_mergeSort decLe_trans decLe_total _, ?_⟩
  · rw [List.pairwise_reverse]
    apply List.Pairwise.imp_of_mem (R := fun _ _ => True)
    · intro a b ha hb _
      exact le_smallest b a (by simpa using (List.mem_filter.mp hb).2)
    · exact List.pairwise_of_forall (fun _ _ => trivial)
  · intro a ha b hb
    exact le_smallest a b (by simpa using (List.mem_filter.mp (List.mem_reverse.mp ha)).2)

/-- **`None` / missing keys first**: an element whose key is `_Smallest` is never shown after one that has a key -/
theorem none_keys_first (dec : List Dec) (a b : Dec) (ha : a.1 = .smallest) (hb : b.1 ≠ .smallest)
    (h : [b, a].Sublist (sortDec dec)) : False := by
  unfold sortDec at h
  have hpw : ((dec.filter (fun d => d.1 == .smallest)).reverse ++
      (dec.filter (fun d => !(d.1 == .smallest))).mergeSort (fun a b => SKey.le a.1 b.1)).Pairwise
      (fun x y => ¬ (x.1 ≠ .smallest ∧ y.1 = .smallest)) := by
    rw [List.pairwise_append]
    refine ⟨?_, ?_, ?_⟩
    · apply List.Pairwise.imp_of_mem (R := fun _ _ => True)
      · intro x y hx _ _ hc
        have := (List.mem_filter.mp (List.mem_reverse.mp hx)).2
        exact hc.1 (by simpa using this)
      · exact List.pairwise_of_forall (fun _ _ => trivial)
    · apply List.Pairwise.imp_of_mem (R := fun _ _ => True)
      · intro x y _ hy _ hc
        have hy' := (List.mem_filter.mp ((List.mergeSort_perm _ _).mem_iff.mp hy)).2
        simp only [Bool.not_eq_true', beq_eq_false_iff_ne, ne_eq] at hy'
        exact hy' hc.2
      · exact List.pairwise_of_forall (fun _ _ => trivial)
    · intro x hx y _ hc
      have := (List.mem_filter.mp (List.mem_reverse.mp hx)).2
      exact hc.1 (by simpa using this)
  have := (hpw.sublist h)
  simp only [List.pairwise_cons, List.mem_singleton, forall_eq, List.not_mem_nil, false_implies, implies_true,
    List.Pairwise.nil, and_true] at this
  exact this ⟨hb, ha⟩

/-- **stable**: two elements that have keys and do not compare greater keep their relative order (equal keys in
particular).  (Elements whose key is `_Smallest` are listed in the reverse of their original order — the property leaves
their mutual order open.) -/
theorem arrange_stable (dec : List Dec) (a b : Dec) (ha : a.1 ≠ .smallest) (hb : b.1 ≠ .smallest)
    (hab : SKey.le a.1 b.1 = true) (h : [a, b].Sublist dec) : [a, b].Sublist (sortDec dec) := by
  unfold sortDec
  have hf : [a, b].Sublist (dec.filter (fun d => !(d.1 == .smallest))) := by
    have := h.filter (fun d => !(d.1 == .smallest))
    have ha' : (!(a.1 == SKey.smallest)) = true := by simpa using ha
    have hb' : (!(b.1 == SKey.smallest)) = true := by simpa using hb
    simpa [List.filter, ha', hb'] using this
  exact (List.pair_sublist_mergeSort decLe_trans decLe_total hab hf).trans (List.sublist_append_right _ _)

/-- **`reverse`** shows the exact reverse of what is shown without it -/
theorem arrange_reverse (env : Env) (o : InOpts) (k : Option Render.Text) (b : Option BatchP) (xs ys : List Val) (st st' : St)
    (h : arrange env o { sortKey := k, reverse := false, batch := b } xs st = (.ok ys, st')) :
    arrange env o { sortKey := k, reverse := true, batch := b } xs st = (.ok ys.reverse, st') := by
  unfold arrange at h ⊢
  have hs : sortPart env o { sortKey := k, reverse := true, batch := b } xs st =
      sortPart env o { sortKey := k, reverse := false, batch := b } xs st := rfl
  rw [hs]
  generalize sortPart env o { sortKey := k, reverse := false, batch := b } xs st = res at h ⊢
  obtain ⟨r, s⟩ := res
  cases r with
  | ok zs =>
    simp only [Prod.mk.injEq, Res.ok.injEq, Bool.false_eq_true, if_false, if_true] at h ⊢
    exact ⟨by rw [h.1], h.2⟩
  | raise e => simp at h
  | ret v => simp at h
  | oom => simp at h

/-- a `None` key sorts before every number and every string -/
theorem smallest_first (k : SKey) (hk : k ≠ .smallest) : SKey.le .smallest k = true ∧ SKey.le k .smallest = false := by
  cases k <;> simp [SKey.le, SKey.rank] at hk ⊢

private def shownIds : Res (List Val) → Option (List Nat)
  | .ok ys => some (ys.map fun v => match v with | .obj id _ => id | _ => 0)
  | _ => none

/-- non-vacuity (`mergeSort` is defined by well-founded recursion and does not reduce in `decide`, so the example
without a sort key is evaluated, and the key order is evaluated on the keys): reverse of four elements; keys 2, None,
1 (from a callable), 2 -/
example : shownIds (arrange {} {} { reverse := true }
    [.obj 1 [("k".toList, .int 2)], .obj 2 [("k".toList, .none)], .obj 3 [("k".toList, .fn 7 (.int 1))], .obj 4 [("k".toList, .int 2)]] {}).1
    = some [4, 3, 2, 1] := by
  decide +kernel
example : ((sortKeys {} false "k".toList
    [.obj 1 [("k".toList, .int 2)], .obj 2 [("k".toList, .none)], .obj 3 [("k".toList, .fn 7 (.int 1))], .obj 4 [("k".toList, .int 2)]] {}).1
      matches .ok [(.int 2, _), (.smallest, _), (.int 1, _), (.int 2, _)]) = true := by
  decide +kernel
example : SKey.le .smallest (.int 1) = true ∧ SKey.le (.int 1) (.int 2) = true ∧ SKey.le (.int 2) (.int 2) = true ∧
    SKey.le (.int 2) (.int 1) = false := by decide

end Interp

/-- **`reverse` is `InClass.reverse_sequence` of the source** (regenerated on every run: a copy of the sequence, reversed;
an in-place reversal of the caller's list would not translate to this function) -/
theorem gen_reverse_sequence_is_model (xs : List Render.Val) :
    GenRender.reverseSequenceGen xs = Render.applyReverse true xs := rfl

/-! #### the comparison machinery of the source, translated on every run (GenSort.lean) -/

namespace Gen
open DTML.GenSort DTML.Lemmas.SortGen

/-- **`SortBy.__call__` of the source is `cmpKeys`** (multi-key sort: the items are `(key list, client)`).  The function
regenerated from DT_In.py on every run (the unwrapping `o1 = o1[0]`, the two assertions, the loop over `range(l_)` with
`n = func(c1, c2); if n: return n * multiplier`, `return 0`), run on the `sf_list` the fields stand for, hands back exactly
the integer of the model's ordering, for every list of fields and every pair of key lists of that length (the length is
what the source asserts; `gen_sortby_call_asserts` below). -/
theorem gen_sortby_call_is_model (lower : Text → Text) (nfs : List (Text × Field)) (k1 k2 : List (Option Key))
    (c1 c2 : Nat) (h1 : k1.length = nfs.length) (h2 : k2.length = nfs.length) :
    sortByCallGen true (nfs.map (sfOf lower)) (.pair (.keys k1) c1) (.pair (.keys k2) c2) =
      some (intOfOrd (cmpKeys lower (nfs.map (·.2)) k1 k2)) := by
  have h := loop_keys lower nfs k1 k2 h1 h2 nfs.length 0 (by omega)
  simp only [List.drop_zero] at h
  simp [sortByCallGen, PV.index, PV.len, boolInt, h1, h2, List.range_eq_range', h]

/-- the same, read as `functools.cmp_to_key` reads it -/
theorem gen_sortby_call_ordering (lower : Text → Text) (nfs : List (Text × Field)) (k1 k2 : List (Option Key))
    (c1 c2 : Nat) (h1 : k1.length = nfs.length) (h2 : k2.length = nfs.length) :
    (sortByCallGen true (nfs.map (sfOf lower)) (.pair (.keys k1) c1) (.pair (.keys k2) c2)).map ordOfInt =
      some (cmpKeys lower (nfs.map (·.2)) k1 k2) := by
  rw [gen_sortby_call_is_model lower nfs k1 k2 c1 c2 h1 h2]; simp [ordOfInt_intOfOrd]

/-- a key list of another length than `sf_list` trips the assertion of the source -/
theorem gen_sortby_call_asserts (lower : Text → Text) (nfs : List (Text × Field)) (k1 k2 : List (Option Key))
    (c1 c2 : Nat) (h : k1.length ≠ nfs.length ∨ k2.length ≠ nfs.length) :
    sortByCallGen true (nfs.map (sfOf lower)) (.pair (.keys k1) c1) (.pair (.keys k2) c2) = none := by
  rcases h with h | h
  · have : ¬ ((k1.length : Int) = (nfs.length : Int)) := by omega
    simp [sortByCallGen, PV.index, PV.len, boolInt, this]
  · have : ¬ ((k2.length : Int) = (nfs.length : Int)) := by omega
    simp [sortByCallGen, PV.index, PV.len, boolInt, this]

/-- **one sort key with a comparison function** (`sort="key/nocase"`: the items are `(key, client)`, not unwrapped, and
`o1[0]` is the key) -/
theorem gen_sortby_call_single_is_model (lower : Text → Text) (nf : Text × Field) (a b : Option Key) (c1 c2 : Nat) :
    sortByCallGen false [sfOf lower nf] (.pair (.key a) c1) (.pair (.key b) c2) =
      some (intOfOrd (cmpKeys lower [nf.2] [a] [b])) := by
  obtain ⟨name, kind, desc⟩ := nf
  have hm := intOfOrd_mul lower kind desc a b
  have hf : funcOf lower kind (PV.key a) (PV.key b) = some (intOfOrd (cmpField lower ⟨kind, false⟩ a b)) := rfl
  have he := cmpField_false_eq lower kind desc a b
  have hr : List.range 1 = [0] := rfl
  have hl : sortByCallGen false [sfOf lower (name, ⟨kind, desc⟩)] (.pair (.key a) c1) (.pair (.key b) c2) =
      sortByLoopGen [sfOf lower (name, ⟨kind, desc⟩)] (.pair (.key a) c1) (.pair (.key b) c2) [0] := by
    simp [sortByCallGen, PV.len, boolInt, hr]
  rw [hl]
  simp only [PV.index, sortByLoopGen, sfOf, cmpKeys, List.head?_cons, Option.join_some, Ordering.then_eq, hf, hm,
    Option.bind_some, List.getElem?_cons_zero]
  by_cases hc : cmpField lower ⟨kind, false⟩ a b = .eq
  · simp [hc, he.1 hc, intOfOrd]
  · have hz : intOfOrd (cmpField lower ⟨kind, false⟩ a b) ≠ 0 := fun h => hc ((intOfOrd_eq_zero _).1 h)
    simp [hz]

/-- non-vacuity: lists of equal length exist, and the two directions differ -/
example : sortByCallGen true ([("a".toList, (⟨.cmp, true⟩ : Field))].map (sfOf id)) (.pair (.keys [some (.int 1)]) 0)
    (.pair (.keys [some (.int 2)]) 1) = some 1 := by decide

/-- **the key extraction of `sort_sequence`, one sort key, is `extract`**: whatever `v.get(sort)` (mapping) or
`getattr(v, sort, None)` finds - a plain value of any type, None, nothing, a callable, a non-basic value - the statements
of the source (the `basic_type(type(k))` test against the table of the source, the call inside `try`, `None -> _Smallest`)
leave the key the model extracts -/
theorem gen_extract_single_is_model (mapping : Bool) (v : PyObj) (sort : Text) (t rt : PyType) (a : AttrVal)
    (h : look mapping v sort = conc t rt a) :
    (extractKeySingleGen mapping v sort).bind absKey = some (extract a) := single_conc mapping v sort t rt a h

/-- one sort key: a callable whose call raises, and one that returns None, give `_Smallest` -/
theorem gen_extract_single_failing_callable (mapping : Bool) (v : PyObj) (sort : Text) (r : CallRes)
    (hr : r = .raises ∨ r = .retNone) (h : look mapping v sort = some (.callable r)) :
    extractKeySingleGen mapping v sort = some .smallest := by
  cases mapping <;> simp only [look, Bool.false_eq_true, if_false, if_true] at h <;> rcases hr with rfl | rfl <;>
    simp [extractKeySingleGen, PyObj.get, PyObj.getattr, h, PyVal.typeOf, PyVal.call, PyVal.isCallable, PyVal.isNone,
      fn_not_basic]

/-- **several sort keys: each key appended is `extract`**.  Here the source asks `basic_type(akey)` of the value itself,
which is false of every value and raises for an unhashable one: a list-valued attribute makes a multi-key sort raise
TypeError (the hypothesis `t ≠ .list`; one sort key accepts it, see above). -/
theorem gen_extract_multi_is_model (mapping : Bool) (v : PyObj) (sk : Text) (t rt : PyType) (a : AttrVal)
    (ht : t ≠ .list) (h : look mapping v sk = conc t rt a) :
    (extractKeyMultiGen mapping v sk).bind absKey = some (extract a) := multi_conc mapping v sk t rt a ht h

/-- several sort keys: a callable whose call raises stays the key (the source passes the exception) -/
theorem gen_extract_multi_failing_callable (mapping : Bool) (v : PyObj) (sk : Text)
    (h : look mapping v sk = some (.callable .raises)) :
    extractKeyMultiGen mapping v sk = some (.callable .raises) := by
  have hc : ∀ r, typeTableHasValue basicTypes (.callable r) = some false := fun _ => rfl
  cases mapping <;> simp only [look, Bool.false_eq_true, if_false, if_true] at h <;>
    simp [extractKeyMultiGen, PyObj.get, PyObj.getattr, h, hc, PyVal.call, PyVal.isNone]

/-- **the key list of a multi-key sort is the row of the model** (`decorate`: `row.map extract`): `k = []`, one key appended
per sort field, in the order of the fields - so it has the length `SortBy.__call__` asserts -/
theorem gen_extract_keys_is_model (mapping : Bool) (v : PyObj) (t rt : PyType) (ht : t ≠ .list)
    (fas : List (Text × AttrVal)) (h : ∀ p ∈ fas, look mapping v p.1 = conc t rt p.2) :
    ∃ ks, extractKeysMultiGen mapping v (fas.map (·.1)) = some ks ∧
      ks.map absKey = (fas.map (·.2)).map (fun a => some (extract a)) ∧ ks.length = fas.length := by
  obtain ⟨ks, h1, h2⟩ := keys_loop mapping v t rt ht fas [] h
  refine ⟨ks, by simpa [extractKeysMultiGen] using h1, by rw [h2, List.map_map]; rfl, ?_⟩
  have := congrArg List.length h2
  simpa using this

/-- non-vacuity of `t ≠ .list`, and what the hypothesis excludes -/
example : PyType.str ≠ PyType.list := by decide
example : extractKeyMultiGen false ⟨fun _ => none, fun _ => some (.val .list (.int 0))⟩ [] = none := rfl
example : (extractKeySingleGen false ⟨fun _ => none, fun _ => some (.val .list (.int 0))⟩ []).bind absKey =
    some (some (.int 0)) := gen_extract_single_is_model false _ [] .list .int (.plain (.int 0)) rfl

/-- **`make_sortfunctions` of the source, one option, is `parseOption`**: the translation (the split at the slashes, the
defaults appended according to the number of parts, the chain choosing the comparison function, the direction word
lowered and turned into the multiplier, the two SyntaxErrors) succeeds exactly when the model's parser does, with the
entry `(key, function, +1 / -1)` the parsed option stands for - for every text and every `lower` -/
theorem gen_make_sortfield_is_model (lower : Text → Text) (field : Text) :
    (makeSortFieldGen lower field).toOption = (parseOption lower field).map entryOf := field_parts lower field

/-- **the whole sort attribute**: `sortfields = sort.split(',')`, then the loop of `make_sortfunctions` appending one
entry per option; the first SyntaxError ends it -/
theorem gen_make_sortfunctions_is_model (lower : Text → Text) (spec : Text) :
    (makeSortFunctionsGen lower (splitOn ',' spec)).toOption = (parseSpec lower spec).map (·.map entryOf) := by
  have h := fields_loop lower (splitOn ',' spec) []
  simpa [makeSortFunctionsGen, parseSpec] using h

/-- the entry built for an option is the one `SortBy.__call__` was proved about (`sfOf`): same key, same multiplier, and
the comparison function the reference names in the model -/
theorem gen_entry_is_sfOf (lower : Text → Text) (s : FieldSpec) (f : Field) (h : s.field? = some f) :
    (entryOf s).1 = (sfOf lower (s.key, f)).name ∧ (entryOf s).2.2 = (sfOf lower (s.key, f)).multiplier ∧
      s.func.kind? = some f.kind := by
  unfold FieldSpec.field? at h
  cases hk : s.func.kind? with
  | none => simp [hk] at h
  | some k => simp [hk] at h; subst h; simp [entryOf, sfOf]

/-! what the parser of the model does (for a `lower` that leaves "asc" alone, as every real one does) -/

theorem parse_defaults (lower : Text → Text) (h : lower "asc".toList = "asc".toList) (k f : Text) :
    parseParts lower [k] = some ⟨k, .cmp, false⟩ ∧ parseParts lower [k, f] = some ⟨k, funcOfName f, false⟩ := by
  have hc : funcOfName "cmp".toList = .cmp := by decide
  constructor
  · show mkSpec lower k "cmp".toList "asc".toList = _
    simp only [mkSpec, descOfWord, h, ↓reduceIte, Option.map_some, hc]
  · show mkSpec lower k f "asc".toList = _
    simp only [mkSpec, descOfWord, h, ↓reduceIte, Option.map_some]

theorem parse_direction (lower : Text → Text) (k f d : Text) :
    (lower d = "asc".toList → parseParts lower [k, f, d] = some ⟨k, funcOfName f, false⟩) ∧
    (lower d = "desc".toList → parseParts lower [k, f, d] = some ⟨k, funcOfName f, true⟩) ∧
    (lower d ≠ "asc".toList → lower d ≠ "desc".toList → parseParts lower [k, f, d] = none) := by
  have hne : ¬ ("desc".toList = "asc".toList) := by decide
  refine ⟨fun h => ?_, fun h => ?_, fun h1 h2 => ?_⟩
  · show mkSpec lower k f d = _
    simp only [mkSpec, descOfWord, h, ↓reduceIte, Option.map_some]
  · show mkSpec lower k f d = _
    simp only [mkSpec, descOfWord, h, if_neg hne, ↓reduceIte, Option.map_some]
  · show mkSpec lower k f d = _
    simp only [mkSpec, descOfWord, if_neg h1, if_neg h2, Option.map_none]

theorem parse_too_many_slashes (lower : Text → Text) (a b c d : Text) (r : List Text) :
    parseParts lower (a :: b :: c :: d :: r) = none := rfl

theorem parse_function_names :
    funcOfName "cmp".toList = .cmp ∧ funcOfName "nocase".toList = .nocase ∧ funcOfName "locale".toList = .strcoll ∧
    funcOfName "strcoll".toList = .strcoll ∧ funcOfName "locale_nocase".toList = .strcollNocase ∧
    funcOfName "strcoll_nocase".toList = .strcollNocase ∧ funcOfName "rcmp".toList = .named "rcmp".toList := by decide

example : parseSpec id "a/nocase/desc,b".toList =
    some [⟨"a".toList, .nocase, true⟩, ⟨"b".toList, .cmp, false⟩] := by decide
example : (makeSortFunctionsGen id (splitOn ',' "a/nocase/desc,b".toList)).toOption =
    some [("a".toList, .nocase, -1), ("b".toList, .cmp, 1)] := by
  rw [gen_make_sortfunctions_is_model]; decide
example : parseSpec id "a/b/c/d".toList = none ∧ parseSpec id "a/cmp/up".toList = none := by decide

end Gen

end DTML.Props.C13
