/-
C11 — Batch windows stay in range, tile the sequence and link consistently.
Property theorems only (helper lemmas are `private`).
Model: DTML/Batch.lean (`opt`, `window`, `links`, `follow`, `followPrev`).
-/
import DTML.Batch
import DTML.Gen
import DTML.GenCode
import DTML.Basic
set_option linter.unusedVariables false
namespace DTML.Props.C11
open DTML DTML.Batch

/-- **The model is what the source says**: `GenCode.optGen` is regenerated on every run by translating the statements
of `DT_InSV.opt` in /repo (assignments, if / elif / else, `try: sequence[i] except: …` probes, `len(sequence)`); it
computes the same function as the hand-written `Batch.opt`, about which the theorems below are stated.  A change of
`opt()` in the source changes the left-hand side and this theorem stops checking. -/
theorem gen_opt_is_model (start end_ size orphan : Int) (s : Seq) :
    GenCode.optGen start end_ size orphan s = opt start end_ size orphan s := by
  simp only [GenCode.optGen, opt]
  grind

/-- **The neighbours are computed from the window the way the model says** — the argument texts of every `opt(…)`
call in `renderwb`, `next_batches` and `previous_batches`, extracted from /repo's source on every run: the window
itself, then (twice: in the `previous` / `next` forms and in the item loop) the previous batch as
`opt(0, first + overlap, sz, orphan)` and the next batch as `opt(end + 1 - overlap, 0, sz, orphan)` — these are
`Batch.links`' two calls — and the same two steps in the batch lists. -/
theorem gen_opt_calls :
    Gen.renderwb_optCalls = ["start, end, size, orphan, sequence",
      "0, first + overlap, sz, orphan, sequence", "end + 1 - overlap, 0, sz, orphan, sequence",
      "0, first + overlap, sz, orphan, sequence", "end + 1 - overlap, 0, sz, orphan, sequence"] ∧
    Gen.renderwob_optCalls = [] ∧
    Gen.next_batches_optCalls = ["end + 1 - overlap, 0, sz, orphan, sequence"] ∧
    Gen.previous_batches_optCalls = ["0, start - 1 + overlap, sz, orphan, sequence"] := by decide

/-- The displayed window is inside the sequence: `1 ≤ start ≤ end ≤ length`,
for every parameter tuple (given or absent = 0, negative, oversized). -/
theorem opt_window (start end_ size orphan : Int) (s : Seq)
    (hl : 1 ≤ s.len) (ho : 0 ≤ orphan) :
    let w := window start end_ size orphan s
    1 ≤ w.1 ∧ w.1 ≤ w.2.1 ∧ w.2.1 ≤ s.len := by
  simp only [window, opt, probe]
  grind

/-- An explicit window inside the sequence is displayed as given. -/
theorem explicit_window (start end_ size orphan : Int) (s : Seq)
    (h1 : 1 ≤ start) (h2 : start ≤ end_) (h3 : end_ ≤ s.len) :
    let w := window start end_ size orphan s
    w.1 = start ∧ w.2.1 = end_ := by
  simp only [window, opt, probe]
  grind

/-- With `start` and `size` only: the window ends at `start+size-1` unless
fewer than `orphan` elements would remain after it; then it runs to the end. -/
theorem opt_size_orphan (start size orphan : Int) (s : Seq)
    (h1 : 1 ≤ start) (h2 : start ≤ s.len) (hs : 1 ≤ size) (ho : 0 ≤ orphan) :
    let w := window start 0 size orphan s
    w.1 = start ∧
    w.2.1 = (if s.len - (start + size - 1) < orphan then s.len else start + size - 1) := by
  simp only [window, opt, probe]
  grind

/-- next-sequence is announced exactly when elements remain after the window,
previous-sequence exactly when elements precede it. -/
theorem next_prev_flags (st e sz orphan overlap : Int) (s : Seq)
    (h1 : 1 ≤ st) (h2 : st ≤ e) (_h3 : e ≤ s.len) :
    let l := links st e sz orphan overlap s
    (l.nextFlag = true ↔ e < s.len) ∧ (l.prevFlag = true ↔ 1 < st) := by
  simp only [links, probe]
  grind

/-- The announced next batch starts at `end+1-overlap`; the announced previous
batch ends at `start-1+overlap` (both clamped into the sequence). -/
theorem link_positions (st e sz orphan overlap : Int) (s : Seq)
    (h1 : 1 ≤ st) (h2 : st ≤ e) (h3 : e ≤ s.len) (ho : 0 ≤ overlap) :
    let l := links st e sz orphan overlap s
    (e < s.len → l.nextStart = max 1 (e + 1 - overlap)) ∧
    (1 < st → l.prevEnd = min s.len (st - 1 + overlap)) := by
  simp only [links, opt, probe]
  grind

/-- The announced neighbours are themselves windows inside the sequence. -/
theorem links_in_range (st e sz orphan overlap : Int) (s : Seq)
    (h1 : 1 ≤ st) (h2 : st ≤ e) (h3 : e ≤ s.len) (ho : 0 ≤ overlap) (hor : 0 ≤ orphan)
    (hsz : 1 ≤ sz) :
    let l := links st e sz orphan overlap s
    (1 ≤ l.nextStart ∧ l.nextStart ≤ l.nextEnd ∧ l.nextEnd ≤ s.len) ∧
    (1 < st → 1 ≤ l.prevStart ∧ l.prevStart ≤ l.prevEnd ∧ l.prevEnd ≤ s.len) := by
  simp only [links, opt, probe]
  grind


private theorem window_step (start size orphan : Int) (s : Seq)
    (_h1 : 1 ≤ start) (h2 : start ≤ s.len) (hs : 1 ≤ size) (ho : 0 ≤ orphan) :
    let w := window start 0 size orphan s
    w.1 = start ∧ start ≤ w.2.1 ∧ w.2.1 ≤ s.len ∧ w.2.2 = size ∧
    (w.2.1 = s.len ∨ w.2.1 = start + size - 1) := by
  simp only [window, opt, probe]
  grind

private theorem next_step (e size orphan overlap : Int) (s : Seq)
    (h1 : 1 ≤ e) (h2 : e < s.len) (hov : 0 ≤ overlap) (hlt : overlap < e) :
    (opt (e + 1 - overlap) 0 size orphan s).1 = e + 1 - overlap := by
  simp only [opt, probe]
  grind

private theorem follow_spec (size orphan overlap : Int) (s : Seq)
    (hs : 1 ≤ size) (ho : 0 ≤ orphan) (hov : 0 ≤ overlap) (hlt : overlap < size) :
    ∀ (fuel : Nat) (start : Int), 1 ≤ start → start ≤ s.len → s.len - start ≤ fuel →
    let ws := follow size orphan overlap s fuel start
    (ws.head?.map (·.1) = some start) ∧
    (ws.getLast?.map (·.2) = some s.len) ∧
    Linked (fun a b => b.1 = a.2 + 1 - overlap ∧ a.1 < b.1) ws ∧
    (∀ k, start ≤ k → k ≤ s.len → ∃ w ∈ ws, w.1 ≤ k ∧ k ≤ w.2) := by
  intro fuel
  induction fuel with
  | zero =>
    intro start h1 h2 hf
    have hw := window_step start size orphan s h1 h2 hs ho
    simp only [follow]
    have : start = s.len := by omega
    subst this
    simp only [List.head?, List.getLast?, Option.map, Linked, List.getLast]
    refine ⟨by simp [hw.1], ?_, trivial, ?_⟩
    · have := hw.2.1; have := hw.2.2.1; simp; omega
    · intro k hk1 hk2; exact ⟨_, List.mem_singleton.mpr rfl, by simp [hw.1]; omega, by have := hw.2.1; simp; omega⟩
  | succ n ih =>
    intro start h1 h2 hf
    have hw := window_step start size orphan s h1 h2 hs ho
    simp only [follow]
    generalize window start 0 size orphan s = w at hw ⊢
    obtain ⟨hw1, hw2, hw3, hw4, hw5⟩ := hw
    by_cases hp : probe s w.2.1 = true
    · simp only [hp, if_true]
      have he : w.2.1 < s.len := by
        simp only [probe] at hp; grind
      have hov' : overlap < w.2.1 := by omega
      have hs' := next_step w.2.1 size orphan overlap s (by omega) he hov hov'
      rw [hw4, hs']
      have ihh := ih (w.2.1 + 1 - overlap) (by omega) (by omega) (by omega)
      obtain ⟨i1, i2, i3, i4⟩ := ihh
      generalize follow size orphan overlap s n (w.2.1 + 1 - overlap) = rest at i1 i2 i3 i4 ⊢
      match rest, i1, i2, i3, i4 with
      | [], i1, _, _, _ => simp at i1
      | r :: rs, i1, i2, i3, i4 =>
        simp only [List.head?, Option.map, Option.some.injEq] at i1
        refine ⟨by simp [hw1], ?_, ?_, ?_⟩
        · simpa [List.getLast?] using i2
        · exact ⟨⟨by omega, by simp only [hw1]; omega⟩, i3⟩
        · intro k hk1 hk2
          by_cases hk : k ≤ w.2.1
          · exact ⟨_, List.mem_cons_self, by simp only [hw1]; omega, hk⟩
          · obtain ⟨x, hx, hx1, hx2⟩ := i4 k (by omega) hk2
            exact ⟨x, List.mem_cons_of_mem _ hx, hx1, hx2⟩
    · simp only [hp]
      have he : w.2.1 = s.len := by
        simp only [probe] at hp; grind
      simp only [List.head?, List.getLast?, Option.map]
      refine ⟨by simp [hw1], by simp [he], trivial, ?_⟩
      intro k hk1 hk2
      exact ⟨_, List.mem_singleton.mpr rfl, by simp only [hw1]; omega, by simp only [he]; omega⟩

/-- **Tiling.**  For `0 ≤ overlap < size`, following `next-sequence-start-number`
from 1 shows windows that start at 1, end at the length, each next one starting
exactly `overlap` elements before the previous one's end (so neighbours share
exactly `overlap` elements) with strictly increasing starts, and every element
`1..len` is shown.  The click sequence terminates: `len` clicks always suffice. -/
theorem tiling (size orphan overlap : Int) (s : Seq) (fuel : Nat)
    (hs : 1 ≤ size) (ho : 0 ≤ orphan) (hov : 0 ≤ overlap) (hlt : overlap < size)
    (hl : 1 ≤ s.len) (hf : s.len ≤ fuel) :
    let ws := follow size orphan overlap s fuel 1
    (ws.head?.map (·.1) = some 1) ∧
    (ws.getLast?.map (·.2) = some s.len) ∧
    Linked (fun a b => b.1 = a.2 + 1 - overlap ∧ a.1 < b.1) ws ∧
    (∀ k, 1 ≤ k → k ≤ s.len → ∃ w ∈ ws, w.1 ≤ k ∧ k ≤ w.2) :=
  follow_spec size orphan overlap s hs ho hov hlt fuel 1 (by omega) hl (by omega)

private theorem prev_step (start size orphan overlap : Int) (s : Seq)
    (h1 : 1 < start) (h2 : start ≤ s.len) (hs : 1 ≤ size) (ho : 0 ≤ orphan)
    (hov : 0 ≤ overlap) (hlt : overlap < size) :
    let p := (opt 0 (start - 1 + overlap) size orphan s).1
    1 ≤ p ∧ p < start := by
  simp only [opt, probe]
  grind

/-- Following `previous-sequence-start-number` from any window start reaches
element 1, through strictly decreasing starts. -/
theorem tiling_prev (size orphan overlap : Int) (s : Seq)
    (hs : 1 ≤ size) (ho : 0 ≤ orphan) (hov : 0 ≤ overlap) (hlt : overlap < size) :
    ∀ (fuel : Nat) (start : Int), 1 ≤ start → start ≤ s.len → start ≤ fuel →
    let ps := followPrev size orphan overlap s fuel start
    ps.getLast? = some 1 ∧ Linked (fun a b => b < a) ps ∧ ps.head? = some start := by
  intro fuel
  induction fuel with
  | zero => intro start h1 h2 hf; omega
  | succ n ih =>
    intro start h1 h2 hf
    simp only [followPrev]
    by_cases hgt : start - 1 > 0
    · simp only [hgt, if_true]
      have hp := prev_step start size orphan overlap s (by omega) h2 hs ho hov hlt
      obtain ⟨i1, i2, i3⟩ := ih _ hp.1 (by omega) (by omega)
      generalize followPrev size orphan overlap s n
        (opt 0 (start - 1 + overlap) size orphan s).1 = rest at i1 i2 i3 ⊢
      match rest, i1, i2, i3 with
      | [], i1, _, _ => simp at i1
      | r :: rs, i1, i2, i3 =>
        simp only [List.head?, Option.some.injEq] at i3
        refine ⟨by simpa [List.getLast?] using i1, ⟨by omega, i2⟩, by simp⟩
    · simp only [hgt, if_false]
      have : start = 1 := by omega
      simp [this, Linked]

/-- Non-vacuity: a concrete batch run (7 elements, size 3, overlap 1, orphan 1). -/
example : follow 3 1 1 ⟨7, false⟩ 7 1 = [(1, 3), (3, 5), (5, 7)] := by decide
example : followPrev 3 1 1 ⟨7, false⟩ 7 5 = [5, 3, 1] := by decide
example : window 1 9 0 0 ⟨7, false⟩ = (1, 7, 9) := by decide

end DTML.Props.C11
