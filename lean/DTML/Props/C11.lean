/-
C11 — Batch windows stay in range, tile the sequence and link consistently.
Property theorems only (helper lemmas are `private`).
Model: DTML/Batch.lean (`opt`, `window`, `links`, `follow`, `followPrev`).
-/
import DTML.Batch
import DTML.Gen
import DTML.GenCode
import DTML.Basic
import DTML.Lemmas.InBatchGen
set_option linter.unusedVariables false
namespace DTML.Props.C11
open DTML DTML.Batch

/-- **The model is what the source says**: `GenCode.optGen` is regenerated on every run by translating the statements
of `DT_InSV.opt` in /repo (assignments, if / elif / else, `try: sequence[i] except: …` probes, `len(sequence)`); it
computes the same function as the hand-written `Batch.opt`, about which the theorems below are stated.  A change of
`opt()` in the source changes the left-hand side and this theorem stops checking. -/
theorem gen_opt_is_model (start end_ size orphan : Int) (s : Seq) :
    GenCode.optGen start end_ size orphan s = opt start end_ size orphan s := by
  simp only [GenCode.optGen, opt]
  grind

/-- **The neighbours are computed from the window the way the model says** — the argument texts of every `opt(…)`
call in `renderwb`, `next_batches` and `previous_batches`, extracted from /repo's source on every run: the window
itself, then (twice: in the `previous` / `next` forms and in the item loop) the previous batch as
`opt(0, first + overlap, sz, orphan)` and the next batch as `opt(end + 1 - overlap, 0, sz, orphan)` — these are
`Batch.links`' two calls — and the same two steps in the batch lists. -/
theorem gen_opt_calls :
    Gen.renderwb_optCalls = ["start, end, size, orphan, sequence",
      "0, first + overlap, sz, orphan, sequence", "end + 1 - overlap, 0, sz, orphan, sequence",
      "0, first + overlap, sz, orphan, sequence", "end + 1 - overlap, 0, sz, orphan, sequence"] ∧
    Gen.renderwob_optCalls = [] ∧
    Gen.next_batches_optCalls = ["end + 1 - overlap, 0, sz, orphan, sequence"] ∧
    Gen.previous_batches_optCalls = ["0, start - 1 + overlap, sz, orphan, sequence"] := by decide

/-- The displayed window is inside the sequence: `1 ≤ start ≤ end ≤ length`,
for every parameter tuple (given or absent = 0, negative, oversized). -/
theorem opt_window (start end_ size orphan : Int) (s : Seq)
    (hl : 1 ≤ s.len) (ho : 0 ≤ orphan) :
    let w := window start end_ size orphan s
    1 ≤ w.1 ∧ w.1 ≤ w.2.1 ∧ w.2.1 ≤ s.len := by
  simp only [window, opt, probe]
  grind

/-- An explicit window inside the sequence is displayed as given. -/
theorem explicit_window (start end_ size orphan : Int) (s : Seq)
    (h1 : 1 ≤ start) (h2 : start ≤ end_) (h3 : end_ ≤ s.len) :
    let w := window start end_ size orphan s
    w.1 = start ∧ w.2.1 = end_ := by
  simp only [window, opt, probe]
  grind

/-- With `start` and `size` only: the window ends at `start+size-1` unless
fewer than `orphan` elements would remain after it; then it runs to the end. -/
theorem opt_size_orphan (start size orphan : Int) (s : Seq)
    (h1 : 1 ≤ start) (h2 : start ≤ s.len) (hs : 1 ≤ size) (ho : 0 ≤ orphan) :
    let w := window start 0 size orphan s
    w.1 = start ∧
    w.2.1 = (if s.len - (start + size - 1) < orphan then s.len else start + size - 1) := by
  simp only [window, opt, probe]
  grind

/-- next-sequence is announced exactly when elements remain after the window,
previous-sequence exactly when elements precede it. -/
theorem next_prev_flags (st e sz orphan overlap : Int) (s : Seq)
    (h1 : 1 ≤ st) (h2 : st ≤ e) (_h3 : e ≤ s.len) :
    let l := links st e sz orphan overlap s
    (l.nextFlag = true ↔ e < s.len) ∧ (l.prevFlag = true ↔ 1 < st) := by
  simp only [links, probe]
  grind

/-- The announced next batch starts at `end+1-overlap`; the announced previous
batch ends at `start-1+overlap` (both clamped into the sequence). -/
theorem link_positions (st e sz orphan overlap : Int) (s : Seq)
    (h1 : 1 ≤ st) (h2 : st ≤ e) (h3 : e ≤ s.len) (ho : 0 ≤ overlap) :
    let l := links st e sz orphan overlap s
    (e < s.len → l.nextStart = max 1 (e + 1 - overlap)) ∧
    (1 < st → l.prevEnd = min s.len (st - 1 + overlap)) := by
  simp only [links, opt, probe]
  grind

/-- The announced neighbours are themselves windows inside the sequence. -/
theorem links_in_range (st e sz orphan overlap : Int) (s : Seq)
    (h1 : 1 ≤ st) (h2 : st ≤ e) (h3 : e ≤ s.len) (ho : 0 ≤ overlap) (hor : 0 ≤ orphan)
    (hsz : 1 ≤ sz) :
    let l := links st e sz orphan overlap s
    (1 ≤ l.nextStart ∧ l.nextStart ≤ l.nextEnd ∧ l.nextEnd ≤ s.len) ∧
    (1 < st → 1 ≤ l.prevStart ∧ l.prevStart ≤ l.prevEnd ∧ l.prevEnd ≤ s.len) := by
  simp only [links, opt, probe]
  grind


private theorem window_step (start size orphan : Int) (s : Seq)
    (_h1 : 1 ≤ start) (h2 : start ≤ s.len) (hs : 1 ≤ size) (ho : 0 ≤ orphan) :
    let w := window start 0 size orphan s
    w.1 = start ∧ start ≤ w.2.1 ∧ w.2.1 ≤ s.len ∧ w.2.2 = size ∧
    (w.2.1 = s.len ∨ w.2.1 = start + size - 1) := by
  simp only [window, opt, probe]
  grind

private theorem next_step (e size orphan overlap : Int) (s : Seq)
    (h1 : 1 ≤ e) (h2 : e < s.len) (hov : 0 ≤ overlap) (hlt : overlap < e) :
    (opt (e + 1 - overlap) 0 size orphan s).1 = e + 1 - overlap := by
  simp only [opt, probe]
  grind

private theorem follow_spec (size orphan overlap : Int) (s : Seq)
    (hs : 1 ≤ size) (ho : 0 ≤ orphan) (hov : 0 ≤ overlap) (hlt : overlap < size) :
    ∀ (fuel : Nat) (start : Int), 1 ≤ start → start ≤ s.len → s.len - start ≤ fuel →
    let ws := follow size orphan overlap s fuel start
    (ws.head?.map (·.1) = some start) ∧
    (ws.getLast?.map (·.2) = some s.len) ∧
    Linked (fun a b => b.1 = a.2 + 1 - overlap ∧ a.1 < b.1) ws ∧
    (∀ k, start ≤ k → k ≤ s.len → ∃ w ∈ ws, w.1 ≤ k ∧ k ≤ w.2) := by
  intro fuel
  induction fuel with
  | zero =>
    intro start h1 h2 hf
    have hw := window_step start size orphan s h1 h2 hs ho
    simp only [follow]
    have : start = s.len := by omega
    subst this
    simp only [List.head?, List.getLast?, Option.map, Linked, List.getLast]
    refine ⟨by simp [hw.1], ?_, trivial, ?_⟩
    · have := hw.2.1; have := hw.2.2.1; simp; omega
    · intro k hk1 hk2; exact ⟨_, List.mem_singleton.mpr rfl, by simp [hw.1]; omega, by have := hw.2.1; simp; omega⟩
  | succ n ih =>
    intro start h1 h2 hf
    have hw := window_step start size orphan s h1 h2 hs ho
    simp only [follow]
    generalize window start 0 size orphan s = w at hw ⊢
    obtain ⟨hw1, hw2, hw3, hw4, hw5⟩ := hw
    by_cases hp : probe s w.2.1 = true
    · simp only [hp, if_true]
      have he : w.2.1 < s.len := by
        simp only [probe] at hp; grind
      have hov' : overlap < w.2.1 := by omega
      have hs' := next_step w.2.1 size orphan overlap s (by omega) he hov hov'
      rw [hw4, hs']
      have ihh := ih (w.2.1 + 1 - overlap) (by omega) (by omega) (by omega)
      obtain ⟨i1, i2, i3, i4⟩ := ihh
      generalize follow size orphan overlap s n (w.2.1 + 1 - overlap) = rest at i1 i2 i3 i4 ⊢
      match rest, i1, i2, i3, i4 with
      | [], i1, _, _, _ => simp at i1
      | r :: rs, i1, i2, i3, i4 =>
        simp only [List.head?, Option.map, Option.some.injEq] at i1
        refine ⟨by simp [hw1], ?_, ?_, ?_⟩
        · simpa [List.getLast?] using i2
        · exact ⟨⟨by omega, by simp only [hw1]; omega⟩, i3⟩
        · intro k hk1 hk2
          by_cases hk : k ≤ w.2.1
          · exact ⟨_, List.mem_cons_self, by simp only [hw1]; omega, hk⟩
          · obtain ⟨x, hx, hx1, hx2⟩ := i4 k (by omega) hk2
            exact ⟨x, List.mem_cons_of_mem _ hx, hx1, hx2⟩
    · simp only [hp]
      have he : w.2.1 = s.len := by
        simp only [probe] at hp; grind
      simp only [List.head?, List.getLast?, Option.map]
      refine ⟨by simp [hw1], by simp [he], trivial, ?_⟩
      intro k hk1 hk2
      exact ⟨_, List.mem_singleton.mpr rfl, by simp only [hw1]; omega, by simp only [he]; omega⟩

/-- **Tiling.**  For `0 ≤ overlap < size`, following `next-sequence-start-number`
from 1 shows windows that start at 1, end at the length, each next one starting
exactly `overlap` elements before the previous one's end (so neighbours share
exactly `overlap` elements) with strictly increasing starts, and every element
`1..len` is shown.  The click sequence terminates: `len` clicks always suffice. -/
theorem tiling (size orphan overlap : Int) (s : Seq) (fuel : Nat)
    (hs : 1 ≤ size) (ho : 0 ≤ orphan) (hov : 0 ≤ overlap) (hlt : overlap < size)
    (hl : 1 ≤ s.len) (hf : s.len ≤ fuel) :
    let ws := follow size orphan overlap s fuel 1
    (ws.head?.map (·.1) = some 1) ∧
    (ws.getLast?.map (·.2) = some s.len) ∧
    Linked (fun a b => b.1 = a.2 + 1 - overlap ∧ a.1 < b.1) ws ∧
    (∀ k, 1 ≤ k → k ≤ s.len → ∃ w ∈ ws, w.1 ≤ k ∧ k ≤ w.2) :=
  follow_spec size orphan overlap s hs ho hov hlt fuel 1 (by omega) hl (by omega)

private theorem prev_step (start size orphan overlap : Int) (s : Seq)
    (h1 : 1 < start) (h2 : start ≤ s.len) (hs : 1 ≤ size) (ho : 0 ≤ orphan)
    (hov : 0 ≤ overlap) (hlt : overlap < size) :
    let p := (opt 0 (start - 1 + overlap) size orphan s).1
    1 ≤ p ∧ p < start := by
  simp only [opt, probe]
  grind

/-- Following `previous-sequence-start-number` from any window start reaches
element 1, through strictly decreasing starts. -/
theorem tiling_prev (size orphan overlap : Int) (s : Seq)
    (hs : 1 ≤ size) (ho : 0 ≤ orphan) (hov : 0 ≤ overlap) (hlt : overlap < size) :
    ∀ (fuel : Nat) (start : Int), 1 ≤ start → start ≤ s.len → start ≤ fuel →
    let ps := followPrev size orphan overlap s fuel start
    ps.getLast? = some 1 ∧ Linked (fun a b => b < a) ps ∧ ps.head? = some start := by
  intro fuel
  induction fuel with
  | zero => intro start h1 h2 hf; omega
  | succ n ih =>
    intro start h1 h2 hf
    simp only [followPrev]
    by_cases hgt : start - 1 > 0
    · simp only [hgt, if_true]
      have hp := prev_step start size orphan overlap s (by omega) h2 hs ho hov hlt
      obtain ⟨i1, i2, i3⟩ := ih _ hp.1 (by omega) (by omega)
      generalize followPrev size orphan overlap s n
        (opt 0 (start - 1 + overlap) size orphan s).1 = rest at i1 i2 i3 ⊢
      match rest, i1, i2, i3 with
      | [], i1, _, _ => simp at i1
      | r :: rs, i1, i2, i3 =>
        simp only [List.head?, Option.some.injEq] at i3
        refine ⟨by simpa [List.getLast?] using i1, ⟨by omega, i2⟩, by simp⟩
    · simp only [hgt, if_false]
      have : start = 1 := by omega
      simp [this, Linked]

/-! ### The batch lists `next-batches` / `previous-batches` -/

/-- **The loops of the model are the loops of the source**: `GenCode.nextBatchesGen` / `prevBatchesGen` are regenerated on
every run from the `while` loops of `sequence_variables.next_batches` / `previous_batches` (the loop test, `current = …`,
the `opt(…)` call, the `break` test, the three fields stored for every listed batch); started from the variables the
prologue loads (`l_ = len(sequence)`), they compute the hand-written `Batch.nextBatches` / `Batch.prevBatchesRev`. -/
theorem gen_next_batches_is_model (sz orphan overlap : Int) (s : Seq) :
    ∀ (fuel : Nat) (start end_ cur spam : Int),
    GenCode.nextBatchesGen s fuel ⟨start, end_, sz, orphan, overlap, s.len, cur, spam⟩ =
      nextBatches sz orphan overlap s fuel end_ := by
  intro fuel
  induction fuel with
  | zero => intros; rfl
  | succ n ih =>
    intro start end_ cur spam
    simp only [GenCode.nextBatchesGen, nextBatches, gen_opt_is_model]
    split
    · split
      · rfl
      · rw [ih]
    · rfl

theorem gen_previous_batches_is_model (sz orphan overlap : Int) (s : Seq) :
    ∀ (fuel : Nat) (start end_ l cur spam : Int),
    GenCode.prevBatchesGen s fuel ⟨start, end_, sz, orphan, overlap, l, cur, spam⟩ =
      prevBatchesRev sz orphan overlap s fuel start := by
  intro fuel
  induction fuel with
  | zero => intros; rfl
  | succ n ih =>
    intro start end_ l cur spam
    simp only [GenCode.prevBatchesGen, prevBatchesRev, gen_opt_is_model]
    split
    · split
      · rfl
      · rw [ih]
    · rfl

/-- **The lists start from the window that is being displayed**: both methods load `sz`, `start`, `end`, `orphan`,
`overlap` from the `sequence-step-…` variables (which `renderwb` sets from the window it computed) and `next_batches`
takes `l_ = len(sequence)` — extracted from /repo's source on every run. -/
theorem gen_batch_list_inputs :
    GenCode.next_batches_inputs = [("sz", "sequence-step-size"), ("start", "sequence-step-start"),
      ("end", "sequence-step-end"), ("l_", "len(sequence)"), ("orphan", "sequence-step-orphan"),
      ("overlap", "sequence-step-overlap")] ∧
    GenCode.previous_batches_inputs = [("sz", "sequence-step-size"), ("start", "sequence-step-start"),
      ("end", "sequence-step-end"), ("orphan", "sequence-step-orphan"), ("overlap", "sequence-step-overlap")] := by
  decide

/-- **Listing terminates**, for every parameter tuple (also `overlap ≥ size`, negative numbers, lazy sequences): once the
fuel covers the distance to the end of the sequence, more fuel never changes the list — the `while` loop of the source
has stopped by then (every iteration moves `end` strictly towards `len`, or breaks). -/
theorem next_batches_fuel (sz orphan overlap : Int) (s : Seq) :
    ∀ (fuel : Nat) (end_ : Int), s.len - end_ ≤ fuel →
    nextBatches sz orphan overlap s (fuel + 1) end_ = nextBatches sz orphan overlap s fuel end_ := by
  intro fuel
  induction fuel with
  | zero =>
    intro end_ h
    simp only [nextBatches]
    have : ¬ end_ < s.len := by omega
    simp [this]
  | succ n ih =>
    intro end_ h
    conv => lhs; rw [nextBatches]
    conv => rhs; rw [nextBatches]
    split
    · simp only
      split
      · rfl
      · rename_i h1 h2
        rw [ih _ (by omega)]
    · rfl

theorem previous_batches_fuel (sz orphan overlap : Int) (s : Seq) :
    ∀ (fuel : Nat) (start : Int), start - 1 ≤ fuel →
    prevBatchesRev sz orphan overlap s (fuel + 1) start = prevBatchesRev sz orphan overlap s fuel start := by
  intro fuel
  induction fuel with
  | zero =>
    intro start h
    simp only [prevBatchesRev]
    have : ¬ start > 1 := by omega
    simp [this]
  | succ n ih =>
    intro start h
    conv => lhs; rw [prevBatchesRev]
    conv => rhs; rw [prevBatchesRev]
    split
    · simp only
      split
      · rfl
      · rename_i h1 h2
        rw [ih _ (by omega)]
    · rfl

/-- The first batch of `next-batches` is the batch the links announce (`next-sequence-start-number` /
`next-sequence-end-number`), the nearest batch of `previous-batches` the announced previous one. -/
theorem batch_lists_start_at_links (st e sz orphan overlap : Int) (s : Seq) (fuel : Nat)
    (h1 : 1 ≤ st) (h2 : st ≤ e) (h3 : e ≤ s.len) (hs : 1 ≤ sz) (ho : 0 ≤ orphan) (hov : 0 ≤ overlap)
    (hlt : overlap < sz) (hw : e = s.len ∨ st + sz - 1 ≤ e) :
    let l := links st e sz orphan overlap s
    (e < s.len → (nextBatches sz orphan overlap s (fuel + 1) e).head? =
        some (l.nextStart - 1, l.nextEnd - 1, l.nextEnd + 1 - l.nextStart)) ∧
    (1 < st → (prevBatchesRev sz orphan overlap s (fuel + 1) st).head? =
        some (l.prevStart - 1, l.prevEnd - 1, l.prevEnd + 1 - l.prevStart)) := by
  simp only [links, nextBatches, prevBatchesRev]
  constructor
  · intro he
    have : (opt (e + 1 - overlap) 0 sz orphan s).2.1 > e := by
      simp only [opt, probe]; grind
    simp [he]
    split
    · omega
    · simp
  · intro hst
    have : (opt 0 (st - 1 + overlap) sz orphan s).1 < st := by
      simp only [opt, probe]; grind
    simp [hst]
    split
    · omega
    · simp

private theorem nb_step (e sz orphan overlap : Int) (s : Seq)
    (h1 : 1 ≤ e) (h2 : e < s.len) (hs : 1 ≤ sz) (ho : 0 ≤ orphan) (hov : 0 ≤ overlap) (hlt : overlap < sz)
    (hoe : overlap < e) :
    let o := opt (e + 1 - overlap) 0 sz orphan s
    o.1 = e + 1 - overlap ∧ e < o.2.1 ∧ o.2.1 ≤ s.len ∧ (o.2.1 = s.len ∨ o.2.1 = o.1 + sz - 1) := by
  simp only [opt, probe]
  grind

private theorem next_batches_spec (sz orphan overlap : Int) (s : Seq)
    (hs : 1 ≤ sz) (ho : 0 ≤ orphan) (hov : 0 ≤ overlap) (hlt : overlap < sz) :
    ∀ (fuel : Nat) (e : Int), 1 ≤ e → overlap < e → e ≤ s.len → s.len - e ≤ fuel →
    let bs := nextBatches sz orphan overlap s fuel e
    (e < s.len → bs.head?.map (·.1) = some (e - overlap)) ∧
    (e < s.len → bs.getLast?.map (·.2.1) = some (s.len - 1)) ∧
    (e = s.len → bs = []) ∧
    Linked (fun a b => b.1 = a.2.1 + 1 - overlap ∧ a.2.1 < b.2.1) bs ∧
    (∀ b ∈ bs, 0 ≤ b.1 ∧ b.1 ≤ b.2.1 ∧ b.2.1 ≤ s.len - 1 ∧ e - overlap ≤ b.1 ∧ e ≤ b.2.1 ∧ b.2.2 = b.2.1 - b.1 + 1) := by
  intro fuel
  induction fuel with
  | zero =>
    intro e h1 hoe h3 hf
    have : e = s.len := by omega
    simp [nextBatches, Linked, this]
  | succ n ih =>
    intro e h1 hoe h3 hf
    simp only [nextBatches]
    by_cases he : e < s.len
    · have hst := nb_step e sz orphan overlap s h1 he hs ho hov hlt hoe
      simp only [he, if_true]
      generalize opt (e + 1 - overlap) 0 sz orphan s = o at hst ⊢
      obtain ⟨o1, o2, o3, o4⟩ := hst
      have hno : ¬ o.2.1 ≤ e := by omega
      simp only [hno, if_false]
      have ihh := ih o.2.1 (by omega) (by omega) o3 (by omega)
      obtain ⟨i1, i2, i3, i4, i5⟩ := ihh
      generalize nextBatches sz orphan overlap s n o.2.1 = rest at i1 i2 i3 i4 i5 ⊢
      cases rest with
      | nil =>
        have : o.2.1 = s.len := by
          by_cases hh : o.2.1 < s.len
          · have := i2 hh; simp at this
          · omega
        refine ⟨fun _ => by simp [o1]; omega, fun _ => by simp [List.getLast?, this], fun h => by omega, trivial, ?_⟩
        intro b hb
        have hb := List.mem_singleton.mp hb
        subst hb; simp only; omega
      | cons r rs =>
        have hh : o.2.1 < s.len := by
          by_cases hh : o.2.1 < s.len
          · exact hh
          · have := i3 (by omega); simp at this
        have hr := i1 hh
        simp only [List.head?, Option.map, Option.some.injEq] at hr
        have h5 := i5 r List.mem_cons_self
        refine ⟨fun _ => by simp [o1]; omega, fun _ => by simpa [List.getLast?] using i2 hh, fun h => by omega,
          ⟨⟨by simp only [hr]; omega, by simp only; omega⟩, i4⟩, ?_⟩
        intro b hb
        rcases List.mem_cons.mp hb with hb | hb
        · subst hb; simp only; omega
        · have := i5 b hb; omega
    · have : e = s.len := by omega
      simp [he, Linked, this]

/-- **`next-batches` tiles the rest of the sequence.**  For `0 ≤ overlap < size`, read on a displayed window ending at
`e`: the listed batches start `overlap` elements before `e`'s successor, each next one starts exactly `overlap` elements
before the end of the one before it, ends strictly move forward, the last one ends with the last element, every listed
batch lies inside the sequence with `batch-size = end − start + 1`; nothing is listed when the window already ends the
sequence.  (0-based indexes, as `batch-start-index` / `batch-end-index` are.) -/
theorem next_batches_tile (sz orphan overlap : Int) (s : Seq) (fuel : Nat) (e : Int)
    (hs : 1 ≤ sz) (ho : 0 ≤ orphan) (hov : 0 ≤ overlap) (hlt : overlap < sz)
    (h1 : 1 ≤ e) (hoe : overlap < e) (h3 : e ≤ s.len) (hf : s.len - e ≤ fuel) :
    let bs := nextBatches sz orphan overlap s fuel e
    (e < s.len → bs.head?.map (·.1) = some (e - overlap)) ∧
    (e < s.len → bs.getLast?.map (·.2.1) = some (s.len - 1)) ∧
    (e = s.len → bs = []) ∧
    Linked (fun a b => b.1 = a.2.1 + 1 - overlap ∧ a.2.1 < b.2.1) bs ∧
    (∀ b ∈ bs, 0 ≤ b.1 ∧ b.1 ≤ b.2.1 ∧ b.2.1 ≤ s.len - 1 ∧ e - overlap ≤ b.1 ∧ e ≤ b.2.1 ∧ b.2.2 = b.2.1 - b.1 + 1) :=
  next_batches_spec sz orphan overlap s hs ho hov hlt fuel e h1 hoe h3 hf

private theorem pb_step (st sz orphan overlap : Int) (s : Seq)
    (h1 : 1 < st) (h2 : st ≤ s.len) (hs : 1 ≤ sz) (ho : 0 ≤ orphan) (hov : 0 ≤ overlap) (hlt : overlap < sz) :
    let o := opt 0 (st - 1 + overlap) sz orphan s
    1 ≤ o.1 ∧ o.1 < st ∧ o.1 ≤ o.2.1 ∧ o.2.1 = min s.len (st - 1 + overlap) ∧
      (o.1 = 1 ∨ o.1 = o.2.1 + 1 - sz) := by
  simp only [opt, probe]
  grind

private theorem prev_batches_spec (sz orphan overlap : Int) (s : Seq)
    (hs : 1 ≤ sz) (ho : 0 ≤ orphan) (hov : 0 ≤ overlap) (hlt : overlap < sz) :
    ∀ (fuel : Nat) (st : Int), 1 ≤ st → st ≤ s.len → st - 1 ≤ fuel →
    let bs := prevBatchesRev sz orphan overlap s fuel st
    (1 < st → bs.head?.map (·.2.1) = some (min s.len (st - 1 + overlap) - 1)) ∧
    (1 < st → bs.getLast?.map (·.1) = some 0) ∧
    (st = 1 → bs = []) ∧
    Linked (fun a b => b.2.1 = min s.len (a.1 + overlap) - 1 ∧ b.1 < a.1) bs ∧
    (∀ b ∈ bs, 0 ≤ b.1 ∧ b.1 ≤ b.2.1 ∧ b.2.1 ≤ s.len - 1 ∧ b.1 < st - 1 ∧ b.2.2 = b.2.1 - b.1 + 1) := by
  intro fuel
  induction fuel with
  | zero =>
    intro st h1 h2 hf
    have : st = 1 := by omega
    simp [prevBatchesRev, Linked, this]
  | succ n ih =>
    intro st h1 h2 hf
    simp only [prevBatchesRev]
    by_cases hst : st > 1
    · have hp := pb_step st sz orphan overlap s hst h2 hs ho hov hlt
      simp only [hst, if_true]
      generalize opt 0 (st - 1 + overlap) sz orphan s = o at hp ⊢
      obtain ⟨p1, p2, p3, p4, p5⟩ := hp
      have hno : ¬ o.1 ≥ st := by omega
      simp only [hno, if_false]
      have ihh := ih o.1 p1 (by omega) (by omega)
      obtain ⟨i1, i2, i3, i4, i5⟩ := ihh
      generalize prevBatchesRev sz orphan overlap s n o.1 = rest at i1 i2 i3 i4 i5 ⊢
      cases rest with
      | nil =>
        have : o.1 = 1 := by
          by_cases hh : 1 < o.1
          · have := i2 hh; simp at this
          · omega
        refine ⟨fun _ => by simp [p4], fun _ => by simp [List.getLast?, this], fun h => by omega, trivial, ?_⟩
        intro b hb
        have hb := List.mem_singleton.mp hb
        subst hb; simp only; omega
      | cons r rs =>
        have hh : 1 < o.1 := by
          by_cases hh : 1 < o.1
          · exact hh
          · have := i3 (by omega); simp at this
        have hr := i1 hh
        simp only [List.head?, Option.map, Option.some.injEq] at hr
        have h5 := i5 r List.mem_cons_self
        refine ⟨fun _ => by simp [p4], fun _ => by simpa [List.getLast?] using i2 hh, fun h => by omega,
          ⟨⟨by first | (simp only [hr]; omega) | simp only [hr], by simp only; omega⟩, i4⟩, ?_⟩
        intro b hb
        rcases List.mem_cons.mp hb with hb | hb
        · subst hb; simp only; omega
        · have := i5 b hb; omega
    · have : st = 1 := by omega
      simp [hst, Linked, this]

/-- **`previous-batches` tiles the beginning of the sequence.**  For `0 ≤ overlap < size`, read on a displayed window
starting at `st`: going backwards, the nearest batch ends `overlap` elements after `st`'s predecessor (clamped to the
sequence), each further one ends exactly `overlap` elements after the predecessor of the start of the one after it,
starts strictly move backwards, the farthest one starts with the first element, every listed batch lies inside the
sequence; nothing is listed for a window that starts the sequence.  (`Batch.prevBatches` is this list reversed, the order
the variable has.) -/
theorem previous_batches_tile (sz orphan overlap : Int) (s : Seq) (fuel : Nat) (st : Int)
    (hs : 1 ≤ sz) (ho : 0 ≤ orphan) (hov : 0 ≤ overlap) (hlt : overlap < sz)
    (h1 : 1 ≤ st) (h2 : st ≤ s.len) (hf : st - 1 ≤ fuel) :
    let bs := prevBatchesRev sz orphan overlap s fuel st
    (1 < st → bs.head?.map (·.2.1) = some (min s.len (st - 1 + overlap) - 1)) ∧
    (1 < st → bs.getLast?.map (·.1) = some 0) ∧
    (st = 1 → bs = []) ∧
    Linked (fun a b => b.2.1 = min s.len (a.1 + overlap) - 1 ∧ b.1 < a.1) bs ∧
    (∀ b ∈ bs, 0 ≤ b.1 ∧ b.1 ≤ b.2.1 ∧ b.2.1 ≤ s.len - 1 ∧ b.1 < st - 1 ∧ b.2.2 = b.2.1 - b.1 + 1) :=
  prev_batches_spec sz orphan overlap s hs ho hov hlt fuel st h1 h2 hf

/-- `overlap ≥ size`: the batches do not move, so none is listed (the repaired behaviour: before fixes `b50233a` /
`3037250` these loops never ended). -/
theorem batch_lists_stuck_overlap :
    nextBatches 2 0 2 ⟨9, false⟩ 20 3 = [] ∧ prevBatchesRev 2 0 2 ⟨9, false⟩ 20 5 = [] := by decide

/-- Non-vacuity: 10 elements, size 3, overlap 1, orphan 1, the window 4..6 being displayed. -/
example : nextBatches 3 1 1 ⟨10, false⟩ 10 6 = [(5, 7, 3), (7, 9, 3)] := by decide
example : prevBatches 3 1 1 ⟨10, false⟩ 10 4 = [(0, 1, 2), (1, 3, 3)] := by decide

/-- Non-vacuity: a concrete batch run (7 elements, size 3, overlap 1, orphan 1). -/
example : follow 3 1 1 ⟨7, false⟩ 7 1 = [(1, 3), (3, 5), (5, 7)] := by decide
example : followPrev 3 1 1 ⟨7, false⟩ 7 5 = [5, 3, 1] := by decide
example : window 1 9 0 0 ⟨7, false⟩ = (1, 7, 9) := by decide

/-! ### The prologue of `renderwb` and `int_param` are those of the source

`GenIn.intParamGen`, `inBatchParamCalls`, `inBatchWindowGen`, `inBatchWinGen`, `inBatchVarsGen`, `inBatchModeGen`,
`inBatchFirstGen` / `inBatchSecondGen` are regenerated on every run (harness/trans_in.py, `generate_window`) from `int_param`
and from the statements of `InClass.renderwb` before the loop: `int_param` statement by statement (the `try: v = params[name]
except: v = default`, `if v:`, `try: v = int(v) except Exception:`, `v = md[v]`, `if type(v) is st: v = int(v)`, `return v`), the
five `int_param(params, md, KEY, DEFAULT)` calls in their order with the handler around the first, the arguments of
`opt(…)`, the clamp `try: sequence[end - 1] except IndexError: end = len(sequence)`, the bounds of `range(first, end)`, the seven
`pkw['sequence-step-…'] = …` stores, `if previous: … elif next: …` with the flags `'previous' in params` / `'next' in params`, the
tests `first > 0` / `try: sequence[end]`, the two `opt(…)` calls and the stores of the two branches. -/
section GenPrologue
open DTML.Render DTML.GenIn DTML.Lemmas.InBatchGen

/-- a parameter given as a numeral is that number -/
theorem gen_int_param_literal (env : Env) (fuel : Nat) (params : Text → Option Param) (name : Text) (d : Val) (st : St) (i : Int)
    (h : params name = some (.lit i)) : intParamGen env fuel params name d st = (.ok (.int i), st) :=
  int_param_lit env fuel params name d st i h

/-- the calls of `renderwb`: the five parameters in the order in which the model resolves them (`InXOpts.names`: start, end,
size, overlap, orphan), the defaults `0` … `'0'`, `except Exception: start = 1` around the first only -/
theorem gen_in_param_calls :
    inBatchParamCalls = [("start", .int 0, some 1), ("end", .int 0, none), ("size", .int 0, none), ("overlap", .int 0, none),
      ("orphan", .str "0".toList, none)] := rfl

/-- a parameter that is not given reads as 0 (`BatchP`'s "0 = not given") with the default of every call -/
theorem gen_int_param_default (env : Env) (fuel : Nat) (params : Text → Option Param) (st : St)
    (c : String × Val × Option Int) (hc : c ∈ inBatchParamCalls) (h : params c.1.toList = none) :
    intParamGen env fuel params c.1.toList c.2.1 st = (.ok (.int 0), st) := by
  rw [gen_in_param_calls] at hc
  simp only [List.mem_cons, List.not_mem_nil, or_false] at hc
  rcases hc with rfl | rfl | rfl | rfl | rfl <;>
    exact int_param_absent env fuel params _ _ st h (by first | exact Or.inl rfl | exact Or.inr rfl)

/-- a parameter given by the name of a variable: the model's `getitem` and `paramInt` (a string is converted, a failed
conversion raises, anything that is not a string is handed on as it is) -/
theorem gen_int_param_name_is_model (env : Env) (fuel : Nat) (params : Text → Option Param) (name n : Text) (d : Val) (st : St)
    (h : params name = some (.name n)) (hn : n ≠ []) :
    intParamGen env fuel params name d st =
      match getitem env fuel n true st with
      | (.ok v, st') =>
        (match paramInt v with
         | .ok i => (.ok (match v with | .str _ => .int i | v => v), st')
         | .bad => (.ok v, st')
         | .valueError => (.raise intError, st'))
      | (.raise e, st') => (.raise e, st')
      | (.ret v, st') => (.ret v, st')
      | (.oom, st') => (.oom, st') :=
  int_param_name env fuel params name n d st h hn

/-- **one step of the model's `resolveNames` is the translated `int_param`**: the value `opt()` can compute with (an int, a
bool) is stored in the parameters, anything else sets the TypeError flag, an exception propagates - except for `start`,
where it is swallowed and 1 taken (`inBatchParamCalls`: the handler around the first call) -/
theorem gen_int_param_is_model (env : Env) (fuel : Nat) (params : Text → Option Param) (p n : Text) (d : Val)
    (rest : List (Text × Text)) (bp : BatchP) (bad : Bool) (st : St)
    (h : params p = some (.name n)) (hn : n ≠ []) :
    resolveNames env (fuel + 1) ((p, n) :: rest) bp bad st =
      match intParamGen env fuel params p d st with
      | (.ok v, st') =>
        (match valPInt v with
         | some i => resolveNames env fuel rest (setParam bp p i) bad st'
         | none => resolveNames env fuel rest bp true st')
      | (.raise e, st') =>
        if p == "start".toList then resolveNames env fuel rest (setParam bp p 1) bad st' else (.raise e, st')
      | (.ret v, st') =>
        if p == "start".toList then resolveNames env fuel rest (setParam bp p 1) bad st' else (.ret v, st')
      | (.oom, st') => (.oom, st') :=
  resolve_step env fuel params p n d rest bp bad st h hn

/-- the hypotheses are satisfiable -/
example : ∃ (params : Text → Option Param) (n : Text), params "size".toList = some (.name n) ∧ n ≠ [] :=
  ⟨fun _ => some (.name "n".toList), "n".toList, rfl, by decide⟩

/-- **the five calls composed are one whole run of the model's `resolveNames`**: the translated `int_param` calls of
`renderwb`, run one after the other in the order of the source (`paramsRun` over `inBatchParamCalls`: a value `opt()` can
compute with is stored, anything else sets the TypeError flag, an exception propagates except under the handler of
`start`), are `resolveNames env fuel names bp0 bad st` - the call `renderBlk` makes for `.inx_` with `names = x.names`,
`bp0 = x.batch`, `bad = false` - where `names` are the parameters given by the name of a variable, in the order of the
source (`gen_in_params_names`), and `bp0` holds the numerals, 0 for a parameter that is not given (`litFill`).  The fuel
is the same on both sides and threads as follows: a parameter given by name costs one unit (its lookup `md[v]` runs with
what is left after paying), a numeral or an absent parameter costs nothing, each call hands what it has left to the
next, and one unit must be left after the last call (`paramsRun`; with less: out of fuel on both sides) -/
theorem gen_in_params_is_resolveNames (env : Env) (params : Text → Option Param)
    (hn : ∀ c ∈ inBatchParamCalls, ∀ n, params c.1.toList = some (.name n) → n ≠ [])
    (fuel : Nat) (bp : BatchP) (bad : Bool) (st : St) :
    paramsRun env params inBatchParamCalls fuel bp bad st =
      resolveNames env fuel (namesOf params inBatchParamCalls) (litFill params inBatchParamCalls bp) bad st :=
  params_run env params inBatchParamCalls params_calls_ok.1 params_calls_ok.2.1 params_calls_ok.2.2 hn fuel bp bad st

/-- the list the model resolves is in the order of the source: start, end, size, overlap, orphan, those given by name
(the order `InXOpts.names` documents: no permutation between the source and the model) -/
theorem gen_in_params_names (params : Text → Option Param) :
    namesOf params inBatchParamCalls =
      ["start", "end", "size", "overlap", "orphan"].filterMap (fun k =>
        match params k.toList with
        | some (.name n) => some (k.toList, n)
        | _ => none) := by
  simp only [inBatchParamCalls, namesOf, List.filterMap_cons, List.filterMap_nil]
  generalize params "start".toList = a
  generalize params "end".toList = b
  generalize params "size".toList = c
  generalize params "overlap".toList = d
  generalize params "orphan".toList = e
  rcases a with _ | (_ | _) <;> rcases b with _ | (_ | _) <;> rcases c with _ | (_ | _) <;> rcases d with _ | (_ | _) <;>
    rcases e with _ | (_ | _) <;> rfl

/-- with nothing given by name the calls store the numerals and use no fuel beyond the one unit at the end -/
theorem gen_in_params_literals (env : Env) (params : Text → Option Param)
    (h : ∀ c ∈ inBatchParamCalls, ∀ n, params c.1.toList ≠ some (.name n)) (fuel : Nat) (bp : BatchP) (st : St) :
    paramsRun env params inBatchParamCalls (fuel + 1) bp false st = (.ok (litFill params inBatchParamCalls bp, false), st) := by
  rw [gen_in_params_is_resolveNames env params (fun c hc n hq => absurd hq (h c hc n))]
  have hnil : namesOf params inBatchParamCalls = [] := by
    have key : ∀ cs : List (String × Val × Option Int), (∀ c ∈ cs, ∀ n, params c.1.toList ≠ some (.name n)) →
        namesOf params cs = [] := by
      intro cs
      induction cs with
      | nil => intro _; rfl
      | cons c cs ih =>
        intro hc
        have ih' := ih (fun c' h' => hc c' (List.mem_cons_of_mem _ h'))
        unfold namesOf
        cases hq : params c.1.toList with
        | none => exact ih'
        | some q =>
          cases q with
          | lit k => exact ih'
          | name n => exact absurd hq (hc c (List.mem_cons_self ..) n)
    exact key _ h
  rw [hnil]
  unfold resolveNames
  rfl

/-- the hypothesis of `gen_in_params_is_resolveNames` is satisfiable with parameters of every kind -/
example : ∃ params : Text → Option Param,
    (∀ c ∈ inBatchParamCalls, ∀ n, params c.1.toList = some (.name n) → n ≠ []) ∧
    params "start".toList = some (.name "s".toList) ∧ params "size".toList = some (.lit 3) ∧ params "end".toList = none :=
  ⟨fun p => if p = "start".toList then some (.name "s".toList) else if p = "size".toList then some (.lit 3) else none,
    by
      intro c hc n hq
      rw [gen_in_param_calls] at hc
      simp only [List.mem_cons, List.not_mem_nil, or_false] at hc
      rcases hc with rfl | rfl | rfl | rfl | rfl <;> cases hq <;> decide
    , rfl, rfl, rfl⟩

/-- **the window**: `opt(start, end, size, orphan, sequence)` with the arguments in the order of the source, then the
clamp of `end`, is `Batch.window` -/
theorem gen_in_window_is_model (start end_ size overlap orphan : Int) (s : Seq) :
    inBatchWindowGen start end_ size overlap orphan s = window start end_ size orphan s := by
  simp only [inBatchWindowGen, gen_opt_is_model, window]

/-- `range(first, end)` and the parameters the loop reads are the model's `bwinOf` -/
theorem gen_in_bwin_is_model (bp : BatchP) (len : Nat) :
    let w := inBatchWindowGen bp.start bp.end_ bp.size bp.overlap bp.orphan ⟨len, false⟩
    inBatchWinGen bp.start bp.end_ bp.size bp.overlap bp.orphan w.1 w.2.1 w.2.2 = bwinOf bp len := by
  simp only [gen_in_window_is_model, inBatchWinGen, bwinOf]

/-- the `sequence-step-*` stores before anything is rendered are the model's `batchInit` (on the dictionary
`sequence_variables` starts with: previous-sequence = next-sequence = 0) -/
theorem gen_in_batch_vars_is_model (bp : BatchP) (len : Nat) (sv : SeqVars) (hl : 1 ≤ len) (ho : 0 ≤ bp.orphan) :
    let w := inBatchWindowGen bp.start bp.end_ bp.size bp.overlap bp.orphan ⟨len, false⟩
    inBatchVarsGen ((sv.set (txt "previous-sequence") (.int 0)).set (txt "next-sequence") (.int 0))
      bp.start bp.end_ bp.size bp.overlap bp.orphan w.1 w.2.1 w.2.2 = batchInit sv (bwinOf bp len) := by
  have h := opt_window bp.start bp.end_ bp.size bp.orphan ⟨len, false⟩ (by show (1 : Int) ≤ (len : Int); omega) ho
  simp only at h
  simp only [gen_in_window_is_model, inBatchVarsGen, batchInit, bwinOf]
  generalize window bp.start bp.end_ bp.size bp.orphan ⟨len, false⟩ = w at h ⊢
  obtain ⟨h1, h2, h3⟩ := h
  have e1 : (((w.1 - 1).toNat : Nat) : Int) = w.1 - 1 := by omega
  have e2 : ((w.2.1.toNat : Nat) : Int) = w.2.1 := by omega
  simp only [Int.ofNat_eq_natCast, e1, e2, Int.sub_add_cancel]

/-- the hypotheses are satisfiable -/
example : (1 : Nat) ≤ 5 ∧ (0 : Int) ≤ ({ start := 2, size := 2 } : BatchP).orphan := by decide

/-- `if previous: … elif next: … else:` - `previous` wins, the flags are the presence of the attributes -/
theorem gen_in_mode_is_model (has : Text → Bool) :
    inBatchModeGen has = if has (txt "previous") then (0, txt "previous") else if has (txt "next") then (1, txt "next")
      else (2, []) := rfl

/-- **the `previous` rendering**: the section when `first > 0`, with the previous batch `opt(0, first + overlap, sz, orphan)`
stored as the model's `prevInfo`; the else section otherwise -/
theorem gen_in_previous_is_model (sv : SeqVars) (w : BWin) :
    inBatchFirstGen sv w = if w.first > 0 then some (prevInfo sv w true) else none := first_eq sv w

/-- **the `next` rendering**: the section when `sequence[end]` exists, with the next batch `opt(end + 1 - overlap, 0, sz,
orphan)` stored as the model's `nextInfo`; the else section otherwise -/
theorem gen_in_next_is_model (sv : SeqVars) (w : BWin) :
    inBatchSecondGen sv w = if moreAfter sv w then some (nextInfo sv w true) else none := second_eq sv w

/-- the two branches in the interpreter: a `previous` tag is rendered as the first branch says … -/
theorem gen_in_previous_is_inBatch (env : Env) (fuel : Nat) (sv0 : SeqVars) (o : InOpts) (bp : BatchP) (w : BWin)
    (body : List Blk) (els : Option (List Blk)) (cache : List Frame) (st : St) (hp : bp.previous = true) :
    inBatch env (fuel + 1) sv0 o bp w body els cache st =
      popFrames (cache.length + 1) (singleRender env fuel body els cache { sv0 with noIndex := true }
        (inBatchFirstGen { sv0 with noIndex := true } w) st) :=
  inBatch_previous env fuel sv0 o bp w body els cache st hp

/-- … and a `next` tag (without `previous`) as the second -/
theorem gen_in_next_is_inBatch (env : Env) (fuel : Nat) (sv0 : SeqVars) (o : InOpts) (bp : BatchP) (w : BWin)
    (body : List Blk) (els : Option (List Blk)) (cache : List Frame) (st : St) (hp : bp.previous = false) (hn : bp.next = true) :
    inBatch env (fuel + 1) sv0 o bp w body els cache st =
      popFrames (cache.length + 1) (singleRender env fuel body els cache { sv0 with noIndex := true }
        (inBatchSecondGen { sv0 with noIndex := true } w) st) :=
  inBatch_next env fuel sv0 o bp w body els cache st hp hn

/-- **the branches announce the neighbours of `Batch.links`**: the section of a `previous` tag is rendered exactly when
`links.prevFlag`, that of a `next` tag exactly when `links.nextFlag`, and the numbers stored are `links`' -/
theorem gen_in_single_is_links (sv : SeqVars) (w : BWin) :
    let l := links ((w.first : Int) + 1) w.stop w.sz w.orphan w.overlap ⟨sv.items.length, false⟩
    ((inBatchFirstGen sv w).isSome = l.prevFlag) ∧ ((inBatchSecondGen sv w).isSome = l.nextFlag) ∧
    inBatchFirstVarsGen sv w = (((sv.set (txt "previous-sequence") (.int 1)).set (txt "previous-sequence-start-index")
      (.int (l.prevStart - 1))).set (txt "previous-sequence-end-index") (.int (l.prevEnd - 1))).set
      (txt "previous-sequence-size") (.int (l.prevEnd + 1 - l.prevStart)) ∧
    inBatchSecondVarsGen sv w = (((sv.set (txt "next-sequence") (.int 1)).set (txt "next-sequence-start-index")
      (.int (l.nextStart - 1))).set (txt "next-sequence-end-index") (.int (l.nextEnd - 1))).set
      (txt "next-sequence-size") (.int (l.nextEnd + 1 - l.nextStart)) := by
  have e0 : (w.first : Int) + 1 - 1 = (w.first : Int) := by omega
  refine ⟨?_, ?_, ?_, ?_⟩
  · rw [first_eq]
    by_cases h : w.first > 0 <;> simp [links, h, e0] <;> omega
  · rw [second_eq]
    by_cases h : w.stop < sv.items.length <;> simp [links, moreAfter, probe, h] <;> omega
  · simp only [inBatchFirstVarsGen, links, e0]
  · simp only [inBatchSecondVarsGen, links]

end GenPrologue

end DTML.Props.C11
