/-
C19 — Bytes in mixed output decode with the template encoding; str() is safe.
Model: DTML/Render.lean (`Piece`, `joinPieces` = render_blocks' 0 / 1 / n rule, `joinUnicode`
= join_unicode, `decodeBytes` with the template encoding (UTF-8 or Latin-1), `htmlQuote` on
bytes, `pieceOfVal`, `ustr`).
-/
import DTML.Render
import DTML.Lemmas.Join
set_option linter.unusedVariables false
namespace DTML.Props.C19
open DTML.Render

/-! #### the two codecs of the model really are codecs -/

/-- `s.encode('utf-8')` as a list of byte values -/
def utf8Bytes (s : Text) : List Nat := (String.ofList s).toByteArray.data.toList.map UInt8.toNat

/-- `s.encode('latin-1')` (defined for texts whose characters are below U+0100) -/
def latin1Bytes (s : Text) : List Nat := s.map Char.toNat

theorem fromUTF8_toByteArray (s : String) : String.fromUTF8? s.toByteArray = some s := by
  unfold String.fromUTF8?
  rw [dif_pos s.isValidUTF8]
  congr 1

/-- **UTF-8 round trip, for every text** (any length, any code points) -/
theorem utf8_roundtrip (env : Env) (h : env.utf8 = true) (s : Text) : decodeBytes env (utf8Bytes s) = some s := by
  unfold decodeBytes utf8Bytes
  simp only [h, if_true]
  have : (List.map UInt8.ofNat (List.map UInt8.toNat (String.ofList s).toByteArray.data.toList)) =
      (String.ofList s).toByteArray.data.toList := by
    rw [List.map_map]
    conv => rhs; rw [← List.map_id (String.ofList s).toByteArray.data.toList]
    apply List.map_congr_left
    intro a _
    simp
  rw [this]
  have h2 : (ByteArray.mk (String.ofList s).toByteArray.data.toList.toArray) = (String.ofList s).toByteArray := by
    cases (String.ofList s).toByteArray; simp
  rw [h2, fromUTF8_toByteArray]
  simp

/-- **Latin-1 round trip** -/
theorem latin1_roundtrip (env : Env) (h : env.utf8 = false) (s : Text) :
    decodeBytes env (latin1Bytes s) = some s := by
  unfold decodeBytes latin1Bytes latin1Decode
  simp only [h, Bool.false_eq_true, if_false, Option.some.injEq, List.map_map]
  conv => rhs; rw [← List.map_id s]
  apply List.map_congr_left
  intro c hc
  simp [Char.ofNat_toNat]

theorem latin1Bytes_are_bytes (s : Text) (hs : ∀ c ∈ s, c.toNat < 256) : ∀ b ∈ latin1Bytes s, b < 256 := by
  intro b hb
  simp only [latin1Bytes, List.mem_map] at hb
  obtain ⟨c, hc, rfl⟩ := hb
  exact hs c hc

/-! #### joining pieces -/

def isText : Piece → Prop
  | .text _ => True
  | .bytes _ => False

/-- `join_unicode` always yields text (or fails to decode) -/
theorem join_is_text (env : Env) (ps : List Piece) (p : Piece) (h : joinUnicode env ps = .ok p) : isText p := by
  unfold joinUnicode at h
  split at h
  · cases h; trivial
  · cases h

/-- **Whenever a rendering consists of more than one piece, the result is text** -/
theorem multi_piece_is_text (env : Env) (ps : List Piece) (p : Piece) (hl : 2 ≤ ps.length)
    (h : joinPieces env ps = .ok p) : isText p := by
  match ps, hl with
  | a :: b :: rest, _ =>
    simp only [joinPieces] at h
    exact join_is_text env _ p h

/-- … so a top-level call whose rendering has more than one piece returns text -/
theorem toplevel_multi_piece_text (env : Env) (fuel : Nat) (t : Template) (c : CallArgs) (ps : List Piece) (st1 : St)
    (v : Val) (hl : 2 ≤ ps.length)
    (hr : renderBlocks env fuel t.blocks { stack := callStack t c, level := 1 } = (.ok ps, st1))
    (h : (topCall env fuel t c).1 = .ok v) : ∃ s, v = .str s := by
  simp only [topCall, hr] at h
  cases hj : joinPieces env ps with
  | ok p =>
    rw [hj] at h
    simp only [Res.ok.injEq] at h
    have := multi_piece_is_text env ps p hl hj
    cases p with
    | text s => exact ⟨s, h.symm⟩
    | bytes b => exact this.elim
  | raise e => rw [hj] at h; cases h
  | ret x => rw [hj] at h; cases h
  | oom => rw [hj] at h; cases h

/-- a single piece is returned as it is (bytes stay bytes), no piece gives the empty text -/
theorem single_piece_unchanged (env : Env) (p : Piece) : joinPieces env [p] = .ok p := rfl
theorem no_piece_empty (env : Env) : joinPieces env [] = .ok (.text []) := rfl

/-- **Inserting `s.encode(encoding)` is equivalent to inserting `s`**, at any position of a
joined rendering: a bytes piece that decodes to `s` under the template encoding can be replaced
by the text piece `s` without changing the result -/
theorem decodeAll_bytes_equiv (env : Env) (b : List Nat) (s : Text) (hd : decodeBytes env b = some s) :
    ∀ (pre post : List Piece),
    decodeAll env (pre ++ .bytes b :: post) = decodeAll env (pre ++ .text s :: post) := by
  intro pre
  induction pre with
  | nil =>
    intro post
    simp only [List.nil_append, decodeAll, hd]
    cases decodeAll env post <;> rfl
  | cons a t ih =>
    intro post
    cases a with
    | text x => simp only [List.cons_append, decodeAll, ih]
    | bytes y => simp only [List.cons_append, decodeAll, ih]

theorem join_bytes_equiv (env : Env) (b : List Nat) (s : Text) (hd : decodeBytes env b = some s)
    (pre post : List Piece) :
    joinUnicode env (pre ++ .bytes b :: post) = joinUnicode env (pre ++ .text s :: post) := by
  unfold joinUnicode
  rw [decodeAll_bytes_equiv env b s hd]

/-- the same through render_blocks' rule, as soon as there is a second piece -/
theorem render_bytes_equiv (env : Env) (b : List Nat) (s : Text) (hd : decodeBytes env b = some s)
    (pre post : List Piece) (h2 : 1 ≤ pre.length + post.length) :
    joinPieces env (pre ++ .bytes b :: post) = joinPieces env (pre ++ .text s :: post) := by
  cases pre with
  | nil =>
    cases post with
    | nil => simp at h2
    | cons q qs => simp only [List.nil_append, joinPieces]; exact join_bytes_equiv env b s hd [] (q :: qs)
  | cons a t =>
    cases t with
    | nil => simp only [List.cons_append, List.nil_append, joinPieces]; exact join_bytes_equiv env b s hd [a] post
    | cons a2 t2 =>
      simp only [List.cons_append, joinPieces]
      exact join_bytes_equiv env b s hd (a :: a2 :: t2) post

/-- with the two codecs of the model: UTF-8 templates … -/
theorem utf8_bytes_equiv (env : Env) (h : env.utf8 = true) (s : Text) (pre post : List Piece)
    (h2 : 1 ≤ pre.length + post.length) :
    joinPieces env (pre ++ .bytes (utf8Bytes s) :: post) = joinPieces env (pre ++ .text s :: post) :=
  render_bytes_equiv env _ s (utf8_roundtrip env h s) pre post h2

/-- … and Latin-1 templates -/
theorem latin1_bytes_equiv (env : Env) (h : env.utf8 = false) (s : Text) (pre post : List Piece)
    (h2 : 1 ≤ pre.length + post.length) :
    joinPieces env (pre ++ .bytes (latin1Bytes s) :: post) = joinPieces env (pre ++ .text s :: post) :=
  render_bytes_equiv env _ s (latin1_roundtrip env h s) pre post h2

/-- text pieces are concatenated in order, nothing else -/
theorem join_texts (env : Env) (ss : List Text) :
    decodeAll env (ss.map Piece.text) = some ss.flatten := by
  induction ss with
  | nil => rfl
  | cons a t ih => simp [decodeAll, ih]

/-- **HTML-quoted insertion decodes with the template encoding too** -/
theorem html_quote_bytes_equiv (env : Env) (b : List Nat) (s : Text) (hd : decodeBytes env b = some s) :
    htmlQuote env (.bytes b) = htmlQuote env (.text s) := by
  simp only [htmlQuote, hd]

/-- dtml-in always joins its iterations with join_unicode: its result is text even for one piece -/
theorem in_body_is_text (env : Env) (ps : List Piece) (p : Piece) (h : joinUnicode env ps = .ok p) : isText p :=
  join_is_text env ps p h

/-- try/else and try/finally join their two parts with join_unicode -/
theorem try_join_is_text (env : Env) (p q : Piece) (st st' : St) (r : List Piece)
    (h : join2 env p q st = (.ok r, st')) : ∀ x ∈ r, isText x := by
  unfold join2 at h
  split at h
  · rename_i j hj
    simp only [Prod.mk.injEq, Res.ok.injEq] at h
    obtain ⟨rfl, _⟩ := h
    intro x hx
    split at hx
    · cases hx
    · simp only [List.mem_singleton] at hx
      subst hx
      exact join_is_text env _ _ hj
  · cases h
  · cases h

/-! #### what a value contributes -/

/-- a bytes value is inserted as a bytes piece (decoded only when pieces are joined); every other
value as the text `ustr v` -/
theorem piece_of_bytes (b : List Nat) : pieceOfVal (.bytes b) = .bytes b := rfl
theorem piece_of_str (s : Text) : pieceOfVal (.str s) = .text s := rfl

/-- `ustr`: strings unchanged, exceptions as their message, numbers / None / booleans as Python prints them -/
theorem ustr_spec (s m c : Text) (i : Int) :
    ustr (.str s) = s ∧ ustr (.exc c m) = m ∧ ustr (.int i) = intRepr i ∧
    ustr .none = "None".toList ∧ ustr (.bool true) = "True".toList ∧ ustr (.bool false) = "False".toList :=
  ⟨rfl, rfl, rfl, rfl, rfl, rfl⟩

/-! #### the hypotheses are satisfiable -/

-- 'é' as UTF-8 bytes next to a text piece
example : decodeAll { utf8 := true } [.text "a".toList, .bytes [0xC3, 0xA9]] = some ['a', 'é'] := by
  decide +kernel
-- the same bytes in a Latin-1 template are two characters
example : decodeAll { utf8 := false } [.text "a".toList, .bytes [0xC3, 0xA9]] = some ['a', 'Ã', '©'] := by
  decide +kernel
-- invalid UTF-8 fails to decode
example : decodeAll { utf8 := true } [.text "a".toList, .bytes [0xE9]] = none := by
  decide +kernel


/-! #### `join_unicode` and `render_blocks` as translated from the source on every run (DTML/GenJoin.lean)

The generated definitions are proved equal to the model functions the theorems above are stated about, for every list of
pieces.  `encodingIs env encoding`: the `encoding` argument stands for the template encoding of the model (`None` =
Latin-1, the value of `OLD_DEFAULT_ENCODING` the generated code reads from the package). -/

open DTML.GenJoin DTML.Lemmas.Join in
/-- `if encoding is None: encoding = _dt.OLD_DEFAULT_ENCODING` leaves a name that means the template encoding -/
theorem gen_join_unicode_default_encoding (env : Env) (encoding : Option Text) (h : encodingIs env encoding) :
    resolved env (if encoding = none then some OLD_DEFAULT_ENCODING else encoding) := by
  cases encoding with
  | none =>
    simp only [encodingIs] at h
    refine ⟨OLD_DEFAULT_ENCODING, by simp, ?_⟩
    rw [h]
    decide
  | some e => exact ⟨e, by simp, h⟩

open DTML.GenJoin DTML.Lemmas.Join in
/-- one round of `for i in range(len(rendered))`: the element at the index is decoded if it is bytes and stored back -/
theorem gen_join_unicode_loop_body (env : Env) (encoding : Option Text) (h : resolved env encoding) :
    BodySpec env (joinUnicodeLoopBody encoding) := by
  obtain ⟨e, rfl, hc⟩ := h
  intro pre x suf
  have hget : pyGetItem (pre ++ x :: suf) pre.length = .ok x := by simp [pyGetItem]
  have hset : ∀ y, pySetItem (pre ++ x :: suf) pre.length y = .ok (pre ++ y :: suf) := by
    intro y; simp [pySetItem]
  unfold joinUnicodeLoopBody
  cases x with
  | text s => simp only [hget, bindR, isBytes, Bool.false_eq_true, if_false, decodeOne]
  | bytes b =>
    simp only [hget, hset, bindR, isBytes, if_true, decodeOne, pyDecode, hc, decodeBytes_utf8]
    cases decodeBytes env b with
    | none => rfl
    | some s => rfl

open DTML.GenJoin DTML.Lemmas.Join in
/-- **`join_unicode` of the source is `joinUnicode` of the model** (every list of pieces, any length) -/
theorem gen_join_unicode_is_model (env : Env) (encoding : Option Text) (h : encodingIs env encoding)
    (rendered : List Piece) : joinUnicodeGen rendered encoding = joinUnicode env rendered := by
  unfold joinUnicodeGen
  cases ht : allText rendered with
  | some ts =>
    simp only [pyJoin, ht, tryExcept]
    exact (join_texts_is_model env rendered ts ht).symm
  | none =>
    have hm : excMatches ["UnicodeError".toList, "TypeError".toList] typeError = true := by decide
    simp only [pyJoin, ht, tryExcept, hm, if_true]
    exact fixup_then_join env _
      (gen_join_unicode_loop_body env _ (gen_join_unicode_default_encoding env encoding h)) rendered

open DTML.GenJoin DTML.Lemmas.Join in
/-- **`render_blocks` of the source, from the statement after the call of `render_blocks_` on, is `joinPieces`**: no piece
gives `''`, one piece is returned as it is, more are handed to `join_unicode` -/
theorem gen_render_blocks_is_model (env : Env) (encoding : Option Text) (h : encodingIs env encoding)
    (rendered : List Piece) : renderBlocksTailGen rendered encoding = joinPieces env rendered := by
  unfold renderBlocksTailGen
  match rendered with
  | [] => rfl
  | [p] => rfl
  | a :: b :: t =>
    have h0 : ¬ (a :: b :: t).length = 0 := by simp
    have h1 : ¬ (a :: b :: t).length = 1 := by simp
    simp only [h0, h1, if_false, joinPieces]
    exact gen_join_unicode_is_model env encoding h _

open DTML.GenJoin DTML.Lemmas.Join in
/-- the whole of `render_blocks(blocks, md, encoding)` - the pieces `render_blocks_` collects (`renderBlocks`), then the
translated statements - is what a tag object returns in the model (`renderJoined`) -/
theorem gen_render_blocks_is_renderJoined (env : Env) (encoding : Option Text) (h : encodingIs env encoding)
    (fuel : Nat) (body : List Blk) (st : St) :
    renderJoined env (fuel + 1) body st =
      (match renderBlocks env fuel body st with
       | (.ok rendered, st1) => (renderBlocksTailGen rendered encoding, st1)
       | (.raise e, st1) => (.raise e, st1)
       | (.ret v, st1) => (.ret v, st1)
       | (.oom, st1) => (.oom, st1)) := by
  simp only [renderJoined]
  rcases hr : renderBlocks env fuel body st with ⟨r, st1⟩
  cases r with
  | ok ps =>
    simp only [joinRes, gen_render_blocks_is_model env encoding h]
    cases ps with
    | nil => rfl
    | cons a t =>
      cases t with
      | nil => rfl
      | cons b t =>
        simp only [joinPieces]
        rcases joinUnicode_total env (a :: b :: t) with ⟨p, hp⟩ | ⟨e, he⟩
        · rw [hp]
        · rw [he]
  | raise e => rfl
  | ret v => rfl
  | oom => rfl

-- the hypothesis is satisfiable: a UTF-8 template hands its encoding on, a Latin-1 template hands on its name or nothing
open DTML.Lemmas.Join in
example : encodingIs { utf8 := true } (some "utf-8".toList) ∧ encodingIs { utf8 := true } (some "UTF-8".toList) ∧
    encodingIs { utf8 := false } none ∧ encodingIs { utf8 := false } (some "latin-1".toList) ∧
    encodingIs { utf8 := false } (some "Latin-1".toList) := by decide
-- and it says something: the default is not UTF-8
open DTML.Lemmas.Join in
example : ¬ encodingIs { utf8 := true } none := by decide

end DTML.Props.C19
