/-
C19 — Bytes in mixed output decode with the template encoding; str() is safe.
Model: DTML/Render.lean (`Piece`, `joinPieces` = render_blocks' 0 / 1 / n rule, `joinUnicode`
= join_unicode, `decodeBytes` with the template encoding (UTF-8 or Latin-1), `htmlQuote` on
bytes, `pieceOfVal`, `ustr`).
-/
import DTML.Render
import DTML.Lemmas.Join
import DTML.Lemmas.Ustr
set_option linter.unusedVariables false
namespace DTML.Props.C19
open DTML.Render

/-! #### the two codecs of the model really are codecs -/

/-- `s.encode('utf-8')` as a list of byte values -/
def utf8Bytes (s : Text) : List Nat := (String.ofList s).toByteArray.data.toList.map UInt8.toNat

/-- `s.encode('latin-1')` (defined for texts whose characters are below U+0100) -/
def latin1Bytes (s : Text) : List Nat := s.map Char.toNat

theorem fromUTF8_toByteArray (s : String) : String.fromUTF8? s.toByteArray = some s := by
  unfold String.fromUTF8?
  rw [dif_pos s.isValidUTF8]
  congr 1

/-- **UTF-8 round trip, for every text** (any length, any code points) -/
theorem utf8_roundtrip (env : Env) (h : env.utf8 = true) (s : Text) : decodeBytes env (utf8Bytes s) = some s := by
  unfold decodeBytes utf8Bytes
  simp only [h, if_true]
  have : (List.map UInt8.ofNat (List.map UInt8.toNat (String.ofList s).toByteArray.data.toList)) =
      (String.ofList s).toByteArray.data.toList := by
    rw [List.map_map]
    conv => rhs; rw [← List.map_id (String.ofList s).toByteArray.data.toList]
    apply List.map_congr_left
    intro a _
    simp
  rw [this]
  have h2 : (ByteArray.mk (String.ofList s).toByteArray.data.toList.toArray) = (String.ofList s).toByteArray := by
    cases (String.ofList s).toByteArray; simp
  rw [h2, fromUTF8_toByteArray]
  simp

/-- **Latin-1 round trip** -/
theorem latin1_roundtrip (env : Env) (h : env.utf8 = false) (s : Text) :
    decodeBytes env (latin1Bytes s) = some s := by
  unfold decodeBytes latin1Bytes latin1Decode
  simp only [h, Bool.false_eq_true, if_false, Option.some.injEq, List.map_map]
  conv => rhs; rw [← List.map_id s]
  apply List.map_congr_left
  intro c hc
  simp [Char.ofNat_toNat]

theorem latin1Bytes_are_bytes (s : Text) (hs : ∀ c ∈ s, c.toNat < 256) : ∀ b ∈ latin1Bytes s, b < 256 := by
  intro b hb
  simp only [latin1Bytes, List.mem_map] at hb
  obtain ⟨c, hc, rfl⟩ := hb
  exact hs c hc

/-! #### joining pieces -/

def isText : Piece → Prop
  | .text _ => True
  | .bytes _ => False

/-- `join_unicode` always yields text (or fails to decode) -/
theorem join_is_text (env : Env) (ps : List Piece) (p : Piece) (h : joinUnicode env ps = .ok p) : isText p := by
  unfold joinUnicode at h
  split at h
  · cases h; trivial
  · cases h

/-- **Whenever a rendering consists of more than one piece, the result is text** -/
theorem multi_piece_is_text (env : Env) (ps : List Piece) (p : Piece) (hl : 2 ≤ ps.length)
    (h : joinPieces env ps = .ok p) : isText p := by
  match ps, hl with
  | a :: b :: rest, _ =>
    simp only [joinPieces] at h
    exact join_is_text env _ p h

/-- … so a top-level call whose rendering has more than one piece returns text -/
theorem toplevel_multi_piece_text (env : Env) (fuel : Nat) (t : Template) (c : CallArgs) (ps : List Piece) (st1 : St)
    (v : Val) (hl : 2 ≤ ps.length)
    (hr : renderBlocks env fuel t.blocks { stack := callStack t c, level := 1 } = (.ok ps, st1))
    (h : (topCall env fuel t c).1 = .ok v) : ∃ s, v = .str s := by
  simp only [topCall, hr] at h
  cases hj : joinPieces env ps with
  | ok p =>
    rw [hj] at h
    simp only [Res.ok.injEq] at h
    have := multi_piece_is_text env ps p hl hj
    cases p with
    | text s => exact ⟨s, h.symm⟩
    | bytes b => exact this.elim
  | raise e => rw [hj] at h; cases h
  | ret x => rw [hj] at h; cases h
  | oom => rw [hj] at h; cases h

/-- a single piece is returned as it is (bytes stay bytes), no piece gives the empty text -/
theorem single_piece_unchanged (env : Env) (p : Piece) : joinPieces env [p] = .ok p := rfl
theorem no_piece_empty (env : Env) : joinPieces env [] = .ok (.text []) := rfl

/-- **Inserting `s.encode(encoding)` is equivalent to inserting `s`**, at any position of a
joined rendering: a bytes piece that decodes to `s` under the template encoding can be replaced
by the text piece `s` without changing the result -/
theorem decodeAll_bytes_equiv (env : Env) (b : List Nat) (s : Text) (hd : decodeBytes env b = some s) :
    ∀ (pre post : List Piece),
    decodeAll env (pre ++ .bytes b :: post) = decodeAll env (pre ++ .text s :: post) := by
  intro pre
  induction pre with
  | nil =>
    intro post
    simp only [List.nil_append, decodeAll, hd]
    cases decodeAll env post <;> rfl
  | cons a t ih =>
    intro post
    cases a with
    | text x => simp only [List.cons_append, decodeAll, ih]
    | bytes y => simp only [List.cons_append, decodeAll, ih]

theorem join_bytes_equiv (env : Env) (b : List Nat) (s : Text) (hd : decodeBytes env b = some s)
    (pre post : List Piece) :
    joinUnicode env (pre ++ .bytes b :: post) = joinUnicode env (pre ++ .text s :: post) := by
  unfold joinUnicode
  rw [decodeAll_bytes_equiv env b s hd]

/-- the same through render_blocks' rule, as soon as there is a second piece -/
theorem render_bytes_equiv (env : Env) (b : List Nat) (s : Text) (hd : decodeBytes env b = some s)
    (pre post : List Piece) (h2 : 1 ≤ pre.length + post.length) :
    joinPieces env (pre ++ .bytes b :: post) = joinPieces env (pre ++ .text s :: post) := by
  cases pre with
  | nil =>
    cases post with
    | nil => simp at h2
    | cons q qs => simp only [List.nil_append, joinPieces]; exact join_bytes_equiv env b s hd [] (q :: qs)
  | cons a t =>
    cases t with
    | nil => simp only [List.cons_append, List.nil_append, joinPieces]; exact join_bytes_equiv env b s hd [a] post
    | cons a2 t2 =>
      simp only [List.cons_append, joinPieces]
      exact join_bytes_equiv env b s hd (a :: a2 :: t2) post

/-- with the two codecs of the model: UTF-8 templates … -/
theorem utf8_bytes_equiv (env : Env) (h : env.utf8 = true) (s : Text) (pre post : List Piece)
    (h2 : 1 ≤ pre.length + post.length) :
    joinPieces env (pre ++ .bytes (utf8Bytes s) :: post) = joinPieces env (pre ++ .text s :: post) :=
  render_bytes_equiv env _ s (utf8_roundtrip env h s) pre post h2

/-- … and Latin-1 templates -/
theorem latin1_bytes_equiv (env : Env) (h : env.utf8 = false) (s : Text) (pre post : List Piece)
    (h2 : 1 ≤ pre.length + post.length) :
    joinPieces env (pre ++ .bytes (latin1Bytes s) :: post) = joinPieces env (pre ++ .text s :: post) :=
  render_bytes_equiv env _ s (latin1_roundtrip env h s) pre post h2

/-- text pieces are concatenated in order, nothing else -/
theorem join_texts (env : Env) (ss : List Text) :
    decodeAll env (ss.map Piece.text) = some ss.flatten := by
  induction ss with
  | nil => rfl
  | cons a t ih => simp [decodeAll, ih]

/-- **HTML-quoted insertion decodes with the template encoding too** -/
theorem html_quote_bytes_equiv (env : Env) (b : List Nat) (s : Text) (hd : decodeBytes env b = some s) :
    htmlQuote env (.bytes b) = htmlQuote env (.text s) := by
  simp only [htmlQuote, hd]

/-- dtml-in always joins its iterations with join_unicode: its result is text even for one piece -/
theorem in_body_is_text (env : Env) (ps : List Piece) (p : Piece) (h : joinUnicode env ps = .ok p) : isText p :=
  join_is_text env ps p h

/-- try/else and try/finally join their two parts with join_unicode -/
theorem try_join_is_text (env : Env) (p q : Piece) (st st' : St) (r : List Piece)
    (h : join2 env p q st = (.ok r, st')) : ∀ x ∈ r, isText x := by
  unfold join2 at h
  split at h
  · rename_i j hj
    simp only [Prod.mk.injEq, Res.ok.injEq] at h
    obtain ⟨rfl, _⟩ := h
    intro x hx
    split at hx
    · cases hx
    · simp only [List.mem_singleton] at hx
      subst hx
      exact join_is_text env _ _ hj
  · cases h
  · cases h

/-! #### what a value contributes -/

/-- a bytes value is inserted as a bytes piece (decoded only when pieces are joined); every other
value as the text `ustr v` -/
theorem piece_of_bytes (b : List Nat) : pieceOfVal (.bytes b) = .bytes b := rfl
theorem piece_of_str (s : Text) : pieceOfVal (.str s) = .text s := rfl

/-- `ustr`: strings unchanged, exceptions as their message, numbers / None / booleans as Python prints them -/
theorem ustr_spec (s m c : Text) (i : Int) :
    ustr (.str s) = s ∧ ustr (.exc c m) = m ∧ ustr (.int i) = intRepr i ∧
    ustr .none = "None".toList ∧ ustr (.bool true) = "True".toList ∧ ustr (.bool false) = "False".toList :=
  ⟨rfl, rfl, rfl, rfl, rfl, rfl⟩

/-! #### the hypotheses are satisfiable -/

-- 'é' as UTF-8 bytes next to a text piece
example : decodeAll { utf8 := true } [.text "a".toList, .bytes [0xC3, 0xA9]] = some ['a', 'é'] := by
  decide +kernel
-- the same bytes in a Latin-1 template are two characters
example : decodeAll { utf8 := false } [.text "a".toList, .bytes [0xC3, 0xA9]] = some ['a', 'Ã', '©'] := by
  decide +kernel
-- invalid UTF-8 fails to decode
example : decodeAll { utf8 := true } [.text "a".toList, .bytes [0xE9]] = none := by
  decide +kernel


/-! #### `join_unicode` and `render_blocks` as translated from the source on every run (DTML/GenJoin.lean)

The generated definitions are proved equal to the model functions the theorems above are stated about, for every list of
pieces.  `encodingIs env encoding`: the `encoding` argument stands for the template encoding of the model (`None` =
Latin-1, the value of `OLD_DEFAULT_ENCODING` the generated code reads from the package). -/

open DTML.GenJoin DTML.Lemmas.Join in
/-- `if encoding is None: encoding = _dt.OLD_DEFAULT_ENCODING` leaves a name that means the template encoding -/
theorem gen_join_unicode_default_encoding (env : Env) (encoding : Option Text) (h : encodingIs env encoding) :
    resolved env (if encoding = none then some OLD_DEFAULT_ENCODING else encoding) := by
  cases encoding with
  | none =>
    simp only [encodingIs] at h
    refine ⟨OLD_DEFAULT_ENCODING, by simp, ?_⟩
    rw [h]
    decide
  | some e => exact ⟨e, by simp, h⟩

open DTML.GenJoin DTML.Lemmas.Join in
/-- one round of `for i in range(len(rendered))`: the element at the index is decoded if it is bytes and stored back -/
theorem gen_join_unicode_loop_body (env : Env) (encoding : Option Text) (h : resolved env encoding) :
    BodySpec env (joinUnicodeLoopBody encoding) := by
  obtain ⟨e, rfl, hc⟩ := h
  intro pre x suf
  have hget : pyGetItem (pre ++ x :: suf) pre.length = .ok x := by simp [pyGetItem]
  have hset : ∀ y, pySetItem (pre ++ x :: suf) pre.length y = .ok (pre ++ y :: suf) := by
    intro y; simp [pySetItem]
  unfold joinUnicodeLoopBody
  cases x with
  | text s => simp only [hget, bindR, isBytes, Bool.false_eq_true, if_false, decodeOne]
  | bytes b =>
    simp only [hget, hset, bindR, isBytes, if_true, decodeOne, pyDecode, hc, decodeBytes_utf8]
    cases decodeBytes env b with
    | none => rfl
    | some s => rfl

open DTML.GenJoin DTML.Lemmas.Join in
/-- **`join_unicode` of the source is `joinUnicode` of the model** (every list of pieces, any length) -/
theorem gen_join_unicode_is_model (env : Env) (encoding : Option Text) (h : encodingIs env encoding)
    (rendered : List Piece) : joinUnicodeGen rendered encoding = joinUnicode env rendered := by
  unfold joinUnicodeGen
  cases ht : allText rendered with
  | some ts =>
    simp only [pyJoin, ht, tryExcept]
    exact (join_texts_is_model env rendered ts ht).symm
  | none =>
    have hm : excMatches ["UnicodeError".toList, "TypeError".toList] typeError = true := by decide
    simp only [pyJoin, ht, tryExcept, hm, if_true]
    exact fixup_then_join env _
      (gen_join_unicode_loop_body env _ (gen_join_unicode_default_encoding env encoding h)) rendered

open DTML.GenJoin DTML.Lemmas.Join in
/-- **`render_blocks` of the source, from the statement after the call of `render_blocks_` on, is `joinPieces`**: no piece
gives `''`, one piece is returned as it is, more are handed to `join_unicode` -/
theorem gen_render_blocks_is_model (env : Env) (encoding : Option Text) (h : encodingIs env encoding)
    (rendered : List Piece) : renderBlocksTailGen rendered encoding = joinPieces env rendered := by
  unfold renderBlocksTailGen
  match rendered with
  | [] => rfl
  | [p] => rfl
  | a :: b :: t =>
    have h0 : ¬ (a :: b :: t).length = 0 := by simp
    have h1 : ¬ (a :: b :: t).length = 1 := by simp
    simp only [h0, h1, if_false, joinPieces]
    exact gen_join_unicode_is_model env encoding h _

open DTML.GenJoin DTML.Lemmas.Join in
/-- the whole of `render_blocks(blocks, md, encoding)` - the pieces `render_blocks_` collects (`renderBlocks`), then the
translated statements - is what a tag object returns in the model (`renderJoined`) -/
theorem gen_render_blocks_is_renderJoined (env : Env) (encoding : Option Text) (h : encodingIs env encoding)
    (fuel : Nat) (body : List Blk) (st : St) :
    renderJoined env (fuel + 1) body st =
      (match renderBlocks env fuel body st with
       | (.ok rendered, st1) => (renderBlocksTailGen rendered encoding, st1)
       | (.raise e, st1) => (.raise e, st1)
       | (.ret v, st1) => (.ret v, st1)
       | (.oom, st1) => (.oom, st1)) := by
  simp only [renderJoined]
  rcases hr : renderBlocks env fuel body st with ⟨r, st1⟩
  cases r with
  | ok ps =>
    simp only [joinRes, gen_render_blocks_is_model env encoding h]
    cases ps with
    | nil => rfl
    | cons a t =>
      cases t with
      | nil => rfl
      | cons b t =>
        simp only [joinPieces]
        rcases joinUnicode_total env (a :: b :: t) with ⟨p, hp⟩ | ⟨e, he⟩
        · rw [hp]
        · rw [he]
  | raise e => rfl
  | ret v => rfl
  | oom => rfl

-- the hypothesis is satisfiable: a UTF-8 template hands its encoding on, a Latin-1 template hands on its name or nothing
open DTML.Lemmas.Join in
example : encodingIs { utf8 := true } (some "utf-8".toList) ∧ encodingIs { utf8 := true } (some "UTF-8".toList) ∧
    encodingIs { utf8 := false } none ∧ encodingIs { utf8 := false } (some "latin-1".toList) ∧
    encodingIs { utf8 := false } (some "Latin-1".toList) := by decide
-- and it says something: the default is not UTF-8
open DTML.Lemmas.Join in
example : ¬ encodingIs { utf8 := true } none := by decide

/-! #### `ustr` and `_exception_str` as translated from the source on every run (DTML/GenUstr.lean)

The generated definitions work on `GenUstr.PyV`: the values of the model plus the kinds it leaves out (classes, exception
objects with any `args`, instances whose own `__str__` is an oracle `Lib.callStr`, objects whose `__str__` is None); the
built-in `str()` of what has no text form in the model is the oracle `Lib.str`.  On the values of the model the
translation is `pieceOfVal` / `ustr` (what `piece_of_*` and `ustr_spec` above are about); on every value it raises only
where `Lemmas.Ustr.Misbehaves` says the value's own `__str__` (or the oracle `str()`) does. -/

open DTML.GenUstr DTML.Lemmas.Ustr in
/-- `_exception_str(exc)` of the source on exception objects: no args -> `''`, one -> `ustr` of it, several -> `str` of the
tuple; without an `args` attribute -> `str(exc)` -/
theorem gen_exception_str_args (lib : Lib) (u : PyV → Res PyV) (a b : PyV) (t : List PyV) (id : Nat) :
    exceptionStrGen lib u (.excObj []) = .ok (.val (.str [])) ∧
    exceptionStrGen lib u (.excObj [a]) = u a ∧
    exceptionStrGen lib u (.excObj (a :: b :: t)) = strRes (lib.str (.tup (a :: b :: t))) ∧
    exceptionStrGen lib u (.excBare id) = strRes (lib.str (.excBare id)) := by
  refine ⟨?_, ?_, ?_, ?_⟩
  · rfl
  · rfl
  · simp [exceptionStrGen, pyHasattr, pyAttr, andThen, pyTruth, pyLen, pyStr]
    intro h; omega
  · rfl

open DTML.GenUstr DTML.Lemmas.Ustr in
/-- **`_exception_str` of the source on an exception value of the model is its message** (given that `ustr` returns a
text as it is - `gen_ustr_is_model` below) -/
theorem gen_exception_str_is_model (lib : Lib) (u : PyV → Res PyV) (c m : Text)
    (hu : u (.val (.str m)) = .ok (.val (.str m))) :
    exceptionStrGen lib u (.val (.exc c m)) = .ok (.val (.str (ustr (.exc c m)))) := by
  simp [exceptionStrGen, pyHasattr, pyAttr, andThen, pyTruth, pyLen, pyIndex, hu, ustr]

open DTML.GenUstr DTML.Lemmas.Ustr in
/-- **`ustr` of the source is `pieceOfVal` / `ustr` of the model**, on every value of the model -/
theorem gen_ustr_is_model (lib : Lib) (fuel : Nat) (v : Val) :
    ustrGen lib (fuel + 2) (.val v) = .ok (ofPiece (pieceOfVal v)) := by
  cases v with
  | exc c m => rfl
  | bool b => cases b <;> rfl
  | _ => rfl


open DTML.GenUstr DTML.Lemmas.Ustr in
/-- `ustr` of the source on the kinds of value the model leaves out: a class -> the built-in `str`; an exception object ->
`_exception_str` (its one argument converted with the fuel that is left); `__str__ = None` -> the built-in `str`; a
tuple -> its `__str__`, which is the built-in -/
theorem gen_ustr_other_kinds (lib : Lib) (fuel : Nat) (n : Text) (args : List PyV) (id : Nat) :
    ustrGen lib (fuel + 1) (.cls n) = strRes (lib.str (.cls n)) ∧
    ustrGen lib (fuel + 1) (.excObj args) = exceptionStrGen lib (ustrGen lib fuel) (.excObj args) ∧
    ustrGen lib (fuel + 1) (.excBare id) = exceptionStrGen lib (ustrGen lib fuel) (.excBare id) ∧
    ustrGen lib (fuel + 1) (.noStr id) = strRes (lib.str (.noStr id)) := by
  refine ⟨?_, ?_, ?_, ?_⟩
  · simp [ustrGen, pyIsinstance, isinstance1, pyGetattr, pyStr]
  · simp [ustrGen, pyIsinstance, isinstance1, pyGetattr]
  · simp [ustrGen, pyIsinstance, isinstance1, pyGetattr]
  · simp [ustrGen, pyIsinstance, isinstance1, pyGetattr, pyStr]

open DTML.GenUstr DTML.Lemmas.Ustr in
/-- … an instance with its own `__str__` -> what that returns if it is str or bytes, else ValueError; what it raises is
passed on -/
theorem gen_ustr_own_str (lib : Lib) (fuel : Nat) (id : Nat) :
    ustrGen lib (fuel + 1) (.inst id) =
      (match lib.callStr id with
       | .ok r => if isStrOrBytes r then .ok r else .raise wrongType
       | .raise e => .raise e
       | .ret x => .ret x
       | .oom => .oom) := by
  rw [ustrGen]
  have h1 : ∀ cs, pyIsinstance (PyV.inst id) cs = false := by
    intro cs
    induction cs with
    | nil => rfl
    | cons c t ih => cases c <;> simpa [pyIsinstance, isinstance1] using ih
  have ga : pyGetattr (PyV.inst id) "__str__".toList none = some ⟨.inst id⟩ := rfl
  have pc : pyCall lib (some ⟨.inst id⟩) = lib.callStr id := rfl
  simp only [h1, ga, pc]
  cases lib.callStr id <;> rfl

open DTML.GenUstr DTML.Lemmas.Ustr in
theorem gen_ustr_tuple (lib : Lib) (fuel : Nat) (xs : List PyV) :
    ustrGen lib (fuel + 1) (.tup xs) = strRes (lib.str (.tup xs)) := by
  rw [ustrGen]
  have h1 : ∀ cs, pyIsinstance (PyV.tup xs) cs = false := by
    intro cs
    induction cs with
    | nil => rfl
    | cons c t ih => cases c <;> simpa [pyIsinstance, isinstance1] using ih
  have ga : pyGetattr (PyV.tup xs) "__str__".toList none = some ⟨.tup xs⟩ := rfl
  have pc : pyCall lib (some ⟨.tup xs⟩) = strRes (lib.str (.tup xs)) := rfl
  simp only [h1, ga, pc]
  cases hs : lib.str (.tup xs) <;> rfl

open DTML.GenUstr DTML.Lemmas.Ustr in
/-- **conversion raises only when the value's own `__str__` misbehaves** (the last clause of C19), over the translated
function, for every value, oracle and fuel: whenever `ustr` of the source raises `e`, `Misbehaves lib v e` says where it
comes from - in particular never on a value of the model -/
theorem gen_ustr_raises_only (lib : Lib) (fuel : Nat) : ∀ (v : PyV) (e : Exc),
    ustrGen lib fuel v = .raise e → Misbehaves lib v e := by
  induction fuel with
  | zero => intro v e h; simp [ustrGen] at h
  | succ fuel ih =>
    intro v e h
    cases v with
    | val w =>
      cases fuel with
      | zero =>
        cases w <;> first | cases h | (rename_i b; cases b <;> cases h)
      | succ f => rw [gen_ustr_is_model] at h; cases h
    | cls n =>
      rw [(gen_ustr_other_kinds lib fuel n [] 0).1] at h
      exact .cls n e (strRes_raise _ _ h)
    | noStr id =>
      rw [(gen_ustr_other_kinds lib fuel [] [] id).2.2.2] at h
      exact .none id e (strRes_raise _ _ h)
    | tup xs =>
      rw [gen_ustr_tuple] at h
      exact .tup xs e (strRes_raise _ _ h)
    | excBare id =>
      rw [(gen_ustr_other_kinds lib fuel [] [] id).2.2.1, (gen_exception_str_args lib _ (.cls []) (.cls []) [] id).2.2.2] at h
      exact .bare id e (strRes_raise _ _ h)
    | inst id =>
      rw [gen_ustr_own_str] at h
      cases hc : lib.callStr id with
      | ok r =>
        rw [hc] at h
        cases hr : isStrOrBytes r with
        | true => simp [hr] at h
        | false =>
          simp only [hr, Bool.false_eq_true, if_false, Res.raise.injEq] at h
          subst h
          exact .wrong id r hc hr
      | raise e' =>
        rw [hc] at h
        simp only [Res.raise.injEq] at h
        subst h
        exact .own id e' hc
      | ret x => rw [hc] at h; cases h
      | oom => rw [hc] at h; cases h
    | excObj args =>
      rw [(gen_ustr_other_kinds lib fuel [] args 0).2.1] at h
      match args, h with
      | [], h => rw [(gen_exception_str_args lib _ (.cls []) (.cls []) [] 0).1] at h; cases h
      | [a], h =>
        rw [(gen_exception_str_args lib _ a (.cls []) [] 0).2.1] at h
        exact .arg a e (ih a e h)
      | a :: b :: t, h =>
        rw [(gen_exception_str_args lib _ a b t 0).2.2.1] at h
        exact .args a b t e (strRes_raise _ _ h)


open DTML.GenUstr DTML.Lemmas.Ustr in
/-- … so no value of the model makes the conversion raise, whatever the oracles and the fuel -/
theorem gen_ustr_model_value_never_raises (lib : Lib) (fuel : Nat) (v : Val) (e : Exc) :
    ustrGen lib fuel (.val v) ≠ .raise e := fun h => by cases gen_ustr_raises_only lib fuel _ _ h

/-! the oracles can be such that each way of raising happens, and such that none does -/
open DTML.GenUstr DTML.Lemmas.Ustr in
example : ustrGen ⟨fun _ => .ok (.val (.int 3)), fun _ => .ok []⟩ 1 (.inst 0) = .raise wrongType := rfl
open DTML.GenUstr DTML.Lemmas.Ustr in
example : ustrGen ⟨fun _ => .raise ⟨"ZeroDivisionError".toList, []⟩, fun _ => .ok []⟩ 5 (.excObj [.excObj [.inst 0]]) =
    .raise ⟨"ZeroDivisionError".toList, []⟩ := rfl
open DTML.GenUstr DTML.Lemmas.Ustr in
example : ustrGen ⟨fun _ => .ok (.val (.bytes [104, 105])), fun _ => .ok []⟩ 5 (.excObj [.excObj [.inst 0]]) =
    .ok (.val (.bytes [104, 105])) := rfl
open DTML.GenUstr DTML.Lemmas.Ustr in
example : ustrGen ⟨fun _ => .oom, fun _ => .ok "(1, 2)".toList⟩ 1 (.excObj [.val (.int 1), .val (.int 2)]) =
    .ok (.val (.str "(1, 2)".toList)) := rfl
open DTML.GenUstr DTML.Lemmas.Ustr in
example : ustrGen ⟨fun _ => .oom, fun _ => .oom⟩ 1 (.excObj []) = .ok (.val (.str [])) := rfl

end DTML.Props.C19
