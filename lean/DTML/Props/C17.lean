/-
C17 — Rendering is repeatable and side-effect free; templates survive persistence.
Model: the template OBJECT as a state machine (DT_String.String / FileMixin):
persistent state `raw` (source, or the file name for file-based templates), `globals`
(defaults), `vars`; volatile state `cooked` (`_v_blocks`/`_v_cooked`, dropped by
`__getstate__`).  Compiling and rendering a compiled program are parameters (`parse`,
`exec`): rendering a compiled program is the interpreter of DTML/Render.lean, a pure function
of program, defaults, variables and call inputs.
-/
import DTML.Tmpl
import DTML.GenTmpl
set_option linter.unusedVariables false
namespace DTML.Props.C17
open DTML.Tmpl

variable {Src Prog Dict Inp Out : Type}

/-- **the compiled data is never stale**: it is absent or the compilation of the current source -/
def Inv (E : Engine Src Prog Dict Inp Out) (t : Tmpl Src Prog Dict) : Prop :=
  t.cooked = none ∨ t.cooked = some (E.parse t.raw)

theorem inv_fresh (E : Engine Src Prog Dict Inp Out) (s : Src) (m kw : Dict) : Inv E (fresh E s m kw) := Or.inl rfl

theorem inv_step (E : Engine Src Prog Dict Inp Out) (t : Tmpl Src Prog Dict) (op : Op Src Dict Inp) (h : Inv E t) :
    Inv E (step E t op).1 := by
  cases op with
  | render i =>
    simp only [step, ensureCooked]
    rcases h with h | h
    · rw [h]; exact Or.inr rfl
    · rw [h]; exact Or.inr h
  | pickle => exact Or.inl rfl
  | deepcopy => exact Or.inl rfl
  | cook => exact Or.inr rfl
  | mungeSrc s => exact Or.inr rfl
  | mungeVars m kw => exact Or.inr rfl
  | mungeBoth s m kw => exact Or.inr rfl
  | var kw => exact h
  | default kw => exact h

/-- **cache invariant, for every history of operations** -/
theorem cache_invariant (E : Engine Src Prog Dict Inp Out) (t : Tmpl Src Prog Dict) (ops : List (Op Src Dict Inp))
    (h : Inv E t) : Inv E (run E t ops) := by
  induction ops generalizing t with
  | nil => exact h
  | cons op rest ih => exact ih _ (inv_step E t op h)

/-- what a call returns in a state satisfying the invariant: the rendering of the compilation of
the CURRENT source with the CURRENT defaults and variables — nothing else of the past matters -/
theorem render_result (E : Engine Src Prog Dict Inp Out) (t : Tmpl Src Prog Dict) (i : Inp) (h : Inv E t) :
    (step E t (.render i)).2 = some (E.exec (E.parse t.raw) t.globals t.vars i) := by
  simp only [step, ensureCooked]
  rcases h with h | h
  · rw [h]; rfl
  · rw [h]; simp only [Option.map, h]

/-- the persistent part of the state -/
def persistent (t : Tmpl Src Prog Dict) : Src × Dict × Dict := (t.raw, t.globals, t.vars)

/-- **Rendering is repeatable and history-independent**: after ANY history of operations, a call
returns exactly what a brand-new template with the same source, defaults and variables returns
for the same inputs — however often and with whatever inputs it was rendered before, and
whether or not it went through pickling, copying, cooking or editing. -/
theorem render_history_independent (E : Engine Src Prog Dict Inp Out) (t0 : Tmpl Src Prog Dict)
    (ops : List (Op Src Dict Inp)) (i : Inp) (h0 : Inv E t0) :
    let t := run E t0 ops
    (step E t (.render i)).2 =
      (step E { raw := t.raw, globals := t.globals, vars := t.vars, cooked := none } (.render i)).2 := by
  intro t
  rw [render_result E t i (cache_invariant E t0 ops h0)]
  rw [render_result E _ i (Or.inl rfl)]

/-- rendering changes nothing persistent: **calls are side-effect free on the template** -/
theorem render_keeps_persistent (E : Engine Src Prog Dict Inp Out) (t : Tmpl Src Prog Dict) (i : Inp) :
    persistent (step E t (.render i)).1 = persistent t := by
  simp only [step, ensureCooked, persistent]
  cases t.cooked <;> rfl

/-- two calls with equal inputs give equal results, whatever calls came between -/
theorem render_repeatable (E : Engine Src Prog Dict Inp Out) (t : Tmpl Src Prog Dict) (between : List Inp) (i : Inp)
    (h : Inv E t) :
    (step E (run E t (between.map Op.render)) (.render i)).2 = (step E t (.render i)).2 := by
  have hp : ∀ (l : List Inp) (t : Tmpl Src Prog Dict), persistent (run E t (l.map Op.render)) = persistent t := by
    intro l
    induction l with
    | nil => intro t; rfl
    | cons a r ih => intro t; simp only [List.map_cons, run, List.foldl_cons]; exact (ih _).trans (render_keeps_persistent E t a)
  have hi := cache_invariant E t (between.map Op.render) h
  rw [render_result E _ i hi, render_result E t i h]
  have := hp between t
  simp only [persistent, Prod.mk.injEq] at this
  obtain ⟨h1, h2, h3⟩ := this
  rw [h1, h2, h3]

/-- **Pickling (and deep copying) keeps the persistent state and omits the compiled data** -/
theorem pickle_roundtrip (E : Engine Src Prog Dict Inp Out) (t : Tmpl Src Prog Dict) :
    persistent (step E t .pickle).1 = persistent t ∧ (step E t .pickle).1.cooked = none ∧
    persistent (step E t .deepcopy).1 = persistent t ∧ (step E t .deepcopy).1.cooked = none :=
  ⟨rfl, rfl, rfl, rfl⟩

/-- … so a restored template renders exactly as the original and as a new one -/
theorem restored_renders_same (E : Engine Src Prog Dict Inp Out) (t : Tmpl Src Prog Dict) (i : Inp) (h : Inv E t) :
    (step E (step E t .pickle).1 (.render i)).2 = (step E t (.render i)).2 := by
  rw [render_result E _ i (Or.inl rfl), render_result E t i h]
  rfl

/-- **munge = a new template built from the same source and defaults** -/
theorem munge_eq_fresh (E : Engine Src Prog Dict Inp Out) (t : Tmpl Src Prog Dict) (s : Src) (m kw : Dict) (i : Inp) :
    (step E (step E t (.mungeBoth s m kw)).1 (.render i)).2 = (step E (fresh E s m kw) (.render i)).2 ∧
    persistent (step E t (.mungeBoth s m kw)).1 = persistent (fresh E s m kw) := by
  refine ⟨?_, rfl⟩
  rw [render_result E _ i (Or.inr rfl), render_result E _ i (inv_fresh E s m kw)]
  rfl

/-- editing only the source keeps defaults and variables, and recompiles -/
theorem munge_source (E : Engine Src Prog Dict Inp Out) (t : Tmpl Src Prog Dict) (s : Src) (i : Inp) :
    (step E (step E t (.mungeSrc s)).1 (.render i)).2 = some (E.exec (E.parse s) t.globals t.vars i) := by
  rw [render_result E _ i (Or.inr rfl)]
  rfl

/-! #### file-based templates pickle the name, not the content -/

/-- a file system: name ↦ content.  A file-based template's `raw` is the NAME; reading goes
through the file system at compile time. -/
structure FileTmpl (Name Prog Dict : Type) where
  raw : Name
  globals : Dict
  vars : Dict
  cooked : Option Prog := none

/-- `__getstate__` of a file-based template: only the name and the dictionaries -/
def filePickle {Name : Type} (t : FileTmpl Name Prog Dict) : Name × Dict × Dict := (t.raw, t.globals, t.vars)

/-- the pickled state is a function of the name and the dictionaries alone — it cannot depend on
(or contain) the file's content: two templates over the same name pickle identically whatever
they have compiled, and after a restore the content is read again from the file system -/
theorem file_pickles_name {Name Content : Type} (fs1 fs2 : Name → Content) (parse : Content → Prog)
    (n : Name) (g v : Dict) :
    filePickle ({ raw := n, globals := g, vars := v, cooked := some (parse (fs1 n)) } : FileTmpl Name Prog Dict) =
    filePickle ({ raw := n, globals := g, vars := v, cooked := some (parse (fs2 n)) } : FileTmpl Name Prog Dict) := rfl


/-! #### the object life cycle translated from DT_String.py on every run = the state machine above

`GenTmpl.*Gen` are regenerated from the source of `String.__init__`, `initvars`, `cook`, `munge`, `var`, `default`,
`__getstate__` and the cook-on-first-use block of `__call__` (harness/trans_tmpl.py).  The record `TObj` has the two
volatile attributes separately; `abs` maps it to the model's state, `Coh` says that `_v_cooked` is present exactly when
`_v_blocks` is (every operation keeps it, a new object has it). -/

section Gen
open DTML.GenTmpl

/-- the model's state of an object -/
def abs (o : TObj Src Prog Dict) : Tmpl Src Prog Dict :=
  { raw := o.raw, globals := o.globals, vars := o.vars, cooked := if o.v_cooked then o.v_blocks else none }

/-- `_v_cooked` and `_v_blocks` are present together -/
def Coh (o : TObj Src Prog Dict) : Prop := o.v_cooked = o.v_blocks.isSome

theorem gen_init_is_fresh (E : Engine Src Prog Dict Inp Out) (s : Src) (m kw : Dict) :
    abs (initGen E s (some m) kw) = fresh E s m kw ∧ Coh (initGen E s (some m) kw) := ⟨rfl, rfl⟩

theorem gen_cook_is_model (E : Engine Src Prog Dict Inp Out) (o : TObj Src Prog Dict) :
    abs (cookGen E o) = (step E (abs o) .cook).1 ∧ Coh (cookGen E o) := ⟨rfl, rfl⟩

/-- `munge(source)`, `munge(None, mapping, **kw)`, `munge(source, mapping, **kw)` -/
theorem gen_munge_is_model (E : Engine Src Prog Dict Inp Out) (o : TObj Src Prog Dict) (s : Src) (m kw : Dict) (b : Bool) :
    abs (mungeGen E o (some s) none kw false) = (step E (abs o) (.mungeSrc s)).1 ∧
    abs (mungeGen E o none (some m) kw b) = (step E (abs o) (.mungeVars m kw)).1 ∧
    abs (mungeGen E o (some s) (some m) kw b) = (step E (abs o) (.mungeBoth s m kw)).1 ∧
    Coh (mungeGen E o (some s) none kw false) ∧ Coh (mungeGen E o none (some m) kw b) ∧
    Coh (mungeGen E o (some s) (some m) kw b) := ⟨rfl, rfl, rfl, rfl, rfl, rfl⟩

theorem gen_var_default_is_model (E : Engine Src Prog Dict Inp Out) (o : TObj Src Prog Dict) (kw : Dict) :
    abs (varGen E o kw) = (step E (abs o) (.var kw)).1 ∧ abs (defaultGen E o kw) = (step E (abs o) (.default kw)).1 ∧
    (Coh o → Coh (varGen E o kw) ∧ Coh (defaultGen E o kw)) := ⟨rfl, rfl, fun h => ⟨h, h⟩⟩

/-- `__getstate__` + restoring the state into a new instance = the model's `pickle` / `deepcopy`: the three persistent
attributes survive, both volatile ones are gone -/
theorem gen_getstate_is_model (E : Engine Src Prog Dict Inp Out) (o : TObj Src Prog Dict) :
    ∃ o', restore (getstateGen o) = some o' ∧ abs o' = (step E (abs o) .pickle).1 ∧
      abs o' = (step E (abs o) .deepcopy).1 ∧ o'.v_blocks = none ∧ o'.v_cooked = false :=
  ⟨_, rfl, rfl, rfl, rfl, rfl⟩

/-- a call cooks when (and only when) `_v_cooked` is absent and renders `_v_blocks` -/
theorem gen_render_is_model (E : Engine Src Prog Dict Inp Out) (o : TObj Src Prog Dict) (i : Inp) (h : Coh o) :
    abs (renderGen E o i).1 = (step E (abs o) (.render i)).1 ∧ (renderGen E o i).2 = (step E (abs o) (.render i)).2 ∧
    Coh (renderGen E o i).1 := by
  unfold Coh at h
  cases hc : o.v_cooked <;> cases hb : o.v_blocks <;> simp_all [renderGen, ensureGen, cookGen, abs, step, ensureCooked, Coh]

example : Coh (initGen (Src := Nat) (Prog := Nat) (Dict := Nat) (Inp := Nat) (Out := Nat)
    ⟨id, fun p _ _ _ => p, (· + ·), (· + ·), 0⟩ 1 (some 2) 3) := rfl

end Gen

/-! #### the hypotheses are satisfiable: a concrete engine and history -/

section Example
private def E : Engine Nat Nat Nat Nat (Nat × Nat × Nat × Nat) :=
  { parse := fun s => s * 10, exec := fun p g v i => (p, g, v, i), initvars := fun m kw => m + kw,
    update := fun d kw => d + kw, empty := 0 }
-- render, edit, pickle, render again: the second call sees the new source and nothing of the first call
example : (step E (run E (fresh E 1 2 3) [.render 7, .mungeSrc 4, .pickle, .var 5]) (.render 9)).2 = some (40, 5, 5, 9) := by
  decide
example : Inv E (run E (fresh E 1 2 3) [.render 7, .mungeSrc 4, .cook, .render 1]) := by
  exact cache_invariant E _ _ (inv_fresh E 1 2 3)
end Example

end DTML.Props.C17
