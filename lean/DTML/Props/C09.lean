/-
C09 — if/elif/else/unless render the first true branch, lazily and evaluating once.
Model: DTML/Render.lean (`condLoop` = the 'i' block of render_blocks_, inside its cache
frame; `Blk.cond`, `Blk.unless_`, `Blk.call` are the three tags compiled to it).

All statements hold for every program, namespace, fault plan and fuel.
-/
import DTML.Render
import DTML.Props.C08
import DTML.Props.C02
import DTML.Lemmas.IBlock
import DTML.Lemmas.IfCompile
set_option linter.unusedVariables false
namespace DTML.Props.C09
open DTML.Render

/-- `cache[n] = v` on the cache frame (the top frame of the namespace) -/
def setCache (n : Text) (v : Val) (st : St) : St :=
  match st.stack with
  | .dict kvs :: fs => { st with stack := .dict (kvs.filter (·.1 != n) ++ [(n, v)]) :: fs }
  | _ => st

/-- what evaluating ONE condition of a conditional does -/
inductive CondRes where
  /-- evaluated to `v` (an undefined name counts as `None`), leaving the namespace in state `st` -/
  | val (v : Val) (st : St)
  /-- the evaluation raised, hit a dtml-return, or ran out of fuel -/
  | stop (r : Res (List Piece)) (st : St)

/-- one evaluation of a condition: a name is looked up (calling callables) exactly once and the
value is stored in the cache frame; an expression is evaluated exactly once -/
def condEval (env : Env) (fuel : Nat) : Src → St → CondRes
  | .name n, st =>
    (match getitem env fuel n true st with
     | (.ok v, st') => .val v (setCache n v st')
     | (.raise e, st') =>
       if e.cls = "KeyError".toList && e.msg = n then .val .none st' else .stop (.raise e) st'
     | (.ret v, st') => .stop (.ret v) st'
     | (.oom, st') => .stop .oom st')
  | .expr e, st =>
    (match evalExpr env fuel e st with
     | (.ok v, st') => .val v st'
     | (.raise x, st') => .stop (.raise x) st'
     | (.ret v, st') => .stop (.ret v) st'
     | (.oom, st') => .stop .oom st')

/-- **The conditional's step rule.**  The first condition is evaluated once; if it is true its
body is rendered and NOTHING else of the chain is touched; if it is false the body is skipped
and the chain continues from the state that ONE evaluation left behind; an error ends the
conditional. -/
theorem condLoop_cons (env : Env) (fuel : Nat) (src : Src) (body : List Blk)
    (rest : List (Src × List Blk)) (els : Option (List Blk)) (st : St) :
    condLoop env (fuel + 1) ((src, body) :: rest) els st =
      match condEval env fuel src st with
      | .val v st' => if truthy v then renderBlocks env fuel body st' else condLoop env fuel rest els st'
      | .stop r st' => (r, st') := by
  cases src with
  | name n =>
    simp only [condLoop, condEval]
    generalize getitem env fuel n true st = res
    obtain ⟨r, st'⟩ := res
    cases r with
    | ok v => simp only [setCache]; split <;> rfl
    | raise e => dsimp only; split <;> rfl
    | ret v => rfl
    | oom => rfl
  | expr e =>
    simp only [condLoop, condEval]
    generalize evalExpr env fuel e st = res
    obtain ⟨r, st'⟩ := res
    cases r <;> rfl

theorem condLoop_nil (env : Env) (fuel : Nat) (els : Option (List Blk)) (st : St) :
    condLoop env (fuel + 1) [] els st =
      match els with
      | some b => renderBlocks env fuel b st
      | none => (.ok [], st) := by
  cases els <;> simp only [condLoop]

/-! #### first true branch, lazily -/

/-- **A true condition selects its body and nothing after it is evaluated**: the outcome (output,
trace of calls, final namespace) does not depend on the rest of the chain or the else body. -/
theorem true_selects_body (env : Env) (fuel : Nat) (src : Src) (body : List Blk)
    (rest : List (Src × List Blk)) (els : Option (List Blk)) (st st' : St) (v : Val)
    (h : condEval env fuel src st = .val v st') (ht : truthy v = true) :
    condLoop env (fuel + 1) ((src, body) :: rest) els st = renderBlocks env fuel body st' := by
  rw [condLoop_cons, h]; simp [ht]

theorem later_conditions_not_evaluated (env : Env) (fuel : Nat) (src : Src) (body : List Blk)
    (rest rest' : List (Src × List Blk)) (els els' : Option (List Blk)) (st st' : St) (v : Val)
    (h : condEval env fuel src st = .val v st') (ht : truthy v = true) :
    condLoop env (fuel + 1) ((src, body) :: rest) els st =
    condLoop env (fuel + 1) ((src, body) :: rest') els' st := by
  rw [true_selects_body env fuel src body rest els st st' v h ht,
      true_selects_body env fuel src body rest' els' st st' v h ht]

/-- **A false condition skips its body** (whatever the body is) and the chain continues -/
theorem false_skips_body (env : Env) (fuel : Nat) (src : Src) (body : List Blk)
    (rest : List (Src × List Blk)) (els : Option (List Blk)) (st st' : St) (v : Val)
    (h : condEval env fuel src st = .val v st') (hf : truthy v = false) :
    condLoop env (fuel + 1) ((src, body) :: rest) els st = condLoop env fuel rest els st' := by
  rw [condLoop_cons, h]; simp [hf]

/-- an error in a condition ends the conditional with that error; no body is rendered -/
theorem error_in_condition_propagates (env : Env) (fuel : Nat) (src : Src) (body : List Blk)
    (rest : List (Src × List Blk)) (els : Option (List Blk)) (st st' : St) (r : Res (List Piece))
    (h : condEval env fuel src st = .stop r st') :
    condLoop env (fuel + 1) ((src, body) :: rest) els st = (r, st') := by
  rw [condLoop_cons, h]

/-- the conditions of a prefix are evaluated in order, each once, and all come out false:
the fuel and state with which the chain continues -/
def runFalse (env : Env) : Nat → List (Src × List Blk) → St → Option (Nat × St)
  | f, [], st => some (f, st)
  | 0, _ :: _, _ => none
  | f + 1, (src, _) :: rest, st =>
    match condEval env f src st with
    | .val v st' => if truthy v then none else runFalse env f rest st'
    | .stop _ _ => none

theorem runFalse_skips (env : Env) : ∀ (pre : List (Src × List Blk)) (fuel : Nat) (st : St) (f' : Nat) (st' : St)
    (post : List (Src × List Blk)) (els : Option (List Blk)),
    runFalse env fuel pre st = some (f', st') →
    condLoop env fuel (pre ++ post) els st = condLoop env f' post els st' := by
  intro pre
  induction pre with
  | nil =>
    intro fuel st f' st' post els h
    cases fuel <;> (simp only [runFalse, Option.some.injEq, Prod.mk.injEq] at h; obtain ⟨rfl, rfl⟩ := h; rfl)
  | cons c pre ih =>
    intro fuel st f' st' post els h
    obtain ⟨src, body⟩ := c
    cases fuel with
    | zero => simp [runFalse] at h
    | succ f =>
      simp only [runFalse] at h
      simp only [List.cons_append]
      rw [condLoop_cons]
      cases hc : condEval env f src st with
      | stop r s => rw [hc] at h; cases h
      | val v s =>
        rw [hc] at h
        simp only
        by_cases ht : truthy v = true
        · simp [ht] at h
        · simp only [ht] at h ⊢
          exact ih f s f' st' post els h

/-- **First true branch**: when the conditions before the k-th all evaluate to false and the
k-th to true, the conditional renders exactly the k-th body, from the state those k
evaluations (one per condition) left; the bodies before it, the conditions and bodies after
it and the else body play no part. -/
theorem first_true_branch (env : Env) (pre post : List (Src × List Blk)) (src : Src) (body : List Blk)
    (els : Option (List Blk)) (fuel f' : Nat) (st st1 st2 : St) (v : Val)
    (hpre : runFalse env fuel pre st = some (f' + 1, st1))
    (hk : condEval env f' src st1 = .val v st2) (ht : truthy v = true) :
    condLoop env fuel (pre ++ (src, body) :: post) els st = renderBlocks env f' body st2 := by
  rw [runFalse_skips env pre fuel st (f' + 1) st1 _ els hpre]
  exact true_selects_body env f' src body post els st1 st2 v hk ht

/-- **No true condition**: the else body is rendered when there is one, otherwise nothing -/
theorem none_true_renders_else (env : Env) (cs : List (Src × List Blk)) (els : Option (List Blk))
    (fuel f' : Nat) (st st1 : St)
    (hall : runFalse env fuel cs st = some (f' + 1, st1)) :
    condLoop env fuel cs els st =
      match els with
      | some b => renderBlocks env f' b st1
      | none => (.ok [], st1) := by
  have := runFalse_skips env cs fuel st (f' + 1) st1 [] els hall
  rw [List.append_nil] at this
  rw [this, condLoop_nil]

/-! #### evaluated once, value reused -/

private theorem lookup_filter_append (kvs : List (Text × Val)) (n : Text) (v : Val) :
    (kvs.filter (·.1 != n) ++ [(n, v)]).lookup n = some v := by
  induction kvs with
  | nil => simp [List.lookup]
  | cons kv t ih =>
    obtain ⟨k, w⟩ := kv
    by_cases hk : k = n
    · subst hk
      rw [List.filter_cons]
      simpa using ih
    · have h1 : (k != n) = true := by simp [hk]
      have hne : (n == k) = false := by simp; exact fun h => hk h.symm
      rw [List.filter_cons]
      simp only [h1, if_true, List.cons_append, List.lookup_cons, hne]
      exact ih

private theorem lookup_filter_other (kvs : List (Text × Val)) (n m : Text) (v : Val) (h : m ≠ n) :
    (kvs.filter (·.1 != n) ++ [(n, v)]).lookup m = kvs.lookup m := by
  have hmn : (m == n) = false := by simp [h]
  induction kvs with
  | nil => simp [List.lookup, hmn]
  | cons kv t ih =>
    obtain ⟨k, w⟩ := kv
    by_cases hk : k = n
    · subst hk
      rw [List.filter_cons]
      simp only [bne_self_eq_false, Bool.false_eq_true, if_false, List.lookup_cons, hmn]
      exact ih
    · have h1 : (k != n) = true := by simp [hk]
      rw [List.filter_cons]
      simp only [h1, if_true, List.cons_append, List.lookup_cons]
      rw [ih]

/-- a value in the cache frame is returned without touching anything: no callable is called,
nothing below the cache frame is consulted, the namespace and trace are unchanged -/
theorem cache_hit (env : Env) (fuel : Nat) (n : Text) (v : Val) (kvs : List (Text × Val))
    (fs : List Frame) (st : St) (hs : st.stack = .dict kvs :: fs) (hv : kvs.lookup n = some v) :
    getitem env (fuel + 1) n false st = (.ok v, st) := by
  unfold getitem
  simp only [hs, lookupStack, frameGet, hv]
  cases st; simp_all

/-- the same for a lookup from a tag (`md[n]`) when the cached value is not itself callable -/
theorem cache_hit_call (env : Env) (fuel : Nat) (n : Text) (v : Val) (kvs : List (Text × Val))
    (fs : List Frame) (st : St) (hs : st.stack = .dict kvs :: fs) (hv : kvs.lookup n = some v)
    (hnf : ∀ id r, v ≠ .fn id r) (hnt : ∀ id, v ≠ .tmpl id) :
    getitem env (fuel + 1) n true st = (.ok v, st) := by
  unfold getitem
  simp only [hs, lookupStack, frameGet, hv]
  cases v with
  | fn id r => exact (hnf id r rfl).elim
  | tmpl id => exact (hnt id rfl).elim
  | _ => cases st; simp_all

/-- the conditional runs inside its own cache frame: a dictionary on top of the namespace -/
def HasCache (st : St) : Prop := ∃ kvs fs, st.stack = .dict kvs :: fs

theorem getitem_keeps_cache (env : Env) (fuel : Nat) (n : Text) (call : Bool) (st : St) (h : HasCache st) :
    HasCache (getitem env fuel n call st).2 := by
  obtain ⟨kvs, fs, hs⟩ := h
  have hp := (C08.all_preserve env fuel).getitem n call st
  obtain ⟨h1, _⟩ := hp
  rw [hs] at h1
  cases hst : (getitem env fuel n call st).2.stack with
  | nil => rw [hst] at h1; simp at h1
  | cons g gs =>
    rw [hst] at h1
    simp only [List.map_cons, List.cons.injEq] at h1
    cases g with
    | dict k => exact ⟨k, gs, hst⟩
    | inst a b => simp [C08.erase] at h1
    | seq s => simp [C08.erase] at h1
    | bad => simp [C08.erase] at h1

/-- **A named condition is evaluated once and its value is reused, not recomputed**: after the
single evaluation of the named condition `n` (which may call a callable: one `call` event) the
cache frame maps `n` to the value obtained, so that every further reference to `n` — a later
`elif n`, `<dtml-var n>` in the chosen body — returns that same value with no further call,
no further event and no change to the namespace. -/
theorem named_condition_cached (env : Env) (fuel fuel' : Nat) (n : Text) (st st' : St) (v : Val)
    (hc : HasCache st) (h : condEval env fuel (.name n) st = .val v st')
    (hdef : ∃ s, getitem env fuel n true st = (.ok v, s)) :
    getitem env (fuel' + 1) n false st' = (.ok v, st') := by
  obtain ⟨s, hs⟩ := hdef
  have hcs : HasCache s := by
    have := getitem_keeps_cache env fuel n true st hc
    rw [hs] at this; exact this
  simp only [condEval, hs] at h
  simp only [CondRes.val.injEq] at h
  obtain ⟨_, rfl⟩ := h
  obtain ⟨kvs, fs, hst⟩ := hcs
  apply cache_hit env fuel' n v (kvs.filter (·.1 != n) ++ [(n, v)]) fs
  · simp [setCache, hst]
  · exact lookup_filter_append kvs n v

/-- a second condition on the same name, and any reference in the body, is a cache hit: the
condition evaluates to the stored value and leaves state and trace exactly as they were
(`setCache` re-stores the same value) — provided the stored value is not itself a callable -/
theorem repeated_condition_no_event (env : Env) (fuel : Nat) (n : Text) (v : Val) (kvs : List (Text × Val))
    (fs : List Frame) (st : St) (hs : st.stack = .dict kvs :: fs) (hv : kvs.lookup n = some v)
    (hnf : ∀ id r, v ≠ .fn id r) (hnt : ∀ id, v ≠ .tmpl id) :
    ∃ st', condEval env (fuel + 1) (.name n) st = .val v st' ∧ st'.trace = st.trace ∧
      st'.calls = st.calls ∧ st'.level = st.level ∧ st'.stack.tail = st.stack.tail := by
  refine ⟨setCache n v st, ?_, ?_, ?_, ?_, ?_⟩
  · simp only [condEval, cache_hit_call env fuel n v kvs fs st hs hv hnf hnt]
  · simp only [setCache, hs]
  · simp only [setCache, hs]
  · simp only [setCache, hs]
  · simp only [setCache, hs, List.tail_cons]

/-- caching one name does not disturb the cached value of another -/
theorem cache_other_kept (n m : Text) (v w : Val) (kvs : List (Text × Val)) (fs : List Frame) (st : St)
    (hs : st.stack = .dict kvs :: fs) (hw : kvs.lookup m = some w) (hne : m ≠ n) :
    ∃ kvs', (setCache n v st).stack = .dict kvs' :: fs ∧ kvs'.lookup m = some w := by
  refine ⟨kvs.filter (·.1 != n) ++ [(n, v)], by simp [setCache, hs], ?_⟩
  rw [lookup_filter_other kvs n m v hne, hw]

/-! #### undefined names, unless, call -/

theorem getitem_missing (env : Env) (fuel : Nat) (n : Text) (call : Bool) (st : St) (tr : List Event)
    (h : lookupStack env st.stack n st.trace = (.missing, tr)) :
    getitem env (fuel + 1) n call st = (.raise (keyError n), { st with trace := tr }) := by
  unfold getitem
  rw [h]

/-- **A name that is not defined counts as false** (and is not an error): the chain continues;
nothing was called and the namespace is untouched -/
theorem undefined_is_false (env : Env) (fuel : Nat) (n : Text) (st : St) (tr : List Event)
    (h : lookupStack env st.stack n st.trace = (.missing, tr)) :
    condEval env (fuel + 1) (.name n) st = .val .none { st with trace := tr } ∧ truthy .none = false := by
  refine ⟨?_, by simp [truthy]⟩
  have hg := getitem_missing env fuel n true st tr h
  have hk : (decide ((keyError n).cls = "KeyError".toList) && decide ((keyError n).msg = n)) = true := by
    rw [Bool.and_eq_true]
    exact ⟨decide_eq_true rfl, decide_eq_true rfl⟩
  simp only [condEval, hg, hk, if_true]

theorem undefined_condition_skipped (env : Env) (fuel : Nat) (n : Text) (body : List Blk)
    (rest : List (Src × List Blk)) (els : Option (List Blk)) (st : St) (tr : List Event)
    (h : lookupStack env st.stack n st.trace = (.missing, tr)) :
    condLoop env (fuel + 2) ((.name n, body) :: rest) els st =
    condLoop env (fuel + 1) rest els { st with trace := tr } :=
  false_skips_body env (fuel + 1) (.name n) body rest els st _ .none
    (undefined_is_false env fuel n st tr h).1 (by simp [truthy])

/-- the state a block tag leaves: the cache frame popped -/
def pop (r : Res (List Piece) × St) : Res (List Piece) × St := (r.1, { r.2 with stack := r.2.stack.drop 1 })

/-- **dtml-if with one condition**: body iff the condition is true -/
theorem if_renders_iff_true (env : Env) (fuel : Nat) (src : Src) (body : List Blk) (st st' : St) (v : Val)
    (h : condEval env (fuel + 1) src { st with stack := .dict [] :: st.stack } = .val v st') :
    renderBlk env (fuel + 3) (.cond [(src, body)] none) st =
      if truthy v then pop (renderBlocks env (fuel + 1) body st') else pop (.ok [], st') := by
  simp only [renderBlk, condLoop_cons, h]
  split
  · rfl
  · simp only [condLoop_nil]; rfl

/-- **dtml-unless renders its body exactly when dtml-if would not** -/
theorem unless_renders_iff_false (env : Env) (fuel : Nat) (src : Src) (body : List Blk) (st st' : St) (v : Val)
    (h : condEval env (fuel + 1) src { st with stack := .dict [] :: st.stack } = .val v st') :
    renderBlk env (fuel + 3) (.unless_ src body) st =
      if truthy v then pop (.ok [], st') else pop (renderBlocks env fuel body st') := by
  simp only [renderBlk, condLoop_cons, h]
  split
  · simp only [renderBlocks]; rfl
  · simp only [condLoop_nil]; rfl

/-- the two, side by side: for the same evaluation of the condition exactly one of
`<dtml-if c>B</dtml-if>` and `<dtml-unless c>B</dtml-unless>` renders B, the other renders nothing -/
theorem unless_is_not_if (env : Env) (fuel : Nat) (src : Src) (body : List Blk) (st st' : St) (v : Val)
    (h : condEval env (fuel + 1) src { st with stack := .dict [] :: st.stack } = .val v st') :
    (truthy v = true →
      renderBlk env (fuel + 3) (.cond [(src, body)] none) st = pop (renderBlocks env (fuel + 1) body st') ∧
      renderBlk env (fuel + 3) (.unless_ src body) st = pop (.ok [], st')) ∧
    (truthy v = false →
      renderBlk env (fuel + 3) (.cond [(src, body)] none) st = pop (.ok [], st') ∧
      renderBlk env (fuel + 3) (.unless_ src body) st = pop (renderBlocks env fuel body st')) := by
  have h1 := if_renders_iff_true env fuel src body st st' v h
  have h2 := unless_renders_iff_false env fuel src body st st' v h
  constructor
  · intro ht; simp only [ht, if_true] at h1 h2; exact ⟨h1, h2⟩
  · intro hf; simp only [hf, Bool.false_eq_true, if_false] at h1 h2; exact ⟨h1, h2⟩

/-- **dtml-call evaluates its argument exactly once and emits nothing**: the state afterwards is
the state ONE evaluation of the argument leaves (cache frame popped), the output is empty
whatever the value is -/
theorem call_once_no_output (env : Env) (fuel : Nat) (src : Src) (st st' : St) (v : Val)
    (h : condEval env (fuel + 1) src { st with stack := .dict [] :: st.stack } = .val v st') :
    renderBlk env (fuel + 3) (.call src) st = (.ok [], { st' with stack := st'.stack.drop 1 }) := by
  unfold renderBlk
  simp only [condLoop_cons, h]
  by_cases ht : truthy v = true
  · simp only [ht, if_true, renderBlocks]
  · simp only [ht, Bool.false_eq_true, if_false, condLoop_nil]

theorem call_error_propagates (env : Env) (fuel : Nat) (src : Src) (st st' : St) (r : Res (List Piece))
    (h : condEval env (fuel + 1) src { st with stack := .dict [] :: st.stack } = .stop r st')
    (hr : ∀ ps, r ≠ .ok ps) :
    renderBlk env (fuel + 3) (.call src) st = (r, { st' with stack := st'.stack.drop 1 }) := by
  unfold renderBlk
  simp only [condLoop_cons, h]

/-! #### the hypotheses are satisfiable: a concrete chain -/

section Example
private def f1 : Val := .fn 1 (.int 0)     -- callable returning 0 (false)
private def f2 : Val := .fn 2 (.int 7)     -- callable returning 7 (true)
private def f3 : Val := .fn 3 (.int 1)
private def ns : List Frame := [.dict [("a".toList, f1), ("b".toList, f2), ("c".toList, f3)]]
private def chain : Blk :=
  .cond [(.name "a".toList, [.lit "A".toList]),
         (.name "undefined".toList, [.lit "U".toList]),
         (.name "b".toList, [.lit "B".toList, .var (.name "b".toList) false none none]),
         (.name "c".toList, [.lit "C".toList])] (some [.lit "E".toList])

/-- a (false), undefined, b (true, value reused in the body without a second call), c never called -/
example : ((renderBlk {} 50 chain { stack := ns }).2.trace = [.call 1, .call 2]) := by decide
private def okPieces : Res (List Piece) → Option (List Piece)
  | .ok ps => some ps
  | _ => none
example : okPieces (renderBlk {} 50 chain { stack := ns }).1 = some [.text "B".toList, .text "7".toList] := by
  decide
end Example

/-! ### The lookups the conditional rests on are the lookups of the source

A named condition is fetched with `md[name]`; the value is answered by the topmost frame that has it, an instance frame
asking its object once and then its cache.  Both functions are regenerated from the source on every run and proved equal
to the model in Props/C02; a change of `TemplateDict.getitem` or `InstanceDict.__getitem__` therefore leaves the theorems of
this file without their tie to the code, and this check reports it. -/
theorem gen_lookup_is_model (env : Env) (fuel : Nat) (key : Text) (call : Bool) (st : St) (v : Val)
    (cache : List (Text × Val)) (tr : List Event) :
    GenNs.getitemLoopGen env fuel key call st.stack [] st = getitem env (fuel + 1) key call st ∧
    GenNs.instGetitemGen env v cache key tr = frameGet env (.inst v cache) key tr :=
  ⟨C02.gen_templatedict_getitem_is_model env fuel key call st, C02.gen_instancedict_getitem_is_model env v cache key tr⟩

/-! ### The conditional of the model is the `'i'` block of the source

`GenRender.iBlockGen` is regenerated on every run by translating the `'i'` branch of `render_blocks_` in /repo
(harness/trans_render.py): `bs = len(block) - 1`, the cache pushed and popped in `try … finally`, `m = bs - 1`, the loop
`while icond < m` over the cells of the compiled tuple (`block[icond + 1]` the condition - `md[cond]` with the KeyError of
the condition's own name counting as false and the value stored in the cache, or `cond(md)` - `block[icond + 2]` the body,
`m = -1; break`, `icond += 2`), and `if icond == m:` the else part.  On the cells a conditional compiles to
(`encodeI`) it computes the model's `condLoop` inside its cache frame - what `renderBlk` does for `.cond` - for every run
that does not end in "out of fuel" (with enough fuel none does: Lemmas/Fuel). -/
theorem gen_if_block_is_model (env : Env) (fuel : Nat) (conds : List (Src × List Blk)) (els : Option (List Blk))
    (st : St)
    (h : Lemmas.IBlock.notOom (condLoop env fuel conds els { st with stack := .dict [] :: st.stack }).1) :
    GenRender.iBlockGen env fuel (Lemmas.IBlock.encodeI conds els) st =
      ((condLoop env fuel conds els { st with stack := .dict [] :: st.stack }).1,
       { (condLoop env fuel conds els { st with stack := .dict [] :: st.stack }).2 with
         stack := (condLoop env fuel conds els { st with stack := .dict [] :: st.stack }).2.stack.drop 1 }) :=
  Lemmas.IBlock.iBlock_eq env fuel conds els st h

/-- and that is exactly the conditional of the interpreter: `renderBlk` on a `.cond` block -/
theorem gen_if_block_is_renderBlk (env : Env) (fuel : Nat) (conds : List (Src × List Blk)) (els : Option (List Blk))
    (st : St)
    (h : Lemmas.IBlock.notOom (condLoop env fuel conds els { st with stack := .dict [] :: st.stack }).1) :
    GenRender.iBlockGen env fuel (Lemmas.IBlock.encodeI conds els) st = renderBlk env (fuel + 1) (.cond conds els) st := by
  rw [gen_if_block_is_model env fuel conds els st h]
  simp only [renderBlk]

/-- non-vacuity: `<dtml-if a>A<dtml-else>B</dtml-if>` with `a` true -/
example : (match (GenRender.iBlockGen {} 5 (Lemmas.IBlock.encodeI [(.name "a".toList, [.lit "A".toList])] (some [.lit "B".toList]))
    { stack := [.dict [("a".toList, .int 1)]] }).1 with
    | .ok ps => decide (ps = [Piece.text "A".toList])
    | _ => false) = true := by decide +kernel

/-! ### How dtml-if / dtml-unless are compiled: the constructors of the source, translated on every run

`GenIfCompile.ifInitGen` / `unlessInitGen` / `elseInitGen` are regenerated on every run by translating `DT_If.If.__init__`,
`Unless.__init__` and the class `Else` of /repo statement by statement (harness/trans_ifc.py): the first section's
`parse_params` / `name_param`, `cond = name` or `cond = expr.eval`, the cells `[cond, section.blocks]`, the trailing section
called `else` split off (`blocks[-1][0] == 'else'`, `del blocks[-1]`, its arguments may only repeat the name of the if tag),
the loop over `blocks[1:]` (a further `else` is an error; every other section is an elif with its own condition, its two cells
appended), the else part appended last, the code letter `'i'`.  They store exactly the cells (`encodeI`) of the conditional
the model builds from the same sections (`Lemmas.IfCompile.ifParts` / `unlessParts`: the arguments of `Blk.cond` /
`Blk.unless_`), and fail with the same ParseError, for every list of sections and every expression compiler `ev`. -/
theorem gen_if_compile_is_model (ev : Text → Expr) (secs : List (Parse.Section Blk)) :
    GenIfCompile.ifInitGen ev secs =
      (match Lemmas.IfCompile.ifParts ev secs with
       | .error e => .error e
       | .ok (conds, els) => .ok ("i", Lemmas.IBlock.encodeI conds els)) :=
  Lemmas.IfCompile.ifInit_eq ev secs

theorem gen_unless_compile_is_model (ev : Text → Expr) (secs : List (Parse.Section Blk)) :
    GenIfCompile.unlessInitGen ev secs =
      (match Lemmas.IfCompile.unlessParts ev secs with
       | .error e => .error e
       | .ok (src, body) => .ok ("i", Lemmas.IBlock.encodeI [(src, [])] (some body))) :=
  Lemmas.IfCompile.unlessInit_eq ev secs

/-- the stand-alone `dtml-else NAME` block of the old documentation is dtml-unless -/
theorem gen_else_compile_is_model (ev : Text → Expr) (secs : List (Parse.Section Blk)) :
    GenIfCompile.elseInitGen ev secs = GenIfCompile.unlessInitGen ev secs := rfl

/-- compile, then render - both as translated from the source - is `renderBlk` on the block the model builds from the
sections: the tie between the dtml-if of a template and the `.cond` the theorems of this file are stated about -/
theorem gen_if_compile_renders_as_model (ev : Text → Expr) (secs : List (Parse.Section Blk)) (b : Blk)
    (hb : Lemmas.IfCompile.ifBlock ev secs = .ok b) :
    ∃ conds els cells, b = .cond conds els ∧ GenIfCompile.ifInitGen ev secs = .ok ("i", cells) ∧
      ∀ (env : Env) (fuel : Nat) (st : St),
        Lemmas.IBlock.notOom (condLoop env fuel conds els { st with stack := .dict [] :: st.stack }).1 →
        GenRender.iBlockGen env fuel cells st = renderBlk env (fuel + 1) b st := by
  rw [Lemmas.IfCompile.ifBlock] at hb
  have hg := gen_if_compile_is_model ev secs
  cases hp : Lemmas.IfCompile.ifParts ev secs with
  | error e => rw [hp] at hb; cases hb
  | ok r =>
    obtain ⟨conds, els⟩ := r
    rw [hp] at hb hg
    simp only [Except.ok.injEq] at hb
    subst hb
    exact ⟨conds, els, _, rfl, hg, fun env fuel st h => gen_if_block_is_renderBlk env fuel conds els st h⟩

theorem gen_unless_compile_renders_as_model (ev : Text → Expr) (secs : List (Parse.Section Blk)) (b : Blk)
    (hb : Lemmas.IfCompile.unlessBlock ev secs = .ok b) :
    ∃ src body cells, b = .unless_ src body ∧ GenIfCompile.unlessInitGen ev secs = .ok ("i", cells) ∧
      ∀ (env : Env) (fuel : Nat) (st : St),
        Lemmas.IBlock.notOom (condLoop env fuel [(src, [])] (some body) { st with stack := .dict [] :: st.stack }).1 →
        GenRender.iBlockGen env fuel cells st = renderBlk env (fuel + 1) b st := by
  rw [Lemmas.IfCompile.unlessBlock] at hb
  have hg := gen_unless_compile_is_model ev secs
  cases hp : Lemmas.IfCompile.unlessParts ev secs with
  | error e => rw [hp] at hb; cases hb
  | ok r =>
    obtain ⟨src, body⟩ := r
    rw [hp] at hb hg
    simp only [Except.ok.injEq] at hb
    subst hb
    refine ⟨src, body, _, rfl, hg, fun env fuel st h => ?_⟩
    rw [gen_if_block_is_model env fuel [(src, [])] (some body) st h]
    simp only [renderBlk]

/-- non-vacuity: `<dtml-if a>A<dtml-elif "b">B<dtml-else>C</dtml-if>` compiles to five cells after the code `'i'`;
two else sections are the ParseError of the source; an else tag may repeat the name of its if tag, and no other -/
example : (match GenIfCompile.ifInitGen (fun _ => .lit (.bool true))
      [⟨"if", "a".toList, [.lit "A".toList]⟩, ⟨"elif", "\"b\"".toList, [.lit "B".toList]⟩, ⟨"else", [], [.lit "C".toList]⟩] with
    | .ok (code, [.cond (.name n), .body _, .cond (.expr _), .body _, .body _]) => code == "i" && n == "a".toList
    | _ => false) = true := by decide +kernel
example : (match GenIfCompile.ifInitGen (fun _ => .lit (.bool true))
      [⟨"if", "a".toList, []⟩, ⟨"else", [], []⟩, ⟨"else", [], []⟩] with
    | .error e => e.msg == "more than one else tag for a single if tag"
    | _ => false) = true := by decide +kernel
example : (match GenIfCompile.ifInitGen (fun _ => .lit (.bool true)) [⟨"if", "a".toList, []⟩, ⟨"else", "b".toList, []⟩] with
    | .error e => e.msg == "name in else does not match if"
    | _ => false) = true := by decide +kernel
example : (match GenIfCompile.ifInitGen (fun _ => .lit (.bool true)) [⟨"if", "a".toList, []⟩, ⟨"else", "a".toList, []⟩] with
    | .ok (_, cells) => cells.length == 3
    | _ => false) = true := by decide +kernel
example : (match GenIfCompile.unlessInitGen (fun _ => .lit (.bool true)) [⟨"unless", "a".toList, [.lit "A".toList]⟩] with
    | .ok (code, [.cond (.name n), .body [], .body [_]]) => code == "i" && n == "a".toList
    | _ => false) = true := by decide +kernel

/-! ### The compile model and the parser model fail together

`Parse.checkBlock` (the constructor work of the parser model: C06, the parser correspondence) and `Lemmas.IfCompile.ifParts` /
`unlessParts` (what the translated `If.__init__` / `Unless.__init__` are proved equal to, above) are two hand-written models of
the same constructors.  On every list of sections with a first section that is not called `else` - the parser only builds such
lists: a block starts with its own tag - they end in a ParseError on exactly the same inputs, with the same text: the attributes
of the if tag, then a trailing else (its attributes, the name it may repeat), then every elif in order, a second else before its
attributes are looked at. -/
theorem if_parts_error_iff_checkBlock (ev : Text → Expr) (s0 : Parse.Section Blk) (rest : List (Parse.Section Blk))
    (h0 : s0.tname ≠ "else") (e : Parse.PErr) :
    Lemmas.IfCompile.ifParts ev (s0 :: rest) = .error e ↔
      Parse.checkBlock .if_ ((s0 :: rest).map fun s => (s.tname, s.args)) = .error e := by
  rw [← Lemmas.IfCompile.errOf_eq_some, ← Lemmas.IfCompile.errOf_eq_some, Lemmas.IfCompile.if_parts_err_eq ev s0 rest h0]

/-- so the translated constructor fails exactly when the parser model says the block is malformed, with its message -/
theorem gen_if_compile_error_iff_checkBlock (ev : Text → Expr) (s0 : Parse.Section Blk) (rest : List (Parse.Section Blk))
    (h0 : s0.tname ≠ "else") (e : Parse.PErr) :
    GenIfCompile.ifInitGen ev (s0 :: rest) = .error e ↔
      Parse.checkBlock .if_ ((s0 :: rest).map fun s => (s.tname, s.args)) = .error e := by
  rw [← if_parts_error_iff_checkBlock ev s0 rest h0 e, gen_if_compile_is_model]
  cases Lemmas.IfCompile.ifParts ev (s0 :: rest) <;> simp

theorem unless_parts_error_iff_checkBlock (ev : Text → Expr) (s0 : Parse.Section Blk) (rest : List (Parse.Section Blk))
    (e : Parse.PErr) :
    Lemmas.IfCompile.unlessParts ev (s0 :: rest) = .error e ↔
      Parse.checkBlock .unless ((s0 :: rest).map fun s => (s.tname, s.args)) = .error e := by
  rw [← Lemmas.IfCompile.errOf_eq_some, ← Lemmas.IfCompile.errOf_eq_some, Lemmas.IfCompile.unless_parts_err_eq ev s0 rest]

theorem gen_unless_compile_error_iff_checkBlock (ev : Text → Expr) (s0 : Parse.Section Blk) (rest : List (Parse.Section Blk))
    (e : Parse.PErr) :
    GenIfCompile.unlessInitGen ev (s0 :: rest) = .error e ↔
      Parse.checkBlock .unless ((s0 :: rest).map fun s => (s.tname, s.args)) = .error e := by
  rw [← unless_parts_error_iff_checkBlock ev s0 rest e, gen_unless_compile_is_model]
  cases Lemmas.IfCompile.unlessParts ev (s0 :: rest) <;> simp

/-- the hypotheses are needed.  No section at all: the source indexes `blocks[0]` (IndexError, `ifParts`), `checkBlock` reads
empty arguments ("No name given"); a first section called `else`: the source takes it for the trailing else as well
(`blocks[-1][0] == 'else'`) and parses its arguments a second time with the table of an else tag, `checkBlock` does not.  The
parser builds neither list. -/
example : (match Lemmas.IfCompile.ifParts (fun _ => .lit (.bool true)) [],
      Parse.checkBlock .if_ (([] : List (Parse.Section Blk)).map fun s => (s.tname, s.args)) with
    | .error e1, .error e2 => e1.msg == "IndexError" && e2.msg == "No name given"
    | _, _ => false) = true := by decide +kernel
example : (match Lemmas.IfCompile.ifParts (fun _ => .lit (.bool true)) [⟨"else", "expr=\"x\"".toList, []⟩],
      Parse.checkBlock .if_ [("else", "expr=\"x\"".toList)] with
    | .error _, .ok _ => true
    | _, _ => false) = true := by decide +kernel
/-- non-vacuity: the three errors of a malformed dtml-if, from both models -/
example : (match Parse.checkBlock .if_ [("if", "a".toList), ("else", [])  , ("else", [])],
      Lemmas.IfCompile.ifParts (fun _ => .lit (.bool true)) [⟨"if", "a".toList, []⟩, ⟨"else", [], []⟩, ⟨"else", [], []⟩] with
    | .error e1, .error e2 => e1.msg == "more than one else tag for a single if tag" && e1 == e2
    | _, _ => false) = true := by decide +kernel
example : (match Parse.checkBlock .if_ [("if", "a".toList), ("else", "b".toList)],
      Lemmas.IfCompile.ifParts (fun _ => .lit (.bool true)) [⟨"if", "a".toList, []⟩, ⟨"else", "b".toList, []⟩] with
    | .error e1, .error e2 => e1.msg == "name in else does not match if" && e1 == e2
    | _, _ => false) = true := by decide +kernel
example : (match Parse.checkBlock .if_ [("if", "a".toList), ("elif", [])  , ("else", [])],
      Lemmas.IfCompile.ifParts (fun _ => .lit (.bool true)) [⟨"if", "a".toList, []⟩, ⟨"elif", [], []⟩, ⟨"else", [], []⟩] with
    | .error e1, .error e2 => e1.msg == "No name given" && e1 == e2
    | _, _ => false) = true := by decide +kernel

end DTML.Props.C09
