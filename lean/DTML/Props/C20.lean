/-
C20 — Tree state survives its cookie encoding and tracks expand/collapse clicks.
Part 1: the codec (DTML/TreeCodec.lean).
-/
import DTML.TreeCodec
import DTML.TreeState
import DTML.GenTreeState
import DTML.Lemmas.TreeGen
import DTML.Lemmas.TreeCodecGen
set_option linter.unusedVariables false
namespace DTML.Props.C20
open DTML.TreeCodec

/-! #### obligations on the constants extracted from TreeTag.py -/

theorem gen_tree_constants :
    Gen.treeEncodeSeqInts = [0, 1, 57] ∧ Gen.treeEncodeStrInts = [0, 1, 57] ∧
    Gen.treeDecodeSeqInts = [0, 4, 76] ∧ Gen.tplusDiff = [(43, 45)] ∧ Gen.tminusDiff = [(45, 43)] := by
  decide

/-! #### the alphabet -/

private theorem dec_enc : ∀ i : Fin 64, decChar (encChar i.val) = some i.val := by decide +kernel
private theorem enc_ne_eq : ∀ i : Fin 64, encChar i.val ≠ '=' := by decide +kernel
private theorem enc_ne_minus : ∀ i : Fin 64, encChar i.val ≠ '-' := by decide +kernel

private theorem dec_enc' (i : Nat) (h : i < 64) : decChar (encChar i) = some i := dec_enc ⟨i, h⟩
private theorem enc_ne_eq' (i : Nat) (h : i < 64) : encChar i ≠ '=' := enc_ne_eq ⟨i, h⟩
private theorem enc_ne_minus' (i : Nat) (h : i < 64) : encChar i ≠ '-' := enc_ne_minus ⟨i, h⟩

/-! #### one group: three bytes <-> four characters -/

private theorem quad_arith (a b c : Nat) (ha : a < 256) (hb : b < 256) (hc : c < 256) :
    let n := a * 65536 + b * 256 + c
    n / 262144 < 64 ∧ n / 4096 % 64 < 64 ∧ n / 64 % 64 < 64 ∧ n % 64 < 64 ∧
    (n / 262144) * 262144 + (n / 4096 % 64) * 4096 + (n / 64 % 64) * 64 + n % 64 = n ∧
    n / 65536 = a ∧ n / 256 % 256 = b ∧ n % 256 = c := by
  intro n
  simp only [n]
  omega

/-- b2a of a list whose length is a multiple of 3 distributes over append -/
private theorem b2a_append : ∀ (k : Nat) (x y : Bytes), x.length = 3 * k → b2a (x ++ y) = b2a x ++ b2a y := by
  intro k
  induction k with
  | zero => intro x y h; have : x = [] := List.eq_nil_of_length_eq_zero (by omega); subst this; simp [b2a]
  | succ k ih =>
    intro x y h
    match x, h with
    | a :: b :: c :: t, h =>
      simp only [List.cons_append, b2a]
      rw [ih t y (by simp at h; omega)]

/-- full groups contain no '=' and have a length that is a multiple of 4 -/
private theorem b2a_full : ∀ (k : Nat) (x : Bytes), x.length = 3 * k → Valid x →
    (b2a x).length = 4 * k ∧ '=' ∉ b2a x ∧ '-' ∉ b2a x := by
  intro k
  induction k with
  | zero => intro x h _; have : x = [] := List.eq_nil_of_length_eq_zero (by omega); subst this; simp [b2a]
  | succ k ih =>
    intro x h hv
    match x, h, hv with
    | a :: b :: c :: t, h, hv =>
      have ha : a < 256 := hv a (by simp)
      have hb : b < 256 := hv b (by simp)
      have hc : c < 256 := hv c (by simp)
      have hq := quad_arith a b c ha hb hc
      simp only at hq
      obtain ⟨h0, h1, h2, h3, _⟩ := hq
      have ht := ih t (by simp at h; omega) (fun z hz => hv z (by simp [hz]))
      simp only [b2a, List.length_cons, List.mem_cons, not_or]
      refine ⟨by omega, ⟨?_, ?_, ?_, ?_, ht.2.1⟩, ⟨?_, ?_, ?_, ?_, ht.2.2⟩⟩
      · exact fun e => enc_ne_eq' _ h0 e.symm
      · exact fun e => enc_ne_eq' _ h1 e.symm
      · exact fun e => enc_ne_eq' _ h2 e.symm
      · exact fun e => enc_ne_eq' _ h3 e.symm
      · exact fun e => enc_ne_minus' _ h0 e.symm
      · exact fun e => enc_ne_minus' _ h1 e.symm
      · exact fun e => enc_ne_minus' _ h2 e.symm
      · exact fun e => enc_ne_minus' _ h3 e.symm

/-- decoding one clean group followed by anything -/
private theorem a2b_quad (c0 c1 c2 c3 : Char) (t : List Char) (h2 : c2 ≠ '=') (h3 : c3 ≠ '=') :
    a2b (c0 :: c1 :: c2 :: c3 :: t) =
      match decChar c0, decChar c1, decChar c2, decChar c3, a2b t with
      | some i0, some i1, some i2, some i3, some r =>
        let n := i0 * 262144 + i1 * 4096 + i2 * 64 + i3
        some (n / 65536 :: n / 256 % 256 :: n % 256 :: r)
      | _, _, _, _, _ => none := by
  conv => lhs; unfold a2b
  split
  · rename_i heq; simp at heq
  · rename_i heq; simp at heq; exact absurd heq.2.2.1 h2
  · rename_i heq; simp at heq; exact absurd heq.2.2.2.1 h3
  · rename_i heq; simp at heq
    obtain ⟨rfl, rfl, rfl, rfl, rfl⟩ := heq
    rfl
  · rename_i h1 h2' h3' h4
    exact absurd rfl (h4 c0 c1 c2 c3 t)

private theorem a2b_full_append : ∀ (k : Nat) (x : Bytes) (y : List Char), x.length = 3 * k → Valid x →
    a2b (b2a x ++ y) = (a2b y).map (x ++ ·) := by
  intro k
  induction k with
  | zero =>
    intro x y h _
    have : x = [] := List.eq_nil_of_length_eq_zero (by omega)
    subst this
    cases hy : a2b y <;> simp [b2a, hy]
  | succ k ih =>
    intro x y h hv
    match x, h, hv with
    | a :: b :: c :: t, h, hv =>
      have ha : a < 256 := hv a (by simp)
      have hb : b < 256 := hv b (by simp)
      have hc : c < 256 := hv c (by simp)
      have hq := quad_arith a b c ha hb hc
      simp only at hq
      obtain ⟨h0, h1, h2, h3, hsum, ea, eb, ec⟩ := hq
      simp only [b2a, List.cons_append]
      rw [a2b_quad _ _ _ _ _ (enc_ne_eq' _ h2) (enc_ne_eq' _ h3)]
      rw [dec_enc' _ h0, dec_enc' _ h1, dec_enc' _ h2, dec_enc' _ h3]
      rw [ih t y (by simp at h; omega) (fun z hz => hv z (by simp [hz]))]
      cases a2b y with
      | none => simp
      | some r =>
        simp only [Option.map_some]
        rw [hsum, ea, eb, ec]

/-! #### chunking is invisible -/

private theorem valid_take (n : Nat) (x : Bytes) (h : Valid x) : Valid (x.take n) :=
  fun b hb => h b (List.mem_of_mem_take hb)
private theorem valid_drop (n : Nat) (x : Bytes) (h : Valid x) : Valid (x.drop n) :=
  fun b hb => h b (List.mem_of_mem_drop hb)

/-- encoding 57-byte chunks separately and joining = encoding the whole -/
private theorem enc_chunks : ∀ (fuel : Nat) (l : Bytes), l.length ≤ fuel →
    (chunksAux 57 fuel l).flatMap b2a = b2a l := by
  intro fuel
  induction fuel with
  | zero => intro l h; have : l = [] := List.eq_nil_of_length_eq_zero (by omega); subst this; simp [chunksAux, b2a]
  | succ f ih =>
    intro l h
    simp only [chunksAux]
    by_cases he : l.isEmpty = true
    · have : l = [] := by simpa using he
      subst this; simp [b2a]
    · simp only [he, Bool.false_eq_true, if_false, List.flatMap_cons]
      have hne : l ≠ [] := by simpa using he
      have hpos : 0 < l.length := List.length_pos_iff.mpr hne
      rw [ih (l.drop 57) (by simp; omega)]
      by_cases h57 : 57 ≤ l.length
      · have hl : (l.take 57).length = 3 * 19 := by simp; omega
        rw [← b2a_append 19 _ _ hl, List.take_append_drop]
      · have h1 : l.take 57 = l := List.take_of_length_le (by omega)
        have h2 : l.drop 57 = [] := List.drop_of_length_le (by omega)
        rw [h1, h2]; simp [b2a]

private theorem optConcat_cons_some (a : Bytes) (t : List (Option Bytes)) (r : Bytes)
    (h : optConcat t = some r) : optConcat (some a :: t) = some (a ++ r) := by
  simp [optConcat, h]

/-- decoding 76-character chunks of a clean encoding separately and joining
returns the bytes -/
private theorem dec_chunks : ∀ (m fuel : Nat) (x : Bytes), x.length = 57 * m → Valid x → 76 * m ≤ fuel →
    optConcat ((chunksAux 76 fuel (b2a x)).map a2b) = some x := by
  intro m
  induction m with
  | zero =>
    intro fuel x h _ _
    have : x = [] := List.eq_nil_of_length_eq_zero (by omega)
    subst this
    cases fuel <;> simp [chunksAux, b2a, optConcat]
  | succ m ih =>
    intro fuel x h hv hf
    cases fuel with
    | zero => omega
    | succ f =>
      have hx : x = x.take 57 ++ x.drop 57 := (List.take_append_drop 57 x).symm
      have hl1 : (x.take 57).length = 3 * 19 := by simp; omega
      have hb := b2a_full 19 (x.take 57) hl1 (valid_take _ _ hv)
      have henc : b2a x = b2a (x.take 57) ++ b2a (x.drop 57) := by
        conv => lhs; rw [hx]
        exact b2a_append 19 _ _ hl1
      simp only [chunksAux]
      have hne : (b2a x).isEmpty = false := by
        rw [henc]; cases hq : b2a (x.take 57) with
        | nil => rw [hq] at hb; simp at hb
        | cons _ _ => simp
      simp only [hne, Bool.false_eq_true, if_false, List.map_cons]
      have ht : (b2a x).take 76 = b2a (x.take 57) := by
        rw [henc, List.take_append_of_le_length (by omega)]
        exact List.take_of_length_le (by omega)
      have hd : (b2a x).drop 76 = b2a (x.drop 57) := by
        rw [henc, List.drop_append_of_le_length (by omega)]
        rw [List.drop_of_length_le (by omega)]; simp
      rw [ht, hd]
      have h1 : a2b (b2a (x.take 57)) = some (x.take 57) := by
        have := a2b_full_append 19 (x.take 57) [] hl1 (valid_take _ _ hv)
        simpa [a2b] using this
      rw [h1]
      have := ih f (x.drop 57) (by simp; omega) (valid_drop _ _ hv) (by omega)
      rw [optConcat_cons_some _ _ _ this, List.take_append_drop]

/-! #### the tail: 0, 1 or 2 left-over bytes -/

private theorem tminus_tplus (c : Char) (h : c ≠ '-') : tminus (tplus c) = c := by
  unfold tplus tminus
  by_cases hp : c = '+'
  · subst hp; decide
  · simp [hp, h]

private theorem a2b_tail3 (c0 c1 c2 : Char) (h2 : c2 ≠ '=') :
    a2b [c0, c1, c2, '='] =
      (match decChar c0, decChar c1, decChar c2 with
       | some i0, some i1, some i2 =>
         some [(i0 * 262144 + i1 * 4096 + i2 * 64) / 65536, (i0 * 262144 + i1 * 4096 + i2 * 64) / 256 % 256]
       | _, _, _ => none) := by
  conv => lhs; unfold a2b
  split
  · rename_i heq; simp at heq
  · rename_i heq; simp at heq; exact absurd heq.2.2 h2
  · rename_i hn heq; simp at heq; obtain ⟨rfl, rfl, rfl⟩ := heq; rfl
  · rename_i h1 h2' heq; simp at heq
    obtain ⟨rfl, rfl, rfl, rfl, rfl⟩ := heq
    exact absurd rfl (h2' rfl)
  · rename_i h1 h2' h3' h4'
    exact absurd rfl (h3' _ _ _)

private theorem a2b_tail2 (c0 c1 : Char) :
    a2b [c0, c1, '=', '='] =
      (match decChar c0, decChar c1 with
       | some i0, some i1 => some [(i0 * 262144 + i1 * 4096) / 65536]
       | _, _ => none) := by
  conv => lhs; unfold a2b
  split
  · rename_i heq; simp at heq
  · rename_i heq; simp at heq; obtain ⟨rfl, rfl⟩ := heq; rfl
  · rename_i hn heq; simp at heq; obtain ⟨rfl, rfl, rfl⟩ := heq; exact absurd rfl hn
  · rename_i h1 h2' heq; simp at heq
    obtain ⟨rfl, rfl, rfl, rfl, rfl⟩ := heq
    exact absurd rfl (h1 rfl rfl)
  · rename_i h1 h2' h3' h4'
    exact absurd rfl (h2' _ _)

/-- stripping the padding of the last group and padding again restores it;
decoding it returns the left-over bytes; none of its characters is '-' -/
private theorem tail_facts (r : Bytes) (hr : r.length < 3) (hv : Valid r) :
    pad ((b2a r).takeWhile (· != '=')) = b2a r ∧ a2b (b2a r) = some r ∧
    ((b2a r).takeWhile (· != '=')).length < 4 ∧
    (∀ c ∈ (b2a r).takeWhile (· != '='), c ≠ '-') ∧
    ((b2a r).takeWhile (· != '=') = [] ↔ r = []) := by
  match r, hr, hv with
  | [], _, _ => simp [b2a, pad, a2b]
  | [a], _, hv =>
    have ha : a < 256 := hv a (by simp)
    have h0 : a * 65536 / 262144 < 64 := by omega
    have h1 : a * 65536 / 4096 % 64 < 64 := by omega
    have e0 := enc_ne_eq' _ h0
    have e1 := enc_ne_eq' _ h1
    have b0 : (encChar (a * 65536 / 262144) != '=') = true := by simpa using e0
    have b1 : (encChar (a * 65536 / 4096 % 64) != '=') = true := by simpa using e1
    have m0 := enc_ne_minus' _ h0
    have m1 := enc_ne_minus' _ h1
    have hs : ([encChar (a * 65536 / 262144), encChar (a * 65536 / 4096 % 64), '=', '='] : List Char).takeWhile
        (· != '=') = [encChar (a * 65536 / 262144), encChar (a * 65536 / 4096 % 64)] := by
      simp [List.takeWhile, b0, b1]
    simp only [b2a, hs]
    refine ⟨by simp [pad], ?_, by simp, ?_, by simp⟩
    · rw [a2b_tail2, dec_enc' _ h0, dec_enc' _ h1]
      simp only
      congr 2; omega
    · intro c hc; simp at hc; rcases hc with rfl | rfl <;> assumption
  | [a, b], _, hv =>
    have ha : a < 256 := hv a (by simp)
    have hb : b < 256 := hv b (by simp)
    have h0 : (a * 65536 + b * 256) / 262144 < 64 := by omega
    have h1 : (a * 65536 + b * 256) / 4096 % 64 < 64 := by omega
    have h2 : (a * 65536 + b * 256) / 64 % 64 < 64 := by omega
    have e0 := enc_ne_eq' _ h0
    have e1 := enc_ne_eq' _ h1
    have e2 := enc_ne_eq' _ h2
    have b0 : (encChar ((a * 65536 + b * 256) / 262144) != '=') = true := by simpa using e0
    have b1 : (encChar ((a * 65536 + b * 256) / 4096 % 64) != '=') = true := by simpa using e1
    have b2 : (encChar ((a * 65536 + b * 256) / 64 % 64) != '=') = true := by simpa using e2
    have m0 := enc_ne_minus' _ h0
    have m1 := enc_ne_minus' _ h1
    have m2 := enc_ne_minus' _ h2
    have hs : ([encChar ((a * 65536 + b * 256) / 262144), encChar ((a * 65536 + b * 256) / 4096 % 64),
        encChar ((a * 65536 + b * 256) / 64 % 64), '='] : List Char).takeWhile (· != '=') =
        [encChar ((a * 65536 + b * 256) / 262144), encChar ((a * 65536 + b * 256) / 4096 % 64),
         encChar ((a * 65536 + b * 256) / 64 % 64)] := by
      simp [List.takeWhile, b0, b1, b2]
    simp only [b2a, hs]
    refine ⟨by simp [pad], ?_, by simp, ?_, by simp⟩
    · rw [a2b_tail3 _ _ _ e2, dec_enc' _ h0, dec_enc' _ h1, dec_enc' _ h2]
      simp only
      congr 2
      · omega
      · congr 1; omega
    · intro c hc; simp at hc; rcases hc with rfl | rfl | rfl <;> assumption

/-! #### the round trip -/

private theorem pad_append_full (q t : List Char) (k : Nat) (hq : q.length = 4 * k) :
    pad (q ++ t) = q ++ pad t := by
  unfold pad
  have : (q ++ t).length % 4 = t.length % 4 := by simp [hq]
  rw [this]
  split <;> simp

private theorem optConcat_snoc (l : List (Option Bytes)) (a b : Bytes) (h : optConcat l = some a) :
    optConcat (l ++ [some b]) = some (a ++ b) := by
  induction l generalizing a with
  | nil => simp [optConcat] at h ⊢; subst h; rfl
  | cons o t ih =>
    cases o with
    | none => simp [optConcat] at h
    | some c =>
      simp only [optConcat, List.cons_append] at h ⊢
      cases ht : optConcat t with
      | none => simp [ht] at h
      | some r =>
        simp only [ht, Option.map_some, Option.some.injEq] at h
        subst h
        rw [ih r ht]; simp

private theorem map_tminus_tplus (l : List Char) (h : ∀ c ∈ l, c ≠ '-') : (l.map tplus).map tminus = l := by
  induction l with
  | nil => rfl
  | cons c t ih =>
    simp only [List.map_cons]
    rw [tminus_tplus c (h c (by simp)), ih (fun d hd => h d (by simp [hd]))]

/-- **Codec round trip.**  For every byte string (any length: the 57-byte /
76-character chunk boundaries are crossed by proof, not by sample),
decoding the encoded cookie text returns the bytes. -/
theorem b64_roundtrip (bs : Bytes) (hv : Valid bs) : decodeStr (encodeStr bs) = some bs := by
  -- split into full groups and a tail of < 3 bytes
  have hsplit : bs = bs.take (3 * (bs.length / 3)) ++ bs.drop (3 * (bs.length / 3)) :=
    (List.take_append_drop _ _).symm
  generalize hk : bs.length / 3 = k at hsplit
  generalize hx : bs.take (3 * k) = x at hsplit
  generalize hr : bs.drop (3 * k) = r at hsplit
  have hxl : x.length = 3 * k := by rw [← hx]; simp; omega
  have hrl : r.length < 3 := by rw [← hr]; simp; omega
  have hvx : Valid x := by rw [← hx]; exact valid_take _ _ hv
  have hvr : Valid r := by rw [← hr]; exact valid_drop _ _ hv
  obtain ⟨hxlen, hxeq, hxminus⟩ := b2a_full k x hxl hvx
  obtain ⟨t1, t2, t3, t4, t5⟩ := tail_facts r hrl hvr
  -- (1) chunked encoding = plain encoding
  have henc : encodeStr bs = ((b2a bs).takeWhile (· != '=')).map tplus := by
    unfold encodeStr
    split
    · simp only [chunks]; rw [enc_chunks _ _ (Nat.le_refl _)]
    · rfl
  have hb2a : b2a bs = b2a x ++ b2a r := by rw [hsplit]; exact b2a_append k x r hxl
  have hstrip : (b2a bs).takeWhile (· != '=') = b2a x ++ (b2a r).takeWhile (· != '=') := by
    rw [hb2a, List.takeWhile_append_of_pos]
    intro c hc
    have : c ≠ '=' := fun e => hxeq (e ▸ hc)
    simpa using this
  have hS : (encodeStr bs).map tminus = b2a x ++ (b2a r).takeWhile (· != '=') := by
    rw [henc, hstrip]
    apply map_tminus_tplus
    intro c hc
    rcases List.mem_append.mp hc with hc | hc
    · exact fun e => hxminus (e ▸ hc)
    · exact t4 c hc
  generalize hR : (b2a r).takeWhile (· != '=') = R at *
  unfold decodeStr
  simp only [hS]
  by_cases hlen : (b2a x ++ R).length > 76
  · rw [if_pos hlen]
    generalize hm : (b2a x ++ R).length / 76 = m
    have hSlen : (b2a x ++ R).length = 4 * k + R.length := by simp [hxlen]
    have hmk : 19 * m ≤ k := by omega
    -- split x at the chunk boundary
    have hx12 : x = x.take (57 * m) ++ x.drop (57 * m) := (List.take_append_drop _ _).symm
    generalize hx1 : x.take (57 * m) = x1 at hx12
    generalize hx2 : x.drop (57 * m) = x2 at hx12
    have hx1l : x1.length = 57 * m := by rw [← hx1]; simp; omega
    have hx2l : x2.length = 3 * (k - 19 * m) := by rw [← hx2]; simp; omega
    have hvx1 : Valid x1 := by rw [← hx1]; exact valid_take _ _ hvx
    have hvx2 : Valid x2 := by rw [← hx2]; exact valid_drop _ _ hvx
    have hb1 := b2a_full (19 * m) x1 (by omega) hvx1
    have hb2 := b2a_full (k - 19 * m) x2 hx2l hvx2
    have hbx : b2a x = b2a x1 ++ b2a x2 := by
      conv => lhs; rw [hx12]
      exact b2a_append (19 * m) x1 x2 (by omega)
    have htake : (b2a x ++ R).take (m * 76) = b2a x1 := by
      rw [hbx, List.append_assoc, List.take_append_of_le_length (by omega)]
      exact List.take_of_length_le (by omega)
    have hdrop : (b2a x ++ R).drop (m * 76) = b2a x2 ++ R := by
      rw [hbx, List.append_assoc, List.drop_append_of_le_length (by omega)]
      rw [List.drop_of_length_le (by omega)]; simp
    simp only [htake, hdrop]
    have hhead : optConcat ((chunks 76 (b2a x1)).map a2b) = some x1 := by
      unfold chunks
      exact dec_chunks m _ x1 hx1l hvx1 (by omega)
    by_cases hrest : (b2a x2 ++ R).isEmpty = true
    · rw [if_pos hrest, hhead]
      have he : b2a x2 ++ R = [] := by simpa using hrest
      have hR0 : R = [] := (List.append_eq_nil_iff.mp he).2
      have hb0 : b2a x2 = [] := (List.append_eq_nil_iff.mp he).1
      have hx20 : x2 = [] := by
        have : (b2a x2).length = 0 := by rw [hb0]; rfl
        exact List.eq_nil_of_length_eq_zero (by omega)
      have hr0 : r = [] := t5.mp hR0
      rw [hsplit, hx12, hx20, hr0]; simp
    · rw [if_neg hrest]
      have hpad : pad (b2a x2 ++ R) = b2a x2 ++ b2a r := by
        rw [pad_append_full _ _ _ hb2.1, t1]
      have hdec : a2b (pad (b2a x2 ++ R)) = some (x2 ++ r) := by
        rw [hpad, a2b_full_append _ x2 _ hx2l hvx2, t2]; rfl
      rw [hdec, optConcat_snoc _ _ _ hhead, hsplit, hx12]
      simp
  · rw [if_neg hlen]
    rw [pad_append_full _ _ _ hxlen, t1, a2b_full_append k x _ hxl hvx, t2, hsplit]
    rfl

/-- Hence the whole cookie codec round-trips under the (external) laws of zlib
and json: `decompress ∘ compress = id`, `loads ∘ dumps = id`. -/
theorem codec_roundtrip {State : Type} (dumps : State → Bytes) (loads : Bytes → Option State)
    (compress decompress : Bytes → Bytes)
    (hjson : ∀ s, loads (dumps s) = some s) (hz : ∀ b, decompress (compress b) = b)
    (hvalid : ∀ b, Valid (compress b)) (s : State) :
    ((decodeStr (encodeStr (compress (dumps s)))).map decompress).bind loads = some s := by
  rw [b64_roundtrip _ (hvalid _)]
  simp [hz, hjson]

/-- tests on concrete data (chunk boundaries 57/58 bytes) -/
example : decodeStr (encodeStr (List.replicate 57 200)) = some (List.replicate 57 200) := by decide +kernel
example : decodeStr (encodeStr (List.replicate 58 7 ++ [0, 255])) = some (List.replicate 58 7 ++ [0, 255]) := by
  decide +kernel
example : encodeStr [251, 255, 190] = "-/--".toList := by decide +kernel

/-! #### the codec TRANSLATED from TreeTag.py on every run (harness/trans_treecodec.py -> GenTree.lean) is the model -/

section Translated
open DTML.GenTree DTML.Lemmas.TreeCodecGen

/-- `TreeTag.encode_str`, statement by statement, is `encodeStr` (for every byte string) -/
theorem gen_encode_str_is_model (bs : Bytes) : GenTree.encodeStrGen bs = encodeStr bs := by
  have hK : ∀ s : List Char, encodeStrK0 s = (s.takeWhile (· != '=')).map tplus := by
    intro s
    rw [← find_cut '=' s]
    simp only [encodeStrK0, encodeStrK1]
    split <;> rfl
  unfold encodeStrGen encodeStr
  simp only [hK]
  by_cases h : bs.length > 57
  · simp only [if_pos h]
    rw [enc_loop_range 57 bs b2a (encodeStrLoop0 bs) (fun _ _ => rfl), flatten_map]
  · simp only [if_neg h]

/-- `TreeTag.encode_seq`, statement by statement, is `encodeStr` after `compress(json.dumps(state))` -/
theorem gen_encode_seq_is_model {State : Type} (dumps : State → Bytes) (compress : Bytes → Bytes) (s : State) :
    GenTree.encodeSeqGen dumps compress s = encodeStr (compress (dumps s)) := by
  have hK : ∀ t : List Char, encodeSeqK0 dumps compress t = (t.takeWhile (· != '=')).map tplus := by
    intro t
    rw [← find_cut '=' t]
    simp only [encodeSeqK0, encodeSeqK1]
    split <;> rfl
  unfold encodeSeqGen encodeStr
  simp only [hK]
  generalize compress (dumps s) = bs
  by_cases h : bs.length > 57
  · simp only [if_pos h]
    rw [enc_loop_range 57 bs b2a (encodeSeqLoop0 dumps compress bs) (fun _ _ => rfl), flatten_map]
  · simp only [if_neg h]

/-- `TreeTag.decode_seq`, statement by statement, is `decodeStr`, then `decompress`, then `json.loads` (`[]` when that
fails); `none`: `a2b_base64` raised -/
theorem gen_decode_seq_is_model {State : Type} (decompress : Bytes → Bytes) (loads : Bytes → Option State)
    (empty : State) (cs : List Char) :
    GenTree.decodeSeqGen decompress loads empty cs =
      (decodeStr cs).map (fun b => (loads (decompress b)).getD empty) := by
  have hfin : ∀ o : Option Bytes, finishDecode decompress loads empty o =
      o.map (fun b => (loads (decompress b)).getD empty) := by
    intro o
    unfold finishDecode
    congr 1
  -- the padding rule in front of a continuation
  have hpad : ∀ (t : List Char) (F : List Char → Option State),
      (if t.length % 4 ≠ 0 then F (t ++ List.replicate ((4 : Int) - ((t.length % 4 : Nat) : Int)).toNat '=') else F t)
        = F (pad t) := by
    intro t F
    rw [← pad_gen t]
    split <;> rfl
  unfold decodeSeqGen decodeStr
  generalize cs.map tminus = s
  by_cases h : s.length > 76
  · have hm : s.length / 76 * 76 ≤ s.length := Nat.div_mul_le_self _ _
    simp only [if_pos h]
    rw [dec_loop_range 76 (by decide) s a2b (decodeSeqLoop0 decompress loads empty s) (fun _ _ => rfl)
      (s.length / 76) hm]
    by_cases hj : s.length / 76 * 76 < s.length
    · have he : (s.drop (s.length / 76 * 76)).isEmpty = false := by
        cases hd : s.drop (s.length / 76 * 76) with
        | nil => have := congrArg List.length hd; simp at this; omega
        | cons a t => rfl
      simp only [if_pos hj, he]
      rw [hpad (s.drop (s.length / 76 * 76)) (fun t => decodeSeqK1 decompress loads empty _ t)]
      simp only [decodeSeqK1, decodeSeqK0, hfin]
      rfl
    · have he : (s.drop (s.length / 76 * 76)).isEmpty = true := by
        rw [List.drop_of_length_le (by omega)]; rfl
      simp only [if_neg hj, he, decodeSeqK0, hfin]
      rfl
  · simp only [if_neg h]
    rw [hpad s (fun t => decodeSeqK2 decompress loads empty t)]
    simp only [decodeSeqK2, hfin]

/-- **The round trip of the translated functions**: what `encode_seq` writes, `decode_seq` reads back (under the external
laws of zlib and json) - for every state, whatever its length. -/
theorem gen_codec_roundtrip {State : Type} (dumps : State → Bytes) (loads : Bytes → Option State)
    (compress decompress : Bytes → Bytes) (empty : State)
    (hjson : ∀ s, loads (dumps s) = some s) (hz : ∀ b, decompress (compress b) = b)
    (hvalid : ∀ b, Valid (compress b)) (s : State) :
    GenTree.decodeSeqGen decompress loads empty (GenTree.encodeSeqGen dumps compress s) = some s := by
  rw [gen_encode_seq_is_model, gen_decode_seq_is_model, b64_roundtrip _ (hvalid _)]
  simp [hz, hjson]

end Translated

end DTML.Props.C20

/-! ### Part 2: the expansion state (DTML/TreeState.lean) -/
namespace DTML.Props.C20
open DTML.TreeState

/-! #### the model's `applyDiff` is `apply_diff` of the source

`GenTreeState.applyDiffGen` is regenerated on every run by translating TreeTag.apply_diff in /repo statement by statement
(harness/trans_tree.py): the cursor walk with its in-place changes becomes a recursion that returns the updated list (one
iteration of the outer `while diff:` = one level; a step of the cursor into an entry rebuilds that entry with the
result).  The search loop, the tests `loc >= 0`, `not diff and not expand`, `diff or expand` in the order of the source,
`del s[loc]`, `s = s[loc]`, `s.append([id, []]); s = s[-1][1]` and the inner loop are emitted as they stand.  `some` on
the right: the walk never raises an IndexError and never goes round with the cursor off an entry. -/
theorem gen_apply_diff_is_model (state : List St) (diff : Path) (expand : Bool) :
    GenTreeState.applyDiffGen state diff expand = some (applyDiff state diff expand) :=
  Lemmas.TreeGen.gen_apply_diff_spec state diff expand

/-- a click, as the source computes it, is `click` of the model - what the theorems below are stated about -/
theorem gen_apply_diff_is_click (state : List St) (path : Path) (expand : Bool) :
    GenTreeState.applyDiffGen state path expand = some (click state path expand) :=
  gen_apply_diff_is_model state path expand

@[simp] private theorem id_node (i : Nat) (k : List St) : (St.node i k).id = i := rfl
@[simp] private theorem kids_node (i : Nat) (k : List St) : (St.node i k).kids = k := rfl

private theorem findId_modifyId (kids : List St) (id id' : Nat) (f : St → St) (hf : ∀ s, s.id = id → (f s).id = id) :
    findId (modifyId kids id f) id' =
      if id' = id then (findId kids id).map f else findId kids id' := by
  induction kids with
  | nil => simp [modifyId, findId]
  | cons k ks ih =>
    simp only [modifyId]
    by_cases hk : (k.id == id) = true
    · simp only [hk, if_true]
      have hk' : k.id = id := by simpa using hk
      by_cases h' : id' = id
      · subst h'; simp [findId, List.find?, hf k hk', hk']
      · have : (k.id == id') = false := by simp [hk']; exact fun e => h' e.symm
        have h2 : ((f k).id == id') = false := by rw [hf k hk']; simp; exact fun e => h' e.symm
        simp [findId, List.find?, h2, this, h']
    · simp only [hk, Bool.false_eq_true, if_false]
      have hk' : k.id ≠ id := by simpa using hk
      simp only [findId, List.find?] at ih ⊢
      by_cases h' : id' = id
      · subst h'
        simp only [hk, if_true] at ih ⊢
        exact ih
      · simp only [h', if_false] at ih ⊢
        cases hq : (k.id == id') <;> simp [ih]

private theorem findId_append_new (kids : List St) (n : St) (id' : Nat) (h : findId kids n.id = none) :
    findId (kids ++ [n]) id' = if id' = n.id then some n else findId kids id' := by
  simp only [findId, List.find?_append]
  by_cases h' : id' = n.id
  · subst h'
    simp only [findId] at h
    simp [h, List.find?]
  · simp only [h', if_false]
    cases hq : List.find? (fun x => x.id == id') kids with
    | some v => simp
    | none =>
      have : (n.id == id') = false := by simp; exact fun e => h' e.symm
      simp [List.find?, this]

/-- the chain created for the rest of a diff records exactly its prefixes -/
private theorem hasPath_chain (rest : Path) : ∀ (q : Path),
    hasPath (chainRest rest true) q = q.isPrefixOf rest := by
  induction rest with
  | nil => intro q; cases q <;> simp [chainRest, hasPath, findId, List.isPrefixOf]
  | cons r rs ih =>
    intro q
    cases q with
    | nil => simp [hasPath, List.isPrefixOf]
    | cons a q' =>
      simp only [chainRest, Bool.or_true, if_true, hasPath, findId, List.find?, St.id, List.isPrefixOf]
      by_cases ha : a = r
      · subst ha; simp [St.kids, ih]
      · have : (r == a) = false := by simp; exact fun e => ha e.symm
        have h2 : (a == r) = false := by simp [ha]
        simp [this, h2]

/-- **Expanding.**  After an expand click with path `p`, a path is recorded as
expanded iff it was before or it is a prefix of `p`. -/
theorem expand_adds : ∀ (p : Path) (st : List St) (q : Path),
    hasPath (applyDiff st p true) q = (hasPath st q || q.isPrefixOf p) := by
  intro p
  induction p with
  | nil => intro st q; cases q <;> simp [applyDiff, hasPath, List.isPrefixOf]
  | cons id rest ih =>
    intro st q
    cases q with
    | nil => simp [hasPath, List.isPrefixOf]
    | cons a q' =>
      simp only [applyDiff]
      cases hf : findId st id with
      | some n =>
        simp only [Bool.not_true, Bool.and_false, Bool.false_eq_true, if_false, hasPath]
        rw [findId_modifyId _ _ _ _ (by intro s _; simp [St.id])]
        by_cases ha : a = id
        · subst ha
          simp only [if_true, hf, Option.map_some, St.kids, ih, List.isPrefixOf, beq_self_eq_true, Bool.true_and]
        · simp only [ha, if_false, List.isPrefixOf]
          have : (a == id) = false := by simp [ha]
          simp [this]
      | none =>
        simp only [Bool.or_true, if_true, hasPath]
        rw [findId_append_new _ _ _ (by simpa [St.id] using hf)]
        by_cases ha : a = id
        · subst ha
          simp only [St.id, if_true, hf, St.kids, hasPath_chain, List.isPrefixOf, beq_self_eq_true, Bool.true_and,
            Bool.false_or]
        · simp only [St.id, ha, if_false, List.isPrefixOf]
          have : (a == id) = false := by simp [ha]
          simp [this]

/-! wf -/
private theorem wfList_cons (s : St) (ss : List St) :
    wfList (s :: ss) = (wfList s.kids && !(ss.any (·.id == s.id)) && wfList ss) := by
  cases s with
  | node i k => simp [wfList, wfSt, St.kids, St.id]

private theorem findId_none_iff (kids : List St) (id : Nat) : findId kids id = none ↔ ∀ k ∈ kids, k.id ≠ id := by
  simp [findId, List.find?_eq_none]

private theorem wf_findId (kids : List St) (id : Nat) (n : St) (hw : wfList kids = true)
    (hf : findId kids id = some n) : wfList n.kids = true := by
  induction kids with
  | nil => simp [findId] at hf
  | cons k ks ih =>
    rw [wfList_cons] at hw
    simp only [Bool.and_eq_true] at hw
    simp only [findId, List.find?] at hf
    cases hk : (k.id == id) with
    | true => simp [hk] at hf; subst hf; exact hw.1.1
    | false => simp [hk] at hf; exact ih hw.2 hf

private theorem findId_eraseId (kids : List St) (id a : Nat) (hw : wfList kids = true) :
    findId (eraseId kids id) a = if a = id then none else findId kids a := by
  induction kids with
  | nil => simp [eraseId, findId]
  | cons k ks ih =>
    rw [wfList_cons] at hw
    simp only [Bool.and_eq_true] at hw
    simp only [eraseId]
    cases hk : (k.id == id) with
    | true =>
      have hk' : k.id = id := by simpa using hk
      simp only [if_true]
      by_cases ha : a = id
      · subst ha
        simp only [if_true]
        rw [findId_none_iff]
        intro m hm
        have := hw.1.2
        simp only [Bool.not_eq_true', List.any_eq_false, beq_iff_eq] at this
        rw [← hk']
        exact this m hm
      · simp only [ha, if_false, findId, List.find?]
        have : (k.id == a) = false := by simp [hk']; exact fun e => ha e.symm
        simp [this]
    | false =>
      simp only [Bool.false_eq_true, if_false]
      have ih' := ih hw.2
      simp only [findId, List.find?] at ih' ⊢
      by_cases ha : a = id
      · subst ha; simp only [hk, if_true] at ih' ⊢; exact ih'
      · simp only [ha, if_false] at ih' ⊢
        cases (k.id == a) <;> simp [ih']

/-- **Collapsing.**  After a collapse click on a recorded path `p` of a
well-formed state, exactly the paths extending `p` (the node and all its
descendants) are forgotten; everything else is unchanged. -/
theorem collapse_forgets_descendants : ∀ (p : Path) (st : List St) (q : Path), p ≠ [] →
    wfList st = true → hasPath st p = true →
    hasPath (applyDiff st p false) q = (hasPath st q && !(p.isPrefixOf q)) := by
  intro p
  induction p with
  | nil => intro st q h; exact absurd rfl h
  | cons id rest ih =>
    intro st q _ hw hp
    simp only [hasPath] at hp
    cases hf : findId st id with
    | none => simp [hf] at hp
    | some n =>
      simp only [hf] at hp
      simp only [applyDiff, hf]
      cases q with
      | nil => cases rest <;> simp [hasPath, List.isPrefixOf]
      | cons a q' =>
        cases rest with
        | nil =>
          simp only [List.isEmpty_nil, Bool.not_false, Bool.and_self, if_true, hasPath]
          rw [findId_eraseId _ _ _ hw]
          by_cases ha : a = id
          · subst ha; simp [List.isPrefixOf]
          · have : (id == a) = false := by simp; exact fun e => ha e.symm
            simp [ha, List.isPrefixOf, this]
        | cons r rs =>
          simp only [List.isEmpty_cons, Bool.false_and, Bool.false_eq_true, if_false, hasPath]
          rw [findId_modifyId _ _ _ _ (by intro s _; simp [St.id])]
          by_cases ha : a = id
          · subst ha
            simp only [if_true, hf, Option.map_some]
            have := ih n.kids q' (by simp) (wf_findId _ _ _ hw hf) hp
            simp only [St.kids] at this ⊢
            rw [this]
            simp [List.isPrefixOf]
          · have : (id == a) = false := by simp; exact fun e => ha e.symm
            simp [ha, List.isPrefixOf, this]

private theorem wf_chain (rest : Path) (e : Bool) : wfList (chainRest rest e) = true := by
  induction rest with
  | nil => simp [chainRest, wfList]
  | cons r rs ih =>
    simp only [chainRest]
    split
    · rw [wfList_cons]; simp [ih, wfList]
    · simp [wfList]

private theorem any_id_modifyId (kids : List St) (id x : Nat) (new : List St) :
    (modifyId kids id (fun _ => St.node id new)).any (·.id == x) = kids.any (·.id == x) := by
  induction kids with
  | nil => simp [modifyId]
  | cons k ks ih =>
    simp only [modifyId]
    cases hk : (k.id == id) with
    | true =>
      have : k.id = id := by simpa using hk
      simp [this]
    | false => simp [ih]

private theorem wf_modifyId (kids : List St) (id : Nat) (new : List St) (hw : wfList kids = true)
    (hn : wfList new = true) : wfList (modifyId kids id (fun _ => St.node id new)) = true := by
  induction kids with
  | nil => simp [modifyId, wfList]
  | cons k ks ih =>
    rw [wfList_cons] at hw
    simp only [Bool.and_eq_true] at hw
    simp only [modifyId]
    cases hk : (k.id == id) with
    | true =>
      have hk' : k.id = id := by simpa using hk
      simp only [if_true]
      rw [wfList_cons]
      simp only [kids_node, id_node, hn, Bool.true_and, Bool.and_eq_true]
      refine ⟨?_, hw.2⟩
      rw [← hk']; exact hw.1.2
    | false =>
      simp only [Bool.false_eq_true, if_false]
      rw [wfList_cons, any_id_modifyId]
      simp [hw.1.1, hw.1.2, ih hw.2]

private theorem any_id_eraseId (kids : List St) (id x : Nat) (h : kids.any (·.id == x) = false) :
    (eraseId kids id).any (·.id == x) = false := by
  induction kids with
  | nil => simp [eraseId]
  | cons k ks ih =>
    simp only [List.any_cons, Bool.or_eq_false_iff] at h
    simp only [eraseId]
    cases hk : (k.id == id) with
    | true => simpa using h.2
    | false => simp [h.1, ih h.2]

private theorem wf_eraseId (kids : List St) (id : Nat) (hw : wfList kids = true) : wfList (eraseId kids id) = true := by
  induction kids with
  | nil => simp [eraseId, wfList]
  | cons k ks ih =>
    rw [wfList_cons] at hw
    simp only [Bool.and_eq_true] at hw
    simp only [eraseId]
    cases hk : (k.id == id) with
    | true => simpa using hw.2
    | false =>
      simp only [Bool.false_eq_true, if_false]
      rw [wfList_cons]
      have h1 : ks.any (·.id == k.id) = false := by simpa using hw.1.2
      simp [hw.1.1, any_id_eraseId _ _ _ h1, ih hw.2]

private theorem wf_append_new (kids : List St) (id : Nat) (new : List St) (hw : wfList kids = true)
    (hf : findId kids id = none) (hn : wfList new = true) : wfList (kids ++ [St.node id new]) = true := by
  induction kids with
  | nil => simp only [List.nil_append]; rw [wfList_cons]; simp [hn, wfList]
  | cons k ks ih =>
    rw [wfList_cons] at hw
    simp only [Bool.and_eq_true] at hw
    have hk : k.id ≠ id := (findId_none_iff _ _).mp hf k (by simp)
    have hf' : findId ks id = none := by
      rw [findId_none_iff] at hf ⊢
      exact fun m hm => hf m (by simp [hm])
    simp only [List.cons_append]
    rw [wfList_cons]
    have h1 : ks.any (·.id == k.id) = false := by simpa using hw.1.2
    have h2 : (id == k.id) = false := by simp; exact fun e => hk e.symm
    simp only [hw.1.1, ih hw.2 hf', List.any_append, h1, List.any_cons, id_node, h2, List.any_nil]
    simp

/-- clicks keep the state well-formed -/
theorem wf_applyDiff : ∀ (p : Path) (st : List St) (e : Bool), wfList st = true →
    wfList (applyDiff st p e) = true := by
  intro p
  induction p with
  | nil => intro st e h; simpa [applyDiff] using h
  | cons id rest ih =>
    intro st e hw
    simp only [applyDiff]
    cases hf : findId st id with
    | some n =>
      simp only
      split
      · exact wf_eraseId _ _ hw
      · exact wf_modifyId _ _ _ hw (ih _ _ (wf_findId _ _ _ hw hf))
    | none =>
      simp only
      split
      · exact wf_append_new _ _ _ hw hf (wf_chain _ _)
      · exact hw

mutual
theorem rowsOf_spec (E : Path → Bool) : ∀ (t : T) (substate : List St) (pre : Path),
    (∀ q, E (pre ++ q) = hasPath substate q) → rowsOf t substate pre = specOf E t pre
  | .node id kids, substate, pre, h => by
    have hE : E (pre ++ [id]) = (findId substate id).isSome := by
      rw [h [id]]; simp only [hasPath]; cases findId substate id <;> rfl
    simp only [rowsOf, specOf, hE]
    congr 1
    cases hk : kids.isEmpty with
    | true => simp
    | false =>
      simp only [Bool.not_false, Bool.true_and, if_true]
      cases hf : findId substate id with
      | none => simp
      | some s =>
        simp only [Option.isSome_some, if_true]
        apply rowsList_spec E kids s.kids (pre ++ [id])
        intro q
        rw [List.append_assoc, h ([id] ++ q)]
        simp [hasPath, hf]
theorem rowsList_spec (E : Path → Bool) : ∀ (ts : List T) (substate : List St) (pre : Path),
    (∀ q, E (pre ++ q) = hasPath substate q) → rowsList ts substate pre = specList E ts pre
  | [], _, _, _ => by simp [rowsList, specList]
  | t :: ts, substate, pre, h => by
    simp only [rowsList, specList]
    rw [rowsOf_spec E t substate pre h, rowsList_spec E ts substate pre h]
end

/-- **Rows.**  The table shows exactly the root's children plus, recursively and
depth-first, the children of every node whose path is recorded as expanded;
each node with children carries one link, encoding its own path, which is a
collapse link exactly when the node is expanded (`specList` is that abstract
description; `Row.path`, `Row.hasLink`, `Row.expanded` are the link). -/
theorem rows_spec (root : T) (state : List St) (hroot : (findId state root.id).isSome = true) :
    render root state = specList (fun p => hasPath state p) root.kids [root.id] := by
  unfold render
  cases hf : findId state root.id with
  | none => simp [hf] at hroot
  | some s =>
    simp only
    apply rowsList_spec
    intro q
    simp [hasPath, hf]

/-- a click on a link the tag generated -/
inductive Click where
  | expand (p : Path)
  | collapse (p : Path)

def stepState (st : List St) : Click → List St
  | .expand p => click st p true
  | .collapse p => click st p false

/-- the abstract specification: the set of expanded paths, as a predicate -/
def stepSpec (E : Path → Bool) : Click → (Path → Bool)
  | .expand p => fun q => E q || q.isPrefixOf p
  | .collapse p => fun q => E q && !(p.isPrefixOf q)

/-- a history in which every collapse click targets a path that is expanded at
that moment (the tag only generates collapse links for expanded nodes) -/
def ValidHistory : List St → List Click → Prop
  | _, [] => True
  | st, c :: cs =>
    (match c with
     | .expand _ => True
     | .collapse p => p ≠ [] ∧ hasPath st p = true) ∧ ValidHistory (stepState st c) cs

/-- **History invariant (refinement).**  For every history of clicks on links
the tag generated, starting from any well-formed state, the concrete nested-list
state records exactly the paths the abstract set-of-paths specification
contains: expanding adds the path (and its prefixes), collapsing removes the
path and everything below it. -/
theorem history_invariant : ∀ (cs : List Click) (st : List St) (E : Path → Bool),
    wfList st = true → (∀ q, hasPath st q = E q) → ValidHistory st cs →
    (∀ q, hasPath (cs.foldl stepState st) q = (cs.foldl stepSpec E) q) ∧
    wfList (cs.foldl stepState st) = true := by
  intro cs
  induction cs with
  | nil => intro st E hw h _; exact ⟨h, hw⟩
  | cons c cs ih =>
    intro st E hw h hv
    simp only [List.foldl_cons]
    obtain ⟨hc, hrest⟩ := hv
    apply ih (stepState st c) (stepSpec E c)
    · cases c <;> exact wf_applyDiff _ _ _ hw
    · intro q
      cases c with
      | expand p => simp only [stepState, stepSpec, click, expand_adds, h]
      | collapse p =>
        simp only [stepState, stepSpec, click]
        rw [collapse_forgets_descendants p st q hc.1 hw hc.2, h]
    · exact hrest

/-- the initial (and collapse_all) state: well-formed, only the root recorded -/
theorem init_state (root : T) :
    wfList (initState root) = true ∧
    ∀ q, hasPath (initState root) q = (q == [] || q == [root.id]) := by
  constructor
  · simp [initState, wfList, wfSt]
  · intro q
    cases q with
    | nil => simp [hasPath]
    | cons a q' =>
      simp only [initState, hasPath, findId, List.find?, id_node]
      by_cases ha : root.id = a
      · subst ha
        cases q' <;> simp [hasPath, findId]
      · have : (root.id == a) = false := by simpa using ha
        have h2 : a ≠ root.id := fun e => ha e.symm
        simp [this, h2]

example : ValidHistory (initState (.node 0 [.node 1 [.node 2 []]]))
    [.expand [0, 1], .collapse [0, 1]] := by
  refine ⟨trivial, ⟨by decide, by decide⟩, trivial⟩

/-! #### tpStateLevel and tpValuesIds of the source

`GenTreeState.stateLevelGen` / `valuesIdsGen` are regenerated on every run from TreeTag.tpStateLevel / tpValuesIds
(harness/trans_tree.py). -/

/-- tpStateLevel is the model's depth, however the entries without sub-entries are written (`two s` = the entry `s` is
written with its sub-list, `len(sub) == 2`; an entry that has sub-entries is) -/
theorem gen_state_level_is_model (two : St → Bool) (h : ∀ s : St, s.kids ≠ [] → two s = true)
    (state : List St) (level : Nat) :
    GenTreeState.stateLevelGen two state level = max level (depthList state) :=
  Lemmas.TreeGen.gen_state_level two h state level

/-- the two uniform ways of writing: `[id]` whenever there is no sub-entry (what `tpValuesIds` builds), `[id, []]`
always (what `apply_diff` builds) - the hypothesis of `gen_state_level_is_model` is not vacuous -/
theorem gen_state_level_default (state : List St) :
    GenTreeState.stateLevelGen (fun s => !s.kids.isEmpty) state 0 = depthList state ∧
    GenTreeState.stateLevelGen (fun _ => true) state 0 = depthList state := by
  constructor
  · rw [gen_state_level_is_model _ (by intro s hs; cases hk : s.kids <;> simp_all) state 0]; simp
  · rw [gen_state_level_is_model _ (by intro s _; rfl) state 0]; simp

mutual
theorem pathsOf_le_depth : ∀ (s : St) (pre p : Path), p ∈ pathsOf s pre → p.length ≤ pre.length + depthSt s
  | .node id kids, pre, p, hp => by
    simp only [pathsOf, List.mem_cons] at hp
    simp only [depthSt]
    rcases hp with rfl | hp
    · simp only [List.length_append, List.length_cons, List.length_nil]; omega
    · have := pathsList_le_depth kids (pre ++ [id]) p hp
      simp only [List.length_append, List.length_cons, List.length_nil] at this
      omega
/-- **Depth.**  No path recorded in a state is longer than the level tpStateLevel computes (the colspan of the table) -/
theorem pathsList_le_depth : ∀ (st : List St) (pre p : Path), p ∈ pathsList st pre →
    p.length ≤ pre.length + depthList st
  | [], _, _, hp => by simp [pathsList] at hp
  | s :: ss, pre, p, hp => by
    simp only [pathsList, List.mem_append] at hp
    simp only [depthList]
    rcases hp with hp | hp
    · have := pathsOf_le_depth s pre p hp; omega
    · have := pathsList_le_depth ss pre p hp; omega
end

mutual
theorem depthSt_attained : ∀ (s : St) (pre : Path), ∃ p ∈ pathsOf s pre, p.length = pre.length + depthSt s
  | .node id kids, pre => by
    simp only [pathsOf, depthSt]
    by_cases hk : kids = []
    · subst hk
      exact ⟨pre ++ [id], by simp, by simp [depthList]⟩
    · obtain ⟨p, hp, hl⟩ := depthList_attained kids (pre ++ [id]) hk
      refine ⟨p, by simp [hp], ?_⟩
      simp only [List.length_append, List.length_cons, List.length_nil] at hl
      omega
/-- … and a non-empty state records a path of exactly that length: tpStateLevel is the length of the longest path -/
theorem depthList_attained : ∀ (st : List St) (pre : Path), st ≠ [] →
    ∃ p ∈ pathsList st pre, p.length = pre.length + depthList st
  | [], _, h => absurd rfl h
  | s :: ss, pre, _ => by
    simp only [pathsList, depthList]
    by_cases hm : depthList ss ≤ depthSt s
    · obtain ⟨p, hp, hl⟩ := depthSt_attained s pre
      exact ⟨p, by simp [hp], by omega⟩
    · have hne : ss ≠ [] := by
        intro h; subst h; simp [depthList] at hm
      obtain ⟨p, hp, hl⟩ := depthList_attained ss pre hne
      exact ⟨p, by simp [hp], by omega⟩
end

/-- tpValuesIds of a node is the model's `allIdsList` of its children -/
theorem gen_values_ids_is_model (t : T) : GenTreeState.valuesIdsGen t = allIdsList t.kids :=
  Lemmas.TreeGen.gen_values_ids t

/-- `state = [id, tpValuesIds(self, get_items, args)]` (expand_all) is `expandAllState` -/
theorem gen_values_ids_is_expand_all (root : T) :
    [St.node root.id (GenTreeState.valuesIdsGen root)] = expandAllState root := by
  rw [gen_values_ids_is_model]; rfl

end DTML.Props.C20
