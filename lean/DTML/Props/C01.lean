/-
C01 — Text outside tags is reproduced verbatim, in order, and rendering composes.
Part 1: the scanners and the tokeniser never drop, alter or duplicate text
(DTML/Scan.lean); the line-end skipping of block tags (DTML/Parse.lean).
-/
import DTML.Scan
import DTML.Parse
import DTML.Render
import DTML.Lemmas.Fuel
import DTML.Lemmas.Print
import DTML.Lemmas.ScanGen
import DTML.GenJoin
import DTML.GenParseLoop
import DTML.Lemmas.ParseLoop
set_option linter.unusedVariables false
namespace DTML.Props.C01
open DTML.Scan DTML.Parse

/-- a tag found by the HTML scanner is a prefix of the text it was found at -/
theorem candidate_text (s : Text) (len : Nat) (tk : Tok) (h : candidate s = .tok len tk) :
    tk.text = s.take len := by
  unfold candidate at h
  simp (config := {zeta := true}) only at h
  repeat' split at h
  all_goals first
    | (cases h; done)
    | (cases h; rfl)

private theorem epfsFinish_text (s after name : Text) (nl a : Nat) (b : Bool) (e len : Nat) (tk : Tok)
    (h : epfsFinish s after name nl a b e = some (len, tk)) : tk.text = s.take len := by
  unfold epfsFinish at h
  split at h
  · split at h
    · simp only [Option.some.injEq, Prod.mk.injEq] at h
      obtain ⟨h1, h2⟩ := h
      subst h1; subst h2; rfl
    · cases h
  · cases h

theorem matchEpfs_text (s : Text) (len : Nat) (tk : Tok) (h : matchEpfs s = some (len, tk)) :
    tk.text = s.take len := by
  unfold matchEpfs at h
  simp (config := {zeta := true}) only at h
  split at h
  · cases h
  · split at h
    · exact epfsFinish_text _ _ _ _ _ _ _ _ _ h
    · split at h
      · rename_i r hr
        simp only [Option.some.injEq] at h
        subst h
        exact epfsFinish_text _ _ _ _ _ _ _ _ _ hr
      · split at h
        · exact epfsFinish_text _ _ _ _ _ _ _ _ _ h
        · cases h

/-- **One search step loses nothing**: the literal before the tag, the tag's own
text and the remaining text, concatenated, are the text searched. -/
theorem scanHtml_reconstruct : ∀ (s lit rest : Text) (tk : Tok),
    scanHtml s = some (lit, tk, rest) → lit ++ tk.text ++ rest = s := by
  intro s
  induction s with
  | nil => intro lit rest tk h; simp [scanHtml] at h
  | cons c t ih =>
    intro lit rest tk h
    unfold scanHtml at h
    split at h
    · split at h
      · rename_i len tk' hc
        simp only [Option.some.injEq, Prod.mk.injEq] at h
        obtain ⟨rfl, rfl, rfl⟩ := h
        rw [candidate_text _ _ _ hc]
        simp
      · cases hq : scanHtml t with
        | none => simp [hq] at h
        | some v =>
          obtain ⟨l, tk', r⟩ := v
          simp only [hq, Option.map_some, Option.some.injEq, Prod.mk.injEq] at h
          obtain ⟨rfl, rfl, rfl⟩ := h
          have := ih l r tk' hq
          simp only [List.cons_append]; rw [this]
    · cases hq : scanHtml t with
      | none => simp [hq] at h
      | some v =>
        obtain ⟨l, tk', r⟩ := v
        simp only [hq, Option.map_some, Option.some.injEq, Prod.mk.injEq] at h
        obtain ⟨rfl, rfl, rfl⟩ := h
        have := ih l r tk' hq
        simp only [List.cons_append]; rw [this]

theorem scanEpfs_reconstruct : ∀ (s lit rest : Text) (tk : Tok),
    scanEpfs s = some (lit, tk, rest) → lit ++ tk.text ++ rest = s := by
  intro s
  induction s with
  | nil => intro lit rest tk h; simp [scanEpfs] at h
  | cons c t ih =>
    intro lit rest tk h
    unfold scanEpfs at h
    split at h
    · split at h
      · rename_i len tk' hc
        simp only [Option.some.injEq, Prod.mk.injEq] at h
        obtain ⟨rfl, rfl, rfl⟩ := h
        rw [matchEpfs_text _ _ _ hc]
        simp
      · cases hq : scanEpfs t with
        | none => simp [hq] at h
        | some v =>
          obtain ⟨l, tk', r⟩ := v
          simp only [hq, Option.map_some, Option.some.injEq, Prod.mk.injEq] at h
          obtain ⟨rfl, rfl, rfl⟩ := h
          have := ih l r tk' hq
          simp only [List.cons_append]; rw [this]
    · cases hq : scanEpfs t with
      | none => simp [hq] at h
      | some v =>
        obtain ⟨l, tk', r⟩ := v
        simp only [hq, Option.map_some, Option.some.injEq, Prod.mk.injEq] at h
        obtain ⟨rfl, rfl, rfl⟩ := h
        have := ih l r tk' hq
        simp only [List.cons_append]; rw [this]

theorem scan_reconstruct (syn : Syntax) (s lit rest : Text) (tk : Tok)
    (h : scan syn s = some (lit, tk, rest)) : lit ++ tk.text ++ rest = s := by
  cases syn
  · exact scanHtml_reconstruct s lit rest tk h
  · exact scanEpfs_reconstruct s lit rest tk h

/-- the text a token list stands for: literals and tag texts in order, then the tail -/
def flatten (ps : List (Text × Tok)) (tl : Text) : Text :=
  (ps.flatMap fun (l, t) => l ++ t.text) ++ tl

/-- **The tokeniser is lossless**: the literals and the tags' own texts, in order,
followed by the trailing literal, are exactly the source — whatever the source is.
Nothing is dropped, altered, duplicated or reordered, and every tag text is the
slice of the source it was found at. -/
theorem tokens_reconstruct (syn : Syntax) : ∀ (fuel : Nat) (s : Text),
    flatten (tokensAux syn fuel s).1 (tokensAux syn fuel s).2 = s := by
  intro fuel
  induction fuel with
  | zero => intro s; simp [tokensAux, flatten]
  | succ n ih =>
    intro s
    simp only [tokensAux]
    cases hs : scan syn s with
    | none => simp [flatten]
    | some v =>
      obtain ⟨lit, tk, rest⟩ := v
      simp only
      have h1 := scan_reconstruct syn s lit rest tk hs
      have h2 := ih rest
      simp only [flatten, List.flatMap_cons] at h2 ⊢
      rw [List.append_assoc, h2, ← h1]

theorem tokens_lossless (syn : Syntax) (src : Text) :
    flatten (tokens syn src).1 (tokens syn src).2 = src := tokens_reconstruct syn _ src

private theorem all_takeWhile (p : Char → Bool) : ∀ (l : Text) (c : Char), c ∈ l.takeWhile p → p c = true := by
  intro l
  induction l with
  | nil => intro c h; simp at h
  | cons a t ih =>
    intro c h
    simp only [List.takeWhile] at h
    split at h
    · rcases List.mem_cons.mp h with rfl | h
      · assumption
      · exact ih c h
    · simp at h

/-- `skip_eol` removes nothing but one run of blanks and tabs ending in a newline
(or nothing at all) -/
theorem skipEol_spec (s : Text) :
    ∃ d, s = d ++ skipEol s ∧
      (d = [] ∨ ∃ b, d = b ++ ['\n'] ∧ ∀ c ∈ b, c = ' ' ∨ c = '\t') := by
  unfold skipEol
  simp (config := {zeta := true}) only
  split
  · rename_i t ht
    refine ⟨s.takeWhile (fun c => c = ' ' || c = '\t') ++ ['\n'], ?_, Or.inr ⟨_, rfl, ?_⟩⟩
    · have := List.takeWhile_append_dropWhile (p := fun c => decide (c = ' ') || decide (c = '\t')) (l := s)
      rw [ht] at this
      simp only [List.append_assoc, List.singleton_append]
      exact this.symm
    · intro c hc
      have := all_takeWhile _ _ c hc
      simpa using this
  · exact ⟨[], rfl, Or.inl rfl⟩

/-- **A source without tags compiles to itself**: when the scanner finds no tag, the
compiled template is the single literal `src` (nothing for the empty source). -/
theorem tagfree_identity (syn : Syntax) (src : Text) (h : scan syn src = none) :
    ∃ out, compile syn src = .ok out ∧
      (match out.nodes with
       | [] => src = []
       | [.lit s] => s = src
       | _ => False) ∧ out.exprs = [] := by
  have ht : tokens syn src = ([], src) := by
    simp [tokens, tokensAux, h]
  unfold compile
  rw [ht]
  simp only [buildAux, Bool.false_eq_true, if_false]
  refine ⟨_, rfl, ?_, rfl⟩
  cases src with
  | nil => simp [litNode]
  | cons c t => simp [litNode]


/-! ### Part 2: the block builder keeps every literal, in order

The compiled tree's literal nodes, read left to right through all nesting, are exactly the
literals between the tags (and the trailing text), each either unchanged or with one line end
skipped (`skipEol`), empty ones left out.  Nothing else is ever a literal node. -/

mutual
/-- the literal texts of a node, in document order -/
def nodeLits : Node → List Text
  | .lit s => [s]
  | .simple _ _ _ => []
  | .block _ _ secs => secsLits secs
def secsLits : List (Section Node) → List Text
  | [] => []
  | s :: t => nodesLits s.body ++ secsLits t
def nodesLits : List Node → List Text
  | [] => []
  | n :: t => nodeLits n ++ nodesLits t
end

theorem nodesLits_append (a b : List Node) : nodesLits (a ++ b) = nodesLits a ++ nodesLits b := by
  induction a with
  | nil => simp [nodesLits]
  | cons x t ih => simp [nodesLits, ih]

theorem secsLits_append (a b : List (Section Node)) : secsLits (a ++ b) = secsLits a ++ secsLits b := by
  induction a with
  | nil => simp [secsLits]
  | cons x t ih => simp [secsLits, ih]

/-- a literal that is not empty -/
def ne (l : Text) : List Text := if l.isEmpty then [] else [l]

theorem nodesLits_litNode (l : Text) : nodesLits (litNode l) = ne l := by
  unfold litNode ne
  split <;> simp [nodesLits, nodeLits]

/-- literals of an open block, in order: finished sections, then the section being read -/
def frameLits (f : Frame) : List Text := secsLits f.done ++ nodesLits f.cur.reverse

/-- literals collected so far: top level first, then the open blocks from the outermost inwards -/
def soFar (stack : List Frame) (top : List Node) : List Text :=
  nodesLits top.reverse ++ (stack.reverse.map frameLits).flatten

theorem soFar_pushNodes (ns : List Node) (stack : List Frame) (top : List Node) :
    soFar (pushNodes ns stack top).1 (pushNodes ns stack top).2 = soFar stack top ++ nodesLits ns := by
  cases stack with
  | nil => simp [pushNodes, soFar, nodesLits_append]
  | cons f fs =>
    simp [pushNodes, soFar, frameLits, nodesLits_append, List.append_assoc]

/-- the literal a token contributes: a line end is skipped when it directly follows a block tag -/
def adj (b : Bool) (l : Text) : Text := if b then skipEol l else l

/-- the literals expected from a token stream, given for every literal whether it follows a block tag -/
def expectLits : List Bool → List Text → List Text
  | b :: bs, l :: ls => ne (adj b l) ++ expectLits bs ls
  | _, _ => []

theorem soFar_cons (f : Frame) (stack : List Frame) (top : List Node) :
    soFar (f :: stack) top = soFar stack top ++ frameLits f := by
  simp [soFar, List.append_assoc]

theorem expectLits_cons (b : Bool) (bs : List Bool) (l : Text) (ls : List Text) :
    expectLits (b :: bs) (l :: ls) = ne (adj b l) ++ expectLits bs ls := rfl

/-- **Builder invariant**: whatever state the builder is in, if it finishes, the tree's literals
are the ones collected so far followed by the remaining token literals and the tail, each
unchanged or with one skipped line end, in order. -/
theorem buildAux_lits (syn : Syntax) : ∀ (ps : List (Text × Tok)) (tail : Text) (idx : Nat) (afterBT : Bool)
    (stack : List Frame) (top : List Node) (exprs : List ExprUse) (out : Out),
    buildAux syn ps tail idx afterBT stack top exprs = .ok out →
    ∃ bs : List Bool, bs.length = ps.length ∧
      nodesLits out.nodes = soFar stack top ++ expectLits (afterBT :: bs) (ps.map (·.1) ++ [tail]) := by
  intro ps
  induction ps with
  | nil =>
    intro tail idx afterBT stack top exprs out h
    simp only [buildAux] at h
    cases stack with
    | cons f fs => cases h
    | nil =>
      simp only [Except.ok.injEq] at h
      subst h
      refine ⟨[], rfl, ?_⟩
      simp only [List.reverse_append, List.reverse_reverse, nodesLits_append, soFar, List.reverse_nil, List.map_nil,
        List.flatten_nil, List.append_nil, List.nil_append, expectLits, adj]
      rw [nodesLits_litNode]
  | cons pt rest ih =>
    intro tail idx afterBT stack top exprs out h
    obtain ⟨lit, tk⟩ := pt
    simp only [buildAux] at h
    have hadj : (if afterBT = true then skipEol lit else lit) = adj afterBT lit := rfl
    rw [hadj] at h
    -- it suffices that the builder continues from a state that has collected exactly one more literal
    have fin : ∀ (b' : Bool) (stack' : List Frame) (top' : List Node) (idx' : Nat) (exprs' : List ExprUse),
        soFar stack' top' = soFar stack top ++ ne (adj afterBT lit) →
        buildAux syn rest tail idx' b' stack' top' exprs' = .ok out →
        ∃ bs : List Bool, bs.length = ((lit, tk) :: rest).length ∧
          nodesLits out.nodes = soFar stack top ++
            expectLits (afterBT :: bs) (((lit, tk) :: rest).map (·.1) ++ [tail]) := by
      intro b' stack' top' idx' exprs' hs hb
      obtain ⟨bs, hl, he⟩ := ih tail idx' b' stack' top' exprs' out hb
      refine ⟨b' :: bs, by simp [hl], ?_⟩
      rw [he, hs, List.append_assoc]
      simp only [List.map_cons, List.cons_append, expectLits_cons]
    cases hr : tagRole syn tk (stack.head?.map fun f => (f.cmd, f.sargs)) with
    | error e => rw [hr] at h; cases h
    | ok role =>
      rw [hr] at h
      cases role with
      | start cmd args =>
        simp only at h
        by_cases hb : cmd.isBlock = true
        · simp only [hb, if_true] at h
          refine fin _ _ _ _ _ ?_ h
          rw [soFar_cons, soFar_pushNodes, nodesLits_litNode]
          simp [frameLits, secsLits, nodesLits]
        · simp only [hb, Bool.false_eq_true, if_false] at h
          cases hc : checkSimple cmd args with
          | error e => rw [hc] at h; cases h
          | ok b =>
            rw [hc] at h
            simp only at h
            refine fin _ _ _ _ _ ?_ h
            rw [soFar_pushNodes, nodesLits_append, nodesLits_litNode]
            simp [nodesLits, nodeLits]
      | cont name args =>
        simp only at h
        cases stack with
        | nil => cases h
        | cons f fs =>
          simp only at h
          refine fin _ _ _ _ _ ?_ h
          rw [soFar_cons, soFar_cons]
          simp only [frameLits, secsLits_append, secsLits, List.reverse_append, List.reverse_reverse, nodesLits_append,
            nodesLits_litNode, List.reverse_nil, nodesLits, List.append_nil, List.append_assoc]
      | close args =>
        simp only at h
        cases stack with
        | nil => cases h
        | cons f fs =>
          simp only at h
          split at h
          · cases h
          · refine fin _ _ _ _ _ ?_ h
            rw [soFar_pushNodes, soFar_cons]
            simp only [frameLits, nodesLits, nodeLits, secsLits_append, secsLits, List.reverse_append, List.reverse_reverse,
              nodesLits_append, nodesLits_litNode, List.append_nil, List.append_assoc]

/-- **Compiling keeps every literal, verbatim and in order.**  If a source compiles, the literal
nodes of the compiled tree (read in document order through all nesting) are exactly the texts
between its tags followed by the trailing text — each either unchanged or with one run of blanks
ending in a newline removed from its start (`skipEol`, only ever applied right after a tag), empty
ones omitted.  Together with `tokens_lossless` (texts and tags, concatenated, are the source) and
`skipEol_spec` this is: nothing outside tags is altered, duplicated, reordered or dropped except
such a line end. -/
theorem compile_literals (syn : Syntax) (src : Text) (out : Out) (h : compile syn src = .ok out) :
    ∃ bs : List Bool, bs.length = (tokens syn src).1.length ∧
      nodesLits out.nodes = expectLits (false :: bs) ((tokens syn src).1.map (·.1) ++ [(tokens syn src).2]) := by
  unfold compile at h
  generalize tokens syn src = tk at h ⊢
  obtain ⟨ps, tl⟩ := tk
  simp only at h ⊢
  obtain ⟨bs, hl, he⟩ := buildAux_lits syn ps tl 0 false [] [] [] out h
  refine ⟨bs, hl, ?_⟩
  rw [he]
  simp only [soFar, List.reverse_nil, nodesLits, List.map_nil, List.flatten_nil, List.append_nil, List.nil_append]


/-! ### Part 3: rendering emits literals verbatim, in order, once per rendering of their block -/

section Rendering
/-! #### from the source text itself: printed documents -/

section Printed
open DTML.Lemmas.Print

/-- **The scanner finds exactly the tags that were written, and the text between them comes back
verbatim**: a document printed from (literal, tag) items — literals free of `<` and `&`, names of
letters, stripped arguments with every `>` inside a quoted string — is cut into exactly these
literals and tags, with the trailing text left over. -/
theorem printed_document_tokens (items : List Item) (tail : Text) (hw : ∀ i ∈ items, WfDtml i) (ht : CleanLit tail) :
    (tokens .html (printDoc printDtml items tail)).1.map (·.1) = items.map (·.lit) ∧
    (tokens .html (printDoc printDtml items tail)).1.map (·.2.text) = items.map printDtml ∧
    (tokens .html (printDoc printDtml items tail)).2 = tail := by
  rw [tokens_dtml items tail hw ht]
  simp [tokOf, Function.comp_def]

/-- **… and the compiled tree's literal nodes are these literals, in order** (each unchanged, or
with the one line end after a block tag removed; empty ones omitted) -/
theorem printed_document_literals (items : List Item) (tail : Text) (hw : ∀ i ∈ items, WfDtml i) (ht : CleanLit tail)
    (out : Out) (h : compile .html (printDoc printDtml items tail) = .ok out) :
    ∃ bs : List Bool, bs.length = items.length ∧
      nodesLits out.nodes = expectLits (false :: bs) (items.map (·.lit) ++ [tail]) := by
  obtain ⟨bs, hl, he⟩ := compile_literals .html _ out h
  obtain ⟨h1, _, h3⟩ := printed_document_tokens items tail hw ht
  refine ⟨bs, ?_, ?_⟩
  · rw [hl, ← List.length_map (f := (·.1)), h1, List.length_map]
  · rw [he, h1, h3]

end Printed

open DTML.Render

/-- **A literal block renders to itself**, touching nothing -/
theorem lit_verbatim (env : Env) (fuel : Nat) (s : Render.Text) (st : St) :
    renderBlk env (fuel + 1) (.lit s) st = (.ok (if s.isEmpty then [] else [.text s]), st) := by
  unfold renderBlk
  simp [pieceEmpty]

/-- **Blocks are rendered in source order and their outputs appended in that order**, nothing
else is inserted between them -/
theorem blocks_in_order (env : Env) (fuel : Nat) (b : Blk) (rest : List Blk) (st st1 st2 : St)
    (ps qs : List Piece)
    (hb : renderBlk env fuel b st = (.ok ps, st1)) (hr : renderBlocks env fuel rest st1 = (.ok qs, st2)) :
    renderBlocks env (fuel + 1) (b :: rest) st = (.ok (ps ++ qs), st2) := by
  simp only [renderBlocks, hb, hr]

/-- text before a tag comes out before the tag's insertion, text after it after -/
theorem literal_around (env : Env) (fuel : Nat) (a c : Render.Text) (b : Blk) (st st1 : St) (ps : List Piece)
    (ha : a ≠ []) (hc : c ≠ [])
    (hb : renderBlk env (fuel + 2) b st = (.ok ps, st1)) :
    renderBlocks env (fuel + 4) [.lit a, b, .lit c] st = (.ok (.text a :: ps ++ [.text c]), st1) := by
  have h1 := lit_verbatim env (fuel + 2) a st
  have h3 := lit_verbatim env fuel c st1
  have ea : a.isEmpty = false := by cases a <;> simp_all
  have ec : c.isEmpty = false := by cases c <;> simp_all
  simp only [ea, ec, Bool.false_eq_true, if_false] at h1 h3
  have r3 : renderBlocks env (fuel + 2) [.lit c] st1 = (.ok [.text c], st1) := by
    have := blocks_in_order env (fuel + 1) (.lit c) [] st1 st1 st1 [.text c] [] h3 (by simp [renderBlocks])
    simpa using this
  have r2 := blocks_in_order env (fuel + 2) b [.lit c] st st1 st1 ps [.text c] hb r3
  have r1 := blocks_in_order env (fuel + 3) (.lit a) [b, .lit c] st st st1 [.text a] (ps ++ [.text c]) h1 r2
  simpa using r1

/-- **A source without tags renders to itself** (model side: its compiled form is the single
literal, `tagfree_identity`; here: that template's call returns exactly that text) -/
theorem tagfree_renders_itself (env : Env) (fuel : Nat) (s : Render.Text) (c : CallArgs) (g v : List (Render.Text × Val)) :
    (topCall env (fuel + 3) { blocks := if s.isEmpty then [] else [.lit s], globals := g, vars := v } c).1 = .ok (.str s) := by
  by_cases hs : s.isEmpty = true
  · have : s = [] := by cases s <;> simp_all
    subst this
    simp [topCall, renderBlocks, joinPieces, valOfPiece]
  · let st0 : St := { stack := callStack { blocks := [.lit s], globals := g, vars := v } c, level := 1 }
    have hl := lit_verbatim env (fuel + 1) s st0
    simp only [hs, Bool.false_eq_true, if_false] at hl ⊢
    have hn : renderBlocks env (fuel + 2) [] st0 = (.ok [], st0) := by simp only [renderBlocks]
    have := blocks_in_order env (fuel + 2) (.lit s) [] st0 st0 st0 [.text s] [] hl hn
    simp only [List.append_nil] at this
    simp only [topCall]
    rw [show ({ stack := callStack { blocks := [Blk.lit s], globals := g, vars := v } c, level := 1 } : St) = st0 from rfl, this]
    simp only [joinPieces, valOfPiece]

/-- a body's literal is emitted each time, and only when, the body is rendered: e.g. a
conditional whose condition is false emits nothing of its body (C09 has the general statement) -/
theorem literal_only_when_rendered (env : Env) (fuel : Nat) (s : Render.Text) (st : St) :
    (renderBlk env (fuel + 4) (.cond [(.expr (.lit (.bool false)), [.lit s])] none) st).1 = .ok [] ∧
    (s ≠ [] → (renderBlk env (fuel + 4) (.cond [(.expr (.lit (.bool true)), [.lit s])] none) st).1 = .ok [.text s]) := by
  constructor
  · simp [renderBlk, condLoop, evalExpr, truthy]
  · intro hs
    have es : s.isEmpty = false := by cases s <;> simp_all
    simp [renderBlk, condLoop, evalExpr, truthy, renderBlocks, pieceEmpty, es]

end Rendering


/-! ### Part 4: rendering composes (block level) -/

section Compose
open DTML.Render DTML.Lemmas.Fuel

/-- **Rendering the concatenation of two block lists is the concatenation of their renderings**:
if `a` renders to the pieces `ps` (leaving state `st1`) and `b`, started from there, renders to
`qs`, then `a ++ b` renders to `ps ++ qs` — for some (hence, by fuel monotonicity, every larger)
amount of fuel.  (The namespace `b` starts from is the one `a` started from: C08.) -/
theorem render_concat (env : Env) : ∀ (a b : List Blk) (st st1 st2 : St) (ps qs : List Piece) (n m : Nat),
    renderBlocks env n a st = (.ok ps, st1) → renderBlocks env m b st1 = (.ok qs, st2) →
    ∃ k, renderBlocks env k (a ++ b) st = (.ok (ps ++ qs), st2) := by
  intro a
  induction a with
  | nil =>
    intro b st st1 st2 ps qs n m ha hb
    cases n with
    | zero => simp [renderBlocks] at ha
    | succ n =>
      simp only [renderBlocks, Prod.mk.injEq, Res.ok.injEq] at ha
      obtain ⟨rfl, rfl⟩ := ha
      exact ⟨m, by simpa using hb⟩
  | cons x a' ih =>
    intro b st st1 st2 ps qs n m ha hb
    cases n with
    | zero => simp [renderBlocks] at ha
    | succ n =>
      simp only [renderBlocks] at ha
      cases hx : renderBlk env n x st with
      | mk rx sx =>
        rw [hx] at ha
        cases rx with
        | ok p1 =>
          simp only at ha
          cases hr : renderBlocks env n a' sx with
          | mk rr sr =>
            rw [hr] at ha
            cases rr with
            | ok p2 =>
              simp only [Prod.mk.injEq, Res.ok.injEq] at ha
              obtain ⟨rfl, rfl⟩ := ha
              obtain ⟨k, hk⟩ := ih b sx sr st2 p2 qs n m hr hb
              refine ⟨max n k + 1, ?_⟩
              have e1 := renderBlk_lift env n x st (.ok p1) sx hx (by simp) (max n k) (Nat.le_max_left _ _)
              have e2 := renderBlocks_lift env k (a' ++ b) sx (.ok (p2 ++ qs)) st2 hk (by simp) (max n k) (Nat.le_max_right _ _)
              simp only [List.cons_append, renderBlocks, e1, e2, List.append_assoc]
            | raise e => simp at ha
            | ret v => simp at ha
            | oom => simp at ha
        | raise e => simp at ha
        | ret v => simp at ha
        | oom => simp at ha

/-- joining text pieces is concatenation: the text of `ps ++ qs` is the text of `ps` followed by the text of `qs` -/
theorem decodeAll_append (env : Env) (ps qs : List Piece) :
    decodeAll env (ps ++ qs) = (decodeAll env ps).bind fun s => (decodeAll env qs).map fun t => s ++ t := by
  induction ps with
  | nil => simp [decodeAll]
  | cons p t ih =>
    cases p with
    | text s =>
      simp only [List.cons_append, decodeAll, ih]
      cases decodeAll env t <;> simp
      cases decodeAll env qs <;> simp
    | bytes b =>
      simp only [List.cons_append, decodeAll, ih]
      cases decodeBytes env b <;> cases decodeAll env t <;> simp
      cases decodeAll env qs <;> simp

end Compose

/-- the first literal of a source is never touched -/
theorem adj_false (l : Text) : adj false l = l := rfl

/-! ### The scanner of the model is the scanner of the source

`GenScan.candidateGen` / `GenScan.searchGen` are regenerated on every run by translating `dtml_re_class.search` in /repo
statement by statement (harness/trans_scan.py: the branches over the opening marker, the inner loop over `>` with the
quote-parity test, the entity branch, `name_match` and the cutting of name and arguments, the outer loop over
`start_search`).  They compute `Scan.candidate` / `Scan.scanHtml`, the functions every theorem above (and the token
theorems of C06 / C07) is stated about - for every text, at every offset. -/

/-- what stands at offset `s`: the translated loop body is the model's `candidate` on the text from `s` on -/
theorem gen_html_scanner_candidate_is_model (text : Text) (s : Nat) :
    GenScan.candidateGen text (s : Int) = candidate (text.drop s) :=
  Lemmas.ScanGen.candidateGen_eq text s

/-- one `search(text, start)`: the translated loop finds the tag `scanHtml` finds in the text from `start` on, at the
offset `start +` the length of the literal before it (`len(text) + 1` rounds always suffice) -/
theorem gen_html_scanner_search_is_model (text : Text) (start : Nat) :
    GenScan.searchGen text (text.length + 1) start =
      (scanHtml (text.drop start)).map (fun r => (start + r.1.length, r.2.1)) :=
  Lemmas.ScanGen.searchGen_eq text (text.length + 1) start (by omega)


/-! #### the main loop of `render_blocks_` as translated from the source on every run (DTML/GenJoin.lean)

`GenJoin.blockStepGen` is one round of `for block in blocks:` - the dispatch on the kind of block (text as it is; a tuple
with a str head to the `'v'` / `'i'` branches, which GenRender translates; anything else called with the namespace) and
`if append and block: rendered.append(block)`.  It is proved equal to what `renderBlk` / `renderBlocks` of the model do
with such a block: the pieces the block contributes are appended to the pieces collected so far. -/

section BlockLoop
open DTML.Render DTML.GenJoin

/-- `rendered` after a round whose block contributes `r` -/
def appendTo (rendered : List Piece) (r : Res (List Piece) × St) : Res (List Piece) × St :=
  match r with
  | (.ok ps, st) => (.ok (rendered ++ ps), st)
  | r => r

/-- **a text block is appended as it is** (an empty one not at all): `renderBlk` on `.lit` -/
theorem gen_block_step_literal (env : Env) (fuel : Nat) (vB : St → Res Piece × St)
    (iB : List Piece → St → Res (List Piece) × St) (s : Render.Text) (rendered : List Piece) (st : St) :
    blockStepGen vB iB (.str s) rendered st = appendTo rendered (renderBlk env (fuel + 1) (.lit s) st) := by
  rw [lit_verbatim]
  cases s with
  | nil => simp [blockStepGen, isTuple, isStr, blockTruthy, appendTo]
  | cons c t => simp [blockStepGen, isTuple, isStr, blockTruthy, appendTo, appendBlock]

/-- a bytes block is appended as it is too (no template of the model contains one; the dispatch of the source treats
it as text: `isinstance(block, (str, bytes))`) -/
theorem gen_block_step_bytes (vB : St → Res Piece × St) (iB : List Piece → St → Res (List Piece) × St)
    (b : List Nat) (rendered : List Piece) (st : St) :
    blockStepGen vB iB (.bytes b) rendered st = (.ok (rendered ++ if b.isEmpty then [] else [.bytes b]), st) := by
  cases b with
  | nil => simp [blockStepGen, isTuple, isStr, isBytesBlock, blockTruthy]
  | cons c t => simp [blockStepGen, isTuple, isStr, isBytesBlock, blockTruthy, appendBlock]

/-- **any other block is called with the namespace and its result appended unless it is empty** (`oneRes`: what the model
does with the result of a tag object), exceptions and DTReturn pass through -/
theorem gen_block_step_called (vB : St → Res Piece × St) (iB : List Piece → St → Res (List Piece) × St)
    (render : St → Res Piece × St) (rendered : List Piece) (st : St) :
    blockStepGen vB iB (.obj render) rendered st = appendTo rendered (oneRes (render st)) := by
  simp only [blockStepGen, isTuple, isStr, isBytesBlock, callBlock, Bool.false_eq_true, false_and, or_self,
    not_false_eq_true, if_true, if_false]
  rcases hr : render st with ⟨r, st1⟩
  cases r with
  | ok p =>
    cases p with
    | text s => cases s <;> simp [oneRes, appendTo, ofPiece, blockTruthy, appendBlock, pieceEmpty]
    | bytes b => cases b <;> simp [oneRes, appendTo, ofPiece, blockTruthy, appendBlock, pieceEmpty]
  | raise e => rfl
  | ret v => rfl
  | oom => rfl

/-- e.g. a comment tag (its `render` returns `''`): `renderBlk` on `.comment` -/
theorem gen_block_step_comment (env : Env) (fuel : Nat) (vB : St → Res Piece × St)
    (iB : List Piece → St → Res (List Piece) × St) (rendered : List Piece) (st : St) :
    blockStepGen vB iB (.obj fun st => (.ok (.text []), st)) rendered st =
      appendTo rendered (renderBlk env (fuel + 1) .comment st) := by
  rw [gen_block_step_called]
  simp [oneRes, pieceEmpty, renderBlk]

/-- a tuple whose code begins with `v` goes to the `'v'` branch: the value it leaves is appended unless empty -/
theorem gen_block_step_var (vB : St → Res Piece × St) (iB : List Piece → St → Res (List Piece) × St)
    (code : Render.Text) (n : Nat) (rendered : List Piece) (st : St) :
    blockStepGen vB iB (.tuple (some ('v' :: code)) (n + 2)) rendered st = appendTo rendered (oneRes (vB st)) := by
  have hn : n + 2 > 1 := by omega
  simp only [blockStepGen, isTuple, blockLen, headIsStr, headChar, hn, and_self, if_true]
  rcases hr : vB st with ⟨r, st1⟩
  cases r with
  | ok p =>
    cases p with
    | text s => cases s <;> simp [oneRes, appendTo, ofPiece, blockTruthy, appendBlock, pieceEmpty]
    | bytes b => cases b <;> simp [oneRes, appendTo, ofPiece, blockTruthy, appendBlock, pieceEmpty]
  | raise e => rfl
  | ret v => rfl
  | oom => rfl

/-- a tuple whose code begins with `i` goes to the `'i'` branch, which appends what it renders itself; nothing is
appended after it (`append = False`) -/
theorem gen_block_step_if (vB : St → Res Piece × St) (iB : List Piece → St → Res (List Piece) × St)
    (code : Render.Text) (n : Nat) (rendered : List Piece) (st : St) :
    blockStepGen vB iB (.tuple (some ('i' :: code)) (n + 2)) rendered st = iB rendered st := by
  have hn : n + 2 > 1 := by omega
  have hc : ¬ ('i' = 'v') := by decide
  simp only [blockStepGen, isTuple, blockLen, headIsStr, headChar, hn, hc, and_self, if_true, if_false]
  rcases hr : iB rendered st with ⟨r, st1⟩
  cases r <;> simp

/-- any other command code is an error -/
theorem gen_block_step_invalid_code (vB : St → Res Piece × St) (iB : List Piece → St → Res (List Piece) × St)
    (c : Char) (code : Render.Text) (n : Nat) (rendered : List Piece) (st : St) (hv : c ≠ 'v') (hi : c ≠ 'i') :
    blockStepGen vB iB (.tuple (some (c :: code)) (n + 2)) rendered st = (.raise ⟨"ValueError".toList, []⟩, st) := by
  have hn : n + 2 > 1 := by omega
  simp only [blockStepGen, isTuple, blockLen, headIsStr, headChar, hn, hv, hi, and_self, if_true, if_false]

/-- **one unfolding of the block loop**: if the round for the first block does what `renderBlk` does with the model's block
and the rest of the loop what `renderBlocks` does with the rest, then the loop does what `renderBlocks` does with all of
them - the pieces come out in the order of the blocks, appended to those collected before -/
theorem gen_block_loop_unfold (env : Env) (fuel : Nat) (step : PyBlock → List Piece → St → Res (List Piece) × St)
    (pb : PyBlock) (pbs : List PyBlock) (b : Blk) (bs : List Blk)
    (hb : ∀ rendered st, step pb rendered st = appendTo rendered (renderBlk env fuel b st))
    (hrest : ∀ rendered st, blocksLoopGen step pbs rendered st = appendTo rendered (renderBlocks env fuel bs st))
    (rendered : List Piece) (st : St) :
    blocksLoopGen step (pb :: pbs) rendered st = appendTo rendered (renderBlocks env (fuel + 1) (b :: bs) st) := by
  simp only [blocksLoopGen, renderBlocks, hb]
  rcases h1 : renderBlk env fuel b st with ⟨r, st1⟩
  cases r with
  | ok ps =>
    simp only [appendTo, hrest]
    rcases h2 : renderBlocks env fuel bs st1 with ⟨r2, st2⟩
    cases r2 <;> simp
  | raise e => rfl
  | ret v => rfl
  | oom => rfl

/-- the empty loop collects nothing more -/
theorem gen_block_loop_nil (env : Env) (fuel : Nat) (step : PyBlock → List Piece → St → Res (List Piece) × St)
    (rendered : List Piece) (st : St) :
    blocksLoopGen step [] rendered st = appendTo rendered (renderBlocks env (fuel + 1) [] st) := by
  simp [blocksLoopGen, renderBlocks, appendTo]
end BlockLoop


/-! #### the main loop of `String.parse` as translated from the source on every run (DTML/GenParseLoop.lean)

`GenParseLoop.bodyGen` is one round of `while mo:` (`l_ = mo.start(0)`, `_parseTag`, `s = text[start:l_]`,
`if s: result.append(s)`, `start = l_ + len(tag)`, block tag -> `parse_block` / simple tag -> `command(args)`,
`simple_form`, `result.append(r)`), `loopGen` the loop with the next `tagre.search(text, start)`, `epilogueGen` the
statements after it - all read off the source by harness/trans_parseloop.py, with the scanner, `_parseTag`,
`parse_block` and the commands as parameters. -/

section ParseLoop
open DTML.GenParseLoop DTML.Lemmas.ParseLoop
variable {M A C R E : Type}

/-- one round of the loop is the model's `parseStep` -/
theorem gen_parse_body_is_model (P : Params M A C R E) (text : Text) (start : Nat) (result : List (Item R)) (mo : M) :
    bodyGen P text start result mo = parseStep P text start result mo := by
  unfold bodyGen parseStep appendLit
  rfl

/-- the statements after the loop: `text = text[start:]; if text: result.append(text); return result` -/
theorem gen_parse_epilogue_is_model (text : Text) (start : Nat) (result : List (Item R)) :
    (epilogueGen text start result : Except E (List (Item R))) = .ok (appendLit result (text.drop start)) := by
  unfold epilogueGen appendLit pyFrom
  rfl

/-- the whole loop, for every fuel: the search at the end of the body is `tagre.search(text, start)` on the new start -/
theorem gen_parse_loop_is_model (P : Params M A C R E) (text : Text) :
    ∀ (fuel start : Nat) (result : List (Item R)) (mo : Option M),
      loopGen P text fuel start result mo = parseLoop P text fuel start result mo := by
  intro fuel
  induction fuel with
  | zero => intro start result mo; simp only [loopGen, parseLoop, gen_parse_epilogue_is_model]
  | succ n ih =>
    intro start result mo
    cases mo with
    | none => simp only [loopGen, parseLoop, gen_parse_epilogue_is_model]
    | some m =>
      simp only [loopGen, parseLoop, gen_parse_body_is_model]
      cases parseStep P text start result m with
      | error e => rfl
      | ok v => obtain ⟨s, r⟩ := v; simp only [ih, nextGen]

/-- `String.parse(text, start, result)` = the model's loop entered with the first `tagre.search(text, start)` -/
theorem gen_parse_is_model (P : Params M A C R E) (text : Text) (start : Nat) (result : List (Item R)) (fuel : Nat) :
    parseGen P text start result fuel = parseLoop P text fuel start result (P.search text start) := by
  unfold parseGen
  exact gen_parse_loop_is_model P text fuel start result _

/-- **Literal text is carried over verbatim by the main loop of `String.parse`** (the source's own statements, for any
scanner, `_parseTag`, `parse_block` and commands): if the scanner's matches lie at or after `start`, the tag text is
what stands at the match, and `parse_block` only appends and does not go backwards (`Sound`), then a parse that ends
without a ParseError has appended exactly `segItems segs tail` for a list of segments (literal, tag text, what
`parse_block` consumed, the tag's items) that tile the text from `start` on: `segText segs tail = text[start:]`.
So every literal appended is the slice between the end of one tag (or block) and the start of the next, none is
empty (`litItems`), nothing is lost or duplicated; a simple tag consumes its own text only (`SimpleOk`: `start = l_ + len(tag)`)
and contributes one compiled item.  Holds for every fuel. -/
theorem gen_parse_literals_verbatim (P : Params M A C R E) (text : Text) (hP : Sound P text)
    (start : Nat) (result : List (Item R)) (fuel : Nat) (out : List (Item R))
    (h : parseGen P text start result fuel = .ok out) :
    ∃ (segs : List (Seg R)) (tail : Text), (∀ s ∈ segs, SimpleOk s) ∧
      out = result ++ segItems segs tail ∧ segText segs tail = text.drop start := by
  rw [gen_parse_is_model] at h
  obtain ⟨segs, tail, h1, h2, h3⟩ := parseLoop_segments P text hP fuel start result _ out
    (fun m hm => ⟨hP.search_ge _ _ hm, _, hm⟩) h
  exact ⟨segs, tail, h1, h2, h3.symm⟩

/-- the model's scanner and tags as parameters of the loop: a match is (offset, token), every tag is a simple tag whose
compiled form is the token itself -/
def modelParams (syn : Syntax) : Params (Nat × Tok) Tok Unit Tok Unit where
  search text start := (scan syn (text.drop start)).map (fun r => (start + r.1.length, r.2.1))
  moStart m := m.1
  parseTag m := .ok (m.2.text, m.2, (), [])
  hasBlockContinuations _ := false
  parseBlock _ s r _ _ _ _ := .ok (s, r)
  isVar _ := false
  callVar _ a _ := .ok a
  call _ a := .ok a
  hasSimpleForm _ := false
  simpleForm r := r
  errorAt e _ _ := e
  errorIn e _ _ _ := e

/-- the items the model's token list stands for -/
def tokItems (t : List (Text × Tok) × Text) : List (Item Tok) :=
  t.1.flatMap (fun p => litItems p.1 ++ [.node p.2]) ++ litItems t.2

theorem parseLoop_tokens (syn : Syntax) (text : Text) : ∀ (fuel start : Nat) (result : List (Item Tok)),
    parseLoop (modelParams syn) text fuel start result ((modelParams syn).search text start) =
      .ok (result ++ tokItems (tokensAux syn fuel (text.drop start))) := by
  intro fuel
  induction fuel with
  | zero => intro start result; simp [parseLoop, tokensAux, tokItems, appendLit_eq]
  | succ n ih =>
    intro start result
    cases hs : scan syn (text.drop start) with
    | none => simp [parseLoop, tokensAux, tokItems, appendLit_eq, modelParams, hs]
    | some v =>
      obtain ⟨lit, tk, rest⟩ := v
      have hrec := scan_reconstruct syn _ lit rest tk hs
      have hlit : pySlice text start (start + lit.length) = lit := by
        simp only [pySlice, Nat.add_sub_cancel_left, ← hrec, List.append_assoc, List.take_left']
      have hrest : text.drop (start + lit.length + tk.text.length) = rest := by
        rw [← List.drop_drop, ← List.drop_drop, ← hrec, List.append_assoc, List.drop_left, List.drop_left]
      have hsearch : (modelParams syn).search text start = some (start + lit.length, tk) := by
        simp [modelParams, hs]
      rw [hsearch]
      have hstep : parseStep (modelParams syn) text start result (start + lit.length, tk) =
          .ok (start + lit.length + tk.text.length, result ++ litItems lit ++ [.node tk]) := by
        simp [parseStep, modelParams, hlit, appendLit_eq]
      simp only [parseLoop, hstep, ih, hrest, tokensAux, hs, tokItems, List.flatMap_cons, List.append_assoc]

/-- **The loop of the source, run with the model's scanner, is the model's tokeniser**: on a source all of whose tags
are simple tags, `String.parse` appends exactly the literals (the non-empty ones) and tags of `Scan.tokens` - the
list `Parse.buildAux` consumes -, in order, and the trailing literal. -/
theorem gen_parse_is_tokens (syn : Syntax) (text : Text) :
    parseGen (modelParams syn) text 0 [] (text.length + 1) = .ok (tokItems (tokens syn text)) := by
  rw [gen_parse_is_model, parseLoop_tokens]
  simp [tokens]

/-- non-vacuity of `Sound`: the model's scanner with simple tags satisfies it, for every text -/
theorem modelParams_sound (syn : Syntax) (text : Text) : Sound (modelParams syn) text where
  search_ge := by
    intro start mo h
    simp only [modelParams, Option.map_eq_some_iff] at h
    obtain ⟨r, _, rfl⟩ := h
    exact Nat.le_add_right _ _
  tag_at := by
    intro start mo tag a c co hs h
    simp only [modelParams, Option.map_eq_some_iff] at hs
    obtain ⟨⟨lit, tk, rest⟩, hscan, rfl⟩ := hs
    simp only [modelParams, Except.ok.injEq, Prod.mk.injEq] at h
    have hrec := scan_reconstruct syn _ lit rest tk hscan
    refine ⟨rest, ?_⟩
    rw [← h.1]
    show tk.text ++ rest = List.drop (start + lit.length) text
    rw [← List.drop_drop, ← hrec, List.append_assoc, List.drop_left]
  block_mono := by
    intro start result tag l a c start' result' h
    simp only [modelParams, Except.ok.injEq, Prod.mk.injEq] at h
    exact ⟨by omega, [], by simp [h.2]⟩

end ParseLoop

end DTML.Props.C01
