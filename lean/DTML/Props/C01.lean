/-
C01 — Text outside tags is reproduced verbatim, in order, and rendering composes.
Part 1: the scanners and the tokeniser never drop, alter or duplicate text
(DTML/Scan.lean); the line-end skipping of block tags (DTML/Parse.lean).
-/
import DTML.Scan
import DTML.Parse
set_option linter.unusedVariables false
namespace DTML.Props.C01
open DTML.Scan DTML.Parse

/-- a tag found by the HTML scanner is a prefix of the text it was found at -/
theorem candidate_text (s : Text) (len : Nat) (tk : Tok) (h : candidate s = .tok len tk) :
    tk.text = s.take len := by
  unfold candidate at h
  simp (config := {zeta := true}) only at h
  repeat' split at h
  all_goals first
    | (cases h; done)
    | (cases h; rfl)

private theorem epfsFinish_text (s after name : Text) (nl a : Nat) (b : Bool) (e len : Nat) (tk : Tok)
    (h : epfsFinish s after name nl a b e = some (len, tk)) : tk.text = s.take len := by
  unfold epfsFinish at h
  split at h
  · split at h
    · simp only [Option.some.injEq, Prod.mk.injEq] at h
      obtain ⟨h1, h2⟩ := h
      subst h1; subst h2; rfl
    · cases h
  · cases h

theorem matchEpfs_text (s : Text) (len : Nat) (tk : Tok) (h : matchEpfs s = some (len, tk)) :
    tk.text = s.take len := by
  unfold matchEpfs at h
  simp (config := {zeta := true}) only at h
  split at h
  · cases h
  · split at h
    · exact epfsFinish_text _ _ _ _ _ _ _ _ _ h
    · split at h
      · rename_i r hr
        simp only [Option.some.injEq] at h
        subst h
        exact epfsFinish_text _ _ _ _ _ _ _ _ _ hr
      · split at h
        · exact epfsFinish_text _ _ _ _ _ _ _ _ _ h
        · cases h

/-- **One search step loses nothing**: the literal before the tag, the tag's own
text and the remaining text, concatenated, are the text searched. -/
theorem scanHtml_reconstruct : ∀ (s lit rest : Text) (tk : Tok),
    scanHtml s = some (lit, tk, rest) → lit ++ tk.text ++ rest = s := by
  intro s
  induction s with
  | nil => intro lit rest tk h; simp [scanHtml] at h
  | cons c t ih =>
    intro lit rest tk h
    unfold scanHtml at h
    split at h
    · split at h
      · rename_i len tk' hc
        simp only [Option.some.injEq, Prod.mk.injEq] at h
        obtain ⟨rfl, rfl, rfl⟩ := h
        rw [candidate_text _ _ _ hc]
        simp
      · cases h
      · cases hq : scanHtml t with
        | none => simp [hq] at h
        | some v =>
          obtain ⟨l, tk', r⟩ := v
          simp only [hq, Option.map_some, Option.some.injEq, Prod.mk.injEq] at h
          obtain ⟨rfl, rfl, rfl⟩ := h
          have := ih l r tk' hq
          simp only [List.cons_append]; rw [this]
    · cases hq : scanHtml t with
      | none => simp [hq] at h
      | some v =>
        obtain ⟨l, tk', r⟩ := v
        simp only [hq, Option.map_some, Option.some.injEq, Prod.mk.injEq] at h
        obtain ⟨rfl, rfl, rfl⟩ := h
        have := ih l r tk' hq
        simp only [List.cons_append]; rw [this]

theorem scanEpfs_reconstruct : ∀ (s lit rest : Text) (tk : Tok),
    scanEpfs s = some (lit, tk, rest) → lit ++ tk.text ++ rest = s := by
  intro s
  induction s with
  | nil => intro lit rest tk h; simp [scanEpfs] at h
  | cons c t ih =>
    intro lit rest tk h
    unfold scanEpfs at h
    split at h
    · split at h
      · rename_i len tk' hc
        simp only [Option.some.injEq, Prod.mk.injEq] at h
        obtain ⟨rfl, rfl, rfl⟩ := h
        rw [matchEpfs_text _ _ _ hc]
        simp
      · cases hq : scanEpfs t with
        | none => simp [hq] at h
        | some v =>
          obtain ⟨l, tk', r⟩ := v
          simp only [hq, Option.map_some, Option.some.injEq, Prod.mk.injEq] at h
          obtain ⟨rfl, rfl, rfl⟩ := h
          have := ih l r tk' hq
          simp only [List.cons_append]; rw [this]
    · cases hq : scanEpfs t with
      | none => simp [hq] at h
      | some v =>
        obtain ⟨l, tk', r⟩ := v
        simp only [hq, Option.map_some, Option.some.injEq, Prod.mk.injEq] at h
        obtain ⟨rfl, rfl, rfl⟩ := h
        have := ih l r tk' hq
        simp only [List.cons_append]; rw [this]

theorem scan_reconstruct (syn : Syntax) (s lit rest : Text) (tk : Tok)
    (h : scan syn s = some (lit, tk, rest)) : lit ++ tk.text ++ rest = s := by
  cases syn
  · exact scanHtml_reconstruct s lit rest tk h
  · exact scanEpfs_reconstruct s lit rest tk h

/-- the text a token list stands for: literals and tag texts in order, then the tail -/
def flatten (ps : List (Text × Tok)) (tl : Text) : Text :=
  (ps.flatMap fun (l, t) => l ++ t.text) ++ tl

/-- **The tokeniser is lossless**: the literals and the tags' own texts, in order,
followed by the trailing literal, are exactly the source — whatever the source is.
Nothing is dropped, altered, duplicated or reordered, and every tag text is the
slice of the source it was found at. -/
theorem tokens_reconstruct (syn : Syntax) : ∀ (fuel : Nat) (s : Text),
    flatten (tokensAux syn fuel s).1 (tokensAux syn fuel s).2 = s := by
  intro fuel
  induction fuel with
  | zero => intro s; simp [tokensAux, flatten]
  | succ n ih =>
    intro s
    simp only [tokensAux]
    cases hs : scan syn s with
    | none => simp [flatten]
    | some v =>
      obtain ⟨lit, tk, rest⟩ := v
      simp only
      have h1 := scan_reconstruct syn s lit rest tk hs
      have h2 := ih rest
      simp only [flatten, List.flatMap_cons] at h2 ⊢
      rw [List.append_assoc, h2, ← h1]

theorem tokens_lossless (syn : Syntax) (src : Text) :
    flatten (tokens syn src).1 (tokens syn src).2 = src := tokens_reconstruct syn _ src

private theorem all_takeWhile (p : Char → Bool) : ∀ (l : Text) (c : Char), c ∈ l.takeWhile p → p c = true := by
  intro l
  induction l with
  | nil => intro c h; simp at h
  | cons a t ih =>
    intro c h
    simp only [List.takeWhile] at h
    split at h
    · rcases List.mem_cons.mp h with rfl | h
      · assumption
      · exact ih c h
    · simp at h

/-- `skip_eol` removes nothing but one run of blanks and tabs ending in a newline
(or nothing at all) -/
theorem skipEol_spec (s : Text) :
    ∃ d, s = d ++ skipEol s ∧
      (d = [] ∨ ∃ b, d = b ++ ['\n'] ∧ ∀ c ∈ b, c = ' ' ∨ c = '\t') := by
  unfold skipEol
  simp (config := {zeta := true}) only
  split
  · rename_i t ht
    refine ⟨s.takeWhile (fun c => c = ' ' || c = '\t') ++ ['\n'], ?_, Or.inr ⟨_, rfl, ?_⟩⟩
    · have := List.takeWhile_append_dropWhile (p := fun c => decide (c = ' ') || decide (c = '\t')) (l := s)
      rw [ht] at this
      simp only [List.append_assoc, List.singleton_append]
      exact this.symm
    · intro c hc
      have := all_takeWhile _ _ c hc
      simpa using this
  · exact ⟨[], rfl, Or.inl rfl⟩

/-- **A source without tags compiles to itself**: when the scanner finds no tag, the
compiled template is the single literal `src` (nothing for the empty source). -/
theorem tagfree_identity (syn : Syntax) (src : Text) (h : scan syn src = none) :
    ∃ out, compile syn src = .ok out ∧
      (match out.nodes with
       | [] => src = []
       | [.lit s] => s = src
       | _ => False) ∧ out.exprs = [] := by
  have ht : tokens syn src = ([], src) := by
    simp [tokens, tokensAux, h]
  unfold compile
  rw [ht]
  simp only [buildAux, Bool.false_eq_true, if_false]
  refine ⟨_, rfl, ?_, rfl⟩
  cases src with
  | nil => simp [litNode]
  | cons c t => simp [litNode]

end DTML.Props.C01
