/-
C14 — try/except/else/finally, raise and return follow Python-like control flow.
Model: DTML/Render.lean (`Blk.try_`, `Blk.tryFin`, `Blk.raise_`, `Blk.ret`, `findHandler`,
`matchBase`, `callSub`, `topCall`).  All statements hold for every program, namespace,
class table, fault plan and fuel.
-/
import DTML.Render
import DTML.Props.C08
import DTML.GenRender
import DTML.GenRaise
set_option linter.unusedVariables false
namespace DTML.Props.C14
open DTML.Render

/-! #### which handler -/

/-- `name` names the class `cls` itself, is the bare handler, or names a (transitive) base -/
def handles (env : Env) (cls name : Text) : Bool :=
  name == cls || name.isEmpty || matchBase env 16 cls name

/-- **Only the first matching handler is chosen**: `findHandler` returns the body of a handler
iff the list splits into handlers that do not match, that handler, and the rest. -/
theorem handler_selected (env : Env) (hs : List (Text × List Blk)) (cls : Text) (h : List Blk) :
    findHandler env hs cls = some h ↔
      ∃ pre name post, hs = pre ++ (name, h) :: post ∧ handles env cls name = true ∧
        ∀ p ∈ pre, handles env cls p.1 = false := by
  unfold findHandler
  constructor
  · intro hf
    cases hfind : hs.find? (fun h => h.1 == cls || h.1.isEmpty || matchBase env 16 cls h.1) with
    | none => rw [hfind] at hf; cases hf
    | some x =>
      rw [hfind] at hf
      simp only [Option.map_some, Option.some.injEq] at hf
      obtain ⟨pre, post, hsplit, hpre⟩ := List.find?_eq_some_iff_append.mp hfind |>.2
      obtain ⟨n, b⟩ := x
      simp only at hf; subst hf
      refine ⟨pre, n, post, hsplit, ?_, ?_⟩
      · exact (List.find?_eq_some_iff_append.mp hfind).1
      · intro p hp
        have := hpre p hp
        simpa [handles] using this
  · rintro ⟨pre, name, post, rfl, hm, hpre⟩
    have : (pre ++ (name, h) :: post).find? (fun h => h.1 == cls || h.1.isEmpty || matchBase env 16 cls h.1)
        = some (name, h) := by
      rw [List.find?_eq_some_iff_append]
      refine ⟨hm, pre, post, rfl, ?_⟩
      intro p hp
      have := hpre p hp
      simpa [handles] using this
    rw [this]; rfl

/-- no handler matches iff none of them names the class, a base of it, or is bare -/
theorem no_handler_iff (env : Env) (hs : List (Text × List Blk)) (cls : Text) :
    findHandler env hs cls = none ↔ ∀ p ∈ hs, handles env cls p.1 = false := by
  unfold findHandler
  rw [Option.map_eq_none_iff, List.find?_eq_none]
  constructor
  · intro h p hp; have := h p hp; simpa [handles] using this
  · intro h p hp; have := h p hp; simpa [handles] using this

/-- the class table's base relation, transitively: `name` is a proper ancestor of `cls` -/
inductive IsBase (env : Env) : Text → Text → Prop where
  | direct {cls name : Text} {bases : List Text} :
      env.classes.lookup cls = some bases → name ∈ bases → IsBase env cls name
  | step {cls mid name : Text} {bases : List Text} :
      env.classes.lookup cls = some bases → mid ∈ bases → IsBase env mid name → IsBase env cls name

/-- `match_base` only ever answers yes for a genuine ancestor -/
theorem matchBase_sound (env : Env) : ∀ (fuel : Nat) (cls name : Text),
    matchBase env fuel cls name = true → IsBase env cls name := by
  intro fuel
  induction fuel with
  | zero => intro cls name h; simp [matchBase] at h
  | succ n ih =>
    intro cls name h
    unfold matchBase at h
    cases hl : env.classes.lookup cls with
    | none => rw [hl] at h; cases h
    | some bases =>
      rw [hl] at h
      simp only [List.any_eq_true, Bool.or_eq_true, beq_iff_eq] at h
      obtain ⟨b, hb, hor⟩ := h
      rcases hor with rfl | hrec
      · exact .direct hl hb
      · exact .step hl hb (ih b name hrec)

/-- ancestors reached through at most `n` inheritance steps -/
inductive IsBaseN (env : Env) : Nat → Text → Text → Prop where
  | direct {cls name : Text} {bases : List Text} {n : Nat} :
      env.classes.lookup cls = some bases → name ∈ bases → IsBaseN env (n + 1) cls name
  | step {cls mid name : Text} {bases : List Text} {n : Nat} :
      env.classes.lookup cls = some bases → mid ∈ bases → IsBaseN env n mid name → IsBaseN env (n + 1) cls name

/-- … and answers yes for every ancestor within its depth (16 levels of inheritance) -/
theorem matchBase_complete (env : Env) : ∀ (n : Nat) (cls name : Text),
    IsBaseN env n cls name → matchBase env n cls name = true := by
  intro n cls name h
  induction h with
  | direct hl hb =>
    unfold matchBase; rw [hl]
    simp only [List.any_eq_true, Bool.or_eq_true, beq_iff_eq]
    exact ⟨_, hb, Or.inl rfl⟩
  | step hl hb _ ih =>
    unfold matchBase; rw [hl]
    simp only [List.any_eq_true, Bool.or_eq_true, beq_iff_eq]
    exact ⟨_, hb, Or.inr ih⟩

/-! #### try / except / else -/

/-- what the handler sees: error_type / error_value / error_tb, as an instance frame -/
def errorFrame (ex : Exc) : Frame :=
  let internal := ["TypeError", "AttributeError", "NameError", "IndexError", "UnicodeDecodeError", "Unauthorized"].map String.toList
  let msg := if internal.contains ex.cls then [Char.ofNat 0xFFFF] else ex.msg
  .inst (.obj 0 [("error_type".toList, .str ex.cls), ("error_value".toList, .exc ex.cls msg),
                 ("error_tb".toList, .str "traceback".toList)]) []

/-- **The body raised nothing**: its output is kept; the else body (when there is one) is
rendered and appended; the handlers play no part whatever they are. -/
theorem try_no_exception (env : Env) (fuel : Nat) (body : List Blk) (hs : List (Text × List Blk))
    (els : Option (List Blk)) (st st1 : St) (p : Piece)
    (h : renderJoined env fuel body st = (.ok p, st1)) :
    renderBlk env (fuel + 1) (.try_ body hs els) st =
      match els with
      | none => (.ok (if pieceEmpty p then [] else [p]), st1)
      | some e =>
        (match renderJoined env fuel e st1 with
         | (.ok q, st2) => join2 env p q st2
         | (.raise x, st2) => (.raise x, st2)
         | (.ret x, st2) => (.ret x, st2)
         | (.oom, st2) => (.oom, st2)) := by
  unfold renderBlk
  simp only [h]
  cases els <;> rfl

/-- **Exceptions raised inside the else body propagate** — they are not offered to the handlers -/
theorem else_exception_propagates (env : Env) (fuel : Nat) (body e : List Blk) (hs : List (Text × List Blk))
    (st st1 st2 : St) (p : Piece) (x : Exc)
    (h : renderJoined env fuel body st = (.ok p, st1))
    (he : renderJoined env fuel e st1 = (.raise x, st2)) :
    renderBlk env (fuel + 1) (.try_ body hs (some e)) st = (.raise x, st2) := by
  rw [try_no_exception env fuel body hs (some e) st st1 p h]
  simp only [he]

/-- **An unmatched exception propagates**; neither a handler nor the else body is rendered -/
theorem unmatched_propagates (env : Env) (fuel : Nat) (body : List Blk) (hs : List (Text × List Blk))
    (els : Option (List Blk)) (st st1 : St) (ex : Exc)
    (h : renderJoined env fuel body st = (.raise ex, st1))
    (hn : findHandler env hs ex.cls = none) :
    renderBlk env (fuel + 1) (.try_ body hs els) st = (.raise ex, st1) := by
  unfold renderBlk
  simp only [h, hn]

/-- **A matched exception renders exactly the selected handler**, inside a frame binding
error_type / error_value / error_tb that is pushed for the handler only; the handler's output
is the tag's whole output (the body's partial output is gone), and the else body is not rendered. -/
theorem handler_rendered (env : Env) (fuel : Nat) (body hb : List Blk) (hs : List (Text × List Blk))
    (els : Option (List Blk)) (st st1 : St) (ex : Exc)
    (h : renderJoined env fuel body st = (.raise ex, st1))
    (hf : findHandler env hs ex.cls = some hb) :
    renderBlk env (fuel + 1) (.try_ body hs els) st = oneRes (framed env fuel (errorFrame ex) hb st1) := by
  unfold renderBlk
  simp only [h, hf]
  rfl

/-- the else body is irrelevant once the body raised: **else only without an exception** -/
theorem else_only_without_exception (env : Env) (fuel : Nat) (body : List Blk) (hs : List (Text × List Blk))
    (els els' : Option (List Blk)) (st st1 : St) (ex : Exc)
    (h : renderJoined env fuel body st = (.raise ex, st1)) :
    renderBlk env (fuel + 1) (.try_ body hs els) st = renderBlk env (fuel + 1) (.try_ body hs els') st := by
  unfold renderBlk
  simp only [h]

/-- **Exceptions raised inside a handler propagate** (no second handler is tried) -/
theorem handler_exception_propagates (env : Env) (fuel : Nat) (body hb : List Blk) (hs : List (Text × List Blk))
    (els : Option (List Blk)) (st st1 st2 : St) (ex x : Exc)
    (h : renderJoined env fuel body st = (.raise ex, st1))
    (hf : findHandler env hs ex.cls = some hb)
    (hh : framed env fuel (errorFrame ex) hb st1 = (.raise x, st2)) :
    renderBlk env (fuel + 1) (.try_ body hs els) st = (.raise x, st2) := by
  rw [handler_rendered env fuel body hb hs els st st1 ex h hf, hh]; rfl

/-- inside the handler `error_type` is the class name and `error_value` the exception -/
theorem handler_bindings (env : Env) (ex : Exc) (tr : List Event) (hg : env.guardOn = false) :
    (match frameGet env (errorFrame ex) "error_type".toList tr with
     | (.val v _, tr') => v = .str ex.cls ∧ tr' = tr
     | _ => False) ∧
    (match frameGet env (errorFrame ex) "error_value".toList tr with
     | (.val (.exc c _) _, tr') => c = ex.cls ∧ tr' = tr
     | _ => False) := by
  constructor
  · simp [errorFrame, frameGet, hg, List.lookup]
  · simp [errorFrame, frameGet, hg, List.lookup]

/-- … **and only there**: when the tag is done the namespace is what it was (C08), so the
bindings are gone -/
theorem handler_bindings_scoped (env : Env) (fuel : Nat) (body : List Blk) (hs : List (Text × List Blk))
    (els : Option (List Blk)) (st : St) :
    (renderBlk env fuel (.try_ body hs els) st).2.stack.map C08.erase = st.stack.map C08.erase :=
  (C08.block_preserves_stack env fuel (.try_ body hs els) st).1

/-! #### dtml-return is not an exception a handler can catch -/

/-- **dtml-return passes through try/except**: no handler (not even a bare one) sees it -/
theorem return_not_caught (env : Env) (fuel : Nat) (body : List Blk) (hs : List (Text × List Blk))
    (els : Option (List Blk)) (st st1 : St) (v : Val)
    (h : renderJoined env fuel body st = (.ret v, st1)) :
    renderBlk env (fuel + 1) (.try_ body hs els) st = (.ret v, st1) := by
  unfold renderBlk
  simp only [h]

/-- a return ends the rendering of the enclosing block list at once -/
theorem return_stops_blocks (env : Env) (fuel : Nat) (b : Blk) (rest : List Blk) (st st1 : St) (v : Val)
    (h : renderBlk env fuel b st = (.ret v, st1)) :
    renderBlocks env (fuel + 1) (b :: rest) st = (.ret v, st1) := by
  simp only [renderBlocks, h]

theorem return_after_output (env : Env) (fuel : Nat) (b : Blk) (rest : List Blk) (st st1 st2 : St)
    (ps : List Piece) (v : Val)
    (h : renderBlk env fuel b st = (.ok ps, st1))
    (hr : renderBlocks env fuel rest st1 = (.ret v, st2)) :
    renderBlocks env (fuel + 1) (b :: rest) st = (.ret v, st2) := by
  simp only [renderBlocks, h, hr]

/-- joined bodies pass a return on unchanged -/
theorem return_through_join (env : Env) (fuel : Nat) (body : List Blk) (st st1 : St) (v : Val)
    (h : renderBlocks env fuel body st = (.ret v, st1)) :
    renderJoined env (fuel + 1) body st = (.ret v, st1) := by
  simp only [renderJoined, h, joinRes]

theorem return_through_frame (env : Env) (fuel : Nat) (f : Frame) (body : List Blk) (st st1 : St) (v : Val)
    (h : renderBlocks env fuel body { st with stack := f :: st.stack } = (.ret v, st1)) :
    framed env (fuel + 2) f body st = (.ret v, { st1 with stack := st1.stack.drop 1 }) := by
  simp only [framed, withFrame, h, joinRes]

/-- **dtml-return inside a dtml-raise body** ends the call too (it is not turned into an error) -/
theorem return_through_raise (env : Env) (fuel : Nat) (cls c : Text) (ce : Option Expr) (body : List Blk)
    (st st0 st1 : St) (v : Val)
    (hc : raiseClass env fuel cls ce st = (some c, st0))
    (h : renderJoined env fuel body st0 = (.ret v, st1)) :
    renderBlk env (fuel + 1) (.raise_ cls ce body) st = (.ret v, st1) := by
  unfold renderBlk
  simp only [hc, h]

/-- **The enclosing template call returns the value**, of whatever type -/
theorem return_ends_call (env : Env) (fuel : Nat) (t : Template) (c : CallArgs) (st1 : St) (v : Val)
    (h : renderBlocks env fuel t.blocks { stack := callStack t c, level := 1 } = (.ret v, st1)) :
    topCall env fuel t c = (.ok v, st1) := by
  simp only [topCall, h]

/-- … and so does a template invoked by name (its caller goes on with the value) -/
theorem return_ends_subtemplate (env : Env) (fuel id : Nat) (t : Template) (st st2 : St) (v : Val)
    (ht : env.templates[id]? = some t) (hl : ¬ st.level > 200)
    (h : renderBlocks env fuel t.blocks
          { st with stack := (if t.vars.isEmpty then [] else [Frame.dict t.vars]) ++
                             (if t.globals.isEmpty then [] else [Frame.dict t.globals]) ++ st.stack,
                    level := st.level + 1 } = (.ret v, st2)) :
    (callSub env (fuel + 1) id st).1 = .ok v := by
  unfold callSub
  simp only [ht, hl, if_false, h]

/-! #### try / finally -/

/-- **The finally body is rendered exactly once, after the body, on every path**: whatever the
body's outcome — output, exception or return — the state after the tag is the state after
rendering the body and then the finally body once. -/
theorem finally_exactly_once (env : Env) (fuel : Nat) (body fin : List Blk) (st : St)
    (hb : (renderJoined env fuel body st).1 ≠ .oom) :
    (renderBlk env (fuel + 1) (.tryFin body fin) st).2 =
      (renderJoined env fuel fin (renderJoined env fuel body st).2).2 := by
  unfold renderBlk
  simp only
  generalize renderJoined env fuel body st = r1 at hb ⊢
  obtain ⟨r, st1⟩ := r1
  have key : (match renderJoined env fuel fin st1 with
      | (.ok q, st2) =>
        (match r with
         | .ok p => join2 env p q st2
         | .raise e => (.raise e, st2)
         | .ret v => (.ret v, st2)
         | .oom => (.oom, st2))
      | (.raise e, st2) => (.raise e, st2)
      | (.ret v, st2) => (.ret v, st2)
      | (.oom, st2) => (.oom, st2)).2 = (renderJoined env fuel fin st1).2 := by
    generalize renderJoined env fuel fin st1 = r2
    obtain ⟨q, st2⟩ := r2
    cases q with
    | ok q => cases r <;> simp [join2_snd]
    | raise e => rfl
    | ret v => rfl
    | oom => rfl
  cases r with
  | oom => exact (hb rfl).elim
  | ok p => exact key
  | raise e => exact key
  | ret v => exact key
where
  join2_snd (env : Env) (p q : Piece) (st : St) : (join2 env p q st).2 = st := by
    unfold join2; split <;> rfl

/-- **… after which the pending exception continues** -/
theorem finally_then_exception (env : Env) (fuel : Nat) (body fin : List Blk) (st st1 st2 : St) (ex : Exc) (q : Piece)
    (h : renderJoined env fuel body st = (.raise ex, st1))
    (hf : renderJoined env fuel fin st1 = (.ok q, st2)) :
    renderBlk env (fuel + 1) (.tryFin body fin) st = (.raise ex, st2) := by
  unfold renderBlk
  simp only [h, hf]

/-- **… or the pending return** -/
theorem finally_then_return (env : Env) (fuel : Nat) (body fin : List Blk) (st st1 st2 : St) (v : Val) (q : Piece)
    (h : renderJoined env fuel body st = (.ret v, st1))
    (hf : renderJoined env fuel fin st1 = (.ok q, st2)) :
    renderBlk env (fuel + 1) (.tryFin body fin) st = (.ret v, st2) := by
  unfold renderBlk
  simp only [h, hf]

/-- without an exception the finally output follows the body's -/
theorem finally_appended (env : Env) (fuel : Nat) (body fin : List Blk) (st st1 st2 : St) (p q : Piece)
    (h : renderJoined env fuel body st = (.ok p, st1))
    (hf : renderJoined env fuel fin st1 = (.ok q, st2)) :
    renderBlk env (fuel + 1) (.tryFin body fin) st = join2 env p q st2 := by
  unfold renderBlk
  simp only [h, hf]

/-- an exception (or return) of the finally body itself replaces the pending outcome -/
theorem finally_own_exception (env : Env) (fuel : Nat) (body fin : List Blk) (st st2 : St) (x : Exc)
    (hb : (renderJoined env fuel body st).1 ≠ .oom)
    (hf : renderJoined env fuel fin (renderJoined env fuel body st).2 = (.raise x, st2)) :
    renderBlk env (fuel + 1) (.tryFin body fin) st = (.raise x, st2) := by
  unfold renderBlk
  simp only
  generalize renderJoined env fuel body st = r1 at hf hb
  obtain ⟨r, st1⟩ := r1
  simp only at hf hb ⊢
  cases r with
  | oom => exact (hb rfl).elim
  | ok p => simp only [hf]
  | raise e => simp only [hf]
  | ret v => simp only [hf]

/-! #### dtml-raise -/

/-- **dtml-raise raises the named / computed class with the rendered body as its message** -/
theorem raise_raises (env : Env) (fuel : Nat) (cls c : Text) (ce : Option Expr) (body : List Blk)
    (st st0 st1 : St) (p : Piece)
    (hc : raiseClass env fuel cls ce st = (some c, st0))
    (h : renderJoined env fuel body st0 = (.ok p, st1)) :
    renderBlk env (fuel + 1) (.raise_ cls ce body) st = (.raise ⟨c, ustr (valOfPiece p)⟩, st1) := by
  unfold renderBlk
  simp only [hc, h]

/-- by name: a class of the table is raised as such, any other name gives RuntimeError -/
theorem raise_class_by_name (env : Env) (fuel : Nat) (cls : Text) (st : St) :
    raiseClass env (fuel + 1) cls none st =
      (some (if (env.classes.lookup cls).isSome then cls else "RuntimeError".toList), st) := by
  unfold raiseClass
  rfl

/-- by expression: the class the expression evaluates to -/
theorem raise_class_by_expr (env : Env) (fuel : Nat) (cls c m : Text) (e : Expr) (st st' : St)
    (h : evalExpr env fuel e st = (.ok (.exc c m), st')) :
    raiseClass env (fuel + 1) cls (some e) st = (some c, st') := by
  unfold raiseClass
  simp only [h]

/-- by an expression that raises: the class named like the tag's `__name__` (the text of the expression) when there is
one, else InvalidErrorTypeExpression -/
theorem raise_class_expr_raises (env : Env) (fuel : Nat) (cls : Text) (e : Expr) (st st' : St) (x : Exc)
    (h : evalExpr env fuel e st = (.raise x, st')) :
    raiseClass env (fuel + 1) cls (some e) st =
      (some (if (env.classes.lookup cls).isSome then cls else "InvalidErrorTypeExpression".toList), st') := by
  unfold raiseClass
  simp only [h]

/-! #### the hypotheses are satisfiable -/

section Example
private def classes : List (Text × List Text) :=
  [("E3".toList, ["E2".toList]), ("E2".toList, ["E1".toList]), ("E1".toList, ["Exception".toList]),
   ("KeyError".toList, ["LookupError".toList]), ("LookupError".toList, ["Exception".toList])]
private def env : Env := { classes := classes }
private def okPieces : Res (List Piece) → Option (List Piece)
  | .ok ps => some ps
  | _ => none

-- the general handler listed first wins over the more specific one listed second
set_option maxHeartbeats 2000000 in
example : okPieces (renderBlk env 50 (.try_ [.lit "body".toList, .raise_ "KeyError".toList none [.lit "k".toList]]
    [("ValueError".toList, [.lit "V".toList]), ("LookupError".toList, [.lit "L:".toList, .var (.name "error_type".toList) false none none]),
     ("KeyError".toList, [.lit "K".toList])] (some [.lit "ELSE".toList])) {}).1 =
    some [.text "L:KeyError".toList] := by decide +kernel

-- return inside try/except inside try/finally: not caught, finally rendered (its call is traced)
set_option maxHeartbeats 2000000 in
example : (topCall env 60 { blocks := [.lit "a".toList,
      .tryFin [.try_ [.ret (.expr (.lit (.int 5)))] [("".toList, [.lit "caught".toList])] none]
              [.call (.name "f".toList)]] }
      { kw := [("f".toList, .fn 1 .none)] }).2.trace = [.call 1] := by decide +kernel
end Example

/-! ### The handler search of the model is the one of the source

`GenRender.findHandlerGen` / `matchBaseGen` are regenerated on every run from `Try.find_handler` / `Try.match_base` in /repo
(the loop over the handlers with its three tests in the order of the source - the class's own name, the unnamed handler,
a base class - and `return None`; the loop over `__bases__` with the recursive test).  They compute `findHandler` /
`matchBase`, which `handler_selected`, `matchBase_sound` and `matchBase_complete` above are stated about. -/

theorem gen_match_base_is_model (env : Env) : ∀ (fuel : Nat) (cls name : Text),
    GenRender.matchBaseGen env fuel cls name = matchBase env fuel cls name := by
  intro fuel
  induction fuel with
  | zero => intro cls name; rfl
  | succ f ih =>
    intro cls name
    simp only [GenRender.matchBaseGen, matchBase]
    cases env.classes.lookup cls with
    | none => rfl
    | some bases =>
      simp only
      congr 1
      funext b
      rw [ih]

theorem gen_find_handler_is_model (env : Env) (cls : Text) : ∀ (hs : List (Text × List Blk)),
    GenRender.findHandlerGen env hs cls = findHandler env hs cls := by
  intro hs
  induction hs with
  | nil => rfl
  | cons p rest ih =>
    obtain ⟨e, h⟩ := p
    simp only [GenRender.findHandlerGen, findHandler, List.find?_cons, gen_match_base_is_model]
    by_cases hc : (e == cls || e.isEmpty || matchBase env 16 cls e) = true
    · simp [hc]
    · have hc' : (e == cls || e.isEmpty || matchBase env 16 cls e) = false := by simpa using hc
      simp only [hc', Bool.false_eq_true, if_false]
      rw [ih]
      rfl

private theorem pushedGen_eq' (env : Env) (fuel : Nat) (fr : Frame) (body : List Blk) (st : St) :
    GenRender.pushedGen env fuel fr body 1 st = framed env fuel fr body st := by
  cases fuel with
  | zero => rfl
  | succ f =>
    cases f with
    | zero => simp [GenRender.pushedGen, framed, withFrame, joinRes]
    | succ g => simp [GenRender.pushedGen, framed, withFrame]

/-- **dtml-try with handlers is `Try.render_try_except` of the source** (regenerated on every run: the body, `except
DTReturn: raise`, the handler `find_handler` selects rendered on top of the error namespace - whose names are read off the
`namespace(md, error_type=…, error_value=…, error_tb=…)` call - and popped in `finally`, the else block joined to the
body's output) -/
theorem gen_try_except_is_model (env : Env) (fuel : Nat) (body : List Blk) (handlers : List (Text × List Blk))
    (els : Option (List Blk)) (st : St) :
    GenRender.tryExceptGen env fuel body handlers els st = renderBlk env (fuel + 1) (.try_ body handlers els) st := by
  simp only [GenRender.tryExceptGen, renderBlk, gen_find_handler_is_model, pushedGen_eq']
  cases renderJoined env fuel body st with
  | mk r st1 =>
    cases r with
    | ok p =>
      cases els with
      | none => rfl
      | some e =>
        simp only
        cases renderJoined env fuel e st1 with
        | mk r2 st2 => cases r2 <;> rfl
    | raise ex =>
      simp only
      cases findHandler env handlers ex.cls <;> rfl
    | ret v => rfl
    | oom => rfl

/-- **dtml-try with a finally block is `Try.render_try_finally` of the source** -/
theorem gen_try_finally_is_model (env : Env) (fuel : Nat) (body fin : List Blk) (st : St) :
    GenRender.tryFinallyGen env fuel body fin st = renderBlk env (fuel + 1) (.tryFin body fin) st := by
  simp only [GenRender.tryFinallyGen, renderBlk]
  cases renderJoined env fuel body st with
  | mk r st1 =>
    cases r <;> simp only <;>
      (cases renderJoined env fuel fin st1 with
       | mk r2 st2 => cases r2 <;> rfl)

/-- **dtml-return is `ReturnTag.render` of the source** -/
theorem gen_return_is_model (env : Env) (fuel : Nat) (src : Src) (st : St) :
    GenRender.returnGen env fuel src st = renderBlk env (fuel + 1) (.ret src) st := by
  simp only [GenRender.returnGen, renderBlk]
  cases evalSrc env fuel src st with
  | mk r st' => cases r <;> rfl

/-! ### dtml-raise of the model is `Raise.render` of the source

`GenRaise.raiseGen` (with `raiseStage1Gen`: which class, `raiseStage2Gen`: which message) is regenerated on every run from
`Raise.render` in /repo, statement by statement (harness/trans_raise.py): `expr is None` -> `convertExceptionType(self.__name__)`
with the `RuntimeError` default, else `expr.eval(md)` inside `try … except Exception:` with the class of that name or
`InvalidErrorTypeExpression`; then the section with `except DTReturn: raise` / `except Exception: v = 'Invalid Error Value'`;
the test in front of `upgradeException`; `raise t(v)`.  It computes what the interpreter does on `Blk.raise_` - the case
`raise_raises`, `return_through_raise`, `raise_class_by_name` / `raise_class_by_expr` above are stated about. -/

private theorem raise_tail (env : Env) (f : Nat) (cls : Text) (ce : Option Expr) (body : List Blk) (st0 : St) (c : Text) (m : Text) :
    (match GenRaise.raiseStage2Gen env f cls ce body st0 with
     | (.ok v, st) =>
       if !((GenRaise.isType (.exc c m) && GenRaise.isSubclass (.exc c m) "BaseException".toList)) then
         (match GenRaise.upgradeException (.exc c m) v with
          | .ok (t', v') => GenRaise.raiseCall t' v' st
          | .error ex => (.raise ex, st))
       else GenRaise.raiseCall (.exc c m) v st
     | (.raise ex, st) => (.raise ex, st)
     | (.ret rv, st) => (.ret rv, st)
     | (.oom, st) => (.oom, st)) =
    (match renderJoined env (f + 1) body st0 with
     | (.ok p, st1) => (.raise ⟨c, ustr (valOfPiece p)⟩, st1)
     | (.ret v, st1) => (.ret v, st1)
     | (.raise _, st1) => (.raise ⟨c, "Invalid Error Value".toList⟩, st1)
     | (.oom, st1) => (.oom, st1)) := by
  simp only [GenRaise.raiseStage2Gen]
  cases renderJoined env (f + 1) body st0 with
  | mk r st1 => cases r <;> rfl

/-- **dtml-raise is `Raise.render` of the source**, for every class table, name, expression, section, namespace and fuel -/
theorem gen_raise_is_model (env : Env) (fuel : Nat) (cls : Text) (ce : Option Expr) (body : List Blk) (st : St) :
    GenRaise.raiseGen env fuel cls ce body st = renderBlk env (fuel + 1) (.raise_ cls ce body) st := by
  cases fuel with
  | zero => rfl
  | succ f =>
    simp only [GenRaise.raiseGen, renderBlk, raiseClass, GenRaise.raiseStage1Gen, GenRaise.convertExceptionType,
      GenRaise.classNamed]
    cases ce with
    | none =>
      by_cases h : (List.lookup cls env.classes).isSome = true
      · simp only [h, GenRaise.isNone, if_true, if_false, Bool.false_eq_true]
        exact raise_tail env f cls none body st _ _
      · simp only [h, GenRaise.isNone, if_true, if_false, Bool.false_eq_true]
        exact raise_tail env f cls none body st _ _
    | some e =>
      simp only
      cases evalExpr env f e st with
      | mk r st' =>
        cases r with
        | ok v =>
          cases v with
          | exc c m => exact raise_tail env f cls (some e) body st' c m
          | _ =>
            simp only [GenRaise.isType, GenRaise.isSubclass, Bool.false_and, Bool.not_false, if_true,
              GenRaise.upgradeException, GenRaise.raiseStage2Gen]
            cases renderJoined env (f + 1) body st' with
            | mk r1 st1 => cases r1 <;> rfl
        | raise ex =>
          by_cases h : (List.lookup cls env.classes).isSome = true
          · simp only [h, GenRaise.isNone, if_true, if_false, Bool.false_eq_true]
            exact raise_tail env f cls (some e) body st' _ _
          · simp only [h, GenRaise.isNone, if_true, if_false, Bool.false_eq_true]
            exact raise_tail env f cls (some e) body st' _ _
        | ret v =>
          by_cases h : (List.lookup cls env.classes).isSome = true
          · simp only [h, GenRaise.isNone, if_true, if_false, Bool.false_eq_true]
            exact raise_tail env f cls (some e) body st' _ _
          · simp only [h, GenRaise.isNone, if_true, if_false, Bool.false_eq_true]
            exact raise_tail env f cls (some e) body st' _ _
        | oom => rfl

end DTML.Props.C14
