/-
C07 — The three surface syntaxes of a template compile and render identically.
Model: DTML/Scan.lean (the HTML/SSI scanner `candidate`, the EPFS matcher) and DTML/Parse.lean
(`tagRole` = parseTag of both classes, `buildAux` = the shared block builder).

The argument has two halves:
 (1) the builder looks at a token only through (is-end?, name, arguments) — never at the tag's
     own text — so two token streams that agree on those compile to the same tree
     (`build_congr_html`), and the HTML and %(…) classes give a token the same role
     (`tagRole_epfs_eq_html`);
 (2) the scanners produce such agreeing tokens for the spellings of one tag
     (`dtml_ssi_same_token`, `dtml_ssi_same_end_token`, `entity_is_var_html_quote`,
     `dotted_entity_is_var`), and for whole documents printed in the `<dtml-…>` and the
     `<!--#…-->` spelling (`dtml_ssi_documents_same_stream`, `dtml_ssi_documents_compile_same`;
     printer / scanner round trip in Lemmas/Print.lean).
Rendering, errors and calls are functions of the compiled tree, hence equal.
-/
import DTML.Scan
import DTML.Parse
import DTML.Lemmas.Print
import DTML.Lemmas.ParseTag
set_option linter.unusedVariables false
namespace DTML.Props.C07
open DTML.Scan DTML.Parse

/-! #### (1) the builder sees tokens only through their meaning -/

/-- two tokens with the same meaning: same end flag, name and arguments (their texts may differ) -/
def SameTok (a b : Tok) : Prop := a.isEnd = b.isEnd ∧ a.name = b.name ∧ a.args = b.args

theorem tagRole_html_congr (a b : Tok) (h : SameTok a b) (ctx : Option (Cmd × Text)) :
    tagRole .html a ctx = tagRole .html b ctx := by
  obtain ⟨h1, h2, h3⟩ := h
  unfold tagRole
  simp only [h1, h2, h3]

/-- pointwise relation of two token streams: same literals, tokens of the same meaning -/
inductive SameStream : List (Text × Tok) → List (Text × Tok) → Prop where
  | nil : SameStream [] []
  | cons {l : Text} {a b : Tok} {ps qs : List (Text × Tok)} :
      SameTok a b → SameStream ps qs → SameStream ((l, a) :: ps) ((l, b) :: qs)

/-- **The block builder does not depend on how a tag was spelled**: token streams with the same
literals and tokens of the same meaning build the same tree, list the same expressions, and
fail with the same error at the same token. -/
theorem build_congr_html : ∀ (ps qs : List (Text × Tok)), SameStream ps qs →
    ∀ (tail : Text) (idx : Nat) (ab : Bool) (stack : List Frame) (top : List Node) (ex : List ExprUse),
    buildAux .html ps tail idx ab stack top ex = buildAux .html qs tail idx ab stack top ex := by
  intro ps qs h
  induction h with
  | nil => intro tail idx ab stack top ex; rfl
  | @cons l1 t1 t2 ps' qs' ht _ ih =>
    intro tail idx ab stack top ex
    simp only [buildAux, tagRole_html_congr t1 t2 ht]
    cases tagRole .html t2 (stack.head?.map fun f => (f.cmd, f.sargs)) with
    | error e => rfl
    | ok role =>
      cases role with
      | start cmd args =>
        simp only
        split
        · exact ih _ _ _ _ _ _
        · cases checkSimple cmd args with
          | error e => rfl
          | ok b => simp only [reduceCtorEq, if_false]; exact ih _ _ _ _ _ _
      | cont name args =>
        simp only
        cases stack with
        | nil => rfl
        | cons f fs => exact ih _ _ _ _ _ _
      | close args =>
        simp only
        cases stack with
        | nil => rfl
        | cons f fs =>
          simp only
          split
          · rfl
          · exact ih _ _ _ _ _ _

/-- what a `%(name args)fmt` token means for the HTML class: `]` closes, `[` / `!` open or
continue, any other format letter is the short form of `var` -/
def epfsAsHtml (t : Tok) : Tok :=
  if t.fmt = [']'] then { t with isEnd := true }
  else if t.fmt = ['['] || t.fmt = ['!'] then { t with isEnd := false }
  else { t with isEnd := false, name := "var".toList,
                args := if (pyStrip t.args).isEmpty then t.name else t.name ++ [' '] ++ pyStrip t.args }

theorem var_never_continues (c : Cmd) : (c.continuations.getD []).contains "var" = false := by
  cases c <;> decide

/-- **Both template classes give a tag the same role**: String.parseTag on a `%(…)` token is
HTML.parseTag on the corresponding `<dtml-…>` token (for the short form `%(name args)s` of var:
when the constructed argument text `name args` has no blanks at its ends, which holds for every
token the %(…) scanner produces, its name being non-empty and free of blanks) -/
theorem tagRole_epfs_eq_html (t : Tok) (ctx : Option (Cmd × Text))
    (hstrip : pyStrip (epfsAsHtml t).args = if t.fmt = [']'] ∨ t.fmt = ['['] ∨ t.fmt = ['!'] then pyStrip t.args
                                             else (epfsAsHtml t).args) :
    tagRole .epfs t ctx = tagRole .html (epfsAsHtml t) ctx := by
  unfold tagRole
  by_cases h1 : t.fmt = [']']
  · simp [h1, epfsAsHtml]
  · by_cases h2 : (t.fmt = ['['] || t.fmt = ['!']) = true
    · simp only [h1, if_false, h2, if_true, epfsAsHtml]
      simp
    · have h3 : ¬ (t.fmt = [']'] ∨ t.fmt = ['['] ∨ t.fmt = ['!']) := by
        intro h
        rcases h with h | h | h
        · exact h1 h
        · simp [h] at h2
        · simp [h] at h2
      simp only [h3, if_false] at hstrip
      simp only [h1, if_false, h2, hstrip]
      have hn : (epfsAsHtml t).name = "var".toList := by simp [epfsAsHtml, h1, h2]
      have he : (epfsAsHtml t).isEnd = false := by simp [epfsAsHtml, h1, h2]
      have ha : (epfsAsHtml t).args = (if (pyStrip t.args).isEmpty then t.name else t.name ++ [' '] ++ pyStrip t.args) := by
        simp [epfsAsHtml, h1, h2]
      simp only [hn, he, Bool.false_eq_true, if_false]
      cases ctx with
      | none => simp [Cmd.ofName, ha]
      | some c =>
        obtain ⟨c1, sargs⟩ := c
        have hc := var_never_continues c1
        have hc' : ¬ "var" ∈ c1.continuations.getD [] := by
          intro hm
          have := List.contains_iff_mem.mpr hm
          rw [hc] at this; cases this
        simp [hc', Cmd.ofName, ha]

/-! #### (2) the scanners give the spellings of one tag the same meaning -/

theorem findCloseAux_clean : ∀ (b : Text) (i : Nat), (∀ c ∈ b, c ≠ '>' ∧ c ≠ '"') → (1 ≤ i ∨ b ≠ []) →
    findCloseAux (b ++ ['>']) i true = some (i + b.length) := by
  intro b
  induction b with
  | nil =>
    intro i _ h
    rcases h with h | h
    · simp [findCloseAux, h]
    · exact (h rfl).elim
  | cons c t ih =>
    intro i hb _
    have hc := hb c (List.mem_cons_self ..)
    simp only [List.cons_append, findCloseAux, hc.1, hc.2, decide_false, Bool.and_false, Bool.false_and, if_false,
      Bool.false_eq_true]
    rw [ih (i + 1) (fun d hd => hb d (List.mem_cons_of_mem _ hd)) (Or.inl (by omega))]
    simp; omega

theorem findSub_arrow : ∀ (b : Text), (∀ c ∈ b, c ≠ '>') → findSub "-->".toList (b ++ "-->".toList) = some b.length := by
  intro b
  induction b with
  | nil => intro _; simp [findSub, List.isPrefixOf]
  | cons c t ih =>
    intro hb
    have ht := ih (fun d hd => hb d (List.mem_cons_of_mem _ hd))
    have hnp : "-->".toList.isPrefixOf (c :: t ++ "-->".toList) = false := by
      match t, hb with
      | [], hb => simp [List.isPrefixOf]
      | [d], hb => simp [List.isPrefixOf]
      | d :: e :: r, hb =>
        have he := hb e (by simp)
        simp [List.isPrefixOf]
        intro _ _ h
        exact he h.symm
    simp only [List.cons_append] at hnp ⊢
    simp only [findSub, hnp, Bool.false_eq_true, if_false, ht, Option.map_some, List.length_cons]

theorem takeWhile_append_stop (p : Char → Bool) (b suf : Text) (x : Char) (r : Text) (hs : suf = x :: r) (hx : p x = false) :
    (b ++ suf).takeWhile p = b.takeWhile p := by
  induction b with
  | nil => simp [hs, List.takeWhile, hx]
  | cons c t ih =>
    simp only [List.cons_append, List.takeWhile]
    cases p c <;> simp [ih]

theorem takeWhile_length_le (p : Char → Bool) (b : Text) : (b.takeWhile p).length ≤ b.length := by
  induction b with
  | nil => simp
  | cons c t ih => simp only [List.takeWhile]; split <;> simp <;> omega

theorem nameMatchLen_append (b suf : Text) (x : Char) (r : Text) (hs : suf = x :: r)
    (h1 : isCtl x = false) (h2 : isAsciiAlpha x = false) :
    nameMatchLen (b ++ suf) = nameMatchLen b := by
  unfold nameMatchLen
  simp only [takeWhile_append_stop isCtl b suf x r hs h1]
  have hw := takeWhile_length_le isCtl b
  rw [List.drop_append_of_le_length hw]
  simp only [takeWhile_append_stop isAsciiAlpha _ suf x r hs h2]
  have hl := takeWhile_length_le isAsciiAlpha (b.drop (b.takeWhile isCtl).length)
  rw [List.drop_append_of_le_length hl]
  simp only [takeWhile_append_stop isCtl _ suf x r hs h1]

theorem nameMatchLen_le (b : Text) (l : Nat) (h : nameMatchLen b = some l) : l ≤ b.length := by
  unfold nameMatchLen at h
  simp only at h
  split at h
  · cases h
  · simp only [Option.some.injEq] at h
    have h1 := takeWhile_length_le isCtl b
    have h2 := takeWhile_length_le isAsciiAlpha (b.drop (b.takeWhile isCtl).length)
    have h3 := takeWhile_length_le isCtl ((b.drop (b.takeWhile isCtl).length).drop ((b.drop (b.takeWhile isCtl).length).takeWhile isAsciiAlpha).length)
    simp only [List.length_drop] at h2 h3
    omega

/-- **`<dtml-X args>` and `<!--#X args-->` are the same token** (same name, same arguments, both
start tags), for every tag body free of `>` and `"`; a body that does not start with a tag name is no
tag in either spelling. -/
theorem dtml_ssi_same_token (body : Text) (hb : ∀ c ∈ body, c ≠ '>' ∧ c ≠ '"') (hne : body ≠ [])
    (hend : endMatchLen (body ++ "-->".toList) = none) :
    (nameMatchLen body = none →
       candidate ("<dtml-".toList ++ body ++ ['>']) = .skip ∧
       candidate ("<!--#".toList ++ body ++ "-->".toList) = .skip) ∧
    (∀ l, nameMatchLen body = some l →
       ∃ t1 t2, candidate ("<dtml-".toList ++ body ++ ['>']) = .tok (6 + body.length + 1) t1 ∧
                candidate ("<!--#".toList ++ body ++ "-->".toList) = .tok (5 + body.length + 3) t2 ∧ SameTok t1 t2 ∧
                t1.name = pyStrip (body.take l) ∧ t1.args = pyStrip (body.drop l) ∧ t1.isEnd = false) := by
  have hc := findCloseAux_clean body 0 hb (Or.inr hne)
  have hs := findSub_arrow body (fun c hc => (hb c hc).1)
  have hn1 : nameMatchLen (body ++ ['>']) = nameMatchLen body :=
    nameMatchLen_append body ['>'] '>' [] rfl (by decide) (by decide)
  have hn2 : nameMatchLen (body ++ "-->".toList) = nameMatchLen body :=
    nameMatchLen_append body "-->".toList '-' ['-', '>'] (by simp) (by decide) (by decide)
  have e1 : candidate ("<dtml-".toList ++ body ++ ['>']) =
      match nameMatchLen body with
      | none => .skip
      | some l => .tok (6 + body.length + 1) ⟨("<dtml-".toList ++ body ++ ['>']).take (6 + body.length + 1), false,
                    pyStrip ((body ++ ['>']).take l), pyStrip (((body ++ ['>']).take body.length).drop l), []⟩ := by
    unfold candidate
    simp [List.isPrefixOf, findClose, hc, hn1]
    cases nameMatchLen body <;> rfl
  have e2 : candidate ("<!--#".toList ++ body ++ "-->".toList) =
      match nameMatchLen body with
      | none => .skip
      | some l => .tok (5 + body.length + 3) ⟨("<!--#".toList ++ body ++ "-->".toList).take (5 + body.length + 3), false,
                    pyStrip ((body ++ "-->".toList).take l), pyStrip (((body ++ "-->".toList).take body.length).drop l), []⟩ := by
    have hs' : findSub ['-', '-', '>'] (body ++ ['-', '-', '>']) = some body.length := by simpa using hs
    have hend' : endMatchLen (body ++ ['-', '-', '>']) = none := by simpa using hend
    have hn2' : nameMatchLen (body ++ ['-', '-', '>']) = nameMatchLen body := by simpa using hn2
    unfold candidate
    simp [List.isPrefixOf, hs', hend', hn2']
    cases nameMatchLen body <;> rfl
  constructor
  · intro hn
    rw [e1, e2, hn]
    exact ⟨rfl, rfl⟩
  · intro l hl
    have hle := nameMatchLen_le body l hl
    rw [e1, e2, hl]
    refine ⟨_, _, rfl, rfl, ?_, ?_, ?_, rfl⟩
    · refine ⟨rfl, ?_, ?_⟩
      · simp [List.take_append_of_le_length hle]
      · simp
    · simp [List.take_append_of_le_length hle]
    · simp

theorem findSub_single (x : Char) : ∀ (b r : Text), (∀ c ∈ b, c ≠ x) → findSub [x] (b ++ x :: r) = some b.length := by
  intro b
  induction b with
  | nil => intro r _; simp [findSub, List.isPrefixOf]
  | cons c t ih =>
    intro r hb
    have hc := hb c (List.mem_cons_self ..)
    have hne : (x == c) = false := by simp; exact fun h => hc h.symm
    simp only [List.cons_append, findSub, List.isPrefixOf, hne, Bool.false_and, Bool.false_eq_true, if_false,
      ih r (fun d hd => hb d (List.mem_cons_of_mem _ hd)), Option.map_some, List.length_cons]

theorem entChar_not_semicolon (c : Char) (h : isEntChar c = true) : c ≠ ';' := by
  intro hc; subst hc; revert h; decide

/-- **`&dtml-name;` is `<dtml-var name html_quote>`** -/
theorem entity_is_var_html_quote (n rest : Text) (hne : n ≠ []) (hn : ∀ c ∈ n, isEntChar c = true) :
    candidate ("&dtml-".toList ++ n ++ ';' :: rest) =
      .tok (6 + n.length + 1) ⟨("&dtml-".toList ++ n ++ ';' :: rest).take (6 + n.length + 1), false, "var".toList,
                                n ++ " html_quote".toList, []⟩ := by
  have hf := findSub_single ';' n rest (fun c hc => entChar_not_semicolon c (hn c hc))
  have hall : n.all isEntChar = true := List.all_eq_true.mpr hn
  have hemp : n.isEmpty = false := by cases n <;> simp_all
  unfold candidate
  simp [List.isPrefixOf, hf, hall, hemp]

/-- **`&dtml.m1.m2-name;` is `<dtml-var name m1 m2>`** (modifiers separated by dots, none containing '-') -/
theorem dotted_entity_is_var (mods name rest : Text) (hm : ∀ c ∈ mods, isEntChar c = true ∧ c ≠ '-')
    (hname : name ≠ []) (hn : ∀ c ∈ name, isEntChar c = true) :
    candidate ("&dtml.".toList ++ (mods ++ '-' :: name) ++ ';' :: rest) =
      .tok (6 + (mods ++ '-' :: name).length + 1)
        ⟨("&dtml.".toList ++ (mods ++ '-' :: name) ++ ';' :: rest).take (6 + (mods ++ '-' :: name).length + 1), false,
         "var".toList, name ++ [' '] ++ mods.map (fun c => if c = '.' then ' ' else c), []⟩ := by
  have hargs : ∀ c ∈ mods ++ '-' :: name, isEntChar c = true := by
    intro c hc
    rcases List.mem_append.mp hc with h | h
    · exact (hm c h).1
    · rcases List.mem_cons.mp h with rfl | h
      · decide
      · exact hn c h
  have hf := findSub_single ';' (mods ++ '-' :: name) rest (fun c hc => entChar_not_semicolon c (hargs c hc))
  have hd := findSub_single '-' mods name (fun c hc => (hm c hc).2)
  have hall : (mods ++ '-' :: name).all isEntChar = true := List.all_eq_true.mpr hargs
  have hlen : mods.length < (mods ++ '-' :: name).length - 1 := by
    cases name with
    | nil => exact (hname rfl).elim
    | cons a t => simp
  have htake : (mods ++ '-' :: name).take mods.length = mods := by simp
  have hdrop : (mods ++ '-' :: name).drop (mods.length + 1) = name := by
    have : mods.length + 1 = (mods ++ ['-']).length := by simp
    rw [this, show mods ++ '-' :: name = (mods ++ ['-']) ++ name by simp, List.drop_left]
  generalize mods ++ '-' :: name = args at hf hd hall hlen htake hdrop ⊢
  have hemp : args.isEmpty = false := by cases args <;> simp_all
  unfold candidate
  simp [List.isPrefixOf, hf, hall, hd, hlen, htake, hdrop, hemp]

section Documents
open DTML.Lemmas.Print

/-! #### (4) whole documents: the `<dtml-…>` and the `<!--#…-->` spelling of one document -/

theorem same_stream_printed (items : List Item) :
    SameStream (items.map (fun i => (i.lit, tokOf (printDtml i) i)))
               (items.map (fun i => (i.lit, tokOf (printSsi i) i))) := by
  induction items with
  | nil => exact .nil
  | cons i r ih => exact .cons ⟨rfl, rfl, rfl⟩ ih

/-- **A document spelled with `<dtml-…>` tags and the same document spelled with `<!--#…-->` tags
are scanned into the same token stream** (same literals, tokens of the same meaning, same trailing
text) — for every list of (literal, tag) items whose literals contain no `<` / `&`, whose names are
letters (not starting with `end` for a start tag) and whose arguments are stripped and free of `>`. -/
theorem dtml_ssi_documents_same_stream (items : List Item) (tail : Text) (hw : ∀ i ∈ items, WfSsi i) (ht : CleanLit tail) :
    SameStream (tokens .html (printDoc printDtml items tail)).1 (tokens .html (printDoc printSsi items tail)).1 ∧
    (tokens .html (printDoc printDtml items tail)).2 = (tokens .html (printDoc printSsi items tail)).2 := by
  rw [tokens_dtml items tail (fun i hi => (hw i hi).1) ht, tokens_ssi items tail hw ht]
  exact ⟨same_stream_printed items, rfl⟩

/-- … and therefore **compile to the same tree, or fail with the same error at the same tag** -/
theorem dtml_ssi_documents_compile_same (items : List Item) (tail : Text) (hw : ∀ i ∈ items, WfSsi i) (ht : CleanLit tail) :
    compile .html (printDoc printDtml items tail) = compile .html (printDoc printSsi items tail) := by
  unfold compile
  rw [tokens_dtml items tail (fun i hi => (hw i hi).1) ht, tokens_ssi items tail hw ht]
  exact build_congr_html _ _ (same_stream_printed items) tail 0 false [] [] []

section Example
private def doc : List Item :=
  [⟨"a ".toList, false, "if".toList, "x".toList⟩, ⟨"yes".toList, false, "else".toList, []⟩,
   ⟨"no".toList, true, "if".toList, []⟩]
-- the hypotheses are satisfiable, and the two spellings are what one expects
example : printDoc printDtml doc " z".toList = "a <dtml-if x>yes<dtml-else>no</dtml-if> z".toList := by decide
example : printDoc printSsi doc " z".toList = "a <!--#if x-->yes<!--#else-->no<!--#/if--> z".toList := by decide
example : ∀ i ∈ doc, WfSsi i := by
  intro i hi
  simp only [doc, List.mem_cons, List.mem_nil_iff, or_false] at hi
  rcases hi with rfl | rfl | rfl <;>
    refine ⟨⟨?_, ⟨?_, ?_⟩, ⟨?_, ?_⟩, ?_, ?_⟩, ?_, ?_⟩ <;> first | decide | (unfold CleanLit; decide)
end Example

end Documents

/-! #### obligations on the translated `parseTag` of the two classes (GenParseTag.lean, regenerated on every run)

`tagRole` - what half (1) is stated about - is what `HTML.parseTag` and `String.parseTag` of the current source compute,
statement by statement (lemmas in Lemmas/ParseTag.lean); `ctx` is the innermost open block: its command and the
arguments of its start tag (`command`, `sargs`), absent at top level. -/

open DTML.GenParseTag in
/-- `HTML.parseTag` (the `<dtml-…>` / `<!--#…-->` / `&dtml-…;` syntaxes) -/
theorem gen_html_parseTag_is_model (tk : Tok) (ctx : Option (Cmd × Text)) :
    parseTagHtmlGen tk (ctx.map (·.1)) ((ctx.map (·.2)).getD []) = tagRole .html tk ctx :=
  DTML.Lemmas.ParseTag.html_eq tk ctx

open DTML.GenParseTag in
/-- `String.parseTag` (the `%(…)s` syntax) -/
theorem gen_string_parseTag_is_model (tk : Tok) (ctx : Option (Cmd × Text)) :
    parseTagEpfsGen tk (ctx.map (·.1)) ((ctx.map (·.2)).getD []) = tagRole .epfs tk ctx :=
  DTML.Lemmas.ParseTag.epfs_eq tk ctx

open DTML.GenParseTag in
/-- `String._parseTag`, the entry `parse` / `parse_block` call: around either `parseTag` it is `tagRole` of the syntax,
also with the defaults of the source (`command=None, sargs=''`) at top level -/
theorem gen_parseTag_wrapper_is_model (syn : Syntax) (tk : Tok) (ctx : Option (Cmd × Text)) :
    DTML.Lemmas.ParseTag.parseTagGen syn tk (ctx.map (·.1)) ((ctx.map (·.2)).getD []) = tagRole syn tk ctx ∧
    wrapGen @parseTagHtmlGen tk = tagRole .html tk none ∧ wrapGen @parseTagEpfsGen tk = tagRole .epfs tk none :=
  ⟨DTML.Lemmas.ParseTag.parseTagGen_eq syn tk ctx, (DTML.Lemmas.ParseTag.parseTagGen_top tk).1,
   (DTML.Lemmas.ParseTag.parseTagGen_top tk).2.1⟩

/-- a lazily imported command (`(cname, module, class)` in `String.commands`) is stored back under the key it was found
under, and that key is a command of the table `Cmd.ofName` was checked against -/
theorem gen_lazy_commands_keep_their_key :
    ∀ e ∈ DTML.GenParseTag.lazyCommandsGen, e.1 = e.2.1 ∧ (Cmd.ofName e.1).isSome = true := by
  decide

/-- hence `tagRole_epfs_eq_html`, stated on the translated methods: String.parseTag on a `%(…)` token is HTML.parseTag on
the corresponding `<dtml-…>` token (same side condition on the constructed argument text) -/
theorem gen_parseTag_epfs_eq_html (t : Tok) (ctx : Option (Cmd × Text))
    (hstrip : pyStrip (epfsAsHtml t).args = if t.fmt = [']'] ∨ t.fmt = ['['] ∨ t.fmt = ['!'] then pyStrip t.args
                                             else (epfsAsHtml t).args) :
    DTML.GenParseTag.parseTagEpfsGen t (ctx.map (·.1)) ((ctx.map (·.2)).getD []) =
      DTML.GenParseTag.parseTagHtmlGen (epfsAsHtml t) (ctx.map (·.1)) ((ctx.map (·.2)).getD []) := by
  rw [gen_html_parseTag_is_model, gen_string_parseTag_is_model]
  exact tagRole_epfs_eq_html t ctx hstrip

end DTML.Props.C07
