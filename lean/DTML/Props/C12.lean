/-
C12 — Batching a lazy sequence pulls only the window plus one look-ahead batch.
Model: DTML/Batch.lean (`LazySt` = SequenceFromIter with pull log; `renderwbT` =
ordered list of the accesses `renderwb` makes; `renderwobT` for unbatched).
-/
import DTML.Batch
import DTML.GenCode
import DTML.Gen
import DTML.GenEnsure
import DTML.Props.C11
set_option linter.unusedVariables false
namespace DTML.Props.C12
open DTML.Batch

/-! #### the accesses the model lists are the accesses the source makes

Extracted from /repo's source on every run (harness/consts.py): every subscript of `sequence` and every call that needs
the whole sequence (`len`, `list`, `tuple`, `sorted`, `reversed`) in `renderwb`, `renderwob` and `opt`, in source order.
`renderwbT` / `optT` / `probeT` are written for exactly these: the emptiness test `sequence[0]`, the end clamp
`sequence[end - 1]`, the look-ahead `sequence[end]` (in the `next` form and in the item loop) and `sequence[index]`;
the four probes of `opt`, each with `len(sequence)` only in its `except` branch; one more `len(sequence)` in `renderwb`
(the except branch of the end clamp) and the unconditional one of the unbatched renderer.  A new access to the whole
sequence on the batch path changes these tables and this theorem stops checking. -/
theorem gen_sequence_accesses :
    Gen.renderwb_subscripts = ["0", "end - 1", "end", "end", "index"] ∧
    Gen.renderwb_wholeSequenceCalls = ["len(sequence)"] ∧
    Gen.renderwob_subscripts = ["0", "index"] ∧
    Gen.renderwob_wholeSequenceCalls = ["len(sequence)"] ∧
    Gen.opt_subscripts = ["start - 1", "end + orphan - 1", "end - 1", "end + orphan - 1"] ∧
    Gen.opt_wholeSequenceCalls = ["len(sequence)", "len(sequence)", "len(sequence)", "len(sequence)"] := by decide

/-! #### the traced functions compute the same windows as the C11 model -/

theorem optT_result (a b c d : Int) (s : Seq) : (optT a b c d s).1 = opt a b c d s := by
  simp only [optT, opt]; grind

theorem windowT_result (a b c d : Int) (s : Seq) : (windowT a b c d s).1 = window a b c d s := by
  simp only [windowT, window, optT_result]

/-! #### pulls are sequential: strictly in order, each element at most once -/

/-- invariant of the wrapper -/
def Inv (l : LazySt) : Prop :=
  l.log = List.range l.pulled ∧
  (∀ n, l.src = some n → l.pulled ≤ n) ∧
  (l.finished = true → l.src = some l.pulled)

private theorem inv_pull1 (l : LazySt) (h : Inv l) (hf : l.finished = false) : Inv l.pull1 := by
  obtain ⟨h1, h2, h3⟩ := h
  unfold LazySt.pull1
  cases hs : l.src with
  | none => simp [Inv, h1, List.range_succ, hf]
  | some n =>
    have := h2 n hs
    by_cases hlt : l.pulled < n
    · simp [Inv, hlt, h1, List.range_succ, hf]; omega
    · simp [Inv, hlt, h1]; omega

private theorem inv_fill (idx fuel : Nat) : ∀ (l : LazySt), Inv l → Inv (l.fill idx fuel) := by
  induction fuel with
  | zero => intro l h; exact h
  | succ k ih =>
    intro l h
    simp only [LazySt.fill]
    by_cases hc : (!l.finished && decide (idx ≥ l.pulled)) = true
    · simp only [hc, if_true]
      apply ih
      apply inv_pull1 l h
      simp at hc; exact hc.1
    · simp only [hc]; exact h

private theorem inv_get (l : LazySt) (i : Int) (h : Inv l) : Inv (l.get i).1 := by
  unfold LazySt.get
  by_cases hi : i < 0
  · simp [hi, h]
  · simp only [hi, if_false]; exact inv_fill _ _ l h

private theorem inv_len (l : LazySt) (h : Inv l) : Inv l.lenOp := by
  unfold LazySt.lenOp
  cases hs : l.src with
  | none => exact h
  | some n => exact inv_fill _ _ l h

private theorem inv_run (t : List Acc) : ∀ (l : LazySt), Inv l → Inv (l.run t) := by
  induction t with
  | nil => intro l h; exact h
  | cons a t ih =>
    intro l h
    cases a with
    | get i => exact ih _ (inv_get l i h)
    | len => exact ih _ (inv_len l h)

/-- **Pulls are sequential.**  Whatever accesses are made (any indexes, any
order, `len` calls anywhere), the iterator is pulled strictly in order, each
element at most once: the pull log is `[0, 1, …, k-1]`, and never beyond the
source's length. -/
theorem pulls_sequential (src : Option Nat) (t : List Acc) :
    let l := (LazySt.init src).run t
    l.log = List.range l.pulled ∧ (∀ n, src = some n → l.pulled ≤ n) := by
  have h0 : Inv (LazySt.init src) := by simp [Inv, LazySt.init]
  have h := inv_run t _ h0
  have hsrc : ∀ (t : List Acc) (l : LazySt), (l.run t).src = l.src := by
    intro t
    induction t with
    | nil => intro l; rfl
    | cons a t ih =>
      intro l
      have hfill : ∀ fuel idx (l : LazySt), (l.fill idx fuel).src = l.src := by
        intro fuel
        induction fuel with
        | zero => intro idx l; rfl
        | succ k ihk =>
          intro idx l
          simp only [LazySt.fill]
          split
          · rw [ihk]; unfold LazySt.pull1; split <;> (try split) <;> simp_all
          · rfl
      cases a with
      | get i =>
        simp only [LazySt.run]; rw [ih]; unfold LazySt.get; split
        · rfl
        · exact hfill _ _ _
      | len =>
        simp only [LazySt.run]; rw [ih]; unfold LazySt.lenOp; split
        · exact hfill _ _ _
        · rfl
  refine ⟨h.1, ?_⟩
  intro n hn
  apply h.2.1
  rw [hsrc]; simpa [LazySt.init] using hn

/-! ### The lazy wrapper of the model is the wrapper of the source

`GenCode.sfiGetitemGen` / `sfiLenLoopGen` are regenerated on every run from `DT_Util.SequenceFromIter.__getitem__` /
`__len__` (the negative-index test, the `while not self.finished and idx >= len(self.data)` loop around
`try: self.data.append(next(self.it)) except StopIteration: self.finished = True`, the final `self.data[idx]`; the
`while not self.finished: self[len(self.data)]` loop of `__len__`).  They compute `LazySt.get` / `LazySt.lenOp`, the
functions about which `pulls_sequential`, `run_pulled` and the pull bounds are stated. -/

private theorem tryNext_eq_pull1 (l : LazySt) : GenCode.sfiTryNext l = l.pull1 := by
  unfold GenCode.sfiTryNext LazySt.next? LazySt.pull1
  cases l.src with
  | none => rfl
  | some n => by_cases h : l.pulled < n <;> simp [h]

private theorem getitemLoop_eq_fill (idx : Nat) : ∀ (fuel : Nat) (l : LazySt),
    GenCode.sfiGetitemLoopGen (idx : Int) fuel l = l.fill idx fuel := by
  intro fuel
  induction fuel with
  | zero => intro l; rfl
  | succ k ih =>
    intro l
    simp only [GenCode.sfiGetitemLoopGen, LazySt.fill, tryNext_eq_pull1, ih]
    have : decide ((idx : Int) ≥ (l.pulled : Int)) = decide (idx ≥ l.pulled) := by
      simp only [ge_iff_le, Int.ofNat_le]
    rw [this]

/-- `self[idx]` -/
theorem gen_getitem_is_model (l : LazySt) (idx : Int) :
    GenCode.sfiGetitemGen (idx.toNat + 2) l idx = l.get idx := by
  unfold GenCode.sfiGetitemGen LazySt.get
  by_cases h : idx < 0
  · simp [h]
  · simp only [h, decide_false, Bool.false_eq_true, if_false]
    have hi : idx = (idx.toNat : Int) := by omega
    rw [hi, getitemLoop_eq_fill]
    simp only [Int.toNat_natCast, Int.ofNat_lt]

private theorem get_pulled_eq_pull1 (l : LazySt) (hf : l.finished = false) :
    (GenCode.sfiGetitemGen (l.pulled + 2) l (l.pulled : Int)).1 = l.pull1 := by
  have := gen_getitem_is_model l (l.pulled : Int)
  simp only [Int.toNat_natCast] at this
  rw [this]
  unfold LazySt.get
  have h0 : ¬ ((l.pulled : Int) < 0) := by omega
  simp only [h0, if_false, Int.toNat_natCast]
  -- the first iteration pulls once; after it either one more item is there or the iterator is exhausted
  have h2 : (!l.pull1.finished && decide (l.pulled ≥ l.pull1.pulled)) = false := by
    unfold LazySt.pull1
    cases l.src with
    | none => simp
    | some n => by_cases h : l.pulled < n <;> simp [h]
  have e1 : l.fill l.pulled (l.pulled + 2) = l.pull1.fill l.pulled (l.pulled + 1) := by
    rw [show l.pulled + 2 = (l.pulled + 1) + 1 from rfl, LazySt.fill]
    simp [hf]
  have e2 : l.pull1.fill l.pulled (l.pulled + 1) = l.pull1 := by
    rw [LazySt.fill, h2]
    simp
  rw [e1, e2]

/-- `len(self)` on a bounded iterator: the loop of `__len__` (each round asks for the first element not yet there) ends
in the state `LazySt.lenOp` describes — everything pulled, each element once, exhaustion seen -/
theorem gen_len_is_model (n : Nat) : ∀ (fuel : Nat) (l : LazySt), Inv l → l.src = some n →
    GenCode.sfiLenLoopGen fuel l = l.fill n fuel := by
  intro fuel
  induction fuel with
  | zero => intro l _ _; rfl
  | succ k ih =>
    intro l hinv hsrc
    simp only [GenCode.sfiLenLoopGen, LazySt.fill]
    have hle : l.pulled ≤ n := hinv.2.1 n hsrc
    by_cases hf : l.finished = true
    · simp [hf]
    · have hf' : l.finished = false := by simpa using hf
      simp only [hf', Bool.not_false, if_true, ge_iff_le, hle, decide_true, Bool.and_self]
      rw [get_pulled_eq_pull1 l hf']
      apply ih
      · exact inv_pull1 l hinv hf'
      · unfold LazySt.pull1; rw [hsrc]; by_cases h : l.pulled < n <;> simp [h, hsrc]

/-- so `len()` of the source's wrapper is the model's `lenOp` (fuel `n + 2`, as there) -/
theorem gen_len_is_lenOp (n : Nat) (l : LazySt) (hinv : Inv l) (hsrc : l.src = some n) :
    GenCode.sfiLenLoopGen (n + 2) l = l.lenOp := by
  rw [gen_len_is_model n (n + 2) l hinv hsrc]
  simp [LazySt.lenOp, hsrc]

/-! #### how many elements a trace pulls -/

private theorem fill_pulled (n idx : Nat) : ∀ (fuel : Nat) (l : LazySt), Inv l → l.src = some n →
    idx + 2 - l.pulled ≤ fuel →
    (l.fill idx fuel).pulled = max l.pulled (min n (idx + 1)) ∧ (l.fill idx fuel).src = some n := by
  intro fuel
  induction fuel with
  | zero => intro l h hs hf; simp only [LazySt.fill]; exact ⟨by omega, hs⟩
  | succ k ih =>
    intro l h hs hf
    have hle := h.2.1 n hs
    simp only [LazySt.fill]
    by_cases hc : (!l.finished && decide (idx ≥ l.pulled)) = true
    · simp only [hc, if_true]
      have hfin : l.finished = false := by simp at hc; exact hc.1
      have hge : idx ≥ l.pulled := by simp at hc; exact hc.2
      have hI := inv_pull1 l h hfin
      by_cases hlt : l.pulled < n
      · have hp : l.pull1.pulled = l.pulled + 1 := by simp [LazySt.pull1, hs, hlt]
        have hs' : l.pull1.src = some n := by simp [LazySt.pull1, hs, hlt]
        obtain ⟨r1, r2⟩ := ih l.pull1 hI hs' (by omega)
        exact ⟨by rw [r1, hp]; omega, r2⟩
      · have hp : l.pull1.pulled = l.pulled := by simp [LazySt.pull1, hs, hlt]
        have hs' : l.pull1.src = some n := by simp [LazySt.pull1, hs, hlt]
        have hfin' : l.pull1.finished = true := by simp [LazySt.pull1, hs, hlt]
        -- finished: the remaining iterations do nothing
        have hstop : ∀ (f : Nat) (m : LazySt), m.finished = true → m.fill idx f = m := by
          intro f; induction f with
          | zero => intro m _; rfl
          | succ j _ => intro m hm; simp [LazySt.fill, hm]
        rw [hstop k _ hfin']
        exact ⟨by rw [hp]; omega, hs'⟩
    · rw [if_neg hc]
      refine ⟨?_, hs⟩
      by_cases hfin : l.finished = true
      · have := h.2.2 hfin; rw [hs] at this; simp at this; omega
      · simp [hfin] at hc; omega

/-- number of elements pulled from a source of `n` elements by a trace -/
def pulledBy (n : Nat) (t : List Acc) : Nat := if hasLen t then n else min n (hw t)

private theorem run_pulled_gen (n : Nat) (t : List Acc) : ∀ (l : LazySt), Inv l → l.src = some n →
    (l.run t).pulled = if hasLen t then n else max l.pulled (min n (hw t)) := by
  induction t with
  | nil => intro l h hs; simp [LazySt.run, hasLen, hw]
  | cons a t ih =>
    intro l h hs
    have hle := h.2.1 n hs
    cases a with
    | get i =>
      simp only [LazySt.run, hasLen, hw]
      by_cases hi : i < 0
      · have : (l.get i).1 = l := by simp [LazySt.get, hi]
        rw [this, ih l h hs]; simp [hi]
      · have hf := fill_pulled n i.toNat (i.toNat + 2) l h hs (by omega)
        have hg : (l.get i).1 = l.fill i.toNat (i.toNat + 2) := by simp [LazySt.get, hi]
        rw [hg, ih _ (inv_fill _ _ l h) hf.2, hf.1]
        simp only [hi, if_false]
        split <;> omega
    | len =>
      simp only [LazySt.run, hasLen, if_true]
      have hf := fill_pulled n n (n + 2) l h hs (by omega)
      have hg : l.lenOp = l.fill n (n + 2) := by simp [LazySt.lenOp, hs]
      rw [hg, ih _ (inv_fill _ _ l h) hf.2, hf.1]
      split <;> omega

/-- a trace run on a fresh wrapper over `n` elements pulls `pulledBy n t` of them -/
theorem run_pulled (n : Nat) (t : List Acc) :
    ((LazySt.init (some n)).run t).pulled = pulledBy n t := by
  have h0 : Inv (LazySt.init (some n)) := by simp [Inv, LazySt.init]
  rw [run_pulled_gen n t _ h0 rfl]
  simp [pulledBy, LazySt.init]

/-! #### the accesses of a batched render stay within window + one look-ahead batch -/

/-- an access is harmless w.r.t. bound `B` on a sequence of `n` elements: it
asks for an index below `B`, or the whole sequence is no longer than `B`. -/
def okAcc (n B : Int) : Acc → Prop
  | .get i => i + 1 ≤ B ∨ n ≤ B
  | .len => n ≤ B

private theorem pulledBy_le (n : Nat) (B : Int) (t : List Acc) (hB0 : 0 ≤ B)
    (h : ∀ a ∈ t, okAcc n B a) : (pulledBy n t : Int) ≤ B := by
  by_cases hn : (n : Int) ≤ B
  · unfold pulledBy; split <;> omega
  · have hnl : hasLen t = false ∧ (hw t : Int) ≤ max 0 B := by
      induction t with
      | nil => exact ⟨rfl, by simp only [hw]; omega⟩
      | cons a t ih =>
        have iht := ih (fun a ha => h a (List.mem_cons_of_mem _ ha))
        have ha := h a List.mem_cons_self
        cases a with
        | get i =>
          simp only [okAcc] at ha
          simp only [hasLen, hw]
          refine ⟨iht.1, ?_⟩
          split <;> omega
        | len => simp only [okAcc] at ha; omega
    unfold pulledBy; simp only [hnl.1, Bool.false_eq_true, if_false]; have := hnl.2; omega

private theorem mem_loopT (st e sz orphan overlap : Int) (s : Seq) (a : Acc) :
    ∀ (k : Nat) (idx : Int), a ∈ loopT st e sz orphan overlap s k idx →
      a ∈ linkT st e sz orphan overlap s ∨ ∃ j, a = .get j ∧ idx ≤ j ∧ j < idx + k := by
  intro k
  induction k with
  | zero => intro idx h; simp [loopT] at h
  | succ k ih =>
    intro idx h
    simp only [loopT, List.mem_append, List.mem_singleton] at h
    rcases h with (h | h) | h
    · left; split at h
      · exact h
      · simp at h
    · right; exact ⟨idx, h, by omega, by omega⟩
    · rcases ih _ h with h | ⟨j, hj, h1, h2⟩
      · left; exact h
      · right; exact ⟨j, hj, by omega, by omega⟩


private theorem optT_ok (start end_ size orphan : Int) (s : Seq)
    (hl : 1 ≤ s.len) (ho : 0 ≤ orphan) (B : Int)
    (hB : B = (window start end_ size orphan s).2.1 + (window start end_ size orphan s).2.2 + orphan) :
    ∀ a ∈ (optT start end_ size orphan s).2, okAcc s.len B a := by
  intro a ha
  simp only [window, opt, probe] at hB
  simp only [optT, probeT, probe] at ha
  cases a with
  | get i => simp only [okAcc]; grind
  | len => simp only [okAcc]; grind

private theorem opt_facts (start end_ size orphan : Int) (s : Seq)
    (hl : 1 ≤ s.len) (ho : 0 ≤ orphan) :
    1 ≤ (opt start end_ size orphan s).2.1 ∧ 1 ≤ (opt start end_ size orphan s).2.2 := by
  simp only [opt, probe]; grind

private theorem windowT_ok (start end_ size orphan : Int) (s : Seq)
    (hl : 1 ≤ s.len) (ho : 0 ≤ orphan) (B : Int)
    (hB : B = (window start end_ size orphan s).2.1 + (window start end_ size orphan s).2.2 + orphan) :
    ∀ a ∈ (windowT start end_ size orphan s).2, okAcc s.len B a := by
  intro a ha
  have hf := opt_facts start end_ size orphan s hl ho
  simp only [windowT, optT_result, List.mem_append] at ha
  rcases ha with ha | ha
  · exact optT_ok start end_ size orphan s hl ho B hB a ha
  · simp only [window] at hB
    generalize opt start end_ size orphan s = o at hB ha hf
    obtain ⟨st, e, sz⟩ := o
    simp only [probeT, probe] at ha hB
    simp only at hf
    cases a with
    | get i => simp only [okAcc]; grind
    | len => simp only [okAcc]; grind

private theorem link_ok (st e sz orphan overlap B : Int) (s : Seq)
    (h1 : 1 ≤ st) (h2 : st ≤ e) (h3 : e ≤ s.len) (ho : 0 ≤ orphan) (hov : 0 ≤ overlap)
    (hsz : 1 ≤ sz) (hB : B = e + sz + orphan) (hD : st - 1 + overlap ≤ B) :
    ∀ a ∈ linkT st e sz orphan overlap s, okAcc s.len B a := by
  intro a ha
  simp only [linkT, optT, probeT, probe] at ha
  cases a with
  | get i => simp only [okAcc]; grind
  | len => simp only [okAcc]; grind

private theorem window_size (start end_ size orphan : Int) (s : Seq) :
    (window start end_ size orphan s).2.2 = (opt start end_ size orphan s).2.2 := by
  simp [window]

/-- every access of a batched render is within the bound (or the sequence is short) -/
private theorem renderwbT_ok (start end_ size orphan overlap : Int) (s : Seq)
    (hl : 1 ≤ s.len) (ho : 0 ≤ orphan) (hov : 0 ≤ overlap) (B : Int)
    (hB : B = (window start end_ size orphan s).2.1 + (window start end_ size orphan s).2.2 + orphan)
    (hD : (window start end_ size orphan s).1 - 1 + overlap ≤ B) :
    ∀ a ∈ renderwbT start end_ size orphan overlap s, okAcc s.len B a := by
  intro a ha
  have hw := C11.opt_window start end_ size orphan s hl ho
  have hf := opt_facts start end_ size orphan s hl ho
  have hsz := window_size start end_ size orphan s
  have hp0 : probe s 0 = true := by simp [probe]; omega
  simp only [renderwbT, hp0, if_true] at ha
  have hwt := windowT_result start end_ size orphan s
  have hok := windowT_ok start end_ size orphan s hl ho B hB
  generalize windowT start end_ size orphan s = wt at ha hwt hok
  obtain ⟨⟨st, e, sz⟩, t⟩ := wt
  simp only at hwt hok
  rw [← hwt] at hw hB hD hsz
  simp only at hw hB hD hsz
  simp only [List.mem_append, List.mem_singleton] at ha
  rcases ha with (ha | ha) | ha
  · subst ha; simp only [okAcc]; omega
  · exact hok a ha
  · rcases mem_loopT st e sz orphan overlap s a _ _ ha with h | ⟨j, hj, hj1, hj2⟩
    · exact link_ok st e sz orphan overlap B s hw.1 hw.2.1 hw.2.2 ho hov (by omega) hB hD a h
    · subst hj; simp only [okAcc]; left; omega

/-- **Pull bound (partial).**  A batched `dtml-in` over a lazily produced
sequence of `n` elements pulls at most `end + size + orphan` of them (the end
of the displayed window plus one look-ahead batch), for every parameter tuple,
*provided* `start - 1 + overlap ≤ end + size + orphan`.

`_partial`: the side condition excludes exactly the region where the property
is false on this code base (known finding C12-overlap: the *previous*-batch
probe `sequence[first+overlap-1]` looks `overlap` elements ahead of the window
start; witness below). -/
theorem batch_pull_bound_partial (start end_ size orphan overlap : Int) (s : Seq) (n : Nat)
    (hn : s.len = n) (hl : 1 ≤ s.len) (ho : 0 ≤ orphan) (hov : 0 ≤ overlap)
    (hD : (window start end_ size orphan s).1 - 1 + overlap ≤
          (window start end_ size orphan s).2.1 + (window start end_ size orphan s).2.2 + orphan) :
    (((LazySt.init (some n)).run (renderwbT start end_ size orphan overlap s)).pulled : Int) ≤
      (window start end_ size orphan s).2.1 + (window start end_ size orphan s).2.2 + orphan := by
  rw [run_pulled]
  have hw := C11.opt_window start end_ size orphan s hl ho
  have hf := opt_facts start end_ size orphan s hl ho
  have hsz := window_size start end_ size orphan s
  apply pulledBy_le
  · omega
  · rw [← hn]
    exact renderwbT_ok start end_ size orphan overlap s hl ho hov _ rfl hD

/-- The excluded region is real (finding C12-overlap): `start=2 size=1 overlap=3`
on 4 elements pulls all 4, the bound is 3. -/
theorem finding_C12_overlap :
    ((LazySt.init (some 4)).run (renderwbT 2 0 1 0 3 ⟨4, true⟩)).pulled = 4 ∧
    (window 2 0 1 0 ⟨4, true⟩).2.1 + (window 2 0 1 0 ⟨4, true⟩).2.2 + 0 = 3 := by decide

/-- Non-vacuity of the side condition and the bound: 100 elements, `start=3 size=4
orphan=1 overlap=1` pulls 3+4-1 + 4 + 1 - 1 = 10 ≤ 6 + 4 + 1. -/
example : ((LazySt.init (some 100)).run (renderwbT 3 0 4 1 1 ⟨100, true⟩)).pulled = 10 := by decide


private theorem hasLen_mem (t : List Acc) : hasLen t = true → Acc.len ∈ t := by
  induction t with
  | nil => simp [hasLen]
  | cons a t ih =>
    cases a with
    | get i => simp only [hasLen]; intro h; exact List.mem_cons_of_mem _ (ih h)
    | len => intro _; exact List.mem_cons_self

private theorem len_probeT (s : Seq) (i : Int) : Acc.len ∈ probeT s i →
    Acc.get i ∈ probeT s i ∧ probe s i = false := by
  unfold probeT
  cases h : probe s i <;> simp

private theorem len_optT (a b c d : Int) (s : Seq) : Acc.len ∈ (optT a b c d s).2 →
    ∃ i, Acc.get i ∈ (optT a b c d s).2 ∧ probe s i = false := by
  simp only [optT]
  intro h
  split at h
  · split at h
    · obtain ⟨h1, h2⟩ := len_probeT _ _ h
      refine ⟨_, ?_, h2⟩
      simp only [*, if_true]
    · rw [if_pos ‹_›, if_neg ‹_›]
      simp only [List.mem_append] at h ⊢
      rcases h with h | h
      · obtain ⟨h1, h2⟩ := len_probeT _ _ h; exact ⟨_, Or.inl h1, h2⟩
      · obtain ⟨h1, h2⟩ := len_probeT _ _ h; exact ⟨_, Or.inr h1, h2⟩
  · split at h
    · obtain ⟨h1, h2⟩ := len_probeT _ _ h
      refine ⟨_, ?_, h2⟩
      rw [if_neg ‹_›, if_pos ‹_›]; exact h1
    · obtain ⟨h1, h2⟩ := len_probeT _ _ h
      refine ⟨_, ?_, h2⟩
      rw [if_neg ‹_›, if_neg ‹_›]; exact h1

private theorem len_windowT (a b c d : Int) (s : Seq) : Acc.len ∈ (windowT a b c d s).2 →
    ∃ i, Acc.get i ∈ (windowT a b c d s).2 ∧ probe s i = false := by
  simp only [windowT, List.mem_append]
  intro h
  rcases h with h | h
  · obtain ⟨i, h1, h2⟩ := len_optT _ _ _ _ _ h; exact ⟨i, Or.inl h1, h2⟩
  · obtain ⟨h1, h2⟩ := len_probeT _ _ h; exact ⟨_, Or.inr h1, h2⟩

private theorem len_linkT (st e sz orphan overlap : Int) (s : Seq) :
    Acc.len ∈ linkT st e sz orphan overlap s →
    ∃ i, Acc.get i ∈ linkT st e sz orphan overlap s ∧ probe s i = false := by
  simp only [linkT, List.mem_append, List.mem_singleton]
  intro h
  rcases h with (h | h) | h
  · split at h
    · obtain ⟨i, h1, h2⟩ := len_optT _ _ _ _ _ h
      exact ⟨i, Or.inl (Or.inl (by rw [if_pos ‹_›]; exact h1)), h2⟩
    · simp at h
  · cases h
  · split at h
    · obtain ⟨i, h1, h2⟩ := len_optT _ _ _ _ _ h
      exact ⟨i, Or.inr (by rw [if_pos ‹_›]; exact h1), h2⟩
    · simp at h

private theorem linkT_sub_loopT (st e sz orphan overlap : Int) (s : Seq) (a : Acc) :
    ∀ (k : Nat) (idx : Int), (idx ≤ st - 1 ∧ st - 1 < idx + k) →
      a ∈ linkT st e sz orphan overlap s → a ∈ loopT st e sz orphan overlap s k idx := by
  intro k
  induction k with
  | zero => intro idx h; omega
  | succ k ih =>
    intro idx h ha
    simp only [loopT, List.mem_append, List.mem_singleton]
    by_cases hi : idx = st - 1
    · left; left; rw [if_pos (Or.inl hi)]; exact ha
    · right; exact ih _ (by omega) ha

/-- `len(sequence)` is called by a batched render only after a probe beyond the
end of the sequence failed. -/
theorem len_only_after_failed_probe (start end_ size orphan overlap : Int) (s : Seq)
    (hl : 1 ≤ s.len) (ho : 0 ≤ orphan) :
    Acc.len ∈ renderwbT start end_ size orphan overlap s →
    ∃ i, Acc.get i ∈ renderwbT start end_ size orphan overlap s ∧ probe s i = false := by
  have hw := C11.opt_window start end_ size orphan s hl ho
  have hp0 : probe s 0 = true := by simp [probe]; omega
  simp only [renderwbT, hp0, if_true]
  have hwt := windowT_result start end_ size orphan s
  have hlw := len_windowT start end_ size orphan s
  generalize windowT start end_ size orphan s = wt at hwt hlw ⊢
  obtain ⟨⟨st, e, sz⟩, t⟩ := wt
  simp only at hwt hlw
  rw [← hwt] at hw
  simp only at hw
  simp only [List.mem_append, List.mem_singleton]
  intro h
  rcases h with (h | h) | h
  · cases h
  · obtain ⟨i, h1, h2⟩ := hlw h; exact ⟨i, Or.inl (Or.inr h1), h2⟩
  · rcases mem_loopT st e sz orphan overlap s _ _ _ h with h | ⟨j, hj, _, _⟩
    · obtain ⟨i, h1, h2⟩ := len_linkT _ _ _ _ _ _ h
      refine ⟨i, Or.inr ?_, h2⟩
      exact linkT_sub_loopT st e sz orphan overlap s _ _ _ (by omega) h1
    · cases hj

/-- Consequently, when no probe fails (in particular on an unbounded iterator,
where every index exists) the length is never asked for and the render — a
total function in the model — terminates. -/
theorem unbounded_no_len (start end_ size orphan overlap : Int) (s : Seq)
    (hl : 1 ≤ s.len) (ho : 0 ≤ orphan)
    (hall : ∀ i, Acc.get i ∈ renderwbT start end_ size orphan overlap s → probe s i = true) :
    hasLen (renderwbT start end_ size orphan overlap s) = false := by
  cases h : hasLen (renderwbT start end_ size orphan overlap s) with
  | false => rfl
  | true =>
    obtain ⟨i, h1, h2⟩ := len_only_after_failed_probe start end_ size orphan overlap s hl ho
      (hasLen_mem _ h)
    rw [hall i h1] at h2; cases h2

/-- **Unbatched rendering pulls every element exactly once, in order.** -/
theorem unbatched_pulls_all_once (n : Nat) :
    ((LazySt.init (some n)).run (renderwobT ⟨n, true⟩)).log = List.range n := by
  have h := pulls_sequential (some n) (renderwobT ⟨n, true⟩)
  simp only at h
  rw [h.1, run_pulled]
  congr 1
  unfold pulledBy renderwobT probe
  by_cases hn : n = 0
  · subst hn; simp [hasLen, hw]
  · have : 0 < n := by omega
    simp [this, hasLen]

example : ((LazySt.init (some 3)).run (renderwobT ⟨3, true⟩)).log = [0, 1, 2] := by decide

/-! ### Which objects are wrapped, and what the wrapper starts with

`GenEnsure.supportsGen` / `ensureGen` / `sfiInitGen` are regenerated on every run from
`DT_Util.sequence_supports_subscription` (the `hasattr` tests in their source order, with their `and` / `or` / `not`
and the attribute names as written; the `hasattr` facts themselves asked of real objects of every kind),
`sequence_ensure_subscription` (`return obj` / `return SequenceFromIter(iter(obj))`) and the class attributes and
`__init__` of `SequenceFromIter`.  They compute the model's classification `SeqKind.listLike`, `Batch.ensure`, and
`LazySt.init` - the state every pull theorem above starts from. -/

/-- `sequence_supports_subscription(obj)`, for every kind of object -/
theorem gen_supports_subscription_is_model (k : SeqKind) : GenEnsure.supportsGen k = k.listLike := by
  cases k <;> rfl

/-- `SequenceFromIter(it)`: nothing pulled, nothing logged, not finished -/
theorem gen_sfi_init_is_model (src : Option Nat) : GenEnsure.sfiInitGen src = LazySt.init src := rfl

/-- `sequence_ensure_subscription(obj)`: list-like objects as they are, everything else through a fresh wrapper -/
theorem gen_ensure_is_model (k : SeqKind) (src : Option Nat) : GenEnsure.ensureGen k src = ensure k src := by
  cases k <;> rfl

/-- exactly the objects that are not list-like are wrapped -/
theorem gen_ensure_wraps_iff (k : SeqKind) (src : Option Nat) :
    (∃ l, GenEnsure.ensureGen k src = .wrapped l) ↔ k.listLike = false := by
  rw [gen_ensure_is_model]
  unfold ensure
  cases h : k.listLike <;> simp

/-- **A freshly wrapped iterator has pulled nothing**: whatever the source wraps starts as `LazySt.init` of its
iterator - empty `data`, empty pull log, `finished` unset -, which satisfies the invariant of the wrapper -/
theorem gen_fresh_wrapper_pulled_nothing (k : SeqKind) (src : Option Nat) (l : LazySt)
    (h : GenEnsure.ensureGen k src = .wrapped l) :
    l = LazySt.init src ∧ l.pulled = 0 ∧ l.log = [] ∧ l.finished = false ∧ Inv l := by
  rw [gen_ensure_is_model] at h
  unfold ensure at h
  cases hk : k.listLike
  · simp only [hk, Bool.false_eq_true, if_false, Ensured.wrapped.injEq] at h
    subst h
    simp [Inv, LazySt.init]
  · simp [hk] at h

/-- the first subscription of what the source wrapped is the model's `get` on the initial state (the translated
`__getitem__` on the translated `__init__`) -/
theorem gen_getitem_on_fresh_wrapper (k : SeqKind) (src : Option Nat) (l : LazySt)
    (h : GenEnsure.ensureGen k src = .wrapped l) (idx : Int) :
    GenCode.sfiGetitemGen (idx.toNat + 2) l idx = (LazySt.init src).get idx := by
  rw [(gen_fresh_wrapper_pulled_nothing k src l h).1, gen_getitem_is_model]

/-- so whatever accesses follow the wrapping, the iterator of the wrapped object is pulled strictly in order, each
element at most once, never beyond what it yields (`pulls_sequential`, from the state the source really starts in) -/
theorem gen_wrapped_pulls_sequential (k : SeqKind) (src : Option Nat) (l : LazySt)
    (h : GenEnsure.ensureGen k src = .wrapped l) (t : List Acc) :
    (l.run t).log = List.range (l.run t).pulled ∧ (∀ n, src = some n → (l.run t).pulled ≤ n) := by
  rw [(gen_fresh_wrapper_pulled_nothing k src l h).1]
  exact pulls_sequential src t

example : GenEnsure.ensureGen .generator (some 3) = .wrapped (LazySt.init (some 3)) := by decide
example : GenEnsure.ensureGen .dict (some 2) = .wrapped (LazySt.init (some 2)) := by decide
example : GenEnsure.ensureGen .tuple (some 2) = .asIs := by decide

end DTML.Props.C12
