/-
C16 — Summary statistics inside dtml-in equal independently computed values.
Model: DTML/Stats.lean (rationals).  Mathlib tactics (ring, field_simp,
linarith) and ℚ lemmas are used in this file only.
-/
import DTML.Stats
import DTML.GenStats
import Mathlib.Tactic.Ring
import Mathlib.Tactic.FieldSimp
import Mathlib.Tactic.Linarith
import Mathlib.Data.Rat.Floor
set_option linter.unusedVariables false
namespace DTML.Props.C16
open DTML.Stats

private theorem pass_gen (xs : List ℚ) : ∀ (a : Acc),
    (xs.foldl step a).count = a.count + xs.length ∧
    (xs.foldl step a).sum = a.sum + xs.sum ∧
    (xs.foldl step a).sumsq = a.sumsq + (xs.map (fun x => x * x)).sum := by
  induction xs with
  | nil => intro a; simp
  | cons x xs ih =>
    intro a
    obtain ⟨h1, h2, h3⟩ := ih (step a x)
    simp only [List.foldl_cons, List.length_cons, List.sum_cons, List.map_cons]
    refine ⟨by rw [h1]; simp [step]; omega, by rw [h2]; simp [step]; ring, by rw [h3]; simp [step]; ring⟩

/-- count-x is the number of values, total-x their sum -/
theorem count_total_spec (xs : List ℚ) :
    (pass xs).count = xs.length ∧ (pass xs).sum = xs.sum ∧
    (pass xs).sumsq = (xs.map (fun x => x * x)).sum := by
  have := pass_gen xs {}
  simpa [pass] using this

/-- None values are ignored: the statistics are those of the non-None values -/
theorem none_ignored (items : List (Option ℚ)) :
    numeric items = items.filterMap id ∧ (∀ x, x ∈ numeric items ↔ some x ∈ items) := by
  refine ⟨rfl, fun x => ?_⟩
  simp [numeric]

/-- mean-x is the arithmetic mean -/
theorem mean_spec (xs : List ℚ) : mean xs = xs.sum / xs.length := by
  simp [mean, (count_total_spec xs).2.1]

private theorem sum_sq_dev (xs : List ℚ) (m : ℚ) :
    (xs.map (fun x => (x - m) ^ 2)).sum =
      (xs.map (fun x => x * x)).sum - 2 * m * xs.sum + xs.length * m ^ 2 := by
  induction xs with
  | nil => simp
  | cons x xs ih =>
    simp only [List.map_cons, List.sum_cons, List.length_cons, ih]
    push_cast
    ring

/-- variance-n-x (computed as Σx²/n − mean²) is the population variance -/
theorem variance_n_eq (xs : List ℚ) (h : xs ≠ []) :
    varianceN xs = (xs.map (fun x => (x - mean xs) ^ 2)).sum / xs.length := by
  have hn : (xs.length : ℚ) ≠ 0 := by
    have : xs.length ≠ 0 := by simpa using h
    exact_mod_cast this
  rw [sum_sq_dev, varianceN, mean_spec, (count_total_spec xs).2.2]
  field_simp
  ring

/-- variance-x (computed as variance-n · n/(n−1)) is the sample variance -/
theorem variance_eq (xs : List ℚ) (h : 1 < xs.length) :
    variance xs = (xs.map (fun x => (x - mean xs) ^ 2)).sum / (xs.length - 1) := by
  have hne : xs ≠ [] := by intro e; subst e; simp at h
  have hn : (xs.length : ℚ) ≠ 0 := by
    have : xs.length ≠ 0 := by omega
    exact_mod_cast this
  have hn1 : (xs.length : ℚ) - 1 ≠ 0 := by
    have : (1 : ℚ) < xs.length := by exact_mod_cast h
    linarith
  rw [variance, variance_n_eq xs hne]
  field_simp

private theorem list_sum_nonneg (l : List ℚ) (h : ∀ y ∈ l, 0 ≤ y) : 0 ≤ l.sum := by
  induction l with
  | nil => simp
  | cons a l ih =>
    simp only [List.sum_cons]
    have := h a List.mem_cons_self
    have := ih (fun y hy => h y (List.mem_cons_of_mem _ hy))
    linarith

/-- the variances are non-negative, so standard-deviation-x / -n-x (their
square roots, computed by `math.sqrt`: external) are defined -/
theorem variance_nonneg (xs : List ℚ) (h : xs ≠ []) :
    0 ≤ varianceN xs ∧ (1 < xs.length → 0 ≤ variance xs) := by
  have hs : 0 ≤ (xs.map (fun x => (x - mean xs) ^ 2)).sum := by
    apply list_sum_nonneg
    intro y hy
    simp only [List.mem_map] at hy
    obtain ⟨x, _, rfl⟩ := hy
    positivity
  constructor
  · rw [variance_n_eq xs h]; positivity
  · intro h1
    rw [variance_eq xs h1]
    have : (0 : ℚ) < xs.length - 1 := by
      have : (1 : ℚ) < xs.length := by exact_mod_cast h1
      linarith
    positivity

/-! #### min / max -/

private def MinInv (seen : List ℚ) : Option ℚ → Prop
  | none => seen = []
  | some m => m ∈ seen ∧ ∀ x ∈ seen, m ≤ x

private def MaxInv (seen : List ℚ) : Option ℚ → Prop
  | none => seen = []
  | some m => m ∈ seen ∧ ∀ x ∈ seen, x ≤ m

private theorem minmax_gen (xs : List ℚ) : ∀ (seen : List ℚ) (a : Acc),
    MinInv seen a.min → MaxInv seen a.max →
    MinInv (seen ++ xs) (xs.foldl step a).min ∧ MaxInv (seen ++ xs) (xs.foldl step a).max := by
  induction xs with
  | nil => intro seen a h1 h2; simpa using ⟨h1, h2⟩
  | cons x xs ih =>
    intro seen a h1 h2
    have hstep : MinInv (seen ++ [x]) (step a x).min ∧ MaxInv (seen ++ [x]) (step a x).max := by
      constructor
      · cases hm : a.min with
        | none =>
          simp only [hm, MinInv] at h1; subst h1
          simp [step, hm, MinInv]
        | some m =>
          simp only [hm, MinInv] at h1
          obtain ⟨h1a, h1b⟩ := h1
          simp only [step, hm, MinInv]
          by_cases hx : x < m
          · simp only [hx, if_true]
            refine ⟨by simp, ?_⟩
            intro y hy
            rcases List.mem_append.mp hy with hy | hy
            · have := h1b y hy; linarith
            · simp at hy; subst hy; exact le_refl _
          · simp only [hx, if_false]
            refine ⟨List.mem_append_left _ h1a, ?_⟩
            intro y hy
            rcases List.mem_append.mp hy with hy | hy
            · exact h1b y hy
            · simp at hy; subst hy; exact not_lt.mp hx
      · cases hm : a.max with
        | none =>
          simp only [hm, MaxInv] at h2; subst h2
          simp [step, hm, MaxInv]
        | some m =>
          simp only [hm, MaxInv] at h2
          obtain ⟨h2a, h2b⟩ := h2
          simp only [step, hm, MaxInv]
          by_cases hx : x > m
          · simp only [hx, if_true]
            refine ⟨by simp, ?_⟩
            intro y hy
            rcases List.mem_append.mp hy with hy | hy
            · have := h2b y hy; linarith
            · simp at hy; subst hy; exact le_refl _
          · simp only [hx, if_false]
            refine ⟨List.mem_append_left _ h2a, ?_⟩
            intro y hy
            rcases List.mem_append.mp hy with hy | hy
            · exact h2b y hy
            · simp at hy; subst hy; exact not_lt.mp hx
    have := ih (seen ++ [x]) (step a x) hstep.1 hstep.2
    simpa using this

/-- min-x and max-x are the extremes: members of the list bounding all others -/
theorem min_max_spec (xs : List ℚ) (h : xs ≠ []) :
    ∃ lo hi, (pass xs).min = some lo ∧ (pass xs).max = some hi ∧
      lo ∈ xs ∧ hi ∈ xs ∧ ∀ x ∈ xs, lo ≤ x ∧ x ≤ hi := by
  have := minmax_gen xs [] {} rfl rfl
  simp only [List.nil_append] at this
  obtain ⟨h1, h2⟩ := this
  unfold pass
  cases hmin : (xs.foldl step {}).min with
  | none => simp only [hmin, MinInv] at h1; exact absurd h1 h
  | some lo =>
    cases hmax : (xs.foldl step {}).max with
    | none => simp only [hmax, MaxInv] at h2; exact absurd h2 h
    | some hi =>
      simp only [hmin, MinInv] at h1
      simp only [hmax, MaxInv] at h2
      exact ⟨lo, hi, rfl, rfl, h1.1, h2.1, fun x hx => ⟨h1.2 x hx, h2.2 x hx⟩⟩

/-! #### median -/

private theorem sorted_facts (xs : List ℚ) :
    (sorted xs).length = xs.length ∧ (sorted xs).Perm xs ∧
    ∀ i j (hi : i < (sorted xs).length) (hj : j < (sorted xs).length), i < j →
      (sorted xs)[i] ≤ (sorted xs)[j] := by
  have hp : (sorted xs).Perm xs := List.mergeSort_perm xs _
  have hs : (sorted xs).Pairwise (fun a b => decide (a ≤ b) = true) :=
    List.pairwise_mergeSort (le := fun a b => decide (a ≤ b))
      (fun a b c h1 h2 => by simp at *; exact le_trans h1 h2)
      (fun a b => by simp; exact le_total a b) xs
  refine ⟨hp.length_eq, hp, ?_⟩
  intro i j hi hj hij
  have := (List.pairwise_iff_getElem.mp hs) i j hi hj hij
  simpa using this

/-- **median-x.**  One value: that value.  Odd count: the middle element of the
sorted values.  Even count: a value between the two middle elements `lo ≤ hi` —
for ints the floor of their mean, otherwise their mean. -/
theorem median_spec (isInt : Bool) (xs : List ℚ) (hne : xs ≠ [])
    (hint : isInt = true → ∀ x ∈ xs, ∃ k : ℤ, x = k) :
    (xs.length % 2 ≠ 0 → 1 < xs.length → median isInt xs = (sorted xs)[xs.length / 2]?) ∧
    (xs.length % 2 = 0 → ∃ lo hi m, (sorted xs)[xs.length / 2 - 1]? = some lo ∧
        (sorted xs)[xs.length / 2]? = some hi ∧ lo ≤ hi ∧ median isInt xs = some m ∧ lo ≤ m ∧ m ≤ hi ∧
        m = (if isInt then (((hi + lo) / 2).floor : ℚ) else (hi + lo) / 2)) := by
  obtain ⟨hlen, hperm, hsort⟩ := sorted_facts xs
  have hpos : 0 < xs.length := List.length_pos_iff.mpr hne
  constructor
  · intro hodd h1
    simp only [median]
    rw [if_neg (by omega), if_neg (by omega), if_pos hodd]
  · intro heven
    have hn2 : 2 ≤ xs.length := by omega
    have h1 : xs.length / 2 - 1 < (sorted xs).length := by omega
    have h2 : xs.length / 2 < (sorted xs).length := by omega
    refine ⟨(sorted xs)[xs.length / 2 - 1], (sorted xs)[xs.length / 2], _, by simp [h1], by simp [h2],
      hsort _ _ h1 h2 (by omega), ?_, ?_, ?_, rfl⟩
    · simp only [median]
      rw [if_neg (by omega), if_neg (by omega), if_neg (by omega)]
      simp [h1, h2]
    · cases isInt with
      | false => simp only [Bool.false_eq_true, if_false]; have := hsort _ _ h1 h2 (by omega); linarith
      | true =>
        simp only [if_true]
        obtain ⟨k, hk⟩ := hint rfl _ (hperm.subset (List.getElem_mem h1))
        have hle := hsort _ _ h1 h2 (by omega)
        generalize (sorted xs)[xs.length / 2 - 1] = lo at hk hle ⊢
        generalize (sorted xs)[xs.length / 2] = hi at hle ⊢
        subst hk
        have h3 : (k : ℚ) ≤ (hi + k) / 2 := by linarith
        have h4 : k ≤ ((hi + (k : ℚ)) / 2).floor := Rat.le_floor_iff.mpr h3
        exact_mod_cast h4
    · cases isInt with
      | false => simp only [Bool.false_eq_true, if_false]; have := hsort _ _ h1 h2 (by omega); linarith
      | true =>
        simp only [if_true]
        have hle := hsort _ _ h1 h2 (by omega)
        generalize (sorted xs)[xs.length / 2 - 1] = lo at hle ⊢
        generalize (sorted xs)[xs.length / 2] = hi at hle ⊢
        have h3 : (((hi + lo) / 2).floor : ℚ) ≤ (hi + lo) / 2 := Int.floor_le ((hi + lo) / 2)
        linarith

/-! ### The model is what the source says

`GenStats.stepGen`, `derivedGen` and `medianGen` are regenerated on every run by translating the statements of
`sequence_variables.statistics` in /repo (harness/trans_stats.py).  The three theorems below prove that they compute the
hand-written model about which the property theorems above are stated; a change of `statistics()` changes the generated
side and they stop checking. -/

/-- one numeric item: the loop variables after the translated loop body are `Stats.step`'s (and the value is appended to
`values`, whose length is the `count` used afterwards) — whether the item is an int (`s = item * int(item)`) or not -/
theorem gen_statistics_step_is_model (isInt : Bool) (a : Acc) (vals : List ℚ) (s0 x : ℚ)
    (hmm : a.min = none ↔ a.max = none) :
    let g := GenStats.stepGen isInt ⟨a.sum, a.sumsq, s0, a.min, a.max, vals⟩ x
    g.sum = (step a x).sum ∧ g.sumsq = (step a x).sumsq ∧ g.min = (step a x).min ∧ g.max = (step a x).max ∧
    g.values = vals ++ [x] ∧ ((step a x).min = none ↔ (step a x).max = none) := by
  obtain ⟨c, sm, sq, mn, mx⟩ := a
  cases mn <;> cases mx <;> cases isInt <;> simp at hmm <;>
    simp [GenStats.stepGen, step, GenStats.ltO, GenStats.gtO] <;> (try split_ifs <;> simp_all)

/-- the whole accumulation loop over numeric items: sum, sum of squares, min, max as `Stats.pass`, `values` = the items
(`min` and `max` are None together: the source sets both at the first numeric item) -/
theorem gen_statistics_loop_is_model (isInt : Bool) (xs : List ℚ) :
    let g := xs.foldl (GenStats.stepGen isInt) ⟨0, 0, 0, none, none, []⟩
    g.sum = (pass xs).sum ∧ g.sumsq = (pass xs).sumsq ∧ g.min = (pass xs).min ∧ g.max = (pass xs).max ∧
    g.values = xs := by
  have gen : ∀ (ys : List ℚ) (a : Acc) (vals : List ℚ) (s0 : ℚ), (a.min = none ↔ a.max = none) →
      let g := ys.foldl (GenStats.stepGen isInt) ⟨a.sum, a.sumsq, s0, a.min, a.max, vals⟩
      g.sum = (ys.foldl step a).sum ∧ g.sumsq = (ys.foldl step a).sumsq ∧ g.min = (ys.foldl step a).min ∧
      g.max = (ys.foldl step a).max ∧ g.values = vals ++ ys := by
    intro ys
    induction ys with
    | nil => intro a vals s0 _; simp
    | cons y ys ih =>
      intro a vals s0 hmm
      simp only [List.foldl_cons]
      obtain ⟨h1, h2, h3, h4, h5, h6⟩ := gen_statistics_step_is_model isInt a vals s0 y hmm
      generalize GenStats.stepGen isInt ⟨a.sum, a.sumsq, s0, a.min, a.max, vals⟩ y = g at h1 h2 h3 h4 h5
      obtain ⟨gs, gq, g0, gmn, gmx, gv⟩ := g
      simp only at h1 h2 h3 h4 h5
      subst h1 h2 h3 h4 h5
      have := ih (step a y) (vals ++ [y]) g0 h6
      simpa using this
  have := gen xs {} [] 0 (by simp)
  simpa [pass] using this

/-- the block of numeric statistics: mean, total, variance-n and its root, and for more than one value variance and its
root (otherwise empty strings) — the values of `Stats.mean / varianceN / variance`.  The statement `if sumsq < 0:
sumsq = 0.0` of the source is part of the translation; on exact numbers it never fires (`variance_nonneg`). -/
theorem gen_statistics_derived_is_model (xs : List ℚ) (h : xs ≠ []) :
    GenStats.derivedGen xs.length (pass xs).sum (pass xs).sumsq =
      [("mean", .num (mean xs)), ("total", .num (pass xs).sum), ("variance-n", .num (varianceN xs)),
       ("standard-deviation-n", .sqrt (varianceN xs))] ++
      (if xs.length > 1 then [("variance", .num (variance xs)), ("standard-deviation", .sqrt (variance xs))]
       else [("variance", .empty), ("standard-deviation", .empty)]) := by
  have hv := (variance_nonneg xs h).1
  have hv' : ¬ (pass xs).sumsq / (xs.length : ℚ) - (pass xs).sum / (xs.length : ℚ) * ((pass xs).sum / (xs.length : ℚ)) < 0 := by
    have : varianceN xs = (pass xs).sumsq / (xs.length : ℚ) - (pass xs).sum / (xs.length : ℚ) * ((pass xs).sum / (xs.length : ℚ)) := by
      simp [varianceN, mean]
    rw [← this]; exact not_lt.mpr hv
  simp only [GenStats.derivedGen]
  rw [if_neg hv']
  by_cases h1 : xs.length > 1
  · simp [h1, variance, varianceN, mean]
  · simp [h1, varianceN, mean]

/-- the median rule: the translated rule applied to the sorted values is `Stats.median` -/
theorem gen_statistics_median_is_model (isInt : Bool) (xs : List ℚ) (h : xs ≠ []) :
    GenStats.medianGen isInt (sorted xs) xs.length (pass xs).min = median isInt xs := by
  have hpos : 0 < xs.length := List.length_pos_iff.mpr h
  have h0 : ¬ xs.length = 0 := by omega
  simp only [GenStats.medianGen, median, h0, if_false]
  by_cases h1 : xs.length = 1
  · simp [h1]
  · simp only [h1, if_false]
    by_cases h2 : xs.length % 2 ≠ 0
    · simp [h2]
    · simp only [h2, if_false]
      cases h3 : (sorted xs)[xs.length / 2]? <;> cases h4 : (sorted xs)[xs.length / 2 - 1]? <;>
        cases isInt <;> simp

/-- non-vacuity: a concrete list -/
example : mean [1, 2, 3, 6] = 3 ∧ varianceN [1, 2, 3, 6] = 7 / 2 ∧ variance [1, 2, 3, 6] = 14 / 3 := by
  refine ⟨by norm_num [mean, pass, step], by norm_num [varianceN, mean, pass, step],
    by norm_num [variance, varianceN, mean, pass, step]⟩

end DTML.Props.C16
