/-
C02 — Names resolve by documented source precedence; block bindings are scoped.
Model: DTML/Render.lean (`callStack` = the namespace String.__call__ builds, `initvars`,
`lookupStack`/`frameGet` = TemplateDict.getitem over dictionaries and InstanceDicts,
`getitem` with/without auto-call, `callSub` = a template invoked by name).
-/
import DTML.Render
import DTML.Props.C08
import DTML.Lemmas.Cache
import DTML.GenNs
import DTML.GenStack
import DTML.Lemmas.Call
import DTML.Lemmas.Fetch
set_option linter.unusedVariables false
namespace DTML.Props.C02
open DTML.Render

/-! #### what one source contributes -/

/-- the value a client object offers for `n`: its attribute, unless the name is private
(starts with an underscore; only `__str__` is answered, with the object's string form) -/
def clientAttr (n : Text) (v : Val) : Option Val :=
  if n.head? = some '_' then (if n = "__str__".toList then some (.str (ustr v)) else none)
  else match v with
    | .obj _ attrs => attrs.lookup n
    | _ => none

/-- the value a frame offers for `n` (attribute caches aside) -/
def frameOffer (n : Text) : Frame → Option Val
  | .dict kvs => kvs.lookup n
  | .inst v _ => clientAttr n v
  | _ => none

/-- frames as String.__call__ / the block tags create them: dictionaries and instances with an
empty attribute cache -/
def Fresh : Frame → Prop
  | .dict _ => True
  | .inst _ c => c = []
  | _ => False

/-- without a guard, a fresh frame answers exactly with what it offers — and nothing is traced -/
theorem frameGet_fresh (env : Env) (hg : env.guardOn = false) (f : Frame) (hf : Fresh f) (n : Text) (tr : List Event) :
    (match frameOffer n f with
     | some v => ∃ f', frameGet env f n tr = (.val v f', tr)
     | none => frameGet env f n tr = (.missing, tr)) := by
  cases f with
  | dict kvs =>
    simp only [frameOffer, frameGet]
    cases kvs.lookup n <;> simp
  | inst v c =>
    simp only [Fresh] at hf
    subst hf
    simp only [frameOffer, clientAttr, frameGet, List.lookup, hg]
    by_cases hu : n.head? = some '_'
    · simp only [hu, if_true]
      by_cases hs : n = "__str__".toList
      · simp [hs]
      · simp at hs
        simp [hs]
    · simp only [hu, if_false]
      cases v <;> simp
      rename_i id attrs
      cases attrs.lookup n <;> simp
  | seq sv => exact hf.elim
  | bad => exact hf.elim

/-- **Innermost first**: the namespace answers with the first (topmost) frame that offers the
name; frames below it are not consulted; when no frame offers it the name is undefined. -/
theorem lookup_first_offer (env : Env) (hg : env.guardOn = false) :
    ∀ (fs : List Frame), (∀ f ∈ fs, Fresh f) → ∀ (n : Text) (tr : List Event),
    (match fs.findSome? (frameOffer n) with
     | some v => ∃ fs', lookupStack env fs n tr = (.val v fs', tr)
     | none => lookupStack env fs n tr = (.missing, tr)) := by
  intro fs
  induction fs with
  | nil => intro _ n tr; simp [lookupStack]
  | cons f fs ih =>
    intro hfr n tr
    have hf := frameGet_fresh env hg f (hfr f (List.mem_cons_self ..)) n tr
    have ih' := ih (fun g hg' => hfr g (List.mem_cons_of_mem _ hg')) n tr
    simp only [List.findSome?_cons]
    cases ho : frameOffer n f with
    | some v =>
      rw [ho] at hf
      obtain ⟨f', hf'⟩ := hf
      simp only [lookupStack, hf']
      exact ⟨_, rfl⟩
    | none =>
      rw [ho] at hf
      simp only [lookupStack, hf]
      cases hr : fs.findSome? (frameOffer n) with
      | some v =>
        rw [hr] at ih'
        obtain ⟨fs', h'⟩ := ih'
        simp only [h']
        exact ⟨_, rfl⟩
      | none =>
        rw [hr] at ih'
        simp only [ih']

/-! #### the sources of a top-level call, in order of precedence -/

/-- **the documented order**: call keyword arguments, variables set on the template, the client
objects (the last of a tuple first), the call mapping, the template's construction-time defaults -/
def precedence (t : Template) (c : CallArgs) (n : Text) : Option Val :=
  (c.kw.lookup n).or <| (t.vars.lookup n).or <| (c.clients.reverse.findSome? (clientAttr n)).or <|
    (c.mapping.lookup n).or <| t.globals.lookup n

private theorem findSome_dictIf (kvs : List (Text × Val)) (n : Text) :
    (if kvs.isEmpty then ([] : List Frame) else [Frame.dict kvs]).findSome? (frameOffer n) = kvs.lookup n := by
  cases kvs with
  | nil => simp [List.lookup]
  | cons a t => simp [frameOffer]

private theorem findSome_clients (cs : List Val) (n : Text) :
    (cs.map (fun v => Frame.inst v [])).findSome? (frameOffer n) = cs.findSome? (clientAttr n) := by
  induction cs with
  | nil => rfl
  | cons a t ih => simp only [List.map_cons, List.findSome?_cons, frameOffer, ih]

private theorem findSome_append {α β} (f : α → Option β) (l1 l2 : List α) :
    (l1 ++ l2).findSome? f = (l1.findSome? f).or (l2.findSome? f) := by
  induction l1 with
  | nil => simp
  | cons a t ih =>
    simp only [List.cons_append, List.findSome?_cons]
    cases f a <;> simp [ih]

theorem callStack_offer (t : Template) (c : CallArgs) (n : Text) :
    (callStack t c).findSome? (frameOffer n) = precedence t c n := by
  unfold callStack precedence
  simp only [List.reverse_append, findSome_append, List.reverse_reverse]
  have r1 : ∀ kvs : List (Text × Val),
      (if kvs.isEmpty then ([] : List Frame) else [Frame.dict kvs]).reverse =
      (if kvs.isEmpty then ([] : List Frame) else [Frame.dict kvs]) := by
    intro kvs; split <;> rfl
  simp only [r1, findSome_dictIf, ← List.map_reverse, findSome_clients]

theorem callStack_fresh (t : Template) (c : CallArgs) : ∀ f ∈ callStack t c, Fresh f := by
  intro f hf
  unfold callStack at hf
  simp only [List.mem_reverse, List.mem_append, List.mem_map] at hf
  rcases hf with (((h | h) | h) | h) | h
  · split at h <;> simp at h; subst h; trivial
  · split at h <;> simp at h; subst h; trivial
  · obtain ⟨v, _, rfl⟩ := h; rfl
  · split at h <;> simp at h; subst h; trivial
  · split at h <;> simp at h; subst h; trivial

/-- **Name resolution precedence.**  In the namespace of a top-level call
`template(client, mapping, **kw)` a name resolves to the value of the highest-priority source
that defines it — keyword arguments, then template variables, then the client objects (last
first, private names never), then the call mapping, then the template's defaults — and is
undefined when no source defines it.  Nothing else is consulted and no event is traced. -/
theorem lookup_precedence (env : Env) (hg : env.guardOn = false) (t : Template) (c : CallArgs)
    (n : Text) (tr : List Event) :
    (match precedence t c n with
     | some v => ∃ fs', lookupStack env (callStack t c) n tr = (.val v fs', tr)
     | none => lookupStack env (callStack t c) n tr = (.missing, tr)) := by
  have := lookup_first_offer env hg (callStack t c) (callStack_fresh t c) n tr
  rw [callStack_offer] at this
  exact this

/-- the template's defaults: construction-time keyword arguments first, then the
construction-time mapping (whose private keys are not taken over) -/
theorem initvars_lookup (ckw cmapping : List (Text × Val)) (n : Text) :
    (initvars ckw cmapping).lookup n =
      (ckw.lookup n).or (if n.head? = some '_' then none else cmapping.lookup n) := by
  unfold initvars
  have happ : ∀ (l1 l2 : List (Text × Val)), (l1 ++ l2).lookup n = (l1.lookup n).or (l2.lookup n) := by
    intro l1 l2
    induction l1 with
    | nil => simp [List.lookup]
    | cons a t ih =>
      obtain ⟨k, v⟩ := a
      simp only [List.cons_append, List.lookup_cons]
      split <;> simp [ih]
  rw [happ]
  cases hk : ckw.lookup n with
  | some v => simp
  | none =>
    simp only [Option.or_none, Option.none_or]
    have hnot : ckw.any (·.1 == n) = false := by
      induction ckw with
      | nil => rfl
      | cons a t ih =>
        obtain ⟨k, v⟩ := a
        simp only [List.lookup_cons] at hk
        split at hk
        · cases hk
        · rename_i hne
          simp only [List.any_cons, Bool.or_eq_false_iff]
          refine ⟨?_, ih hk⟩
          simp only [beq_eq_false_iff_ne, ne_eq] at hne ⊢
          exact fun h => hne h.symm
    induction cmapping with
    | nil => simp [List.lookup]
    | cons a t ih =>
      obtain ⟨k, v⟩ := a
      rw [List.filter_cons]
      by_cases hkn : n = k
      · subst hkn
        by_cases hu : n.head? = some '_'
        · simp only [hu, bne_self_eq_false, Bool.false_and, Bool.false_eq_true, if_false, if_true] at ih ⊢
          exact ih
        · have : (n.head? != some '_') = true := by simp [hu]
          simp [this, hnot, hu, List.lookup_cons]
      · have hne : (n == k) = false := by simp [hkn]
        split
        · simp only [List.lookup_cons, hne]
          exact ih
        · simp only [List.lookup_cons, hne]
          exact ih

/-- the full chain of C02 for a template built as `Template(src, cmapping, **ckw)` -/
theorem lookup_precedence_full (env : Env) (hg : env.guardOn = false) (blocks : List Blk)
    (vars ckw cmapping : List (Text × Val)) (c : CallArgs) (n : Text) (tr : List Event) :
    let t : Template := { blocks := blocks, globals := initvars ckw cmapping, vars := vars }
    (match (c.kw.lookup n).or <| (vars.lookup n).or <| (c.clients.reverse.findSome? (clientAttr n)).or <|
            (c.mapping.lookup n).or <| (ckw.lookup n).or <|
            (if n.head? = some '_' then none else cmapping.lookup n) with
     | some v => ∃ fs', lookupStack env (callStack t c) n tr = (.val v fs', tr)
     | none => lookupStack env (callStack t c) n tr = (.missing, tr)) := by
  intro t
  have := lookup_precedence env hg t c n tr
  simp only [precedence, t, initvars_lookup] at this
  exact this

/-- **Names starting with an underscore are never resolved from client objects** -/
theorem underscore_not_from_client (n : Text) (v : Val) (h : n.head? = some '_') (hs : n ≠ "__str__".toList) :
    clientAttr n v = none := by
  simp at hs
  simp [clientAttr, h, hs]

/-! #### a template invoked by name -/

/-- the namespace a sub-template renders in: its own variables and defaults laid on top of the
caller's current namespace -/
def subStack (t : Template) (caller : List Frame) : List Frame :=
  (if t.vars.isEmpty then [] else [Frame.dict t.vars]) ++
  (if t.globals.isEmpty then [] else [Frame.dict t.globals]) ++ caller

/-- what the caller gets from the sub-template's rendering: its joined text, or the value of a
dtml-return, or its exception -/
def subOutcome (env : Env) : Res (List Piece) → Res Val
  | .ok ps => (match joinPieces env ps with
      | .ok p => .ok (valOfPiece p)
      | .raise e => .raise e
      | _ => .oom)
  | .ret v => .ok v
  | .raise e => .raise e
  | .oom => .oom

/-- **A template invoked by name sees the caller's current namespace with its own defaults on
top**, one level deeper: its blocks are rendered in `subStack t caller`; the frames it pushed
are popped and the level restored afterwards (and, C08, the caller's namespace is as before). -/
theorem subtemplate_sees_caller (env : Env) (fuel id : Nat) (t : Template) (st : St)
    (ht : env.templates[id]? = some t) (hl : ¬ st.level > 200) :
    let r := renderBlocks env fuel t.blocks { st with stack := subStack t st.stack, level := st.level + 1 }
    callSub env (fuel + 1) id st =
      (subOutcome env r.1,
       { r.2 with stack := r.2.stack.drop ((if t.globals.isEmpty then ([] : List Frame) else [Frame.dict t.globals]).length +
                   (if t.vars.isEmpty then ([] : List Frame) else [Frame.dict t.vars]).length), level := st.level }) ∧
    (callSub env (fuel + 1) id st).2.stack.map C08.erase = st.stack.map C08.erase := by
  intro r
  refine ⟨?_, (C08.subtemplate_preserves_stack env (fuel + 1) id st).1⟩
  unfold callSub
  simp only [ht, hl, if_false]
  show _ = (subOutcome env r.1, _)
  have hr : renderBlocks env fuel t.blocks { st with stack := (if t.vars.isEmpty then [] else [Frame.dict t.vars]) ++
      (if t.globals.isEmpty then [] else [Frame.dict t.globals]) ++ st.stack, level := st.level + 1 } = r := rfl
  rw [hr]
  obtain ⟨r1, r2⟩ := r
  cases r1 with
  | ok ps => simp only [subOutcome]; cases joinPieces env ps <;> rfl
  | raise e => rfl
  | ret v => rfl
  | oom => rfl

/-- in the sub-template a name resolves to its own variables, then its own defaults, then
whatever the caller's namespace gives -/
theorem subtemplate_lookup (t : Template) (caller : List Frame) (n : Text) :
    (subStack t caller).findSome? (frameOffer n) =
      (t.vars.lookup n).or ((t.globals.lookup n).or (caller.findSome? (frameOffer n))) := by
  unfold subStack
  simp only [findSome_append, findSome_dictIf]
  cases t.vars.lookup n <;> simp

/-! #### block bindings shadow, innermost first, until the end tag -/

/-- **A binding introduced by a block shadows everything outside it**: with the block's frame on
top, a name the frame offers resolves to the frame's value whatever the frames below hold -/
theorem block_binding_shadows (env : Env) (hg : env.guardOn = false) (f : Frame) (hf : Fresh f)
    (outer outer' : List Frame) (n : Text) (v : Val) (tr : List Event) (ho : frameOffer n f = some v) :
    (∃ fs', lookupStack env (f :: outer) n tr = (.val v fs', tr)) ∧
    (∃ fs', lookupStack env (f :: outer') n tr = (.val v fs', tr)) := by
  have h := frameGet_fresh env hg f hf n tr
  rw [ho] at h
  obtain ⟨f', hf'⟩ := h
  exact ⟨⟨f' :: outer, by simp only [lookupStack, hf']⟩, ⟨f' :: outer', by simp only [lookupStack, hf']⟩⟩

/-- names the block does not bind resolve as outside it -/
theorem block_binding_transparent (env : Env) (hg : env.guardOn = false) (f : Frame) (hf : Fresh f)
    (outer : List Frame) (n : Text) (tr : List Event) (ho : frameOffer n f = none) :
    lookupStack env (f :: outer) n tr =
      (match lookupStack env outer n tr with
       | (.val v fs', tr') => (.val v (f :: fs'), tr')
       | r => r) := by
  have h := frameGet_fresh env hg f hf n tr
  rw [ho] at h
  simp only [lookupStack, h]
  split <;> simp_all

/-- **… only until the block's end tag**: after any block (in, with, let, if, try/except, …) the
namespace holds the same entries in the same order as before it (C08), so every binding the
block introduced is gone and every outer binding is back -/
theorem block_bindings_end (env : Env) (fuel : Nat) (b : Blk) (st : St) (n : Text) :
    ((renderBlk env fuel b st).2.stack.map C08.erase).findSome? (frameOffer n) =
    (st.stack.map C08.erase).findSome? (frameOffer n) := by
  rw [(C08.block_preserves_stack env fuel b st).1]

/-- an attribute cache does not change what a frame offers -/
theorem offer_erase (n : Text) (f : Frame) : frameOffer n (C08.erase f) = frameOffer n f := by
  cases f <;> rfl


/-! #### … on the namespace as it really is after the block (attribute caches included) -/

/-- the frames a running render holds: dictionaries, and instances whose attribute cache only
repeats the object's own public attributes (an invariant of every interpreter function:
`Lemmas.Cache.all_cons`) -/
def Consistent : Frame → Prop
  | .dict _ => True
  | .inst v c => Lemmas.Cache.ConsF (.inst v c)
  | _ => False

theorem fresh_consistent (f : Frame) (h : Fresh f) : Consistent f := by
  cases f with
  | dict _ => trivial
  | inst v c => simp only [Fresh] at h; subst h; exact Lemmas.Cache.consF_fresh v
  | seq _ => exact h.elim
  | bad => exact h.elim

/-- without a guard a consistent frame answers exactly with what it offers, cache or no cache -/
theorem frameGet_consistent (env : Env) (hg : env.guardOn = false) (f : Frame) (hf : Consistent f) (n : Text)
    (tr : List Event) :
    (match frameOffer n f with
     | some v => ∃ f', frameGet env f n tr = (.val v f', tr)
     | none => frameGet env f n tr = (.missing, tr)) := by
  cases f with
  | dict kvs => exact frameGet_fresh env hg (.dict kvs) trivial n tr
  | seq sv => exact hf.elim
  | bad => exact hf.elim
  | inst v c =>
    cases hc : c.lookup n with
    | none =>
      simp only [frameOffer, clientAttr, frameGet, hc, hg]
      by_cases hu : n.head? = some '_'
      · simp only [hu, if_true]
        by_cases hs : n = "__str__".toList
        · simp [hs]
        · simp at hs
          simp [hs]
      · simp only [hu, if_false]
        cases v <;> simp
        rename_i id attrs
        cases attrs.lookup n <;> simp
    | some a =>
      simp only [frameGet, hc, frameOffer]
      cases v with
      | obj id attrs =>
        obtain ⟨h1, h2⟩ := hf n a hc
        simp only [clientAttr, h2, if_false, h1]
        exact ⟨_, rfl⟩
      | _ =>
        simp only [Consistent, Lemmas.Cache.ConsF] at hf
        subst hf
        simp [List.lookup] at hc

/-- **Innermost first, on any namespace a render can hold** (`lookup_first_offer` without the
fresh-cache restriction) -/
theorem lookup_first_offer_consistent (env : Env) (hg : env.guardOn = false) :
    ∀ (fs : List Frame), (∀ f ∈ fs, Consistent f) → ∀ (n : Text) (tr : List Event),
    (match fs.findSome? (frameOffer n) with
     | some v => ∃ fs', lookupStack env fs n tr = (.val v fs', tr)
     | none => lookupStack env fs n tr = (.missing, tr)) := by
  intro fs
  induction fs with
  | nil => intro _ n tr; simp [lookupStack]
  | cons f fs ih =>
    intro hfr n tr
    have hf := frameGet_consistent env hg f (hfr f (List.mem_cons_self ..)) n tr
    have ih' := ih (fun g hg' => hfr g (List.mem_cons_of_mem _ hg')) n tr
    simp only [List.findSome?_cons]
    cases ho : frameOffer n f with
    | some v =>
      rw [ho] at hf
      obtain ⟨f', hf'⟩ := hf
      simp only [lookupStack, hf']
      exact ⟨_, rfl⟩
    | none =>
      rw [ho] at hf
      simp only [lookupStack, hf]
      cases hr : fs.findSome? (frameOffer n) with
      | some v =>
        rw [hr] at ih'
        obtain ⟨fs', h'⟩ := ih'
        simp only [h']
        exact ⟨_, rfl⟩
      | none =>
        rw [hr] at ih'
        simp only [ih']

private theorem consistent_of_erase (f g : Frame) (he : C08.erase g = C08.erase f) (hf : Consistent f)
    (hg : Lemmas.Cache.ConsF g) : Consistent g := by
  cases f <;> cases g <;> simp [C08.erase] at he <;> first | trivial | exact hf.elim | exact hg

private theorem consistent_of_map_erase : ∀ (fs gs : List Frame), gs.map C08.erase = fs.map C08.erase →
    (∀ f ∈ fs, Consistent f) → (∀ g ∈ gs, Lemmas.Cache.ConsF g) → ∀ g ∈ gs, Consistent g := by
  intro fs
  induction fs with
  | nil => intro gs he _ _ g hg; cases gs <;> simp at he; cases hg
  | cons f fs ih =>
    intro gs he hf hc g hg
    cases gs with
    | nil => cases hg
    | cons g0 gs =>
      simp only [List.map_cons, List.cons.injEq] at he
      rcases List.mem_cons.mp hg with rfl | hg
      · exact consistent_of_erase f _ he.1 (hf f (List.mem_cons_self ..)) (hc _ (List.mem_cons_self ..))
      · exact ih gs he.2 (fun x hx => hf x (List.mem_cons_of_mem _ hx))
          (fun x hx => hc x (List.mem_cons_of_mem _ hx)) g hg

private theorem findSome_erase (n : Text) (fs : List Frame) :
    (fs.map C08.erase).findSome? (frameOffer n) = fs.findSome? (frameOffer n) := by
  induction fs with
  | nil => rfl
  | cons f fs ih => simp only [List.map_cons, List.findSome?_cons, offer_erase, ih]

/-- **After the block's end tag every name resolves as before the block** — on the actual
namespace the block leaves behind (caches filled by the block included): whatever the block
was, whatever it bound, and however it ended (normally, by an error, or out of fuel), a lookup
of any name in the namespace after it yields exactly what the namespace before it offered. -/
theorem block_bindings_end_real (env : Env) (hg : env.guardOn = false) (fuel : Nat) (b : Blk) (st : St)
    (hc : ∀ f ∈ st.stack, Consistent f) (n : Text) (tr : List Event) :
    (match st.stack.findSome? (frameOffer n) with
     | some v => ∃ fs', lookupStack env (renderBlk env fuel b st).2.stack n tr = (.val v fs', tr)
     | none => lookupStack env (renderBlk env fuel b st).2.stack n tr = (.missing, tr)) := by
  have hcons : Lemmas.Cache.Cons st := by
    intro f hf
    have := hc f hf
    cases f <;> first | trivial | exact this
  have h1 := (Lemmas.Cache.all_cons env fuel).renderBlk b st hcons
  have h2 := (C08.block_preserves_stack env fuel b st).1
  have h3 := consistent_of_map_erase st.stack _ h2 hc h1
  have h4 := lookup_first_offer_consistent env hg _ h3 n tr
  have h5 : (renderBlk env fuel b st).2.stack.findSome? (frameOffer n) = st.stack.findSome? (frameOffer n) := by
    rw [← findSome_erase, h2, findSome_erase]
  rw [h5] at h4
  exact h4

/-- the same for a whole section of blocks, and for the namespace a top-level call builds -/
theorem section_bindings_end_real (env : Env) (hg : env.guardOn = false) (fuel : Nat) (bs : List Blk) (st : St)
    (hc : ∀ f ∈ st.stack, Consistent f) (n : Text) (tr : List Event) :
    (match st.stack.findSome? (frameOffer n) with
     | some v => ∃ fs', lookupStack env (renderBlocks env fuel bs st).2.stack n tr = (.val v fs', tr)
     | none => lookupStack env (renderBlocks env fuel bs st).2.stack n tr = (.missing, tr)) := by
  have hcons : Lemmas.Cache.Cons st := by
    intro f hf
    have := hc f hf
    cases f <;> first | trivial | exact this
  have h1 := (Lemmas.Cache.all_cons env fuel).renderBlocks bs st hcons
  have h2 := (C08.render_preserves_stack env fuel bs st).1
  have h3 := consistent_of_map_erase st.stack _ h2 hc h1
  have h4 := lookup_first_offer_consistent env hg _ h3 n tr
  have h5 : (renderBlocks env fuel bs st).2.stack.findSome? (frameOffer n) = st.stack.findSome? (frameOffer n) := by
    rw [← findSome_erase, h2, findSome_erase]
  rw [h5] at h4
  exact h4

/-! #### callables: called by tags, passed uncalled to expressions -/

/-- **Looked up by name in a tag, a callable value is called** (exactly one `call` event) … -/
theorem tag_lookup_calls (env : Env) (fuel : Nat) (n : Text) (st : St) (id : Nat) (r : Val)
    (fs' : List Frame) (tr : List Event)
    (h : lookupStack env st.stack n st.trace = (.val (.fn id r) fs', tr)) :
    evalSrc env (fuel + 2) (.name n) st = invoke env id r { st with stack := fs', trace := tr } := by
  simp only [evalSrc]
  unfold getitem
  simp only [h, if_true]

/-- … **a document template is rendered with the current namespace** … -/
theorem tag_lookup_renders_template (env : Env) (fuel : Nat) (n : Text) (st : St) (id : Nat)
    (fs' : List Frame) (tr : List Event)
    (h : lookupStack env st.stack n st.trace = (.val (.tmpl id) fs', tr)) :
    evalSrc env (fuel + 2) (.name n) st = callSub env fuel id { st with stack := fs', trace := tr } := by
  simp only [evalSrc]
  unfold getitem
  simp only [h, if_true]

/-- … **but it is passed uncalled to expressions**: no call, no event beyond the lookup's own -/
theorem expr_lookup_does_not_call (env : Env) (fuel : Nat) (n : Text) (st : St) (v : Val)
    (fs' : List Frame) (tr : List Event)
    (h : lookupStack env st.stack n st.trace = (.val v fs', tr)) :
    evalExpr env (fuel + 2) (.name n) st = (.ok v, { st with stack := fs', trace := tr }) := by
  simp only [evalExpr]
  unfold getitem
  simp only [h, Bool.false_eq_true, if_false]

/-! #### the hypotheses are satisfiable -/

section Example
private def tpl : Template := { blocks := [], globals := initvars [("n".toList, .int 5)] [("n".toList, .int 6), ("m".toList, .int 7), ("_p".toList, .int 8)],
                                vars := [] }
private def args : CallArgs := { clients := [.obj 1 [("n".toList, .int 2), ("_p".toList, .int 9)], .obj 2 [("m".toList, .int 3)]],
                                 mapping := [("n".toList, .int 4), ("_p".toList, .int 10)] }
private def got (n : String) : Option Int :=
  match precedence tpl args n.toList with
  | some (.int i) => some i
  | _ => none
-- client before mapping before defaults; the last client first; private names skip the clients
example : got "n" = some 2 ∧ got "m" = some 3 ∧ got "_p" = some 10 ∧ got "zz" = none := by decide
end Example

/-! ### The instance lookup of the model is the one of the source

`GenNs.instGetitemGen` is regenerated on every run by translating the statements of `InstanceDict.__getitem__` in /repo
(the cache test, the private-name test, the choice of `get`, the read inside `try … except AttributeError`, the cache
store; harness/trans_ns.py).  It computes `frameGet` on an instance frame - the function every lookup theorem above (and
the guard theorems of C05, the per-item pushes of C10) rests on. -/
theorem gen_instancedict_getitem_is_model (env : Env) (v : Val) (cache : List (Text × Val)) (key : Text)
    (tr : List Event) :
    GenNs.instGetitemGen env v cache key tr = frameGet env (.inst v cache) key tr := by
  unfold GenNs.instGetitemGen GenNs.getAttr
  simp only [frameGet]
  cases hc : List.lookup key cache with
  | some c => simp
  | none =>
    simp only
    by_cases hu : key.head? = some '_'
    · simp only [hu, if_true]
      by_cases hs : key = "__str__".toList
      · simp [hs]
      · simp [hs]
    · simp only [hu, if_false]
      cases v with
      | obj id attrs =>
        simp only
        by_cases hd : (env.guardOn && isDenied env id key) = true
        · simp [hd]
        · simp only [hd]
          cases attrs.lookup key <;> simp
      | _ => rfl

private theorem getitemLoop_spec (env : Env) (fuel : Nat) (key : Text) (call : Bool) :
    ∀ (below above : List Frame) (st : St),
    GenNs.getitemLoopGen env fuel key call below above st =
      (match lookupStack env below key st.trace with
       | (.missing, tr) => (.raise (keyError key), { st with trace := tr })
       | (.raise e, tr) => (.raise e, { st with trace := tr })
       | (.val v below', tr) =>
         let st : St := { st with stack := above ++ below', trace := tr }
         if call then
           match v with
           | .fn id r => invoke env id r st
           | .tmpl id => callSub env fuel id st
           | v => (.ok v, st)
         else (.ok v, st)) := by
  intro below
  induction below with
  | nil => intro above st; simp [GenNs.getitemLoopGen, lookupStack]
  | cons f fs ih =>
    intro above st
    simp only [GenNs.getitemLoopGen, lookupStack]
    cases hfg : frameGet env f key st.trace with
    | mk r tr =>
      cases r with
      | missing =>
        simp only
        rw [ih (above ++ [f]) { st with trace := tr }]
        simp only
        cases hl : lookupStack env fs key tr with
        | mk r2 tr2 =>
          cases r2 with
          | missing => rfl
          | raise e => rfl
          | val v fs' => simp [List.append_assoc]
      | raise e => rfl
      | val v f' =>
        simp only
        cases call with
        | false => rfl
        | true =>
          cases v <;> simp [GenNs.hasRenderWithNamespace, GenNs.safeCallable, GenNs.isHTTPException, GenNs.isDocTemp,
            GenNs.callTemplate, GenNs.callPlain]

/-- **The namespace lookup of the model is the one of the source**: `GenNs.getitemLoopGen` is regenerated on every run from
`TemplateDict.getitem` (the loop over `reversed(self._data)`, `try: e = e[key] except (KeyError, NameError): continue`, the
`if call:` block with its tests in the order of the source, `raise KeyError(key)`); started on the whole namespace it
computes `Render.getitem` - `md[name]` with `call = true`, `md.getitem(name, 0)` with `call = false`. -/
theorem gen_templatedict_getitem_is_model (env : Env) (fuel : Nat) (key : Text) (call : Bool) (st : St) :
    GenNs.getitemLoopGen env fuel key call st.stack [] st = getitem env (fuel + 1) key call st := by
  rw [getitemLoop_spec]
  simp only [getitem, List.nil_append]
  cases lookupStack env st.stack key st.trace with
  | mk r tr => cases r <;> rfl

/-! ### The call of the model is `String.__call__` of the source

`GenCall.callGen` is regenerated on every run by translating `String.__call__` in /repo statement by statement
(harness/trans_call.py): which data sources are pushed in which order on a new namespace (`md = TemplateDict()`) or on
the caller's (`md = mapping`), which of them are counted in `pushed`, the recursion guard with the limit of the source,
`md.level = level + 1`, the clients (one InstanceDict each, in order), the template's variables, the keyword arguments, the
rendering with `except DTReturn`, and `finally: if pushed: md._pop(pushed); md.level = level`. -/

/-- a top-level call builds exactly `callStack` - the order `lookup_precedence` / `lookup_precedence_full` are about - and
renders the blocks in it at level 1; a value handed to dtml-return is the result -/
theorem gen_call_is_topCall (env : Env) (fuel : Nat) (t : Template) (clients : List Val) (m kw : List (Text × Val)) :
    (GenCall.callGen env fuel t clients (.dict m) kw {}).1 = (topCall env fuel t ⟨clients, m, kw⟩).1 ∧
    (GenCall.callGen env fuel t clients (.dict m) kw {}).2.trace = (topCall env fuel t ⟨clients, m, kw⟩).2.trace :=
  Lemmas.Call.call_on_new_namespace env fuel t clients m kw

/-- a template invoked by name from another template (`e(None, md)`): `subtemplate_sees_caller` speaks about the source -/
theorem gen_call_is_callSub (env : Env) (fuel id : Nat) (t : Template) (st : St) (ht : env.templates[id]? = some t) :
    GenCall.callGen env fuel t [] .namespace [] st = callSub env (fuel + 1) id st :=
  Lemmas.Call.call_on_caller_namespace env fuel id t st ht

/-! ### `md[name]`, `name in md` / `md.has_key(name)`, `len(md)` are the ones of the source

`GenStack.subscriptGen`, `containsGen`, `hasKeyGen`, `lenGen` are regenerated on every run from `TemplateDict.__getitem__`,
`__contains__`, `has_key`, `__len__` (harness/trans_stack.py).  The loops of the source run over `reversed(self._data)` (from
the data source pushed last down) or over `self._data`; the model's stack has the TOP FIRST (`GenStack.dataOf st =
st.stack.reverse` is `_data`), so `reversed(self._data)` is the stack itself. -/

theorem iterOf_reversed (st : St) : GenStack.iterOf true st = st.stack := by
  simp [GenStack.iterOf, GenStack.dataOf, GenStack.tdOf]

/-- `md[name]` - `self.getitem(name, call=1)` - is `getitem` with auto-call -/
theorem gen_subscript_is_model (env : Env) (fuel : Nat) (name : Text) (st : St) :
    GenStack.subscriptGen env fuel name st = getitem env (fuel + 1) name true st := by
  simp only [GenStack.subscriptGen, iterOf_reversed]
  rw [gen_templatedict_getitem_is_model]
  rfl

private theorem containsLoop_spec (env : Env) (key : Text) :
    ∀ (below above : List Frame) (st : St),
    GenStack.containsLoopGen env key below above st =
      (match lookupStack env below key st.trace with
       | (.missing, tr) => (.ok false, { st with trace := tr })
       | (.raise e, tr) => (.raise e, { st with trace := tr })
       | (.val _ below', tr) => (.ok true, { st with stack := above ++ below', trace := tr })) := by
  intro below
  induction below with
  | nil => intro above st; simp [GenStack.containsLoopGen, GenStack.containsAfterGen, lookupStack]
  | cons f fs ih =>
    intro above st
    simp only [GenStack.containsLoopGen, lookupStack]
    cases hfg : frameGet env f key st.trace with
    | mk r tr =>
      cases r with
      | missing =>
        simp only
        rw [ih (above ++ [f]) { st with trace := tr }]
        simp only
        cases hl : lookupStack env fs key tr with
        | mk r2 tr2 =>
          cases r2 with
          | missing => rfl
          | raise e => rfl
          | val v fs' => simp [List.append_assoc]
      | raise e => rfl
      | val v f' => simp [GenStack.restack]

/-- **`key in md` of the source is `hasKey` of the model**: the loop over `reversed(self._data)` with `try: e = e[key] except
(KeyError, NameError): continue`, `return True`, and `return False` after the loop -/
theorem gen_contains_is_model (env : Env) (key : Text) (st : St) :
    GenStack.containsGen env key st = hasKey env key st := by
  simp only [GenStack.containsGen, iterOf_reversed, containsLoop_spec, hasKey, List.nil_append]
  cases lookupStack env st.stack key st.trace with
  | mk r tr => cases r <;> rfl

/-- `md.has_key(key)` is `key in md` -/
theorem gen_has_key_is_model (env : Env) (key : Text) (st : St) :
    GenStack.hasKeyGen env key st = hasKey env key st := by
  simp only [GenStack.hasKeyGen, gen_contains_is_model, GenStack.mapBool]
  cases hasKey env key st with
  | mk r st' => cases r <;> rfl

/-- `has_key` answers true exactly when `md.getitem(key, 0)` hands out a value, false exactly when it raises the KeyError
of the name; an exception of a data source ends both; and both leave the same namespace behind -/
theorem has_key_agrees_with_getitem (env : Env) (fuel : Nat) (key : Text) (st : St) :
    (match hasKey env key st, getitem env (fuel + 1) key false st with
     | (.ok true, s1), (.ok _, s2) => s1 = s2
     | (.ok false, s1), (.raise e, s2) => e = keyError key ∧ s1 = s2
     | (.raise e1, s1), (.raise e2, s2) => e1 = e2 ∧ s1 = s2
     | _, _ => False) := by
  simp only [hasKey, getitem]
  cases lookupStack env st.stack key st.trace with
  | mk r tr => cases r <;> simp

private theorem lenLoop_spec (flen : Frame → Int) : ∀ (xs : List Frame) (total : Int),
    GenStack.lenLoopGen flen xs total = total + (xs.map flen).sum := by
  intro xs
  induction xs with
  | nil => intro total; simp [GenStack.lenLoopGen]
  | cons x t ih => intro total; simp only [GenStack.lenLoopGen, ih, List.map_cons, List.sum_cons]; omega

private theorem sum_reverse_int (xs : List Int) : xs.reverse.sum = xs.sum := by
  induction xs with
  | nil => rfl
  | cons x t ih => simp only [List.reverse_cons, List.sum_append, ih, List.sum_cons, List.sum_nil]; omega

/-- `len(md)` is the sum of the sizes of the data sources (in whatever order the loop passes them) -/
theorem gen_len_is_model (flen : Frame → Int) (st : St) :
    GenStack.lenGen flen st = (st.stack.map flen).sum := by
  simp only [GenStack.lenGen, lenLoop_spec, GenStack.iterOf, GenStack.dataOf, GenStack.tdOf]
  simp only [if_neg Bool.false_ne_true, Int.zero_add]
  rw [List.map_reverse, sum_reverse_int]
/-! #### how dtml-var obtains its value: the fetch part of `Var.render`, translated from the source on every run

`GenFetch.fetchGen` is regenerated on every run by translating `DT_Var.Var.render` statement by statement from its top to
the `fmt=` stage (harness/trans_fetch.py): `val = self.expr; if val is None:` - the tag names a variable - `if name in
md:` (a walk down the stack that calls nothing), then `md[name]` (the lookup with auto-call); `else:` `missing` when the
tag has it, else `raise KeyError(name)`; an expression is evaluated (`missing` does not apply to it); then the null test
`'null' in args and not val and val != 0`.  `url` / `absolute_url()` are outside the interpreter model (a tag of the
model has no `url` attribute: `url := none`). -/

/-- **A dtml-var with `missing` / `null` on a name is looked up as the source says**: membership first, `missing` or
KeyError for an undefined name, one `md[name]` for a defined one, the null test on the value - `renderBlk` on `.var`. -/
theorem gen_var_fetch_name_is_model (env : Env) (fuel : Nat) (n : Text) (hq : Bool) (missing null : Option Text)
    (absUrl : Val → St → Res Val × St) (st : St) (h : (missing.isSome || null.isSome) = true) :
    GenFetch.fetchGen env fuel (.name n) ⟨missing, null, none⟩ absUrl (Lemmas.Fetch.afterNull env hq) st =
      renderBlk env (fuel + 1) (.var (.name n) hq missing null) st := by
  show _ = (if (missing.isSome || null.isSome) = true then _ else _)
  rw [if_pos h]
  unfold GenFetch.fetchGen GenFetch.mdContains
  dsimp only
  cases hl : lookupStack env st.stack n st.trace with
  | mk r tr =>
    cases r with
    | missing => cases missing <;> rfl
    | raise e => rfl
    | val v stack' => exact Lemmas.Fetch.bind_item_is_fetchVar env fuel n hq ⟨missing, null, none⟩ _

/-- **… and on an expression**: `expr.eval(md)`, no `missing`, the null test on the value. -/
theorem gen_var_fetch_expr_is_model (env : Env) (fuel : Nat) (e : Expr) (hq : Bool) (missing null : Option Text)
    (absUrl : Val → St → Res Val × St) (st : St) :
    GenFetch.fetchGen env fuel (.expr e) ⟨missing, null, none⟩ absUrl (Lemmas.Fetch.afterNull env hq) st =
      renderBlk env (fuel + 1) (.var (.expr e) hq missing null) st :=
  Lemmas.Fetch.bind_eval_is_fetchVar env fuel e hq ⟨missing, null, none⟩ st

end DTML.Props.C02
