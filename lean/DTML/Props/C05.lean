/-
C05 — Security guards mediate every read of client data; '_' names stay private.
Model: DTML/Render.lean with a guard installed (`Env.guardOn`): `frameGet` on an InstanceDict
(client objects, with-objects, pushed dtml-in items) and `evalExpr (.attr …)` ask the attribute
guard, `inLoop` asks the item guard for every element; `Env.denied` / `Env.deniedItems` are what
the guards refuse.
The channels that read with plain getattr in the code (sequence-var-x, first-x / last-x,
statistics, sort keys) and item access inside expressions are modelled as they are (unguarded):
they are known findings, see known_findings.json.
-/
import DTML.Render
import DTML.Props.C10
import DTML.Props.C08
import DTML.Props.C02
set_option linter.unusedVariables false
namespace DTML.Props.C05
open DTML.Render

/-! #### the attribute guard of InstanceDict: client objects, with-objects, dtml-in items -/

/-- **Every attribute an InstanceDict reads is obtained through the guard**: for a public name that
is not already cached the guard is asked first (one `guard obj name` event, whether or not the
attribute exists); a refusal raises Unauthorized and no value is returned; otherwise the
attribute's value (or "not here"). -/
theorem instance_lookup_guarded (env : Env) (hg : env.guardOn = true) (id : Nat) (hid : id ≠ 0) (attrs cache : List (Text × Val))
    (key : Text) (tr : List Event) (hc : cache.lookup key = none) (hu : key.head? ≠ some '_') :
    frameGet env (.inst (.obj id attrs) cache) key tr =
      if isDenied env id key then (.raise (unauthorized key), tr ++ [.guard id key])
      else match attrs.lookup key with
        | some a => (.val a (.inst (.obj id attrs) (cache ++ [(key, a)])), tr ++ [.guard id key])
        | none => (.missing, tr ++ [.guard id key]) := by
  have hid' : (id != 0) = true := by simp [hid]
  simp only [frameGet, hc, hu, hg, if_false, if_true, Bool.true_and, hid']
  split
  · rfl
  · rfl

/-- what a lookup result hands to the template -/
def foundVal : Found → Option Val
  | .val v _ => some v
  | _ => none

/-- **Data the guard refuses never reaches the namespace**: whatever value the refused attribute
holds, the lookup yields no value at all -/
theorem denied_never_returned (env : Env) (hg : env.guardOn = true) (id : Nat) (hid : id ≠ 0) (attrs cache : List (Text × Val))
    (key : Text) (tr : List Event) (hc : cache.lookup key = none) (hu : key.head? ≠ some '_')
    (hd : isDenied env id key = true) :
    foundVal (frameGet env (.inst (.obj id attrs) cache) key tr).1 = none := by
  rw [instance_lookup_guarded env hg id hid attrs cache key tr hc hu, hd]
  rfl

/-- **Local non-interference**: two objects that agree on every attribute the guard allows are
indistinguishable through an InstanceDict: same value (or same refusal), same guard trace — the
refused attributes' values play no part -/
theorem instance_noninterference (env : Env) (hg : env.guardOn = true) (id : Nat) (hid : id ≠ 0) (a1 a2 : List (Text × Val))
    (key : Text) (tr : List Event) (hu : key.head? ≠ some '_')
    (hagree : ∀ n, isDenied env id n = false → a1.lookup n = a2.lookup n) :
    foundVal (frameGet env (.inst (.obj id a1) []) key tr).1 = foundVal (frameGet env (.inst (.obj id a2) []) key tr).1 ∧
    (frameGet env (.inst (.obj id a1) []) key tr).2 = (frameGet env (.inst (.obj id a2) []) key tr).2 := by
  rw [instance_lookup_guarded env hg id hid a1 [] key tr rfl hu, instance_lookup_guarded env hg id hid a2 [] key tr rfl hu]
  by_cases hd : isDenied env id key = true
  · simp [hd, foundVal]
  · have hd' : isDenied env id key = false := by simpa using hd
    simp only [hd', Bool.false_eq_true, if_false]
    rw [hagree key hd']
    cases a2.lookup key <;> simp [foundVal]

/-- a cached attribute was obtained through the guard when it entered the cache; the cache only
ever grows by guarded reads (`instance_lookup_guarded`), so a hit repeats an allowed value -/
theorem cache_hit_no_read (env : Env) (v : Val) (cache : List (Text × Val)) (key : Text) (c : Val) (tr : List Event)
    (hc : cache.lookup key = some c) :
    frameGet env (.inst v cache) key tr = (.val c (.inst v cache), tr) := by
  simp only [frameGet, hc]

/-! #### '_' names stay private, with or without guards -/

/-- **Names starting with an underscore are never resolved from client objects** (only `__str__`
is answered, with the object's string form): the object is not read and the guard not even asked -/
theorem underscore_private (env : Env) (v : Val) (key : Text) (tr : List Event) (hu : key.head? = some '_')
    (hs : key ≠ "__str__".toList) :
    frameGet env (.inst v []) key tr = (.missing, tr) := by
  simp only [frameGet, List.lookup, hu, if_true]
  simp at hs
  simp [hs]

/-! #### attribute access inside expressions -/

/-- **`e.name` in an expression goes through the guard**: one guard event, Unauthorized on refusal -/
theorem expr_attr_guarded (env : Env) (hg : env.guardOn = true) (fuel : Nat) (a : Expr) (name : Text) (st st' : St)
    (id : Nat) (attrs : List (Text × Val)) (h : evalExpr env fuel a st = (.ok (.obj id attrs), st')) :
    evalExpr env (fuel + 1) (.attr a name) st =
      (if isDenied env id name then .raise (unauthorized name)
       else match attrs.lookup name with
         | some v => .ok v
         | none => .raise ⟨"AttributeError".toList, name⟩,
       { st' with trace := st'.trace ++ [.guard id name] }) := by
  simp only [evalExpr, h, hg, if_true, Bool.true_and]
  split
  · rfl
  · cases attrs.lookup name <;> rfl

theorem expr_attr_denied (env : Env) (hg : env.guardOn = true) (fuel : Nat) (a : Expr) (name : Text) (st st' : St)
    (id : Nat) (attrs : List (Text × Val)) (h : evalExpr env fuel a st = (.ok (.obj id attrs), st'))
    (hd : isDenied env id name = true) :
    (evalExpr env (fuel + 1) (.attr a name) st).1 = .raise (unauthorized name) := by
  rw [expr_attr_guarded env hg fuel a name st st' id attrs h, hd]
  rfl

/-! #### the item guard of dtml-in -/

/-- **Every element dtml-in iterates over is fetched through the item guard**: with a guard installed
the loop's step for element `i` starts with the event `gitem i`; a refused element raises
Unauthorized — or, with skip_unauthorized, is skipped without its body being rendered -/
theorem in_item_guarded (env : Env) (hg : env.guardOn = true) (fuel : Nat) (sv : SeqVars) (o : InOpts) (body : List Blk)
    (i : Nat) (st : St) (hi : i < sv.items.length) :
    let st0 : St := { st with trace := st.trace ++ [.gitem 0 i] }
    (itemDenied env sv i = true → o.skipUnauth = false →
      inLoop env (fuel + 1) sv o body i st = (.raise ⟨"Unauthorized".toList, "item".toList⟩, st0)) ∧
    (itemDenied env sv i = true → o.skipUnauth = true →
      inLoop env (fuel + 1) sv o body i st = inLoop env fuel sv o body (i + 1) st0) := by
  intro st0
  have hni : ¬ i ≥ sv.items.length := by omega
  constructor
  · intro hd hs
    simp only [inLoop, hni, if_false, hg, if_true, hd, hs, Bool.false_eq_true]
    rfl
  · intro hd hs
    simp only [inLoop, hni, if_false, hg, if_true, hd, hs]
    rfl

/-- **the same for a batched / sorted / reversed dtml-in** (`renderwb`): every element of the window is fetched
through the item guard — position `i` of the rearranged sequence — before anything of it is rendered; a refused element
raises Unauthorized, or with skip_unauthorized is skipped without its body being rendered -/
theorem batched_item_guarded (env : Env) (hg : env.guardOn = true) (fuel : Nat) (sv : SeqVars) (o : InOpts) (w : BWin)
    (body : List Blk) (i : Nat) (st : St) (hi : i < w.stop) :
    let st0 : St := { st with trace := st.trace ++ [.gitem 0 i] }
    (itemDenied env sv i = true → o.skipUnauth = false →
      inLoopB env (fuel + 1) sv o w body i st = (.raise ⟨"Unauthorized".toList, "item".toList⟩, st0)) ∧
    (itemDenied env sv i = true → o.skipUnauth = true →
      inLoopB env (fuel + 1) sv o w body i st =
        inLoopB env fuel (afterItem (batchStep sv w i) w i) o w body (i + 1) st0) := by
  intro st0
  have hni : ¬ i ≥ w.stop := by omega
  have hden : ∀ sv' : SeqVars, sv'.items = sv.items → itemDenied env sv' i = itemDenied env sv i := by
    intro sv' h; simp [itemDenied, h]
  have hbs : (batchStep sv w i).items = sv.items := (C10.Batched.batchStep_fields sv w i).1
  constructor
  · intro hd hs
    simp only [inLoopB, hni, if_false, hg, if_true, hden _ hbs, hd, hs, Bool.false_eq_true]
    rfl
  · intro hd hs
    simp only [inLoopB, hni, if_false, hg, if_true, hden _ hbs, hd, hs]
    rfl

/-- **finding C05-sort-key, as the model has it**: computing the sort keys of `sort=key` asks no guard — the keys are
read with plain `getattr` / `.get`, so the order of a sorted loop depends on attributes the guard would refuse
(the trace gains only the `call` events of callable keys) -/
theorem sort_keys_ask_no_guard (env : Env) (m : Bool) (k : Text) (x : Val) (st : St) :
    (sortKeyOf env m k x st).2.trace = st.trace ∨
    ∃ id, (sortKeyOf env m k x st).2.trace = st.trace ++ [.call id] := by
  unfold sortKeyOf
  dsimp only
  split
  · rename_i id r _
    right
    exact ⟨id, by split <;> rfl⟩
  all_goals exact Or.inl rfl

/-- a refused element's attributes cannot show up: the skipped step is independent of the element's content -/
theorem denied_item_content_irrelevant (env : Env) (sv : SeqVars) (i id : Nat) (a1 a2 : List (Text × Val))
    (pre post : List Val) (hi : i = pre.length) :
    itemDenied env { sv with items := pre ++ .obj id a1 :: post } i =
    itemDenied env { sv with items := pre ++ .obj id a2 :: post } i := by
  subst hi
  simp [itemDenied]

/-! #### with … only keeps the guards -/

/-- the guards are a property of the environment of the whole call: the fresh namespace of
`dtml-with … only` is searched with the same guard -/
theorem with_only_guarded (env : Env) (hg : env.guardOn = true) (id : Nat) (hid : id ≠ 0) (attrs : List (Text × Val)) (key : Text)
    (tr : List Event) (hu : key.head? ≠ some '_') (hd : isDenied env id key = true) :
    (lookupStack env [.inst (.obj id attrs) []] key tr).1 matches .raise _ := by
  simp only [lookupStack]
  rw [instance_lookup_guarded env hg id hid attrs [] key tr rfl hu, hd]
  rfl

/-! #### the hypotheses are satisfiable -/

section Example
private def secretObj : Val := .obj 7 [("pub".toList, .str "P".toList), ("secret".toList, .str "S".toList)]
private def env : Env := { guardOn := true, denied := [(7, "secret".toList)] }
example : (renderBlk env 20 (.with_ (.name "o".toList) false false [.var (.name "pub".toList) false none none])
    { stack := [.dict [("o".toList, secretObj)]] }).2.trace = [.guard 7 "pub".toList] := by decide +kernel
private def raisedCls : Res (List Piece) → Option Text
  | .raise e => some e.cls
  | _ => none
example : raisedCls (renderBlk env 20 (.with_ (.name "o".toList) false false [.var (.name "secret".toList) false none none])
    { stack := [.dict [("o".toList, secretObj)]] }).1 = some "Unauthorized".toList := by
  decide +kernel
end Example

/-! ### The guarded read of a client attribute is the one of the source (regenerated on every run, proved in Props/C02):
the guard is asked inside `InstanceDict.__getitem__`, before the attribute is read, and a refusal propagates -/
theorem gen_guarded_lookup_is_model (env : Env) (v : Val) (cache : List (Text × Val)) (key : Text) (tr : List Event) :
    GenNs.instGetitemGen env v cache key tr = frameGet env (.inst v cache) key tr :=
  C02.gen_instancedict_getitem_is_model env v cache key tr

end DTML.Props.C05
