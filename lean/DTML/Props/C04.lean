/-
C04 — Tainted (untrusted) values are always HTML-escaped when inserted.
Model: DTML/VarPipe.lean (`render`, stages, `TaintedString` mark as a Bool).
-/
import DTML.VarPipe
import DTML.Props.C03
import DTML.Lemmas.Taint
set_option linter.unusedVariables false
namespace DTML.Props.C04
open DTML.Quote DTML.VarPipe

/-! #### facts about '<' in the string functions -/

private theorem hasLt_iff (s : Text) : hasLt s = true ↔ '<' ∈ s := by
  simp [hasLt]

private theorem hasLt_false_iff (s : Text) : hasLt s = false ↔ '<' ∉ s := by
  rw [← hasLt_iff]; simp

private theorem escape_noLt (s : Text) : '<' ∉ escape s := by
  intro h; exact (C03.escape_no_raw s '<' h).1 rfl

private theorem mem_replaceChar (s : Text) (c : Char) (r : Text) (d : Char)
    (h : d ∈ replaceChar s c r) : d ∈ s ∨ d ∈ r := by
  simp only [replaceChar, List.mem_flatMap] at h
  obtain ⟨e, he, hd⟩ := h
  split at hd
  · right; exact hd
  · left; simp at hd; subst hd; exact he

private theorem mem_removeChar (s : Text) (c d : Char) (h : d ∈ removeChar s c) : d ∈ s := by
  simp only [removeChar, List.mem_filter] at h; exact h.1

private theorem spacify_noLt (s : Text) (h : '<' ∉ s) : '<' ∉ spacify s := by
  intro hc
  rcases mem_replaceChar _ _ _ _ hc with h1 | h1
  · exact h h1
  · simp at h1

private theorem sqlQuote_noLt (s : Text) (h : '<' ∉ s) : '<' ∉ sqlQuote s := by
  intro hc
  rcases mem_replaceChar _ _ _ _ hc with h1 | h1
  · exact h (mem_removeChar _ _ _ (mem_removeChar _ _ _ (mem_removeChar _ _ _ h1)))
  · simp at h1

private theorem thouLoop_noLt : ∀ (fuel : Nat) (s : Text), '<' ∉ s → '<' ∉ thouLoop fuel s := by
  intro fuel
  induction fuel with
  | zero => intro s h; exact h
  | succ k ih =>
    intro s h
    simp only [thouLoop]
    split
    · exact h
    · apply ih
      intro hc
      simp only [List.mem_append, List.mem_singleton] at hc
      rcases hc with (hc | hc) | hc
      · exact h (List.mem_of_mem_take hc)
      · cases hc
      · exact h (List.mem_of_mem_drop hc)

private theorem thousandsCommas_noLt (s : Text) (h : '<' ∉ s) : '<' ∉ thousandsCommas s := by
  simp only [thousandsCommas, splitOnDot]
  intro hc
  simp only [List.mem_append] at hc
  rcases hc with hc | hc
  · exact thouLoop_noLt _ _ (fun h' => h ((List.takeWhile_sublist _).mem h')) hc
  · exact h ((List.dropWhile_sublist _).mem hc)

private theorem sliceTo_noLt (s : Text) (k : Int) (h : '<' ∉ s) : '<' ∉ sliceTo s k := by
  unfold sliceTo
  split <;> exact fun hc => h (List.mem_of_mem_take hc)

/-! #### assumed laws of the external functions (hypotheses, not axioms) -/

/-- What the theorems need from Unicode case mapping and urllib's codec.
`*_noLt`: the function does not create a '<' out of text that has none;
`quote*_noLt`: URL-quoting leaves no '<' at all;
`*_keepLt`: the function does not remove a '<'.
(All true of CPython's str.upper/lower/capitalize and urllib.parse.)  Notably
there is *no* law `unquote_noLt` — unquoting does create '<' (from %3C); that
is exactly the known finding C04-requote. -/
structure Laws (x : Ext) : Prop where
  upper_noLt : ∀ s, '<' ∉ s → '<' ∉ x.upper s
  lower_noLt : ∀ s, '<' ∉ s → '<' ∉ x.lower s
  capitalize_noLt : ∀ s, '<' ∉ s → '<' ∉ x.capitalize s
  quote_noLt : ∀ s, '<' ∉ x.urlQuote s
  quotePlus_noLt : ∀ s, '<' ∉ x.urlQuotePlus s
  upper_keepLt : ∀ s, '<' ∈ s → '<' ∈ x.upper s
  lower_keepLt : ∀ s, '<' ∈ s → '<' ∈ x.lower s
  capitalize_keepLt : ∀ s, '<' ∈ s → '<' ∈ x.capitalize s
  unquote_keepLt : ∀ s, '<' ∈ s → '<' ∈ x.urlUnquote s
  unquotePlus_keepLt : ∀ s, '<' ∈ s → '<' ∈ x.urlUnquotePlus s

/-- the state is harmless: still marked as tainted (it will be quoted at the
end), or it contains no '<' -/
def Safe (p : Text × Bool) : Prop := p.2 = true ∨ '<' ∉ p.1

private theorem safe_retaint (s r : Text) (t : Bool) (h : Safe (s, t)) (hr : '<' ∉ s → '<' ∉ r) :
    Safe (r, t && hasLt r) := by
  unfold Safe at *
  cases t
  · right
    rcases h with h | h
    · cases h
    · exact hr h
  · cases h' : hasLt r
    · right; exact (hasLt_false_iff r).mp h'
    · left; rfl

private theorem safe_tainted (r : Text) : Safe (r, true && hasLt r) := by
  unfold Safe
  cases h' : hasLt r
  · right; exact (hasLt_false_iff r).mp h'
  · left; rfl

def isUnquoter (m : String) : Bool := m = "url_unquote" || m = "url_unquote_plus"
def isBr (m : String) : Bool := m = "newline_to_br"

private theorem safe_map (f : Text → Text) (hf : ∀ s, '<' ∉ s → '<' ∉ f s) (s : Text) (t : Bool)
    (h : Safe (s, t)) : Safe (f s, t) := by
  rcases h with h | h
  · left; exact h
  · right; exact hf s h

/-- every modifier other than the unquoters and newline_to_br keeps the state harmless -/
private theorem applyMod_safe (x : Ext) (hx : Laws x) (m : String) (s : Text) (t : Bool)
    (hm : isUnquoter m = false) (hb : isBr m = false) (h : Safe (s, t)) :
    Safe (applyMod x m s t) := by
  have hm1 : m ≠ "url_unquote" := by intro e; subst e; simp [isUnquoter] at hm
  have hm2 : m ≠ "url_unquote_plus" := by intro e; subst e; simp [isUnquoter] at hm
  have hb1 : m ≠ "newline_to_br" := by intro e; subst e; simp [isBr] at hb
  unfold applyMod
  repeat' split
  all_goals first
    | exact h
    | exact absurd ‹m = "url_unquote"› hm1
    | exact absurd ‹m = "url_unquote_plus"› hm2
    | exact absurd ‹m = "newline_to_br"› hb1
    | exact Or.inr (escape_noLt s)
    | exact Or.inr (hx.quote_noLt s)
    | exact Or.inr (hx.quotePlus_noLt s)
    | exact safe_map _ hx.lower_noLt s t h
    | exact safe_map _ hx.upper_noLt s t h
    | exact safe_map _ hx.capitalize_noLt s t h
    | exact safe_retaint s _ t h (spacify_noLt s)
    | exact safe_retaint s _ t h (thousandsCommas_noLt s)
    | exact safe_retaint s _ t h (sqlQuote_noLt s)

private theorem applyMods_safe (x : Ext) (hx : Laws x) (ms : List String)
    (hm : ∀ m ∈ ms, isUnquoter m = false ∧ isBr m = false) :
    ∀ (p : Text × Bool), Safe p → Safe (ms.foldl (fun (p : Text × Bool) m => applyMod x m p.1 p.2) p) := by
  induction ms with
  | nil => intro p h; exact h
  | cons m ms ih =>
    intro p h
    simp only [List.foldl_cons]
    apply ih (fun m' hm' => hm m' (List.mem_cons_of_mem _ hm'))
    exact applyMod_safe x hx m p.1 p.2 (hm m List.mem_cons_self).1 (hm m List.mem_cons_self).2 h

/-- truncation keeps a harmless state harmless as long as `etc` has no '<' -/
private theorem truncate_safe (n : Int) (etc s : Text) (t : Bool) (he : '<' ∉ etc) (h : Safe (s, t)) :
    Safe (truncate n etc s t) := by
  unfold truncate
  split
  · simp only
    split
    · -- cut back to the last blank
      unfold Safe
      simp only
      cases hc : (t && hasLt (sliceTo s n) && hasLt (sliceTo (sliceTo s n) (rfindSpace (sliceTo s n) + 1)))
      · right
        intro hm
        rcases List.mem_append.mp hm with hm | hm
        · have h1 : hasLt (sliceTo (sliceTo s n) (rfindSpace (sliceTo s n) + 1)) = true := (hasLt_iff _).mpr hm
          have h2 : '<' ∈ sliceTo s n := by
            apply Classical.byContradiction; intro hn; exact sliceTo_noLt _ _ hn hm
          have h3 : '<' ∈ s := by
            apply Classical.byContradiction; intro hn; exact sliceTo_noLt _ _ hn h2
          have h4 : hasLt (sliceTo s n) = true := (hasLt_iff _).mpr h2
          rcases h with h | h
          · simp only at h; subst h; simp [h1, h4] at hc
          · exact h h3
        · exact he hm
      · left; rfl
    · unfold Safe
      simp only
      cases hc : (t && hasLt (sliceTo s n))
      · right
        intro hm
        rcases List.mem_append.mp hm with hm | hm
        · have h2 : hasLt (sliceTo s n) = true := (hasLt_iff _).mpr hm
          have h3 : '<' ∈ s := by
            apply Classical.byContradiction; intro hn; exact sliceTo_noLt _ _ hn hm
          rcases h with h | h
          · simp only at h; subst h; simp [h2] at hc
          · exact h h3
        · exact he hm
      · left; rfl
  · exact h

/-- final step: a harmless state yields output without '<' -/
private theorem final_noLt (s : Text) (t : Bool) (h : Safe (s, t)) : '<' ∉ (if t then escape s else s) := by
  cases t
  · rcases h with h | h
    · cases h
    · simpa using h
  · simpa using escape_noLt s

private theorem intRepr_noLt (i : Int) : '<' ∉ intRepr i := by
  have hd : ∀ n, '<' ∉ Nat.toDigits 10 n := by
    intro n hc
    have := Nat.isDigit_of_mem_toDigits (by decide) (by decide) hc
    revert this; decide
  unfold intRepr
  split
  · intro hc
    rcases List.mem_cons.mp hc with hc | hc
    · cases hc
    · exact hd _ hc
  · exact hd _

def fmtIsBr (f : Text) : Bool := f = "multi-line".toList

/-- the `fmt=` stage on a tainted string yields a string in a harmless state
(every special format, method format and %-format; multi-line set aside) -/
private theorem fmtStage_safe (x : Ext) (hx : Laws x) (f s : Text) (v1 : Val)
    (hb : fmtIsBr f = false)
    (h : fmtStage x f (.str s true) = some (.ok v1)) :
    ∃ s' t', v1 = .str s' t' ∧ Safe (s', t') := by
  have hS : Safe (s, true) := Or.inl rfl
  have hbr : String.ofList f ≠ "multi-line" := by
    intro e
    have : f = "multi-line".toList := by rw [← e]; simp
    simp [fmtIsBr, this] at hb
  unfold fmtStage at h
  simp only [hasMethod, ustr] at h
  by_cases hm : strMethods.contains (String.ofList f) = true
  · rw [if_pos hm] at h
    simp only [Option.some.injEq, Except.ok.injEq] at h; subst h
    exact ⟨_, _, rfl, Or.inl rfl⟩
  rw [if_neg hm] at h
  by_cases hsp : Gen.specialFormats.contains (String.ofList f) = true
  · rw [if_pos hsp] at h
    by_cases hc : String.ofList f = "html-quote"
    · rw [if_pos hc] at h
      simp only [if_true, Option.some.injEq, Except.ok.injEq] at h; subst h; exact ⟨_, _, rfl, Or.inl rfl⟩
    rw [if_neg hc] at h; clear hc
    by_cases hc : String.ofList f = "sql-quote"
    · rw [if_pos hc] at h
      simp only [retaint, Option.some.injEq, Except.ok.injEq] at h; subst h; exact ⟨_, _, rfl, safe_retaint s _ true hS (sqlQuote_noLt s)⟩
    rw [if_neg hc] at h; clear hc
    by_cases hc : String.ofList f = "url-quote"
    · rw [if_pos hc] at h
      simp only [Option.some.injEq, Except.ok.injEq] at h; subst h; exact ⟨_, _, rfl, Or.inr (hx.quote_noLt _)⟩
    rw [if_neg hc] at h; clear hc
    by_cases hc : String.ofList f = "url-quote-plus"
    · rw [if_pos hc] at h
      simp only [Option.some.injEq, Except.ok.injEq] at h; subst h; exact ⟨_, _, rfl, Or.inr (hx.quotePlus_noLt _)⟩
    rw [if_neg hc] at h; clear hc
    by_cases hc : String.ofList f = "url-unquote"
    · rw [if_pos hc] at h
      simp only [retaint, Option.some.injEq, Except.ok.injEq] at h; subst h; exact ⟨_, _, rfl, safe_tainted _⟩
    rw [if_neg hc] at h; clear hc
    by_cases hc : String.ofList f = "url-unquote-plus"
    · rw [if_pos hc] at h
      simp only [retaint, Option.some.injEq, Except.ok.injEq] at h; subst h; exact ⟨_, _, rfl, safe_tainted _⟩
    rw [if_neg hc] at h; clear hc
    by_cases hc : String.ofList f = "multi-line"
    · rw [if_pos hc] at h
      exact absurd hc hbr
    rw [if_neg hc] at h; clear hc
    by_cases hc : String.ofList f = "comma-numeric"
    · rw [if_pos hc] at h
      simp only [retaint, Option.some.injEq, Except.ok.injEq] at h; subst h; exact ⟨_, _, rfl, safe_tainted _⟩
    rw [if_neg hc] at h; clear hc
    by_cases hc : String.ofList f = "whole-dollars"
    · rw [if_pos hc] at h
      simp only [Option.some.injEq, Except.ok.injEq] at h; subst h; exact ⟨_, _, rfl, Or.inr (by simp [wholeDollars])⟩
    rw [if_neg hc] at h; clear hc
    by_cases hc : String.ofList f = "dollars-and-cents"
    · rw [if_pos hc] at h
      simp only [Option.some.injEq, Except.ok.injEq] at h; subst h; exact ⟨_, _, rfl, Or.inr (by simp [dollarsAndCents])⟩
    rw [if_neg hc] at h; clear hc
    by_cases hc : String.ofList f = "dollars-with-commas"
    · rw [if_pos hc] at h
      simp only [Option.some.injEq, Except.ok.injEq] at h; subst h; exact ⟨_, _, rfl, Or.inr (thousandsCommas_noLt _ (by simp [wholeDollars]))⟩
    rw [if_neg hc] at h; clear hc
    by_cases hc : String.ofList f = "dollars-and-cents-with-commas"
    · rw [if_pos hc] at h
      simp only [Option.some.injEq, Except.ok.injEq] at h; subst h; exact ⟨_, _, rfl, Or.inr (thousandsCommas_noLt _ (by simp [dollarsAndCents]))⟩
    rw [if_neg hc] at h; clear hc
    by_cases hc : String.ofList f = "collection-length"
    · rw [if_pos hc] at h
      simp only [Option.some.injEq, Except.ok.injEq] at h; subst h; exact ⟨_, _, rfl, Or.inr (intRepr_noLt (s.length : Int))⟩
    rw [if_neg hc] at h; clear hc
    cases h
  rw [if_neg hsp] at h
  by_cases he : f = []
  · rw [if_pos he] at h
    simp only [Option.some.injEq, Except.ok.injEq] at h; subst h
    exact ⟨_, _, rfl, Or.inr (by simp)⟩
  rw [if_neg he] at h
  split at h
  · cases h
  · cases h
  · simp only [Option.some.injEq, Except.ok.injEq] at h; subst h
    exact ⟨_, _, rfl, Or.inl rfl⟩

private theorem finishStage_noLt (sp : Spec) (s : Text) (t : Bool) (out : Text)
    (hetc : ∀ e, sp.etc = some e → '<' ∉ e) (hS : Safe (s, t))
    (h : finishStage sp s t = .ok out) : '<' ∉ out := by
  unfold finishStage at h
  split at h
  · simp only [Except.ok.injEq] at h; subst h; exact final_noLt s t hS
  · split at h
    · cases h
    · simp only [Except.ok.injEq] at h; subst h
      have he : '<' ∉ sp.etc.getD "...".toList := by
        cases hq : sp.etc with
        | none => simp
        | some e => simpa using hetc e hq
      have := truncate_safe ‹Int› _ s t he hS
      exact final_noLt _ _ this

/-- **Regime A: no unquoting modifier.**  A tainted string, whatever it
contains, rendered by a dtml-var with *any* subset and written order of the
other ten modifiers (newline_to_br, whose own `<br />` is set aside, excluded),
any `fmt=` (special, method or %-format; multi-line excluded), any size/etc,
null and C-style format: the output contains no '<'. -/
theorem tainted_never_raw_no_unquote (x : Ext) (hx : Laws x) (sp : Spec) (s out : Text)
    (hnoU : ∀ m ∈ sp.written, isUnquoter m = false)
    (hnoBr : ∀ m ∈ sp.written, isBr m = false)
    (hfbr : ∀ f, sp.fmt = some f → fmtIsBr f = false)
    (hetc : ∀ e, sp.etc = some e → '<' ∉ e)
    (hnull : ∀ n, sp.null = some n → '<' ∉ n)
    (hr : render x sp (some (.str s true)) = some (.ok out)) : '<' ∉ out := by
  unfold render at hr
  simp only at hr
  split at hr
  · simp only [VarPipe.renderSimple, Option.some.injEq, Except.ok.injEq] at hr
    subst hr; exact escape_noLt s
  · unfold renderFull at hr
    by_cases hn : (sp.null.isSome && isNull (Val.str s true)) = true
    · rw [if_pos hn] at hr
      simp only [Option.some.injEq, Except.ok.injEq] at hr
      subst hr
      cases hnl : sp.null with
      | none => simp [hnl] at hn
      | some n => simpa [hnl] using hnull n hnl
    · rw [if_neg hn] at hr
      -- the fmt stage leaves a harmless string
      have hv1 : ∀ v1, fmtOpt x sp (Val.str s true) = some (.ok v1) →
          ∃ s' t', v1 = .str s' t' ∧ Safe (s', t') := by
        intro v1 hv
        unfold fmtOpt at hv
        cases hf : sp.fmt with
        | none => rw [hf] at hv; simp only [Option.some.injEq, Except.ok.injEq] at hv
                  subst hv; exact ⟨_, _, rfl, Or.inl rfl⟩
        | some f => rw [hf] at hv; exact fmtStage_safe x hx f s v1 (hfbr f hf) hv
      split at hr
      · cases hr
      · cases hr
      · rename_i v1 hv
        obtain ⟨s', t', rfl, hS⟩ := hv1 v1 hv
        unfold afterFmt at hr
        split at hr
        · cases hr
        · cases hr
        · rename_i s2 t2 hc
          -- the C-style format of a string is the string itself ('s') or an error
          have hc2 : Safe (s2, t2) := by
            unfold cfmtStage at hc
            split at hc
            · simp only [Option.some.injEq, Except.ok.injEq, Prod.mk.injEq] at hc
              obtain ⟨rfl, rfl⟩ := hc; exact hS
            · split at hc
              · split at hc
                · rename_i heq; cases heq
                · cases hc
                · cases hc
              · cases hc
          simp only [Option.some.injEq] at hr
          unfold afterCfmt at hr
          have hm : ∀ m ∈ applied sp, isUnquoter m = false ∧ isBr m = false := by
            intro m hm
            simp only [applied, List.mem_filter, List.contains_iff_mem] at hm
            exact ⟨hnoU m hm.2, hnoBr m hm.2⟩
          have := applyMods_safe x hx (applied sp) hm (s2, t2) hc2
          exact finishStage_noLt sp _ _ out hetc this hr

/-! #### Regime B: unquoting modifiers, but no stage that drops the mark before them -/

private theorem mem_replaceChar_keep (s : Text) (c : Char) (r : Text) (d : Char)
    (h : d ∈ s) (hd : d ≠ c) : d ∈ replaceChar s c r := by
  simp only [replaceChar, List.mem_flatMap]
  exact ⟨d, h, by simp [hd]⟩

private theorem mem_removeChar_keep (s : Text) (c d : Char) (h : d ∈ s) (hd : d ≠ c) :
    d ∈ removeChar s c := by
  simp only [removeChar, List.mem_filter]; exact ⟨h, by simpa using hd⟩

private theorem spacify_keepLt (s : Text) (h : '<' ∈ s) : '<' ∈ spacify s :=
  mem_replaceChar_keep _ _ _ _ h (by decide)

private theorem sqlQuote_keepLt (s : Text) (h : '<' ∈ s) : '<' ∈ sqlQuote s := by
  unfold sqlQuote
  apply mem_replaceChar_keep _ _ _ _ _ (by decide)
  apply mem_removeChar_keep _ _ _ _ (by decide)
  apply mem_removeChar_keep _ _ _ _ (by decide)
  exact mem_removeChar_keep _ _ _ h (by decide)

private theorem thouLoop_keepLt : ∀ (fuel : Nat) (s : Text), '<' ∈ s → '<' ∈ thouLoop fuel s := by
  intro fuel
  induction fuel with
  | zero => intro s h; exact h
  | succ k ih =>
    intro s h
    simp only [thouLoop]
    split
    · exact h
    · rename_i l _
      apply ih
      have : '<' ∈ s.take (l + 1) ++ s.drop (l + 1) := by rw [List.take_append_drop]; exact h
      simp only [List.mem_append, List.mem_singleton] at this ⊢
      rcases this with h1 | h1
      · exact Or.inl (Or.inl h1)
      · exact Or.inr h1

private theorem thousandsCommas_keepLt (s : Text) (h : '<' ∈ s) : '<' ∈ thousandsCommas s := by
  simp only [thousandsCommas, splitOnDot]
  have : '<' ∈ s.takeWhile (· != '.') ++ s.dropWhile (· != '.') := by
    rw [List.takeWhile_append_dropWhile]; exact h
  simp only [List.mem_append] at this ⊢
  rcases this with h1 | h1
  · exact Or.inl (thouLoop_keepLt _ _ h1)
  · exact Or.inr h1

/-- still marked as tainted and still containing the '<' that justifies the mark -/
def Marked (p : Text × Bool) : Prop := p.2 = true ∧ '<' ∈ p.1

private theorem marked_safe (p : Text × Bool) (h : Marked p) : Safe p := Or.inl h.1

def isQuoter (m : String) : Bool := m = "url_quote" || m = "url_quote_plus" || m = "newline_to_br"

private theorem marked_retaint (r : Text) (h : '<' ∈ r) : Marked (r, true && hasLt r) := by
  have := (hasLt_iff r).mpr h
  simp [Marked, this, h]

private theorem applyMod_marked (x : Ext) (hx : Laws x) (m : String) (s : Text) (t : Bool)
    (hq : isQuoter m = false) (h : Marked (s, t)) : Marked (applyMod x m s t) := by
  have hq1 : m ≠ "url_quote" := by intro e; subst e; simp [isQuoter] at hq
  have hq2 : m ≠ "url_quote_plus" := by intro e; subst e; simp [isQuoter] at hq
  have hq3 : m ≠ "newline_to_br" := by intro e; subst e; simp [isQuoter] at hq
  obtain ⟨ht, hs⟩ := h
  simp only at ht hs
  subst ht
  unfold applyMod
  repeat' split
  all_goals first
    | exact ⟨rfl, hs⟩
    | exact absurd ‹m = "url_quote"› hq1
    | exact absurd ‹m = "url_quote_plus"› hq2
    | exact absurd ‹m = "newline_to_br"› hq3
    | exact absurd rfl ‹¬true = true›
    | exact marked_retaint _ (hx.unquote_keepLt s hs)
    | exact marked_retaint _ (hx.unquotePlus_keepLt s hs)
    | exact ⟨rfl, hx.lower_keepLt s hs⟩
    | exact ⟨rfl, hx.upper_keepLt s hs⟩
    | exact ⟨rfl, hx.capitalize_keepLt s hs⟩
    | exact marked_retaint _ (spacify_keepLt s hs)
    | exact marked_retaint _ (thousandsCommas_keepLt s hs)
    | exact marked_retaint _ (sqlQuote_keepLt s hs)

private theorem applyMods_marked (x : Ext) (hx : Laws x) (ms : List String)
    (hm : ∀ m ∈ ms, isQuoter m = false) :
    ∀ (p : Text × Bool), Marked p → Marked (ms.foldl (fun (p : Text × Bool) m => applyMod x m p.1 p.2) p) := by
  induction ms with
  | nil => intro p h; exact h
  | cons m ms ih =>
    intro p h
    simp only [List.foldl_cons]
    apply ih (fun m' hm' => hm m' (List.mem_cons_of_mem _ hm'))
    exact applyMod_marked x hx m p.1 p.2 (hm m List.mem_cons_self) h

private theorem map_ok {o : Option (R Text)} {g : Text → Text} {r : Text}
    (h : o.map (fun q => q.map g) = some (.ok r)) : ∃ r', o = some (.ok r') ∧ r = g r' := by
  cases o with
  | none => cases h
  | some q =>
    cases q with
    | error e => cases h
    | ok r' =>
      simp only [Option.map_some, Except.map, Option.some.injEq, Except.ok.injEq] at h
      exact ⟨r', rfl, h.symm⟩

/-- does a %-format contain a `%s` directive (that will insert the value)? -/
def consumes : Text → Bool
  | '%' :: '%' :: t => consumes t
  | '%' :: 's' :: _ => true
  | _ :: t => consumes t
  | [] => false

private theorem consumes_cons_ne (c : Char) (t : Text) (h : c ≠ '%') : consumes (c :: t) = consumes t := by
  conv => lhs; unfold consumes
  split <;> simp_all

private theorem pyFormat_keepLt (s : Text) (hs : '<' ∈ s) : ∀ (n : Nat) (f : Text), f.length ≤ n →
    ∀ (r : Text), pyFormatAux f (.str s true) false = some (.ok r) → consumes f = true → '<' ∈ r := by
  intro n
  induction n with
  | zero =>
    intro f hl r h hc
    have : f = [] := List.eq_nil_of_length_eq_zero (by omega)
    subst this
    simp [consumes] at hc
  | succ n ih =>
    intro f hl r h hc
    match f, hl, h, hc with
    | [], _, _, hc => simp [consumes] at hc
    | ['%'], _, h, _ => simp [pyFormatAux] at h
    | '%' :: d :: t, hl, h, hc =>
      by_cases h1 : d = '%'
      · subst h1
        simp only [pyFormatAux] at h
        simp only [consumes] at hc
        obtain ⟨r', h1, rfl⟩ := map_ok h
        exact List.mem_cons_of_mem _ (ih t (by simp at hl; omega) r' h1 hc)
      by_cases h2 : d = 's'
      · subst h2
        simp only [pyFormatAux, Bool.false_eq_true, if_false] at h
        obtain ⟨r', h1, rfl⟩ := map_ok h
        exact List.mem_append_left _ (by simpa [ustr] using hs)
      by_cases h3 : d = 'd'
      · subst h3; simp [pyFormatAux] at h
      · unfold pyFormatAux at h
        split at h <;> first | (simp_all; done) | (rename_i hne heq; exact absurd (List.cons.inj heq).1.symm hne)
    | c :: t, hl, h, hc =>
      by_cases hcp : c = '%'
      · subst hcp
        cases t with
        | nil => simp [pyFormatAux] at h
        | cons d t =>
          by_cases h1 : d = '%'
          · subst h1
            simp only [pyFormatAux] at h
            simp only [consumes] at hc
            obtain ⟨r', h1, rfl⟩ := map_ok h
            exact List.mem_cons_of_mem _ (ih t (by simp at hl; omega) r' h1 hc)
          by_cases h2 : d = 's'
          · subst h2
            simp only [pyFormatAux, Bool.false_eq_true, if_false] at h
            obtain ⟨r', h1, rfl⟩ := map_ok h
            exact List.mem_append_left _ (by simpa [ustr] using hs)
          by_cases h3 : d = 'd'
          · subst h3; simp [pyFormatAux] at h
          · unfold pyFormatAux at h
            split at h <;> first | (simp_all; done) | (rename_i hne heq; exact absurd (List.cons.inj heq).1.symm hne)
      · have : pyFormatAux (c :: t) (Val.str s true) false =
            (pyFormatAux t (Val.str s true) false).map (fun r => r.map (c :: ·)) := by
          conv => lhs; unfold pyFormatAux
          split <;> simp_all
        rw [this] at h
        rw [consumes_cons_ne _ _ hcp] at hc
        obtain ⟨r', h1, rfl⟩ := map_ok h
        exact List.mem_cons_of_mem _ (ih t (by simp at hl; omega) r' h1 hc)

/-- `fmt=` values after which a tainted string is still marked: method formats,
html-quote, sql-quote, url-unquote(-plus), comma-numeric and %-formats that
actually insert the value (contain a `%s`). -/
def fmtKeepsMark (f : Text) : Bool :=
  strMethods.contains (String.ofList f) ||
  ["html-quote", "sql-quote", "url-unquote", "url-unquote-plus", "comma-numeric"].contains (String.ofList f) ||
  (!Gen.specialFormats.contains (String.ofList f) && !f.isEmpty && consumes f)

private theorem fmtStage_marked (x : Ext) (hx : Laws x) (f s : Text) (v1 : Val) (hs : '<' ∈ s)
    (hk : fmtKeepsMark f = true)
    (h : fmtStage x f (.str s true) = some (.ok v1)) :
    ∃ s' t', v1 = .str s' t' ∧ Marked (s', t') := by
  unfold fmtStage at h
  simp only [hasMethod, ustr] at h
  by_cases hm : strMethods.contains (String.ofList f) = true
  · rw [if_pos hm] at h
    simp only [Option.some.injEq, Except.ok.injEq] at h; subst h
    refine ⟨_, _, rfl, rfl, ?_⟩
    simp only
    split
    · exact hx.upper_keepLt s hs
    · split
      · exact hx.lower_keepLt s hs
      · exact hx.capitalize_keepLt s hs
  rw [if_neg hm] at h
  by_cases hsp : Gen.specialFormats.contains (String.ofList f) = true
  · rw [if_pos hsp] at h
    have hk2 : ["html-quote", "sql-quote", "url-unquote", "url-unquote-plus", "comma-numeric"].contains
        (String.ofList f) = true := by
      simp only [fmtKeepsMark, hsp, Bool.not_true, Bool.false_and, Bool.or_false, Bool.or_eq_true] at hk
      rcases hk with hk | hk
      · exact absurd hk hm
      · exact hk
    simp only [List.contains_cons, List.contains_nil, Bool.or_false, Bool.or_eq_true, beq_iff_eq] at hk2
    rcases hk2 with hk2 | hk2 | hk2 | hk2 | hk2 <;> simp only [hk2] at h
    · simp only [if_true, Option.some.injEq, Except.ok.injEq] at h; subst h
      exact ⟨_, _, rfl, rfl, hs⟩
    · simp (config := {decide := true}) only [if_true, if_false, retaint, Option.some.injEq, Except.ok.injEq] at h
      subst h; exact ⟨_, _, rfl, marked_retaint _ (sqlQuote_keepLt s hs)⟩
    · simp (config := {decide := true}) only [if_true, if_false, retaint, Option.some.injEq, Except.ok.injEq] at h
      subst h; exact ⟨_, _, rfl, marked_retaint _ (hx.unquote_keepLt s hs)⟩
    · simp (config := {decide := true}) only [if_true, if_false, retaint, Option.some.injEq, Except.ok.injEq] at h
      subst h; exact ⟨_, _, rfl, marked_retaint _ (hx.unquotePlus_keepLt s hs)⟩
    · simp (config := {decide := true}) only [if_true, if_false, retaint, Option.some.injEq, Except.ok.injEq] at h
      subst h; exact ⟨_, _, rfl, marked_retaint _ (thousandsCommas_keepLt s hs)⟩
  rw [if_neg hsp] at h
  by_cases he : f = []
  · subst he
    simp [fmtKeepsMark, strMethods, Gen.specialFormats] at hk
  rw [if_neg he] at h
  split at h
  · cases h
  · cases h
  · rename_i r hp
    simp only [Option.some.injEq, Except.ok.injEq] at h; subst h
    have hcons : consumes f = true := by
      have hm' : strMethods.contains (String.ofList f) = false := by simpa using hm
      have hsp' : Gen.specialFormats.contains (String.ofList f) = false := by simpa using hsp
      unfold fmtKeepsMark at hk
      rw [hm', hsp'] at hk
      cases h5 : ["html-quote", "sql-quote", "url-unquote", "url-unquote-plus", "comma-numeric"].contains
          (String.ofList f)
      · rw [h5] at hk
        simp only [Bool.false_or, Bool.not_false, Bool.true_and, Bool.and_eq_true] at hk
        exact hk.2
      · -- a name of that list is a special format
        exfalso
        simp only [List.contains_cons, List.contains_nil, Bool.or_false, Bool.or_eq_true, beq_iff_eq] at h5
        rcases h5 with h5 | h5 | h5 | h5 | h5 <;> (rw [h5] at hsp'; revert hsp'; decide)
    exact ⟨_, _, rfl, rfl, pyFormat_keepLt s hs f.length f (Nat.le_refl _) r hp hcons⟩

/-- **Regime B: unquoting modifiers, no mark-dropping stage.**  A tainted
string containing '<', rendered with any subset/order of the modifiers other
than url_quote, url_quote_plus and newline_to_br (so: html_quote,
url_unquote(_plus) — applied twice, as `Gen.modifiers` lists them —, lower,
upper, capitalize, spacify, thousands_commas, sql_quote), any mark-keeping
`fmt=`, any size/etc and null: the output contains no '<'. -/
theorem tainted_never_raw_no_quoter (x : Ext) (hx : Laws x) (sp : Spec) (s out : Text)
    (hs : '<' ∈ s)
    (hnoQ : ∀ m ∈ sp.written, isQuoter m = false)
    (hfk : ∀ f, sp.fmt = some f → fmtKeepsMark f = true)
    (hetc : ∀ e, sp.etc = some e → '<' ∉ e)
    (hnull : ∀ n, sp.null = some n → '<' ∉ n)
    (hr : render x sp (some (.str s true)) = some (.ok out)) : '<' ∉ out := by
  unfold render at hr
  simp only at hr
  split at hr
  · simp only [VarPipe.renderSimple, Option.some.injEq, Except.ok.injEq] at hr
    subst hr; exact escape_noLt s
  · unfold renderFull at hr
    by_cases hn : (sp.null.isSome && isNull (Val.str s true)) = true
    · rw [if_pos hn] at hr
      simp only [Option.some.injEq, Except.ok.injEq] at hr
      subst hr
      cases hnl : sp.null with
      | none => simp [hnl] at hn
      | some n => simpa [hnl] using hnull n hnl
    · rw [if_neg hn] at hr
      have hv1 : ∀ v1, fmtOpt x sp (Val.str s true) = some (.ok v1) →
          ∃ s' t', v1 = .str s' t' ∧ Marked (s', t') := by
        intro v1 hv
        unfold fmtOpt at hv
        cases hf : sp.fmt with
        | none => rw [hf] at hv; simp only [Option.some.injEq, Except.ok.injEq] at hv
                  subst hv; exact ⟨_, _, rfl, rfl, hs⟩
        | some f => rw [hf] at hv; exact fmtStage_marked x hx f s v1 hs (hfk f hf) hv
      split at hr
      · cases hr
      · cases hr
      · rename_i v1 hv
        obtain ⟨s', t', rfl, hS⟩ := hv1 v1 hv
        unfold afterFmt at hr
        split at hr
        · cases hr
        · cases hr
        · rename_i s2 t2 hc
          have hc2 : Marked (s2, t2) := by
            unfold cfmtStage at hc
            split at hc
            · simp only [Option.some.injEq, Except.ok.injEq, Prod.mk.injEq] at hc
              obtain ⟨rfl, rfl⟩ := hc; exact hS
            · split at hc
              · split at hc
                · rename_i heq; cases heq
                · cases hc
                · cases hc
              · cases hc
          simp only [Option.some.injEq] at hr
          unfold afterCfmt at hr
          have hm : ∀ m ∈ applied sp, isQuoter m = false := by
            intro m hm
            simp only [applied, List.mem_filter, List.contains_iff_mem] at hm
            exact hnoQ m hm.2
          have := applyMods_marked x hx (applied sp) hm (s2, t2) hc2
          exact finishStage_noLt sp _ _ out hetc (marked_safe _ this) hr

/-- The two regimes together cover every spec except "a mark-dropping quoting
stage *and* an unquoting modifier" (finding C04-requote), `newline_to_br` /
`fmt=multi-line` (tag-made `<br />`; checked by the oracle) and value-discarding
formats combined with unquoting.  `_partial` for that reason. -/
theorem tainted_never_raw_partial (x : Ext) (hx : Laws x) (sp : Spec) (s out : Text)
    (hs : '<' ∈ s)
    (hreg : ((∀ m ∈ sp.written, isUnquoter m = false) ∧ (∀ m ∈ sp.written, isBr m = false) ∧
              (∀ f, sp.fmt = some f → fmtIsBr f = false)) ∨
            ((∀ m ∈ sp.written, isQuoter m = false) ∧ (∀ f, sp.fmt = some f → fmtKeepsMark f = true)))
    (hetc : ∀ e, sp.etc = some e → '<' ∉ e)
    (hnull : ∀ n, sp.null = some n → '<' ∉ n)
    (hr : render x sp (some (.str s true)) = some (.ok out)) : '<' ∉ out := by
  rcases hreg with ⟨h1, h2, h3⟩ | ⟨h1, h2⟩
  · exact tainted_never_raw_no_unquote x hx sp s out h1 h2 h3 hetc hnull hr
  · exact tainted_never_raw_no_quoter x hx sp s out hs h1 h2 hetc hnull hr

private theorem nde_aux (x : Ext) (s fq : Text)
    (f1 : fmtStage x fq (.str s true) = some (.ok (.str s true))) :
    render x { written := [], fmt := some fq } (some (.str s true)) = some (.ok (escape s)) ∧
    render x { written := ["html_quote"], fmt := some fq } (some (.str s true)) = some (.ok (escape s)) := by
  have e1 : ["html_quote"].eraseDups = ["html_quote"] := by decide
  have e0 : ([] : List String).eraseDups = [] := by decide
  have a3 : applied { written := [], fmt := some fq } = [] := by simp [applied]
  have a4 : applied { written := ["html_quote"], fmt := some fq } = ["html_quote"] := by
    simp (config := {decide := true}) [applied, Gen.modifiers]
  constructor
  · simp [render, simpleKind, e0, renderFull, isNull, fmtOpt, f1, afterFmt, cfmtStage, afterCfmt, a3, applyMods,
      finishStage]
  · simp [render, simpleKind, e1, renderFull, isNull, fmtOpt, f1, afterFmt, cfmtStage, afterCfmt, a4, applyMods,
      applyMod, finishStage]

/-- **No double escaping.**  With html_quote requested — as the simple form, on
the full path (here forced by `missing=`), as `fmt=html-quote`, or both — a
tainted string is escaped exactly once: the output is `escape s`. -/
theorem no_double_escape (x : Ext) (s : Text) :
    render x { written := ["html_quote"] } (some (.str s true)) = some (.ok (escape s)) ∧
    render x { written := ["html_quote"], missing := some [] } (some (.str s true)) = some (.ok (escape s)) ∧
    render x { written := [], fmt := some "html-quote".toList } (some (.str s true)) = some (.ok (escape s)) ∧
    render x { written := ["html_quote"], fmt := some "html-quote".toList } (some (.str s true)) =
      some (.ok (escape s)) := by
  have e1 : ["html_quote"].eraseDups = ["html_quote"] := by decide
  have a2 : applied { written := ["html_quote"], missing := some [] } = ["html_quote"] := by decide
  have f1 : fmtStage x "html-quote".toList (.str s true) = some (.ok (.str s true)) := by
    unfold fmtStage
    simp (config := {decide := true}) [hasMethod, strMethods, Gen.specialFormats]
  refine ⟨?_, ?_, (nde_aux x s _ f1).1, (nde_aux x s _ f1).2⟩
  · simp [render, simpleKind, e1, VarPipe.renderSimple]
  · simp [render, simpleKind, e1, renderFull, isNull, fmtOpt, afterFmt, cfmtStage, afterCfmt, a2, applyMods,
      applyMod, finishStage]

/-- The excluded combination is real (finding C04-requote), shown on the model
with a concrete codec: url_quote turns the tainted `<%3C` into `%3C%253C`
(unmarked), the two url_unquote entries of `Gen.modifiers` turn that back into
`<<`. -/
theorem finding_C04_requote :
    let x : Ext := { upper := id, lower := id, capitalize := id,
                     urlQuote := fun s => if s = "<%3C".toList then "%3C%253C".toList else s,
                     urlQuotePlus := id,
                     urlUnquote := fun s => if s = "%3C%253C".toList then "<%3C".toList
                                            else if s = "<%3C".toList then "<<".toList else s,
                     urlUnquotePlus := id }
    render x { written := ["url_quote", "url_unquote"] } (some (.str "<%3C".toList true)) =
      some (.ok "<<".toList) := by
  decide

/-- Non-vacuity: the assumed laws are satisfiable (identity case mapping, a
codec that deletes '<' when quoting), and the theorem's premises hold for a
concrete tag. -/
example : Laws { upper := id, lower := id, capitalize := id,
                 urlQuote := fun s => s.filter (· != '<'), urlQuotePlus := fun s => s.filter (· != '<'),
                 urlUnquote := id, urlUnquotePlus := id } where
  upper_noLt := fun _ h => h
  lower_noLt := fun _ h => h
  capitalize_noLt := fun _ h => h
  quote_noLt := fun s h => by simp at h
  quotePlus_noLt := fun s h => by simp at h
  upper_keepLt := fun _ h => h
  lower_keepLt := fun _ h => h
  capitalize_keepLt := fun _ h => h
  unquote_keepLt := fun _ h => h
  unquotePlus_keepLt := fun _ h => h

example : render { upper := id, lower := id, capitalize := id, urlQuote := id, urlQuotePlus := id,
                   urlUnquote := id, urlUnquotePlus := id }
    { written := ["upper", "sql_quote", "thousands_commas"], size := some "4".toList }
    (some (.str "<b>1234567".toList true)) = some (.ok "&lt;b&gt;1...".toList) := by decide

/-! #### the taint bookkeeping of DT_Var, translated from the source on every run (DTML/GenTaint.lean, harness/trans_taint.py)

`gen_*_is_spec`: the translation of the statements of the source = a hand-written specification, for *every* behaviour of
what the statements call (`Prims`, `call`); `*_is_model`: at the primitives of the model that is the stage function of
`VarPipe` the theorems above are stated about (`retaint`, `finishStage`, `cfmtStage`, `applyMod` / `applyMods`, `fmtStage`). -/
section Translated
open DTML.GenTaint DTML.Lemmas.Taint

/-- `_retaint` as translated = `VarPipe.retaint` -/
theorem gen_retaint_is_model (orig : Val) (r : Text) :
    retaintGen orig (.str r false) = retaint r (isTainted orig) := by
  unfold retaintGen retaint inVal taint hasLt
  cases h : (isTainted orig && (ustr (Val.str r false)).contains '<') <;> simp_all [ustr]

theorem gen_final_quote_is_model (s : Text) (t : Bool) :
    ustr (finalQuoteGen (.str s t)) = if t then escape s else s := by
  cases t <;> simp [finalQuoteGen, isTainted, quoted, ustr]

theorem gen_finish_is_model (sp : Spec) (s : Text) (t : Bool) :
    finishStage sp s t =
      (match sp.size with
       | none => (.ok (s, t) : R (Text × Bool))
       | some sz =>
         match parseInt sz with
         | none => .error .valueError
         | some n => .ok (truncate n (sp.etc.getD "...".toList) s t)).map
        (fun (p : Text × Bool) => ustr (finalQuoteGen (.str p.1 p.2))) := by
  unfold finishStage
  cases sp.size with
  | none => simp [Except.map, gen_final_quote_is_model]
  | some sz => cases h : parseInt sz <;> simp [h, Except.map, gen_final_quote_is_model]

theorem gen_cfmt_is_spec (P : Prims) (cfmt : Text) (v : Val) : cfmtGen P cfmt v = cfmtSpec P cfmt v := by
  unfold cfmtGen cfmtSpec
  rw [bindM_pure]
  by_cases hc : cfmt = ['s']
  · subst hc
    cases h : isTainted v <;> simp [bindM, pureM]
  · have : (cfmt == "s".toList) = false := by simpa using hc
    simp only [this, if_neg hc]
    cases hp : P.pctC cfmt v with
    | none => simp [bindM]
    | some r =>
      cases r with
      | error e => simp [bindM]
      | ok r =>
        cases h : isTainted v <;> cases h2 : hasLt (ustr r) <;> simp_all [bindM, pureM, inVal, hasLt, taint]

theorem cfmt_spec_is_model (cfmt : Text) (v : Val) (x : Ext) :
    cfmtStage cfmt v = (cfmtSpec (modelPrims x) cfmt v).map (fun r => r.map pairOf) := by
  unfold cfmtStage cfmtSpec modelPrims modelPctC
  by_cases hc : cfmt = ['s']
  · subst hc
    cases v with
    | str s t => cases t <;> simp [isTainted, strOf, pairOf, ustr, Except.map]
    | _ => simp [isTainted, strOf, pairOf, ustr, Except.map]
  · simp only [if_neg hc]
    by_cases hd : cfmt = ['d']
    · subst hd
      cases v with
      | str s t => cases t <;> simp [pairOf, Except.map]
      | _ => simp [isTainted, pairOf, ustr, Except.map]
    · simp [hd]

theorem gen_cfmt_is_model (cfmt : Text) (v : Val) (x : Ext) :
    cfmtStage cfmt v = (cfmtGen (modelPrims x) cfmt v).map (fun r => r.map pairOf) := by
  rw [gen_cfmt_is_spec]; exact cfmt_spec_is_model cfmt v x

theorem gen_mod_step_is_spec (call : String → Val → Val) (f : String) (v : Val) :
    modStepGen call f v = modStepSpec call f v := by
  unfold modStepGen modStepSpec
  by_cases h : f = "html_quote" <;> cases h2 : isTainted v <;> simp [h]

theorem gen_mod_step_is_model (x : Ext) (m : String) (s : Text) (t : Bool) :
    modStepGen (modelCall x) m (.str s t) = valOf (applyMod x m s t) := by
  rw [gen_mod_step_is_spec]
  unfold modStepSpec modelCall
  by_cases h : m = "html_quote"
  · subst h
    cases t <;> simp [isTainted, applyMod, valOf, ustr]
  · simp [h, pairOf]

theorem gen_mod_loop_is_model (x : Ext) (ms : List String) (s : Text) (t : Bool) :
    modLoopGen (modelCall x) ms (.str s t) = valOf (applyMods x ms s t) := by
  unfold modLoopGen applyMods
  induction ms generalizing s t with
  | nil => rfl
  | cons m ms ih =>
    simp only [List.foldl_cons]
    rw [gen_mod_step_is_model]
    exact ih _ _

theorem gen_fmt_is_spec (P : Prims) (fmt : Text) (v : Val) : fmtGen P fmt v = fmtSpec P fmt v := by
  have e0 : "".toList = ([] : List Char) := rfl
  unfold fmtGen fmtSpec
  rw [e0]
  generalize "html-quote".toList = q
  simp only [bindM_pure]
  by_cases h1 : P.hasAttr v fmt = true
  · simp only [h1, if_true]
  · simp only [h1, if_false, Bool.false_eq_true]
    by_cases h2 : P.isSpecial fmt = true
    · simp only [h2, if_true]
      by_cases h3 : fmt = q
      · cases h4 : isTainted v <;> simp [h3, pureM]
      · have : (fmt == q) = false := by simpa using h3
        simp [this, h3]
    · simp only [h2, if_false, Bool.false_eq_true]
      by_cases h3 : fmt = []
      · subst h3; simp [pureM, plain]
      · have : (fmt == ([] : List Char)) = false := by simpa using h3
        simp only [this, if_neg h3, Bool.false_eq_true, if_false]
        cases hp : P.pct fmt v with
        | none => simp [bindM]
        | some r =>
          cases r with
          | error e => simp [bindM]
          | ok r => cases h : isTainted v <;> simp [bindM, pureM, taint]

theorem fmt_spec_is_model (x : Ext) (fmt : Text) (v : Val) : fmtSpec (modelPrims x) fmt v = fmtStage x fmt v := by
  unfold fmtSpec fmtStage modelPrims
  simp only
  by_cases h1 : hasMethod v (String.ofList fmt) = true
  · simp only [h1, if_true, modelCallMethod]
    cases v <;> rfl
  · simp only [h1, if_false, Bool.false_eq_true]
    by_cases h2 : Gen.specialFormats.contains (String.ofList fmt) = true
    · simp only [h2, if_true]
      by_cases h3 : String.ofList fmt = "html-quote"
      · have h3' := (ofList_eq_iff _ _).mp h3
        simp only [h3', true_and, modelSpecial]
        cases v with
        | str s t => cases t <;> simp [isTainted]
        | _ => simp [isTainted]
      · have h3' : ¬ fmt = "html-quote".toList := fun h => h3 ((ofList_eq_iff _ _).mpr h)
        simp only [h3, h3', false_and, if_false, modelSpecial]
        cases v with
        | str s t => cases t <;> rfl
        | _ => rfl
    · simp only [h2, if_false, Bool.false_eq_true]
      by_cases h3 : fmt = []
      · simp [h3]
      · simp only [if_neg h3]
        cases hp : pyFormat fmt v with
        | none => simp
        | some r =>
          cases r with
          | error e => simp [Except.map]
          | ok r =>
            cases v with
            | str s t => cases t <;> simp [Except.map, ustr, isTainted]
            | _ => simp [Except.map, isTainted]

theorem gen_fmt_is_model (x : Ext) (fmt : Text) (v : Val) : fmtGen (modelPrims x) fmt v = fmtStage x fmt v := by
  rw [gen_fmt_is_spec]; exact fmt_spec_is_model x fmt v

private theorem pairOf_fst (r : Val) : (pairOf r).1 = ustr r := by cases r <;> rfl

/-- whatever the format code of the tag and whatever `%` does with it: a TaintedString leaves the C-style format stage of
the source (as translated) marked, or without a `<` -/
theorem gen_cfmt_safe_any_code (P : Prims) (cfmt s : Text) (r : Val)
    (h : cfmtGen P cfmt (.str s true) = some (.ok r)) : ('<' ∈ (pairOf r).1 → (pairOf r).2 = true) := by
  rw [gen_cfmt_is_spec] at h
  unfold cfmtSpec at h
  split at h
  · simp only [isTainted, if_true, Option.some.injEq, Except.ok.injEq] at h
    subst h; intro _; rfl
  · split at h
    · cases h
    · cases h
    · rename_i r' _
      simp only [isTainted, Bool.true_and, Option.some.injEq, Except.ok.injEq] at h
      cases hh : hasLt (ustr r')
      · rw [hh] at h; simp only [Bool.false_eq_true, if_false] at h; subst h
        intro hm; rw [pairOf_fst] at hm
        have : hasLt (ustr r') = true := by simpa [hasLt] using hm
        rw [hh] at this; cases this
      · rw [hh] at h; simp only [if_true] at h; subst h; intro _; rfl

end Translated

end DTML.Props.C04
