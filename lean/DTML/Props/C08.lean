/-
C08 — Namespace stack and recursion level are restored on every exit path.
Model: DTML/Render.lean.  One induction on the fuel over all mutually recursive
functions of the interpreter; the state is threaded through exceptions and
dtml-return, so the statement covers every exit path.
-/
import DTML.Render
import DTML.GenRender
import DTML.Lemmas.Call
import DTML.Lemmas.Stack
set_option linter.unusedVariables false
namespace DTML.Props.C08
open DTML.Render

/-- an InstanceDict's attribute cache is not part of the namespace's identity -/
def erase : Frame → Frame
  | .inst v _ => .inst v []
  | f => f

/-- the namespace holds the same entries in the same order, and the level is the same -/
def Pres (a b : St) : Prop := b.stack.map erase = a.stack.map erase ∧ b.level = a.level

theorem Pres.refl (a : St) : Pres a a := ⟨rfl, rfl⟩
theorem Pres.trans {a b c : St} (h1 : Pres a b) (h2 : Pres b c) : Pres a c :=
  ⟨h2.1.trans h1.1, h2.2.trans h1.2⟩

/-- pushing a frame, running something that preserves, and popping restores -/
theorem pres_push_pop (st st' : St) (f : Frame)
    (h : Pres { st with stack := f :: st.stack } st') :
    Pres st { st' with stack := st'.stack.drop 1 } := by
  obtain ⟨h1, h2⟩ := h
  refine ⟨?_, h2⟩
  simp only [List.map_cons] at h1
  cases hs : st'.stack with
  | nil => rw [hs] at h1; simp at h1
  | cons g gs =>
    rw [hs] at h1
    simp only [List.map_cons, List.cons.injEq] at h1
    simpa using h1.2

theorem pres_push_popn (st st' : St) (fs : List Frame)
    (h : Pres { st with stack := fs ++ st.stack } st') :
    Pres st { st' with stack := st'.stack.drop fs.length } := by
  obtain ⟨h1, h2⟩ := h
  refine ⟨?_, h2⟩
  simp only [List.map_append] at h1
  have : (st'.stack.drop fs.length).map erase = (st'.stack.map erase).drop fs.length := by
    simp [List.map_drop]
  simp only
  rw [this, h1]
  have hl : fs.length = (fs.map erase).length := by simp
  rw [hl, List.drop_left]

/-- a frame lookup changes at most an InstanceDict's cache -/
theorem frameGet_erase (env : Env) (f : Frame) (key : Text) (tr : List Event) (v : Val) (f' : Frame)
    (tr' : List Event) (h : frameGet env f key tr = (.val v f', tr')) : erase f' = erase f := by
  unfold frameGet at h
  repeat' split at h
  all_goals first
    | (cases h; done)
    | (cases h; rfl)

theorem lookupStack_erase (env : Env) : ∀ (stack : List Frame) (key : Text) (tr : List Event) (v : Val)
    (stack' : List Frame) (tr' : List Event),
    lookupStack env stack key tr = (.val v stack', tr') → stack'.map erase = stack.map erase := by
  intro stack
  induction stack with
  | nil => intro key tr v stack' tr' h; simp [lookupStack] at h
  | cons f fs ih =>
    intro key tr v stack' tr' h
    unfold lookupStack at h
    split at h
    · rename_i v1 f1 tr1 hf
      simp only [Prod.mk.injEq, Looked.val.injEq] at h
      obtain ⟨⟨rfl, rfl⟩, rfl⟩ := h
      simp [frameGet_erase env f key tr v1 f1 tr1 hf]
    · cases h
    · split at h
      · rename_i v1 fs1 tr2 hl
        simp only [Prod.mk.injEq, Looked.val.injEq] at h
        obtain ⟨⟨rfl, rfl⟩, rfl⟩ := h
        simp [ih _ _ _ _ _ hl]
      · rename_i r tr2 hne hl
        simp only [Prod.mk.injEq] at h
        obtain ⟨rfl, rfl⟩ := h
        exact (hne v stack' rfl).elim

theorem invoke_pres (env : Env) (id : Nat) (r : Val) (st : St) : Pres st (invoke env id r st).2 := by
  unfold invoke
  split
  · exact ⟨rfl, rfl⟩
  · split <;> exact ⟨rfl, rfl⟩

/-- like `Pres`, but the top frame (the block's own dictionary / sequence-variables frame, which
the loops update in place) may have changed -/
def PresTail (a b : St) : Prop :=
  b.stack.length = a.stack.length ∧ b.stack.tail.map erase = a.stack.tail.map erase ∧ b.level = a.level

theorem Pres.toTail {a b : St} (h : Pres a b) : PresTail a b := by
  obtain ⟨h1, h2⟩ := h
  refine ⟨?_, ?_, h2⟩
  · have := congrArg List.length h1; simpa using this
  · have := congrArg List.tail h1; simpa [List.map_tail] using this

theorem PresTail.trans {a b c : St} (h1 : PresTail a b) (h2 : PresTail b c) : PresTail a c :=
  ⟨h2.1.trans h1.1, h2.2.1.trans h1.2.1, h2.2.2.trans h1.2.2⟩

theorem prestail_push_pop (st st' : St) (f : Frame)
    (h : PresTail { st with stack := f :: st.stack } st') :
    Pres st { st' with stack := st'.stack.drop 1 } := by
  obtain ⟨h1, h2, h3⟩ := h
  refine ⟨?_, h3⟩
  simp only [List.tail_cons] at h2
  simp only [List.drop_one]
  exact h2

/-- replacing the top frame (when there is one) keeps the tail -/
theorem prestail_settop (st : St) (g : Frame) (fs : List Frame) (f : Frame) (h : st.stack = f :: fs) :
    PresTail st { st with stack := g :: fs } := by
  refine ⟨by simp [h], by simp [h], rfl⟩

/-- induction hypothesis: every interpreter function at this fuel preserves the namespace -/
structure IH (env : Env) (fuel : Nat) : Prop where
  getitem : ∀ key call st, Pres st (getitem env fuel key call st).2
  callSub : ∀ id st, Pres st (callSub env fuel id st).2
  evalExpr : ∀ e st, Pres st (evalExpr env fuel e st).2
  evalSrc : ∀ s st, Pres st (evalSrc env fuel s st).2
  fetchVar : ∀ s hq null st, Pres st (fetchVar env fuel s hq null st).2
  renderBlocks : ∀ bs st, Pres st (renderBlocks env fuel bs st).2
  withFrame : ∀ f body st, Pres st (withFrame env fuel f body st).2
  renderJoined : ∀ body st, Pres st (renderJoined env fuel body st).2
  framed : ∀ f body st, Pres st (framed env fuel f body st).2
  inIter : ∀ sv o body i st, Pres st (inIter env fuel sv o body i st).2
  raiseClass : ∀ cls e st, Pres st (raiseClass env fuel cls e st).2
  renderBlk : ∀ b st, Pres st (renderBlk env fuel b st).2
  condLoop : ∀ cs els st, PresTail st (condLoop env fuel cs els st).2
  inLoop : ∀ sv o body i st, PresTail st (inLoop env fuel sv o body i st).2
  inLoopB : ∀ sv o w body i st, PresTail st (inLoopB env fuel sv o w body i st).2
  inBatch : ∀ sv o bp w body els cache st, Pres st (inBatch env fuel sv o bp w body els cache st).2
  resolveNames : ∀ names bp bad st, Pres st (resolveNames env fuel names bp bad st).2
  evalSortKey : ∀ x st, Pres st (evalSortKey env fuel x st).2
  evalReverse : ∀ x st, Pres st (evalReverse env fuel x st).2
  letLoop : ∀ binds body st, PresTail st (letLoop env fuel binds body st).2

theorem ih_zero (env : Env) : IH env 0 where
  getitem := fun key call st => by unfold getitem; exact Pres.refl _
  callSub := fun id st => by unfold callSub; exact Pres.refl _
  evalExpr := fun e st => by unfold evalExpr; exact Pres.refl _
  evalSrc := fun s st => by unfold evalSrc; exact Pres.refl _
  fetchVar := fun s hq null st => by unfold fetchVar; exact Pres.refl _
  renderBlocks := fun bs st => by unfold renderBlocks; exact Pres.refl _
  withFrame := fun f body st => by unfold withFrame; exact Pres.refl _
  renderJoined := fun body st => by unfold renderJoined; exact Pres.refl _
  framed := fun f body st => by unfold framed; exact Pres.refl _
  inIter := fun sv o body i st => by unfold inIter; exact Pres.refl _
  raiseClass := fun cls e st => by unfold raiseClass; exact Pres.refl _
  renderBlk := fun b st => by unfold renderBlk; exact Pres.refl _
  condLoop := fun cs els st => by unfold condLoop; exact (Pres.refl _).toTail
  inLoop := fun sv o body i st => by unfold inLoop; exact (Pres.refl _).toTail
  inLoopB := fun sv o w body i st => by unfold inLoopB; exact (Pres.refl _).toTail
  inBatch := fun sv o bp w body els cache st => by unfold inBatch; exact Pres.refl _
  resolveNames := fun names bp bad st => by unfold resolveNames; exact Pres.refl _
  evalSortKey := fun x st => by unfold evalSortKey; exact Pres.refl _
  evalReverse := fun x st => by unfold evalReverse; exact Pres.refl _
  letLoop := fun binds body st => by unfold letLoop; exact (Pres.refl _).toTail

theorem getitem_step (env : Env) (fuel : Nat) (ih : IH env fuel) (key : Text) (call : Bool) (st : St) :
    Pres st (getitem env (fuel + 1) key call st).2 := by
  unfold getitem
  split
  · exact ⟨rfl, rfl⟩
  · exact ⟨rfl, rfl⟩
  · rename_i v stack' tr hl
    have hst : Pres st { st with stack := stack', trace := tr } :=
      ⟨lookupStack_erase env _ _ _ _ _ _ hl, rfl⟩
    dsimp only
    split
    · split
      · exact hst.trans (invoke_pres _ _ _ _)
      · exact hst.trans (ih.callSub _ _)
      · exact hst
    · exact hst

theorem callSub_step (env : Env) (fuel : Nat) (ih : IH env fuel) (id : Nat) (st : St) :
    Pres st (callSub env (fuel + 1) id st).2 := by
  unfold callSub
  split
  · exact Pres.refl _
  · rename_i t ht
    dsimp only
    split
    · exact Pres.refl _
    · -- the pushed frames are popped, the level is restored, whatever the outcome
      generalize hp1 : (if t.globals.isEmpty = true then [] else [Frame.dict t.globals]) = p1
      generalize hp2 : (if t.vars.isEmpty = true then [] else [Frame.dict t.vars]) = p2
      have hr := ih.renderBlocks t.blocks { st with stack := p2 ++ p1 ++ st.stack, level := st.level + 1 }
      generalize renderBlocks env fuel t.blocks { st with stack := p2 ++ p1 ++ st.stack, level := st.level + 1 } = res at hr
      obtain ⟨r, st2⟩ := res
      have hfin : Pres st { st2 with stack := st2.stack.drop (p1.length + p2.length), level := st.level } := by
        obtain ⟨h1, _⟩ := hr
        refine ⟨?_, rfl⟩
        simp only [List.map_append] at h1
        simp only [List.map_drop]
        rw [h1]
        have hl : p1.length + p2.length = (p2.map erase ++ p1.map erase).length := by simp; omega
        rw [hl, List.drop_left]
      dsimp only
      split
      · split <;> exact hfin
      · exact hfin
      · exact hfin
      · exact hfin

theorem evalSrc_step (env : Env) (fuel : Nat) (ih : IH env fuel) (s : Src) (st : St) :
    Pres st (evalSrc env (fuel + 1) s st).2 := by
  cases s with
  | name n => simp only [evalSrc]; exact ih.getitem _ _ _
  | expr e => simp only [evalSrc]; exact ih.evalExpr _ _

@[simp] theorem insertVal_snd (env : Env) (hq : Bool) (null : Option Text) (v : Val) (st : St) :
    (insertVal env hq null v st).2 = st := by
  unfold insertVal
  simp only
  generalize (null.isSome && !truthy v && (match v with | .int _ => false | .bool _ => false | _ => true)) = c
  cases c
  · simp only [Bool.false_eq_true, if_false]
    cases hq
    · rfl
    · simp only [if_true]
      cases htmlQuote env (pieceOfVal v) <;> rfl
  · rfl

theorem fetchVar_step (env : Env) (fuel : Nat) (ih : IH env fuel) (s : Src) (hq : Bool) (null : Option Text) (st : St) :
    Pres st (fetchVar env (fuel + 1) s hq null st).2 := by
  simp only [fetchVar]
  have h := ih.evalSrc s st
  generalize evalSrc env fuel s st = res at h
  obtain ⟨r, st'⟩ := res
  cases r with
  | ok v => simp only [insertVal_snd]; exact h
  | raise e => exact h
  | ret v => exact h
  | oom => exact h

theorem withFrame_step (env : Env) (fuel : Nat) (ih : IH env fuel) (f : Frame) (body : List Blk) (st : St) :
    Pres st (withFrame env (fuel + 1) f body st).2 := by
  simp only [withFrame]
  exact pres_push_pop _ _ f (ih.renderBlocks _ _)

@[simp] theorem joinRes_snd (env : Env) (r : Res (List Piece)) (st : St) : (joinRes env r st).2 = st := by
  unfold joinRes
  cases r with
  | ok ps => dsimp only; split <;> rfl
  | raise e => rfl
  | ret v => rfl
  | oom => rfl

@[simp] theorem oneRes_snd (r : Res Piece × St) : (oneRes r).2 = r.2 := by
  obtain ⟨r, st⟩ := r
  cases r <;> rfl

@[simp] theorem join2_snd (env : Env) (p q : Piece) (st : St) : (join2 env p q st).2 = st := by
  unfold join2; split <;> rfl

theorem renderJoined_step (env : Env) (fuel : Nat) (ih : IH env fuel) (body : List Blk) (st : St) :
    Pres st (renderJoined env (fuel + 1) body st).2 := by
  simp only [renderJoined, joinRes_snd]
  exact ih.renderBlocks _ _

theorem framed_step (env : Env) (fuel : Nat) (ih : IH env fuel) (f : Frame) (body : List Blk) (st : St) :
    Pres st (framed env (fuel + 1) f body st).2 := by
  simp only [framed, joinRes_snd]
  exact ih.withFrame _ _ _

theorem inIter_step (env : Env) (fuel : Nat) (ih : IH env fuel) (sv : SeqVars) (o : InOpts)
    (body : List Blk) (i : Nat) (st : St) : Pres st (inIter env (fuel + 1) sv o body i st).2 := by
  have key : ∀ (isStr : Bool), Pres st
      (if o.noPush = true then renderJoined env fuel body st
       else if o.mapping = true then
         framed env fuel (match seqItem sv i with | .dict kvs => Frame.dict kvs | _ => Frame.bad) body st
       else if isStr = true then renderJoined env fuel body st
       else framed env fuel (.inst (seqItem sv i) []) body st).2 := by
    intro isStr
    split
    · exact ih.renderJoined _ _
    · split
      · exact ih.framed _ _ _
      · split
        · exact ih.renderJoined _ _
        · exact ih.framed _ _ _
  simp only [inIter]
  exact key _

theorem raiseClass_step (env : Env) (fuel : Nat) (ih : IH env fuel) (cls : Text) (e : Option Expr) (st : St) :
    Pres st (raiseClass env (fuel + 1) cls e st).2 := by
  unfold raiseClass
  cases e with
  | none => exact Pres.refl _
  | some e =>
    dsimp only
    have h := ih.evalExpr e st
    generalize evalExpr env fuel e st = res at h
    obtain ⟨r, st'⟩ := res
    split
    · rename_i heq; cases heq; exact h
    · rename_i heq; cases heq; exact h
    · rename_i heq; cases heq; exact h
    · rename_i heq; cases heq; exact h

theorem renderBlocks_step (env : Env) (fuel : Nat) (ih : IH env fuel) (bs : List Blk) (st : St) :
    Pres st (renderBlocks env (fuel + 1) bs st).2 := by
  cases bs with
  | nil => simp only [renderBlocks]; exact Pres.refl _
  | cons b rest =>
    simp only [renderBlocks]
    have h1 := ih.renderBlk b st
    generalize renderBlk env fuel b st = res1 at h1
    obtain ⟨r1, st1⟩ := res1
    cases r1 with
    | ok ps =>
      dsimp only
      have h2 := ih.renderBlocks rest st1
      generalize renderBlocks env fuel rest st1 = res2 at h2
      obtain ⟨r2, st2⟩ := res2
      cases r2 <;> exact h1.trans h2
    | raise e => exact h1
    | ret v => exact h1
    | oom => exact h1

theorem evalExpr_step (env : Env) (fuel : Nat) (ih : IH env fuel) (e : Expr) (st : St) :
    Pres st (evalExpr env (fuel + 1) e st).2 := by
  cases e with
  | lit v => simp only [evalExpr]; exact Pres.refl _
  | name n =>
    simp only [evalExpr]
    have h := ih.getitem n false st
    generalize getitem env fuel n false st = res at h
    obtain ⟨r, st'⟩ := res
    cases r with
    | raise e => dsimp only; split <;> exact h
    | ok v => exact h
    | ret v => exact h
    | oom => exact h
  | under n => simp only [evalExpr]; exact ih.getitem _ _ _
  | not a =>
    simp only [evalExpr]
    have h := ih.evalExpr a st
    generalize evalExpr env fuel a st = res at h
    obtain ⟨r, st'⟩ := res
    cases r <;> exact h
  | eq a b =>
    simp only [evalExpr]
    have h := ih.evalExpr a st
    generalize evalExpr env fuel a st = res at h
    obtain ⟨r, st'⟩ := res
    cases r with
    | ok va =>
      dsimp only
      have h2 := ih.evalExpr b st'
      generalize evalExpr env fuel b st' = res2 at h2
      obtain ⟨r2, st''⟩ := res2
      cases r2 <;> exact h.trans h2
    | raise e => exact h
    | ret v => exact h
    | oom => exact h
  | call f =>
    simp only [evalExpr]
    have h := ih.evalExpr f st
    generalize evalExpr env fuel f st = res at h
    obtain ⟨r, st'⟩ := res
    cases r with
    | ok v =>
      cases v <;> first
        | exact h
        | exact h.trans (invoke_pres _ _ _ _)
    | raise e => exact h
    | ret v => exact h
    | oom => exact h
  | attr a name =>
    simp only [evalExpr]
    have h := ih.evalExpr a st
    generalize evalExpr env fuel a st = res at h
    obtain ⟨r, st'⟩ := res
    cases r with
    | ok v =>
      cases v <;> first
        | exact h
        | (dsimp only
           repeat' split
           all_goals first
            | exact h
            | exact h.trans ⟨rfl, rfl⟩)
    | raise e => exact h
    | ret v => exact h
    | oom => exact h
  | item a k =>
    simp only [evalExpr]
    have h := ih.evalExpr a st
    generalize evalExpr env fuel a st = res at h
    obtain ⟨r, st'⟩ := res
    cases r with
    | ok v =>
      cases v <;> first
        | exact h
        | (dsimp only
           repeat' split
           all_goals exact h)
    | raise e => exact h
    | ret v => exact h
    | oom => exact h

/-- `cache[n] = v` / `d[name] = v`: replacing the top dictionary keeps everything below it -/
theorem settop_tail (st : St) (n : Text) (v : Val) :
    PresTail st (match st.stack with
      | .dict kvs :: fs => { st with stack := .dict (kvs.filter (·.1 != n) ++ [(n, v)]) :: fs }
      | _ => st) := by
  split
  · rename_i kvs fs h
    exact prestail_settop st _ fs _ h
  · exact (Pres.refl _).toTail

theorem condLoop_step (env : Env) (fuel : Nat) (ih : IH env fuel) (cs : List (Src × List Blk))
    (els : Option (List Blk)) (st : St) : PresTail st (condLoop env (fuel + 1) cs els st).2 := by
  cases cs with
  | nil =>
    simp only [condLoop]
    split
    · exact (ih.renderBlocks _ _).toTail
    · exact (Pres.refl _).toTail
  | cons c rest =>
    obtain ⟨src, body⟩ := c
    simp only [condLoop]
    have hdec : ∀ (v : Val) (s : St), PresTail s
        (if truthy v = true then renderBlocks env fuel body s else condLoop env fuel rest els s).2 := by
      intro v s
      split
      · exact (ih.renderBlocks _ _).toTail
      · exact ih.condLoop _ _ _
    cases src with
    | name n =>
      dsimp only
      have h := ih.getitem n true st
      generalize getitem env fuel n true st = res at h
      obtain ⟨r, st'⟩ := res
      cases r with
      | ok v =>
        dsimp only
        exact h.toTail.trans ((settop_tail st' n v).trans (hdec _ _))
      | raise e =>
        dsimp only
        split
        · exact h.toTail.trans (hdec _ _)
        · exact h.toTail
      | ret v => exact h.toTail
      | oom => exact h.toTail
    | expr e =>
      dsimp only
      have h := ih.evalExpr e st
      generalize evalExpr env fuel e st = res at h
      obtain ⟨r, st'⟩ := res
      cases r with
      | ok v => exact h.toTail.trans (hdec _ _)
      | raise e => exact h.toTail
      | ret v => exact h.toTail
      | oom => exact h.toTail

theorem letLoop_step (env : Env) (fuel : Nat) (ih : IH env fuel) (binds : List (Text × Src))
    (body : List Blk) (st : St) : PresTail st (letLoop env (fuel + 1) binds body st).2 := by
  cases binds with
  | nil =>
    simp only [letLoop, oneRes_snd]
    exact (ih.renderJoined body st).toTail
  | cons b rest =>
    obtain ⟨n, src⟩ := b
    simp only [letLoop]
    have h := ih.evalSrc src st
    generalize evalSrc env fuel src st = res at h
    obtain ⟨r, st'⟩ := res
    cases r with
    | ok v =>
      dsimp only
      exact h.toTail.trans ((settop_tail st' n v).trans (ih.letLoop _ _ _))
    | raise e => exact h.toTail
    | ret v => exact h.toTail
    | oom => exact h.toTail

theorem inLoop_step (env : Env) (fuel : Nat) (ih : IH env fuel) (sv : SeqVars) (o : InOpts)
    (body : List Blk) (i : Nat) (st : St) : PresTail st (inLoop env (fuel + 1) sv o body i st).2 := by
  have key : ∀ (sv' : SeqVars) (st1 : St), PresTail st st1 →
      PresTail st (match inIter env fuel sv' o body i st1 with
        | (.ok p, st2) =>
          (match inLoop env fuel sv' o body (i + 1) st2 with
           | (.ok ps, st3) => ((.ok (p :: ps) : Res (List Piece)), st3)
           | r => r)
        | (.raise e, st2) => (.raise e, st2)
        | (.ret v, st2) => (.ret v, st2)
        | (.oom, st2) => (.oom, st2)).2 := by
    intro sv' st1 h1
    have h2 := ih.inIter sv' o body i st1
    generalize inIter env fuel sv' o body i st1 = res at h2
    obtain ⟨r, st2⟩ := res
    cases r with
    | ok p =>
      simp only
      have h3 := ih.inLoop sv' o body (i + 1) st2
      generalize inLoop env fuel sv' o body (i + 1) st2 = res3 at h3
      obtain ⟨r3, st3⟩ := res3
      cases r3 <;> exact h1.trans (h2.toTail.trans h3)
    | raise e => exact h1.trans h2.toTail
    | ret v => exact h1.trans h2.toTail
    | oom => exact h1.trans h2.toTail
  simp only [inLoop]
  split
  · exact (Pres.refl _).toTail
  · -- the item guard only appends an event to the trace
    have hg : PresTail st (if env.guardOn = true then { st with trace := st.trace ++ [Event.gitem 0 i] } else st) := by
      split
      · exact (show Pres st _ from ⟨rfl, rfl⟩).toTail
      · exact (Pres.refl _).toTail
    generalize (if env.guardOn = true then { st with trace := st.trace ++ [Event.gitem 0 i] } else st) = st0 at hg ⊢
    split
    · split
      · exact hg.trans (ih.inLoop _ _ _ _ _)
      · exact hg
    · apply key
      refine hg.trans ?_
      split
      · rename_i x fs h; exact prestail_settop st0 _ fs _ h
      · exact (Pres.refl _).toTail

theorem inLoopB_step (env : Env) (fuel : Nat) (ih : IH env fuel) (sv : SeqVars) (o : InOpts) (w : BWin)
    (body : List Blk) (i : Nat) (st : St) : PresTail st (inLoopB env (fuel + 1) sv o w body i st).2 := by
  have key : ∀ (sv' sv'' : SeqVars) (st1 : St), PresTail st st1 →
      PresTail st (match inIter env fuel sv' o body i st1 with
        | (.ok p, st2) =>
          (match inLoopB env fuel sv'' o w body (i + 1) st2 with
           | (.ok ps, st3) => ((.ok (p :: ps) : Res (List Piece)), st3)
           | r => r)
        | (.raise e, st2) => (.raise e, st2)
        | (.ret v, st2) => (.ret v, st2)
        | (.oom, st2) => (.oom, st2)).2 := by
    intro sv' sv'' st1 h1
    have h2 := ih.inIter sv' o body i st1
    generalize inIter env fuel sv' o body i st1 = res at h2
    obtain ⟨r, st2⟩ := res
    cases r with
    | ok p =>
      simp only
      have h3 := ih.inLoopB sv'' o w body (i + 1) st2
      generalize inLoopB env fuel sv'' o w body (i + 1) st2 = res3 at h3
      obtain ⟨r3, st3⟩ := res3
      cases r3 <;> exact h1.trans (h2.toTail.trans h3)
    | raise e => exact h1.trans h2.toTail
    | ret v => exact h1.trans h2.toTail
    | oom => exact h1.trans h2.toTail
  simp only [inLoopB]
  split
  · exact (Pres.refl _).toTail
  · have hg : PresTail st (if env.guardOn = true then { st with trace := st.trace ++ [Event.gitem 0 i] } else st) := by
      split
      · exact (show Pres st _ from ⟨rfl, rfl⟩).toTail
      · exact (Pres.refl _).toTail
    generalize (if env.guardOn = true then { st with trace := st.trace ++ [Event.gitem 0 i] } else st) = st0 at hg ⊢
    split
    · split
      · exact hg.trans (ih.inLoopB _ _ _ _ _ _)
      · exact hg
    · apply key
      refine hg.trans ?_
      split
      · rename_i x fs h; exact prestail_settop st0 _ fs _ h
      · exact (Pres.refl _).toTail

/-- frames pushed on top, something that keeps everything below the top frame, then as many frames dropped -/
theorem pres_push_drop (st st2 : St) (fs : List Frame) (hne : fs ≠ [])
    (hl : PresTail { st with stack := fs ++ st.stack } st2) :
    Pres st { st2 with stack := st2.stack.drop fs.length } := by
  obtain ⟨l1, l2, l3⟩ := hl
  refine ⟨?_, l3⟩
  cases fs with
  | nil => exact absurd rfl hne
  | cons f fs' =>
    simp only [List.cons_append, List.tail_cons, List.map_append, List.length_cons] at l1 l2 ⊢
    have : (st2.stack.drop (fs'.length + 1)).map erase = ((st2.stack.tail).map erase).drop fs'.length := by
      rw [← List.map_drop, List.drop_tail]
    rw [this, l2]
    have hl' : fs'.length = (fs'.map erase).length := by simp
    rw [hl', List.drop_left]

/-- computing sort keys (calling callable keys) leaves the namespace alone -/
theorem sortKeyOf_pres (env : Env) (m : Bool) (k : Text) (x : Val) (st : St) : Pres st (sortKeyOf env m k x st).2 := by
  unfold sortKeyOf
  dsimp only
  split
  · split <;> exact ⟨rfl, rfl⟩
  all_goals exact Pres.refl _

theorem sortKeys_pres (env : Env) (m : Bool) (k : Text) (xs : List Val) (st : St) : Pres st (sortKeys env m k xs st).2 := by
  induction xs generalizing st with
  | nil => exact Pres.refl _
  | cons x xs ih =>
    unfold sortKeys
    have h := sortKeyOf_pres env m k x st
    generalize sortKeyOf env m k x st = res at h
    obtain ⟨r, st'⟩ := res
    cases r with
    | ok key =>
      dsimp only
      have h2 := ih st'
      generalize sortKeys env m k xs st' = res2 at h2
      obtain ⟨r2, st''⟩ := res2
      cases r2 <;> exact h.trans h2
    | raise e => exact h
    | ret v => exact h
    | oom => exact h

theorem sortPart_pres (env : Env) (o : InOpts) (x : InXOpts) (xs : List Val) (st : St) :
    Pres st (sortPart env o x xs st).2 := by
  unfold sortPart
  cases x.sortKey with
  | none => exact Pres.refl _
  | some k =>
    dsimp only
    have h := sortKeys_pres env o.mapping k xs st
    generalize sortKeys env o.mapping k xs st = res at h
    obtain ⟨r, st'⟩ := res
    cases r with
    | ok dec => dsimp only; split <;> exact h
    | raise e => exact h
    | ret v => exact h
    | oom => exact h

theorem arrange_pres (env : Env) (o : InOpts) (x : InXOpts) (xs : List Val) (st : St) :
    Pres st (arrange env o x xs st).2 := by
  unfold arrange
  have h := sortPart_pres env o x xs st
  generalize sortPart env o x xs st = res at h ⊢
  obtain ⟨r, st'⟩ := res
  cases r <;> exact h

/-- one frame on top of some others pushed, something that keeps everything below the top frame, then all of them dropped -/
theorem pres_push_drop1 (st s : St) (f : Frame) (cache : List Frame)
    (h : PresTail { st with stack := (f :: cache) ++ st.stack } s) :
    Pres st { s with stack := s.stack.drop (cache.length + 1) } :=
  pres_push_drop st s (f :: cache) (List.cons_ne_nil _ _) h

theorem inBatch_step (env : Env) (fuel : Nat) (ih : IH env fuel) (sv0 : SeqVars) (o : InOpts) (bp : BatchP) (w : BWin)
    (body : List Blk) (els : Option (List Blk)) (cache : List Frame) (st : St) :
    Pres st (inBatch env (fuel + 1) sv0 o bp w body els cache st).2 := by
  unfold inBatch
  dsimp only
  split
  · split
    · exact pres_push_drop1 _ _ _ _ (ih.renderJoined _ _).toTail
    · cases els with
      | some e => exact pres_push_drop1 _ _ _ _ (ih.renderJoined _ _).toTail
      | none => exact pres_push_drop1 _ _ _ _ (Pres.refl _).toTail
  · split
    · split
      · exact pres_push_drop1 _ _ _ _ (ih.renderJoined _ _).toTail
      · cases els with
        | some e => exact pres_push_drop1 _ _ _ _ (ih.renderJoined _ _).toTail
        | none => exact pres_push_drop1 _ _ _ _ (Pres.refl _).toTail
    · have hl := ih.inLoopB sv0 o w body w.first { st with stack := (Frame.seq sv0 :: cache) ++ st.stack }
      generalize inLoopB env fuel sv0 o w body w.first { st with stack := (Frame.seq sv0 :: cache) ++ st.stack } = res at hl ⊢
      obtain ⟨r, s⟩ := res
      have hfin := pres_push_drop1 st s _ cache hl
      cases r with
      | ok ps => dsimp only; split <;> exact hfin
      | raise e => exact hfin
      | ret x => exact hfin
      | oom => exact hfin

theorem resolveNames_step (env : Env) (fuel : Nat) (ih : IH env fuel) (names : List (Text × Text)) (bp : BatchP) (bad : Bool)
    (st : St) : Pres st (resolveNames env (fuel + 1) names bp bad st).2 := by
  cases names with
  | nil => unfold resolveNames; exact Pres.refl _
  | cons pn rest =>
    obtain ⟨p, n⟩ := pn
    unfold resolveNames
    dsimp only
    have h := ih.getitem n true st
    generalize getitem env fuel n true st = res at h
    obtain ⟨r, st'⟩ := res
    have h : Pres st st' := h
    cases r with
    | ok v =>
      dsimp only
      cases paramInt v with
      | ok i => exact h.trans (ih.resolveNames _ _ _ _)
      | bad => exact h.trans (ih.resolveNames _ _ _ _)
      | valueError =>
        dsimp only
        split
        · exact h.trans (ih.resolveNames _ _ _ _)
        · exact h
    | raise e =>
      dsimp only
      split
      · exact h.trans (ih.resolveNames _ _ _ _)
      · exact h
    | ret v =>
      dsimp only
      split
      · exact h.trans (ih.resolveNames _ _ _ _)
      · exact h
    | oom => exact h

theorem evalSortKey_step (env : Env) (fuel : Nat) (ih : IH env fuel) (x : InXOpts) (st : St) :
    Pres st (evalSortKey env (fuel + 1) x st).2 := by
  unfold evalSortKey
  cases x.sortExpr with
  | none => exact Pres.refl _
  | some e =>
    dsimp only
    have h := ih.evalExpr e st
    generalize evalExpr env fuel e st = res at h
    obtain ⟨r, st'⟩ := res
    cases r with
    | ok v => cases v <;> exact h
    | raise ex => exact h
    | ret v => exact h
    | oom => exact h

theorem evalReverse_step (env : Env) (fuel : Nat) (ih : IH env fuel) (x : InXOpts) (st : St) :
    Pres st (evalReverse env (fuel + 1) x st).2 := by
  unfold evalReverse
  cases x.reverseExpr with
  | none => exact Pres.refl _
  | some e =>
    dsimp only
    have h := ih.evalExpr e st
    generalize evalExpr env fuel e st = res at h
    obtain ⟨r, st'⟩ := res
    cases r <;> exact h

theorem renderBlk_step (env : Env) (fuel : Nat) (ih : IH env fuel) (b : Blk) (st : St) :
    Pres st (renderBlk env (fuel + 1) b st).2 := by
  cases b with
  | lit s => unfold renderBlk; exact Pres.refl _
  | comment => unfold renderBlk; exact Pres.refl _
  | var src hq missing null =>
    unfold renderBlk
    dsimp only
    cases src with
    | expr e => exact ih.fetchVar _ _ _ _
    | name n =>
      dsimp only
      split
      · -- the full path: `name in md`, then `md[name]`
        split
        · split <;> exact ⟨rfl, rfl⟩
        · exact ⟨rfl, rfl⟩
        · rename_i v stack' tr hl
          have hst : Pres st { st with stack := stack', trace := tr } :=
            ⟨lookupStack_erase env _ _ _ _ _ _ hl, rfl⟩
          exact hst.trans (ih.fetchVar _ _ _ _)
      · exact ih.fetchVar _ _ _ _
  | call src =>
    unfold renderBlk
    dsimp only
    have h := ih.condLoop [(src, [])] none { st with stack := .dict [] :: st.stack }
    generalize condLoop env fuel [(src, [])] none { st with stack := .dict [] :: st.stack } = res at h
    obtain ⟨r, st'⟩ := res
    have hp := prestail_push_pop st st' (.dict []) h
    cases r <;> exact hp
  | cond conds els =>
    unfold renderBlk
    dsimp only
    exact prestail_push_pop st _ (.dict []) (ih.condLoop _ _ _)
  | unless_ src body =>
    unfold renderBlk
    dsimp only
    exact prestail_push_pop st _ (.dict []) (ih.condLoop _ _ _)
  | let_ binds body =>
    unfold renderBlk
    dsimp only
    exact prestail_push_pop st _ (.dict []) (ih.letLoop _ _ _)
  | ret src =>
    unfold renderBlk
    dsimp only
    have h := ih.evalSrc src st
    generalize evalSrc env fuel src st = res at h
    obtain ⟨r, st'⟩ := res
    cases r <;> exact h
  | raise_ cls clsExpr body =>
    unfold renderBlk
    dsimp only
    have h0 := ih.raiseClass cls clsExpr st
    generalize raiseClass env fuel cls clsExpr st = rc at h0
    obtain ⟨cn, st0⟩ := rc
    cases cn with
    | none => exact h0
    | some cn =>
      dsimp only
      have h1 := ih.renderJoined body st0
      generalize renderJoined env fuel body st0 = res at h1
      obtain ⟨r, st1⟩ := res
      cases r <;> exact h0.trans h1
  | tryFin body fin =>
    unfold renderBlk
    dsimp only
    have h1 := ih.renderJoined body st
    generalize renderJoined env fuel body st = res1 at h1
    obtain ⟨r, st1⟩ := res1
    have hrest : Pres st (match renderJoined env fuel fin st1 with
        | (.ok q, st2) =>
          (match r with
           | .ok p => join2 env p q st2
           | .raise e => (.raise e, st2)
           | .ret v => (.ret v, st2)
           | .oom => (.oom, st2))
        | (.raise e, st2) => (.raise e, st2)
        | (.ret v, st2) => (.ret v, st2)
        | (.oom, st2) => (.oom, st2)).2 := by
      have h2 := ih.renderJoined fin st1
      generalize renderJoined env fuel fin st1 = res2 at h2
      obtain ⟨r2, st2⟩ := res2
      cases r2 with
      | ok q =>
        cases r with
        | ok p => dsimp only; rw [join2_snd]; exact h1.trans h2
        | raise e => exact h1.trans h2
        | ret v => exact h1.trans h2
        | oom => exact h1.trans h2
      | raise e => exact h1.trans h2
      | ret v => exact h1.trans h2
      | oom => exact h1.trans h2
    cases r with
    | oom => exact h1
    | ok p => exact hrest
    | raise e => exact hrest
    | ret v => exact hrest
  | try_ body handlers els =>
    unfold renderBlk
    dsimp only
    have h1 := ih.renderJoined body st
    generalize renderJoined env fuel body st = res1 at h1
    obtain ⟨r, st1⟩ := res1
    cases r with
    | ok p =>
      dsimp only
      cases els with
      | none => exact h1
      | some e =>
        dsimp only
        have h2 := ih.renderJoined e st1
        generalize renderJoined env fuel e st1 = res2 at h2
        obtain ⟨r2, st2⟩ := res2
        cases r2 with
        | ok q => dsimp only; rw [join2_snd]; exact h1.trans h2
        | raise x => exact h1.trans h2
        | ret x => exact h1.trans h2
        | oom => exact h1.trans h2
    | ret v => exact h1
    | oom => exact h1
    | raise ex =>
      dsimp only
      split
      · exact h1
      · rw [oneRes_snd]; exact h1.trans (ih.framed _ _ _)
  | with_ src mapping only body =>
    unfold renderBlk
    dsimp only
    have h := ih.evalSrc src st
    generalize evalSrc env fuel src st = res at h
    obtain ⟨r, st'⟩ := res
    cases r with
    | ok v =>
      dsimp only
      split
      · -- only: the body runs on a fresh namespace; the caller's is put back untouched
        rw [oneRes_snd]
        exact h.trans ⟨rfl, rfl⟩
      · rw [oneRes_snd]; exact h.trans (ih.framed _ _ _)
    | raise e => exact h
    | ret v => exact h
    | oom => exact h
  | in_ src o body els =>
    unfold renderBlk
    dsimp only
    have h := ih.evalSrc src st
    generalize evalSrc env fuel src st = res at h
    obtain ⟨r, st'⟩ := res
    cases r with
    | ok v =>
      dsimp only
      split
      · split <;> exact h
      · split
        · rw [oneRes_snd]; exact h.trans (ih.renderJoined _ _)
        · exact h
      · rename_i _ xs hne heq
        -- sequence-variables frame (and the cache of a named sequence) pushed, popped on every path
        generalize hfs : (Frame.seq { items := xs, mapping := o.mapping, prefix_ := o.prefix_ } ::
            (match src with | .name n => [Frame.dict [(n, seqCacheVal v)]] | .expr _ => [])) = fs
        have hl := ih.inLoop { items := xs, mapping := o.mapping, prefix_ := o.prefix_ } o body 0
            { st' with stack := fs ++ st'.stack }
        generalize inLoop env fuel { items := xs, mapping := o.mapping, prefix_ := o.prefix_ } o body 0
            { st' with stack := fs ++ st'.stack } = res2 at hl ⊢
        obtain ⟨r2, st2⟩ := res2
        have hfin : Pres st' { st2 with stack := st2.stack.drop fs.length } := by
          obtain ⟨l1, l2, l3⟩ := hl
          refine ⟨?_, l3⟩
          cases fs with
          | nil => cases hfs
          | cons f fs' =>
            simp only [List.cons_append, List.tail_cons, List.map_append, List.length_cons] at l1 l2 ⊢
            have : (st2.stack.drop (fs'.length + 1)).map erase = ((st2.stack.tail).map erase).drop fs'.length := by
              rw [← List.map_drop, List.drop_tail]
            rw [this, l2]
            have hl' : fs'.length = (fs'.map erase).length := by simp
            rw [hl', List.drop_left]
        cases r2 with
        | ok ps => simp only; split <;> exact h.trans hfin
        | raise e => exact h.trans hfin
        | ret x => exact h.trans hfin
        | oom => exact h.trans hfin
    | raise e => exact h
    | ret v => exact h
    | oom => exact h
  | inx_ src o x body els =>
    unfold renderBlk
    dsimp only
    have h := ih.evalSrc src st
    generalize evalSrc env fuel src st = res at h
    obtain ⟨r, st'⟩ := res
    cases r with
    | ok v =>
      dsimp only
      split
      · split <;> exact h
      · split
        · rw [oneRes_snd]; exact h.trans (ih.renderJoined _ _)
        · exact h
      · rename_i _ xs hne heq
        have hk := ih.evalSortKey x st'
        generalize evalSortKey env fuel x st' = resk at hk ⊢
        obtain ⟨rk, sA⟩ := resk
        have hk : Pres st' sA := hk
        cases rk with
        | ok key =>
          dsimp only
          have hs := sortPart_pres env o { x with sortKey := key } xs sA
          generalize sortPart env o { x with sortKey := key } xs sA = ress at hs ⊢
          obtain ⟨rs, sB⟩ := ress
          have hs : Pres sA sB := hs
          cases rs with
          | ok sorted =>
            dsimp only
            have hr := ih.evalReverse x sB
            generalize evalReverse env fuel x sB = resr at hr ⊢
            obtain ⟨rr, st1⟩ := resr
            have hr : Pres sB st1 := hr
            have ha : Pres st st1 := h.trans (hk.trans (hs.trans hr))
            cases rr with
            | ok rev =>
              dsimp only
              generalize applyReverse rev sorted = ys
              generalize cacheOf src v = cache
              cases x.batch with
              | none =>
                dsimp only
                have hl := ih.inLoop { items := ys, mapping := o.mapping, prefix_ := o.prefix_ } o body 0
                    { st1 with stack := (Frame.seq { items := ys, mapping := o.mapping, prefix_ := o.prefix_ } :: cache) ++ st1.stack }
                generalize inLoop env fuel { items := ys, mapping := o.mapping, prefix_ := o.prefix_ } o body 0
                    { st1 with stack := (Frame.seq { items := ys, mapping := o.mapping, prefix_ := o.prefix_ } :: cache) ++ st1.stack } = res2 at hl ⊢
                obtain ⟨r2, st2⟩ := res2
                have hfin := pres_push_drop st1 st2 _ (List.cons_ne_nil _ _) hl
                cases r2 with
                | ok ps => simp only; split <;> exact ha.trans hfin
                | raise e => exact ha.trans hfin
                | ret x => exact ha.trans hfin
                | oom => exact ha.trans hfin
              | some bp0 =>
                dsimp only
                have hp := ih.resolveNames x.names bp0 false st1
                generalize resolveNames env fuel x.names bp0 false st1 = resp at hp ⊢
                obtain ⟨rp, sP⟩ := resp
                have hp : Pres st1 sP := hp
                cases rp with
                | ok pb =>
                  obtain ⟨bp, bad⟩ := pb
                  dsimp only
                  split
                  · exact ha.trans hp
                  · have hq := ih.getitem (txt "QUERY_STRING") true sP
                    generalize getitem env fuel (txt "QUERY_STRING") true sP = resq at hq ⊢
                    obtain ⟨rq, st2⟩ := resq
                    have hq : Pres sP st2 := hq
                    have hb := ih.inBatch (batchInit { items := ys, mapping := o.mapping, prefix_ := o.prefix_ } (bwinOf bp ys.length))
                      o bp (bwinOf bp ys.length) body els cache st2
                    cases rq with
                    | oom => exact ha.trans (hp.trans hq)
                    | ok q => dsimp only; rw [oneRes_snd]; exact ha.trans (hp.trans (hq.trans hb))
                    | raise e => dsimp only; rw [oneRes_snd]; exact ha.trans (hp.trans (hq.trans hb))
                    | ret q => dsimp only; rw [oneRes_snd]; exact ha.trans (hp.trans (hq.trans hb))
                | raise e => exact ha.trans hp
                | ret v => exact ha.trans hp
                | oom => exact ha.trans hp
            | raise e => exact ha
            | ret v => exact ha
            | oom => exact ha
          | raise e => exact h.trans (hk.trans hs)
          | ret v => exact h.trans (hk.trans hs)
          | oom => exact h.trans (hk.trans hs)
        | raise e => exact h.trans hk
        | ret v => exact h.trans hk
        | oom => exact h.trans hk
    | raise e => exact h
    | ret v => exact h
    | oom => exact h

/-- every interpreter function, at every fuel, preserves the namespace and the level -/
theorem all_preserve (env : Env) : ∀ fuel, IH env fuel := by
  intro fuel
  induction fuel with
  | zero => exact ih_zero env
  | succ n ih =>
    exact {
      getitem := getitem_step env n ih
      callSub := callSub_step env n ih
      evalExpr := evalExpr_step env n ih
      evalSrc := evalSrc_step env n ih
      fetchVar := fetchVar_step env n ih
      renderBlocks := renderBlocks_step env n ih
      withFrame := withFrame_step env n ih
      renderJoined := renderJoined_step env n ih
      framed := framed_step env n ih
      inIter := inIter_step env n ih
      raiseClass := raiseClass_step env n ih
      renderBlk := renderBlk_step env n ih
      condLoop := condLoop_step env n ih
      inLoop := inLoop_step env n ih
      inLoopB := inLoopB_step env n ih
      inBatch := inBatch_step env n ih
      resolveNames := resolveNames_step env n ih
      evalSortKey := evalSortKey_step env n ih
      evalReverse := evalReverse_step env n ih
      letLoop := letLoop_step env n ih }

/-! #### the property -/

/-- **Every block restores the namespace.**  Whatever a block does — render to the end, raise
at any point inside it (in nested blocks, handlers, sub-templates, callables), or hit a
dtml-return — the namespace afterwards holds the same entries in the same order as before
(an InstanceDict's attribute cache aside) and the recursion level is the same. -/
theorem block_preserves_stack (env : Env) (fuel : Nat) (b : Blk) (st : St) :
    (renderBlk env fuel b st).2.stack.map erase = st.stack.map erase ∧
    (renderBlk env fuel b st).2.level = st.level :=
  (all_preserve env fuel).renderBlk b st

theorem render_preserves_stack (env : Env) (fuel : Nat) (bs : List Blk) (st : St) :
    (renderBlocks env fuel bs st).2.stack.map erase = st.stack.map erase ∧
    (renderBlocks env fuel bs st).2.level = st.level :=
  (all_preserve env fuel).renderBlocks bs st

/-- **A template invoked by name restores its caller's namespace and level**, on every exit
path (its own defaults and variables are pushed on entry and popped again; the level is
incremented and put back) — including the `infinite recursion` SystemError. -/
theorem subtemplate_preserves_stack (env : Env) (fuel : Nat) (id : Nat) (st : St) :
    (callSub env fuel id st).2.stack.map erase = st.stack.map erase ∧
    (callSub env fuel id st).2.level = st.level :=
  (all_preserve env fuel).callSub id st

/-- name lookups (with auto-call of callables and rendering of templates) and expressions too -/
theorem lookup_preserves_stack (env : Env) (fuel : Nat) (key : Text) (call : Bool) (st : St) :
    (getitem env fuel key call st).2.stack.map erase = st.stack.map erase ∧
    (getitem env fuel key call st).2.level = st.level :=
  (all_preserve env fuel).getitem key call st

/-- **A top-level call is balanced**: when `template(client, mapping, **kw)` finishes in any
way, the namespace it built holds exactly the frames it was built with (which `__call__` then
pops by count), and the level is the entry level + 1 that `__call__` resets. -/
theorem toplevel_call_balanced (env : Env) (fuel : Nat) (t : Template) (c : CallArgs) :
    (topCall env fuel t c).2.stack.map erase = (callStack t c).map erase ∧
    (topCall env fuel t c).2.level = 1 := by
  unfold topCall
  dsimp only
  have h := (all_preserve env fuel).renderBlocks t.blocks { stack := callStack t c, level := 1 }
  generalize renderBlocks env fuel t.blocks { stack := callStack t c, level := 1 } = res at h
  obtain ⟨r, st1⟩ := res
  cases r with
  | ok ps => dsimp only; split <;> exact h
  | raise e => exact h
  | ret v => exact h
  | oom => exact h

/-- **The caller continues with an uncorrupted namespace**: after a dtml-try whose body raised
(anywhere, at any depth) and whose handler ran, the blocks that follow start from the namespace
the try started from. -/
theorem caller_continues (env : Env) (fuel : Nat) (body : List Blk) (hs : List (Text × List Blk))
    (els : Option (List Blk)) (rest : List Blk) (st : St) :
    let st1 := (renderBlk env fuel (.try_ body hs els) st).2
    st1.stack.map erase = st.stack.map erase ∧ st1.level = st.level ∧
    (renderBlocks env fuel rest st1).2.stack.map erase = st.stack.map erase := by
  have h1 := (all_preserve env fuel).renderBlk (.try_ body hs els) st
  have h2 := (all_preserve env fuel).renderBlocks rest (renderBlk env fuel (.try_ body hs els) st).2
  exact ⟨h1.1, h1.2, h2.1.trans h1.1⟩

/-! ### The push / pop sites of `dtml-let` and `dtml-with` are the ones of the source

`GenRender.letBlockGen` / `withBlockGen` are regenerated on every run from `Let.render` / `With.render` in /repo
(harness/trans_render.py: the dictionary pushed before the bindings are evaluated, each binding stored in it, the section
rendered, `finally: md._pop(k)` with the `k` of the source; the with-object unwrapped / wrapped, the new TemplateDict of
`only`, the push, the section, the pop).  They compute what `renderBlk` does for `.let_` / `.with_`, the cases
`render_preserves_stack` above is proved about. -/

private theorem letLoopGen_eq (env : Env) : ∀ (fuel : Nat) (binds : List (Text × Src)) (body : List Blk) (st : St),
    GenRender.letLoopGen env fuel binds body st = letLoop env fuel binds body st := by
  intro fuel
  induction fuel with
  | zero => intro binds body st; rfl
  | succ f ih =>
    intro binds body st
    cases binds with
    | nil => rfl
    | cons p rest =>
      obtain ⟨n, src⟩ := p
      simp only [GenRender.letLoopGen, letLoop]
      cases evalSrc env f src st with
      | mk r st' =>
        cases r with
        | ok v => simp only [GenRender.cacheSet]; exact ih rest body _
        | raise e => rfl
        | ret v => rfl
        | oom => rfl

theorem gen_let_block_is_model (env : Env) (fuel : Nat) (binds : List (Text × Src)) (body : List Blk) (st : St) :
    GenRender.letBlockGen env fuel binds body st = renderBlk env (fuel + 1) (.let_ binds body) st := by
  simp only [GenRender.letBlockGen, renderBlk, letLoopGen_eq]

private theorem pushedGen_eq (env : Env) (fuel : Nat) (fr : Frame) (body : List Blk) (st : St) :
    GenRender.pushedGen env fuel fr body 1 st = framed env fuel fr body st := by
  cases fuel with
  | zero => rfl
  | succ f =>
    cases f with
    | zero => simp [GenRender.pushedGen, framed, withFrame, joinRes]
    | succ g => simp [GenRender.pushedGen, framed, withFrame]

theorem gen_with_block_is_model (env : Env) (fuel : Nat) (src : Src) (mapping only : Bool) (body : List Blk) (st : St) :
    GenRender.withBlockGen env fuel src mapping only body st = renderBlk env (fuel + 1) (.with_ src mapping only body) st := by
  simp only [GenRender.withBlockGen, renderBlk, pushedGen_eq]
  cases evalSrc env fuel src st with
  | mk r st' =>
    cases r with
    | ok v => cases only <;> rfl
    | raise e => rfl
    | ret v => rfl
    | oom => rfl

/-- **The template call whose stack / level restoration is proved above is `String.__call__` of the source** (regenerated on
every run: the pushes counted in `pushed`, the recursion guard popping what it pushed, `finally: if pushed:
md._pop(pushed); md.level = level`) -/
theorem gen_template_call_is_model (env : Env) (fuel id : Nat) (t : Template) (st : St)
    (ht : env.templates[id]? = some t) :
    GenCall.callGen env fuel t [] .namespace [] st = callSub env (fuel + 1) id st :=
  Lemmas.Call.call_on_caller_namespace env fuel id t st ht

/-! ### `_push` / `_pop` of the model are `TemplateDict._push` / `_pop` of the source

`GenStack.initGen`, `pushGen`, `popGen` are regenerated on every run from `TemplateDict.__init__`, `_push`, `_pop`
(harness/trans_stack.py).  The source keeps the data sources in `_data` with the TOP LAST; the model's `St.stack` has the TOP
FIRST: `GenStack.absStack td = td.data.reverse` is the abstraction, `GenStack.tdOf st` the TemplateDict a state stands for. -/

open DTML.GenStack in
/-- `TemplateDict()` is the empty namespace at level 0 (what `dtml-with only` and a top-level call start from) -/
theorem gen_init_is_model :
    absStack initGen = ({} : St).stack ∧ initGen.level = ({} : St).level ∧ classLevelGen = ({} : St).level := by
  decide

open DTML.GenStack in
/-- `md._push(f)` is `f :: stack` -/
theorem gen_push_is_model (self : TD) (f : Frame) :
    absStack (pushGen self f) = push f (absStack self) ∧ (pushGen self f).level = self.level := by
  simp [absStack, pushGen, push]

open DTML.GenStack in
/-- `md._pop(k)` hands back the top and is `stack.drop k`, for every `k` up to the size of a non-empty namespace (every
pop of the engine follows as many pushes).  Past the size the source does something else (see `Lemmas/Stack.lean`). -/
theorem gen_pop_is_model (self : TD) (k : Nat) (hk : k ≤ self.data.length) (hne : 0 < self.data.length) :
    ∃ r td', popGen self (k : Int) = some (r, td') ∧ (absStack self).head? = some r ∧
      absStack td' = popN k (absStack self) ∧ td'.level = self.level := by
  cases hl : self.data.getLast? with
  | none => rw [List.getLast?_eq_none_iff] at hl; rw [hl] at hne; exact absurd hne (by decide)
  | some r =>
    refine ⟨r, { self with data := self.data.take (self.data.length - k) }, ?_, ?_, ?_, ?_⟩
    · simp only [popGen, Lemmas.Stack.pyGet_last, hl, Lemmas.Stack.pySliceSet_cut self.data k hk]
    · simp only [absStack, List.head?_reverse, hl]
    · simp only [absStack, popN, Lemmas.Stack.reverse_take_sub]
    · rfl

open DTML.GenStack in
/-- the hypotheses of `gen_pop_is_model` are satisfiable, and needed: `_pop()` of an empty namespace is an IndexError -/
example : (2 : Nat) ≤ (TD.mk [.bad, .dict []] 0).data.length ∧ 0 < (TD.mk [.bad, .dict []] 0).data.length := by decide
open DTML.GenStack in
example : popGen initGen popDefaultGen = none := by decide

open DTML.GenStack in
/-- pushes followed by one pop of as many: the TemplateDict is as before -/
theorem gen_push_pop_restores (self : TD) (fs : List Frame) (hne : fs ≠ []) :
    (popGen (fs.foldl pushGen self) (fs.length : Int)).map (·.2) = some self := by
  have hd : ∀ (fs : List Frame) (td : TD), (fs.foldl pushGen td).data = td.data ++ fs ∧ (fs.foldl pushGen td).level = td.level := by
    intro fs
    induction fs with
    | nil => intro td; simp
    | cons f t ih => intro td; simp [List.foldl_cons, ih, pushGen]
  have hlen : 0 < fs.length := List.length_pos_iff.mpr hne
  obtain ⟨r, td', h1, _, h3, h4⟩ := gen_pop_is_model (fs.foldl pushGen self) fs.length
    (by rw [(hd fs self).1]; simp) (by rw [(hd fs self).1]; simp; omega)
  rw [h1]
  simp only [Option.map_some, Option.some.injEq]
  have h5 : td'.data.reverse = self.data.reverse := by
    have := h3
    simp only [absStack, popN, (hd fs self).1, List.reverse_append] at this
    rw [this, ← List.length_reverse, List.drop_left]
  have h6 : td'.data = self.data := by simpa using congrArg List.reverse h5
  cases td' with
  | mk d l =>
    cases self with
    | mk d0 l0 =>
      simp only [(hd fs (TD.mk d0 l0)).2] at h4
      simp_all

open DTML.GenStack in
/-- `pres_push_pop` stated with the operations of the source: a data source pushed by `_push`, something that preserves
the namespace, `_pop()` (with the default of the source) - the namespace is as it was -/
theorem gen_pres_push_pop (st st' : St) (f : Frame)
    (h : Pres { st with stack := absStack (pushGen (tdOf st) f) } st') :
    ∃ r td', popGen (tdOf st') popDefaultGen = some (r, td') ∧ Pres st { st' with stack := absStack td' } := by
  have hs : absStack (pushGen (tdOf st) f) = f :: st.stack := by simp [absStack, pushGen, tdOf]
  rw [hs] at h
  have hlen : 0 < (tdOf st').data.length := by
    have := congrArg List.length h.1
    simp only [List.length_map, List.length_cons] at this
    simp only [tdOf, List.length_reverse]; omega
  obtain ⟨r, td', h1, _, h3, _⟩ := gen_pop_is_model (tdOf st') 1 hlen hlen
  refine ⟨r, td', h1, ?_⟩
  have h4 : absStack td' = st'.stack.drop 1 := by rw [h3]; simp [popN, absStack, tdOf]
  rw [h4]
  exact pres_push_pop st st' f h

open DTML.GenStack in
/-- ... and for several data sources popped at once (`md._pop(pushed)`) -/
theorem gen_pres_push_popn (st st' : St) (fs : List Frame) (hne : fs ≠ [])
    (h : Pres { st with stack := absStack (fs.reverse.foldl pushGen (tdOf st)) } st') :
    ∃ r td', popGen (tdOf st') (fs.length : Int) = some (r, td') ∧ Pres st { st' with stack := absStack td' } := by
  have hd : ∀ (gs : List Frame) (td : TD), absStack (gs.foldl pushGen td) = gs.reverse ++ absStack td := by
    intro gs
    induction gs with
    | nil => intro td; simp
    | cons g t ih => intro td; rw [List.foldl_cons, ih]; simp [pushGen, absStack]
  have hs : absStack (fs.reverse.foldl pushGen (tdOf st)) = fs ++ st.stack := by
    rw [hd]; simp [absStack, tdOf]
  rw [hs] at h
  have hl0 : 0 < fs.length := List.length_pos_iff.mpr hne
  have hlen : fs.length ≤ (tdOf st').data.length := by
    have := congrArg List.length h.1
    simp only [List.length_map, List.length_append] at this
    simp only [tdOf, List.length_reverse]; omega
  obtain ⟨r, td', h1, _, h3, _⟩ := gen_pop_is_model (tdOf st') fs.length hlen (by omega)
  refine ⟨r, td', h1, ?_⟩
  have h4 : absStack td' = st'.stack.drop fs.length := by rw [h3]; simp [popN, absStack, tdOf]
  rw [h4]
  exact pres_push_popn st st' fs h

end DTML.Props.C08
