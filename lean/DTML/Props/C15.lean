/-
C15 — dtml-var options apply a fixed, documented value pipeline.
Model: DTML/VarPipe.lean.
-/
import DTML.VarPipe
import DTML.GenVar
import DTML.Lemmas.VarInit
import DTML.Lemmas.Fetch
set_option linter.unusedVariables false
namespace DTML.Props.C15
open DTML.Quote DTML.VarPipe

/-! #### obligations on the tables regenerated from the source -/

/-- the modifier table: these names, in this order (a reordered, shortened or
extended tuple in DT_Var breaks this obligation). -/
theorem gen_modifiers :
    Gen.modifiers = ["html_quote", "url_quote", "url_quote_plus", "url_unquote", "url_unquote_plus",
      "newline_to_br", "lower", "upper", "capitalize", "spacify", "thousands_commas", "sql_quote",
      "url_unquote", "url_unquote_plus"] := by decide

theorem gen_sql_tables : Gen.sqlRemoved = ["\x00", "\x1a", "\r"] ∧ Gen.sqlDoubled = ["'"] := by decide

theorem gen_special_formats :
    Gen.specialFormats = ["collection-length", "comma-numeric", "dollars-and-cents",
      "dollars-and-cents-with-commas", "dollars-with-commas", "html-quote", "multi-line",
      "restructured-text", "sql-quote", "structured-text", "url-quote", "url-quote-plus",
      "url-unquote", "url-unquote-plus", "whole-dollars"] := by decide

/-! #### modifiers: one fixed order, independent of how the tag is written -/

/-- The modifiers applied are a function of the *set* of option names written:
two tags that mention the same names (any order, any repetition) apply the same
modifiers in the same order. -/
theorem modifier_order_independent (sp₁ sp₂ : Spec)
    (h : ∀ m, m ∈ sp₁.written ↔ m ∈ sp₂.written) : applied sp₁ = applied sp₂ := by
  unfold applied
  apply List.filter_congr
  intro m _
  have := h m
  cases h1 : sp₁.written.contains m <;> cases h2 : sp₂.written.contains m <;> simp_all

/-- …and that order is the order of the source table. -/
theorem applied_sublist (sp : Spec) : (applied sp).Sublist Gen.modifiers :=
  List.filter_sublist

/-- a written modifier is applied, an unwritten one is not -/
theorem applied_iff (sp : Spec) (m : String) : m ∈ applied sp ↔ m ∈ Gen.modifiers ∧ m ∈ sp.written := by
  simp [applied]

private theorem spacify_eq_map (t : Text) : spacify t = t.map (fun c => if c = '_' then ' ' else c) := by
  induction t with
  | nil => rfl
  | cons c t ih =>
    simp only [spacify, replaceChar, List.flatMap_cons, List.map_cons] at ih ⊢
    rw [ih]; split <;> simp

/-- the case modifiers and spacify are exactly the string functions
(`spacify` = replace every '_' by a blank) -/
theorem case_mods_are_methods (x : Ext) (s : Text) :
    applyMod x "lower" s false = (x.lower s, false) ∧
    applyMod x "upper" s false = (x.upper s, false) ∧
    applyMod x "capitalize" s false = (x.capitalize s, false) ∧
    (applyMod x "spacify" s false).1 = s.map (fun c => if c = '_' then ' ' else c) := by
  refine ⟨by simp [applyMod], by simp [applyMod], by simp [applyMod], ?_⟩
  simp only [applyMod]
  simp (config := {decide := true}) only [if_false]
  by_cases h : s.contains '_' = true
  · simp only [h, if_true, spacify_eq_map]
  · simp only [h]
    have hn : '_' ∉ s := by simpa using h
    symm
    calc s.map (fun c => if c = '_' then ' ' else c) = s.map id := by
          apply List.map_congr_left
          intro c hc
          have : c ≠ '_' := fun e => hn (e ▸ hc)
          simp [this]
      _ = s := List.map_id s


private theorem rfindAux_spec : ∀ (s : Text) (i : Nat) (last : Int), last < i →
    let r := rfindSpaceAux s i last
    (r = last ∧ ' ' ∉ s) ∨
    (∃ k, k < s.length ∧ r = (i + k : Nat) ∧ s[k]? = some ' ' ∧ ∀ j, k < j → j < s.length → s[j]? ≠ some ' ') := by
  intro s
  induction s with
  | nil => intro i last _; left; simp [rfindSpaceAux]
  | cons c t ih =>
    intro i last hl
    simp only [rfindSpaceAux]
    by_cases hc : c = ' '
    · subst hc
      simp only [if_true]
      rcases ih (i + 1) (i : Int) (by omega) with ⟨h1, h2⟩ | ⟨k, hk, h1, h2, h3⟩
      · right
        refine ⟨0, by simp, by simpa using h1, by simp, ?_⟩
        intro j hj1 hj2
        cases j with
        | zero => omega
        | succ j =>
          simp only [List.getElem?_cons_succ]
          intro hh
          exact h2 (List.mem_of_getElem? hh)
      · right
        refine ⟨k + 1, by simp; omega, by rw [h1]; congr 1; omega, by simpa using h2, ?_⟩
        intro j hj1 hj2
        cases j with
        | zero => omega
        | succ j =>
          simp only [List.getElem?_cons_succ]
          exact h3 j (by omega) (by simp at hj2; omega)
    · simp only [hc, if_false]
      rcases ih (i + 1) last (by omega) with ⟨h1, h2⟩ | ⟨k, hk, h1, h2, h3⟩
      · left
        refine ⟨h1, ?_⟩
        intro hm
        rcases List.mem_cons.mp hm with hm | hm
        · exact hc hm.symm
        · exact h2 hm
      · right
        refine ⟨k + 1, by simp; omega, by rw [h1]; congr 1; omega, by simpa using h2, ?_⟩
        intro j hj1 hj2
        cases j with
        | zero => omega
        | succ j =>
          simp only [List.getElem?_cons_succ]
          exact h3 j (by omega) (by simp at hj2; omega)

/-- `rfind(' ')`: -1 when there is no blank, otherwise the index of the last one -/
theorem rfindSpace_spec (s : Text) :
    (rfindSpace s = -1 ∧ ' ' ∉ s) ∨
    (∃ k, k < s.length ∧ rfindSpace s = (k : Nat) ∧ s[k]? = some ' ' ∧
       ∀ j, k < j → j < s.length → s[j]? ≠ some ' ') := by
  have := rfindAux_spec s 0 (-1) (by omega)
  simp only [Nat.zero_add] at this
  exact this

/-- **Truncation.**  For `size ≥ 0`: a value no longer than `size` is left
untouched; a longer one becomes `p ++ etc` where `p` is a prefix of the value of
at most `size` characters — the first `size` characters, cut back to (and
including) their last blank exactly when that blank's index `l` satisfies
`l > size / 2`. -/
theorem truncate_spec (n : Int) (hn : 0 ≤ n) (etc s : Text) :
    ((s.length : Int) ≤ n → (truncate n etc s false).1 = s) ∧
    ((s.length : Int) > n →
       let v := s.take n.toNat
       let l := rfindSpace v
       (truncate n etc s false).1 = (if 2 * l > n then s.take (l + 1).toNat else v) ++ etc ∧
       ((if 2 * l > n then s.take (l + 1).toNat else v).length : Int) ≤ n ∧
       (if 2 * l > n then s.take (l + 1).toNat else v) <+: s) := by
  constructor
  · intro h
    simp only [truncate]
    rw [if_neg (by omega)]
  · intro h
    simp only [truncate]
    rw [if_pos h]
    have hv : sliceTo s n = s.take n.toNat := by simp [sliceTo, hn]
    simp only [hv, Bool.false_and]
    have hl : rfindSpace (s.take n.toNat) < n := by
      rcases rfindSpace_spec (s.take n.toNat) with ⟨h1, _⟩ | ⟨k, hk, h1, _⟩
      · omega
      · rw [h1]; simp at hk; omega
    have hl0 : -1 ≤ rfindSpace (s.take n.toNat) := by
      rcases rfindSpace_spec (s.take n.toNat) with ⟨h1, _⟩ | ⟨k, hk, h1, _⟩
      · omega
      · rw [h1]; omega
    by_cases hc : 2 * rfindSpace (s.take n.toNat) > n
    · simp only [hc, if_true]
      have hs2 : sliceTo (s.take n.toNat) (rfindSpace (s.take n.toNat) + 1) =
          s.take (rfindSpace (s.take n.toNat) + 1).toNat := by
        have hge : rfindSpace (s.take n.toNat) + 1 ≥ 0 := by omega
        simp only [sliceTo, hge, if_true, List.take_take]
        congr 1; omega
      refine ⟨by rw [hs2], ?_, List.take_prefix _ _⟩
      simp only [List.length_take]; omega
    · simp only [hc, if_false]
      refine ⟨trivial, ?_, List.take_prefix _ _⟩
      simp only [List.length_take]; omega


/-! #### sql_quote -/

/-- reading the text as the inside of a SQL string literal: a quote must be
followed by a second one (an escaped quote); a lone quote would end the literal -/
def sqlSafe : Text → Bool
  | '\'' :: '\'' :: t => sqlSafe t
  | '\'' :: _ => false
  | _ :: t => sqlSafe t
  | [] => true

private theorem sqlSafe_cons_ne (c : Char) (t : Text) (h : c ≠ '\'') : sqlSafe (c :: t) = sqlSafe t := by
  conv => lhs; unfold sqlSafe
  split <;> simp_all

/-- **sql_quote.**  The result contains no NUL, Ctrl-Z or CR, and cannot
terminate a SQL string literal: every single quote in it is doubled. -/
theorem sql_quote_spec (s : Text) :
    (∀ c ∈ sqlQuote s, c ≠ '\x00' ∧ c ≠ '\x1a' ∧ c ≠ '\r') ∧ sqlSafe (sqlQuote s) = true := by
  constructor
  · intro c hc
    simp only [sqlQuote, replaceChar, List.mem_flatMap] at hc
    obtain ⟨d, hd, hcd⟩ := hc
    simp only [removeChar, List.mem_filter, bne_iff_ne, ne_eq] at hd
    obtain ⟨⟨⟨_, h1⟩, h2⟩, h3⟩ := hd
    split at hcd
    · simp at hcd; subst hcd; decide
    · simp at hcd; subst hcd; exact ⟨h1, h2, h3⟩
  · simp only [sqlQuote]
    generalize removeChar (removeChar (removeChar s '\x00') '\x1a') '\r' = u
    induction u with
    | nil => rfl
    | cons c t ih =>
      simp only [replaceChar, List.flatMap_cons] at ih ⊢
      by_cases hc : c = '\''
      · subst hc; simp only [if_true, List.cons_append, List.nil_append, sqlSafe]; exact ih
      · simp only [hc, if_false, List.singleton_append]
        rw [sqlSafe_cons_ne _ _ hc]; exact ih

/-! #### thousands_commas -/

private theorem thouLoop_strip : ∀ (fuel : Nat) (s : Text),
    (thouLoop fuel s).filter (· != ',') = s.filter (· != ',') := by
  intro fuel
  induction fuel with
  | zero => intro s; rfl
  | succ k ih =>
    intro s
    simp only [thouLoop]
    split
    · rfl
    · rename_i l _
      rw [ih]
      simp only [List.filter_append]
      have : ([','] : Text).filter (· != ',') = [] := by decide
      rw [this, List.append_nil, ← List.filter_append, List.take_append_drop]

/-- thousands_commas only ever inserts commas: deleting the commas from its
result gives the input with its commas deleted (so a numeral comes back
unchanged), and the part after the first '.' is not touched at all. -/
theorem thousands_commas_only_inserts_commas (s : Text) :
    (thousandsCommas s).filter (· != ',') = s.filter (· != ',') ∧
    thousandsCommas s = thouLoop (splitOnDot s).1.length (splitOnDot s).1 ++ (splitOnDot s).2 ∧
    (splitOnDot s).1 ++ (splitOnDot s).2 = s := by
  refine ⟨?_, rfl, by simp [splitOnDot, List.takeWhile_append_dropWhile]⟩
  simp only [thousandsCommas, splitOnDot, List.filter_append, thouLoop_strip]
  rw [← List.filter_append, List.takeWhile_append_dropWhile]

/-- grouping in threes, on concrete numerals (tests, labelled as such) -/
example : thousandsCommas "1234567".toList = "1,234,567".toList := by decide
example : thousandsCommas "-1234567.891".toList = "-1,234,567.891".toList := by decide
example : thousandsCommas "123".toList = "123".toList := by decide
example : thousandsCommas "$1000".toList = "$1,000".toList := by decide

/-! #### the stages and their order -/

/-- `missing=` replaces an undefined name (and nothing else happens to it);
without it an undefined name is a KeyError. -/
theorem missing_replaces_undefined (x : Ext) (sp : Spec) :
    render x sp none = (match sp.missing with | some m => some (.ok m) | none => some (.error .keyError)) := by
  rfl

/-- null values: None, false-but-not-zero -/
theorem null_values : isNull .none = true ∧ isNull (.str [] false) = true ∧ isNull (.obj s false ms) = true ∧
    (∀ i, isNull (.int i) = false) ∧ (∀ c t tt, isNull (.str (c :: t) tt) = false) := by
  refine ⟨rfl, rfl, rfl, fun _ => rfl, fun _ _ _ => rfl⟩

/-- `null=` replaces a null value, before any formatting -/
theorem null_replaces_null (x : Ext) (sp : Spec) (v : Val) (n : Text)
    (hn : sp.null = some n) (hv : isNull v = true) :
    renderFull x sp v = some (.ok n) := by
  simp [renderFull, hn, hv]

/-- **Stage order.**  For a non-null value the full pipeline is, in this order:
`fmt=`, C-style format, the modifiers of `applied sp` folded left to right,
size/etc truncation, final quoting of a still-tainted value. -/
theorem pipeline_stages (x : Ext) (sp : Spec) (v v1 : Val) (s : Text) (t : Bool)
    (hn : (sp.null.isSome && isNull v) = false)
    (hf : fmtOpt x sp v = some (.ok v1))
    (hc : cfmtStage sp.cfmt v1 = some (.ok (s, t))) :
    renderFull x sp v =
      some (finishStage sp ((applied sp).foldl (fun p m => applyMod x m p.1 p.2) (s, t)).1
                           ((applied sp).foldl (fun p m => applyMod x m p.1 p.2) (s, t)).2) := by
  unfold renderFull
  rw [hn]
  simp only [Bool.false_eq_true, if_false]
  rw [hf]
  simp only [afterFmt]
  rw [hc]
  simp only [afterCfmt, applyMods]

/-! #### what the source says now (regenerated from `Var.render` on every run: harness/trans_var.py) -/

/-- **The stages of `Var.render`, in the order of the source**: fetch the value (`missing` handled there), the `null`
test, `fmt=`, the C-style format, the loop over the modifiers, `size` / `etc`, the final quoting of a still-tainted
value — the order `renderFull` implements and `pipeline_stages` states; and the null test is "false but not 0". -/
theorem gen_var_render_stages :
    GenVar.varRenderStages = ["fetch", "null", "fmt", "cformat", "modifiers", "size", "taint-quote", "return"] ∧
    GenVar.varNullTest = "'null' in args and (not val) and (val != 0)" := by decide

/-- **The truncation of the model is the truncation of the source**: the block `if len(val) > size: …` translated
statement by statement (`val[:size]`, `rfind(' ')`, `l_ > size / 2`, `val[:l_ + 1]`, `etc` or `'...'`) computes
`VarPipe.truncate`, about which `truncate_spec` is stated. -/
theorem gen_truncate_is_model (size : Int) (etc : Option Text) (s : Text) :
    GenVar.truncGen size etc.isSome (etc.getD []) s = (truncate size (etc.getD "...".toList) s false).1 := by
  unfold GenVar.truncGen truncate
  by_cases h : (s.length : Int) > size
  · simp only [h, if_true]
    cases etc with
    | none => by_cases h2 : 2 * rfindSpace (sliceTo s size) > size <;> simp [h2]
    | some e => by_cases h2 : 2 * rfindSpace (sliceTo s size) > size <;> simp [h2]
  · simp [h]

/-! #### which form the tag compiles to (regenerated from `Var.__init__` on every run: harness/trans_varinit.py) -/

/-- **The form the model chooses is the form the source chooses**: the if-chain at the end of `Var.__init__`
(`len(args) == 1 and fmt == 's'` -> `('v', x)`; `len(args) == 2 and fmt == 's' and 'html_quote' in args` ->
`('v', x, 'h')`; otherwise `Var.render`), translated test by test, evaluated on the attribute dictionary of the tag a
spec describes (`Lemmas.VarInit.paramsOf`: the unnamed value, one key per distinct option name written, one per
attribute with a value) is `simpleKind` - the function `render` branches on between `renderSimple` and `renderFull`. -/
theorem gen_var_form_is_model (sp : Spec) :
    GenVarInit.formGen (Lemmas.VarInit.paramsOf sp) sp.cfmt = simpleKind sp := by
  have hh := Lemmas.VarInit.has_paramsOf sp "html_quote" (by decide)
  unfold GenVarInit.formGen simpleKind
  rw [Lemmas.VarInit.paramsOf_length, hh]
  have hs : "s".toList = ['s'] := rfl
  simp only [Bool.and_eq_true, decide_eq_true_eq, hs]
  generalize (1 + sp.written.eraseDups.length + (if sp.missing.isSome then 1 else 0) +
      (if sp.null.isSome then 1 else 0) + (if sp.fmt.isSome then 1 else 0) +
      (if sp.size.isSome then 1 else 0) + (if sp.etc.isSome then 1 else 0)) = n
  by_cases h1 : sp.cfmt = ['s'] <;> by_cases h2 : n = 1 <;> by_cases h3 : n = 2 <;> simp [h1, h2, h3]

/-- **The modifiers the model applies are `self.modifiers` of the source**: the table `modifiers` filtered by the test of
the source (`used(m[0]) and args[m[0]]`: the name is a key of the dictionary and its value is true) is `applied`. -/
theorem gen_var_modifiers_is_model (sp : Spec) :
    GenVarInit.modifiersGen (Lemmas.VarInit.paramsOf sp) = applied sp := by
  unfold GenVarInit.modifiersGen applied
  apply List.filter_congr
  intro m hm
  have hv := Lemmas.VarInit.modifiers_not_valued m hm
  rw [Lemmas.VarInit.has_paramsOf sp m hv]
  cases hw : sp.written.contains m with
  | false => rfl
  | true =>
    have h0 : m ≠ "" := by
      intro h; apply hv; rw [h]; decide
    simp [GenVarInit.argTruthy, Lemmas.VarInit.lookup_paramsOf sp m h0 hw, GenVarInit.pvalTruthy]

/-! #### url_unquote as the inverse of url_quote -/

/-- `Gen.modifiers` lists url_unquote and url_unquote_plus twice, so a tag that
asks for url_unquote applies it twice. -/
theorem tag_unquote_applies_twice :
    applied { written := ["url_unquote"] } = ["url_unquote", "url_unquote"] ∧
    applied { written := ["url_unquote_plus"] } = ["url_unquote_plus", "url_unquote_plus"] := by decide

/-- **Partial.**  If the codec satisfies the round-trip law, the modifiers of
`<dtml-var y url_unquote>` applied to the output of url_quote return the
original text — for values that unquoting leaves alone (no `%XX` in them).  The
side condition is needed because of the doubled table entry (finding
C15-double-unquote, witness below). -/
theorem unquote_inverts_quote_partial (x : Ext) (s : Text)
    (hrt : ∀ u, x.urlUnquote (x.urlQuote u) = u) (hfix : x.urlUnquote s = s) :
    applyMods x (applied { written := ["url_unquote"] }) (x.urlQuote s) false = (s, false) := by
  rw [tag_unquote_applies_twice.1]
  simp [applyMods, applyMod, hrt, hfix]

/-- The side condition is needed: with a codec that behaves like urllib on
these strings, the value `%41` is quoted to `%2541`, and the tag's two
unquoting passes turn that into `A`, not `%41`. -/
theorem finding_C15_double_unquote :
    let x : Ext := { upper := id, lower := id, capitalize := id,
                     urlQuote := fun s => if s = "%41".toList then "%2541".toList else s,
                     urlQuotePlus := id,
                     urlUnquote := fun s => if s = "%2541".toList then "%41".toList
                                            else if s = "%41".toList then "A".toList else s,
                     urlUnquotePlus := id }
    x.urlUnquote (x.urlQuote "%41".toList) = "%41".toList ∧
    applyMods x (applied { written := ["url_unquote"] }) (x.urlQuote "%41".toList) false = ("A".toList, false) := by
  decide

/-! #### the fetch part of `Var.render` (regenerated from the source on every run: harness/trans_fetch.py) -/

/-- **`missing` and `null` of the model are `missing` and `null` of the source**: `Var.render` from its top to the `fmt=`
stage, translated statement by statement (`if val is None: if name in md: val = md[name] else: 'missing' in args ->
return args['missing'] / raise KeyError(name)`, then `'null' in args and not val and val != 0 -> return args['null']`),
run on a name that is undefined (`none`) or has a value, is `render` for a tag that compiles to `Var.render`
(`simpleKind sp = 0`) - the function `missing_replaces_undefined`, `null_replaces_null` and `pipeline_stages` are about.
(`url` is no attribute of the model's tag: `url := none`.) -/
theorem gen_var_fetch_is_model (x : Ext) (sp : Spec) (v : Option Val) (absUrl : Val → R Val) (h : simpleKind sp = 0) :
    GenFetch.fetchPipeGen (.name v) ⟨sp.missing, sp.null, none⟩ absUrl (Lemmas.Fetch.afterNullPipe x sp) =
      render x sp v := by
  unfold GenFetch.fetchPipeGen render
  cases v with
  | none => cases hm : sp.missing <;> rfl
  | some v =>
    simp only [h, ne_eq, not_true_eq_false, if_false]
    exact Lemmas.Fetch.fetchNullPipe_is_renderFull x sp _ rfl v

/-- an expression: its exception leaves the method, its value goes through the null test (no `missing`) -/
theorem gen_var_fetch_expr_is_model (x : Ext) (sp : Spec) (r : R Val) (absUrl : Val → R Val) :
    GenFetch.fetchPipeGen (.expr r) ⟨sp.missing, sp.null, none⟩ absUrl (Lemmas.Fetch.afterNullPipe x sp) =
      (match r with | .ok v => renderFull x sp v | .error e => some (.error e)) := by
  unfold GenFetch.fetchPipeGen
  cases r with
  | error e => rfl
  | ok v => exact Lemmas.Fetch.fetchNullPipe_is_renderFull x sp _ rfl v

/-- the hypothesis is not vacuous, and it holds whenever `missing` or `null` is written -/
example : simpleKind { written := [], missing := some [] } = 0 := by decide

theorem full_form_of_missing_or_null (sp : Spec) (h : (sp.missing.isSome || sp.null.isSome) = true) :
    simpleKind sp = 0 := by
  have h1 : sp.written.contains "html_quote" = true → 1 ≤ sp.written.eraseDups.length := by
    intro hw
    cases hl : sp.written.eraseDups with
    | nil =>
      have : "html_quote" ∈ sp.written.eraseDups := by
        rw [List.mem_eraseDups]; simpa using hw
      rw [hl] at this; cases this
    | cons a t => simp
  have hge : 1 ≤ (if sp.missing.isSome = true then 1 else 0) + (if sp.null.isSome = true then 1 else 0) := by
    cases hm : sp.missing.isSome <;> cases hn : sp.null.isSome <;> simp_all
  unfold simpleKind
  generalize (if sp.missing.isSome = true then 1 else 0) = a at hge ⊢
  generalize (if sp.null.isSome = true then 1 else 0) = b at hge ⊢
  generalize (if sp.fmt.isSome = true then 1 else 0) = c
  generalize (if sp.size.isSome = true then 1 else 0) = d
  generalize (if sp.etc.isSome = true then 1 else 0) = e
  simp only []
  rw [if_neg (by rintro ⟨_, h2⟩; omega), if_neg (by rintro ⟨_, h2, hw⟩; have := h1 hw; omega)]

end DTML.Props.C15
