/-
C18 — Concurrent renders of one shared template give sequential results.
Model: DTML/Conc.lean (threads as sequences of atomic steps over the shared volatile state of
one template object; a schedule is any list of thread ids).
-/
import DTML.Conc
import DTML.GenTmpl
set_option linter.unusedVariables false
namespace DTML.Props.C18
open DTML.Conc

variable {Src Prog Cell Val Inp Out : Type} [DecidableEq Cell]

/-- what must hold of a thread at its program counter -/
def PcOk (E : Engine Src Prog Cell Val Inp Out) (raw : Src) (sh : Shared Prog Cell Val) (inp : Inp) :
    PC Prog Cell Val Out → Prop
  | .test => True
  | .acquire => True
  | .writeBlocks => True
  | .writeFlag => sh.blocks = some (E.parse raw)
  | .release => sh.blocks = some (E.parse raw)
  | .readBlocks => sh.blocks = some (E.parse raw)
  | .cells p todo acc => p = E.parse raw ∧ acc ++ todo.map E.cellVal = (E.cellsOf p).map E.cellVal
  | .done r => r = solo E raw inp

/-- the invariant of the whole system -/
structure Inv (E : Engine Src Prog Cell Val Inp Out) (raw : Src) (inputs : List Inp) (s : Sys Prog Cell Val Out) : Prop where
  blocks : s.shared.blocks = none ∨ s.shared.blocks = some (E.parse raw)
  /-- publication order: whoever sees the flag also sees the complete program -/
  flag : s.shared.flag = true → s.shared.blocks = some (E.parse raw)
  /-- every cache cell holds the one value every writer writes -/
  cells : ∀ c v, s.shared.cells.lookup c = some v → v = E.cellVal c
  threads : ∀ (tid : Nat) (pc : PC Prog Cell Val Out) (inp : Inp),
    s.pcs[tid]? = some pc → inputs[tid]? = some inp → PcOk E raw s.shared inp pc

theorem inv_init (E : Engine Src Prog Cell Val Inp Out) (raw : Src) (inputs : List Inp) (n : Nat) :
    Inv E raw inputs (init n : Sys Prog Cell Val Out) where
  blocks := Or.inl rfl
  flag := by intro h; cases h
  cells := by intro c v h; simp [init] at h
  threads := by
    intro tid pc inp h _
    simp only [init, List.getElem?_replicate] at h
    split at h
    · cases h; trivial
    · cases h

/-- a thread's obligation only needs "the program, once published, stays published" -/
theorem pcOk_mono (E : Engine Src Prog Cell Val Inp Out) (raw : Src) (sh sh' : Shared Prog Cell Val) (inp : Inp)
    (pc : PC Prog Cell Val Out) (hb : sh.blocks = some (E.parse raw) → sh'.blocks = some (E.parse raw))
    (h : PcOk E raw sh inp pc) : PcOk E raw sh' inp pc := by
  cases pc <;> simp only [PcOk] at h ⊢ <;> first | exact hb h | exact h

/-- **one step of any thread preserves the invariant** -/
theorem inv_step (E : Engine Src Prog Cell Val Inp Out) (raw : Src) (inputs : List Inp) (s : Sys Prog Cell Val Out)
    (tid : Nat) (h : Inv E raw inputs s) : Inv E raw inputs (stepSys E raw inputs s tid) := by
  unfold stepSys
  cases hpc : s.pcs[tid]? with
  | none => simpa [hpc] using h
  | some pc =>
    cases hin : inputs[tid]? with
    | none => simpa [hpc, hin] using h
    | some inp =>
      simp only [hpc, hin]
      have hme := h.threads tid pc inp hpc hin
      have hlt : tid < s.pcs.length := by
        have := List.getElem?_eq_some_iff.mp hpc; exact this.1
      -- generic re-assembly: given the new shared state and pc
      have build : ∀ (sh' : Shared Prog Cell Val) (pc' : PC Prog Cell Val Out),
          (sh'.blocks = none ∨ sh'.blocks = some (E.parse raw)) →
          (sh'.flag = true → sh'.blocks = some (E.parse raw)) →
          (∀ c v, sh'.cells.lookup c = some v → v = E.cellVal c) →
          (s.shared.blocks = some (E.parse raw) → sh'.blocks = some (E.parse raw)) →
          PcOk E raw sh' inp pc' →
          Inv E raw inputs { shared := sh', pcs := s.pcs.set tid pc' } := by
        intro sh' pc' hb hf hc hmono hok
        refine ⟨hb, hf, hc, ?_⟩
        intro t q i hq hi
        by_cases ht : t = tid
        · subst ht
          simp only [List.getElem?_set_self hlt, Option.some.injEq] at hq
          subst hq
          rw [hin] at hi; cases hi
          exact hok
        · have hq' : s.pcs[t]? = some q := by
            rw [List.getElem?_set_ne (Ne.symm ht)] at hq; exact hq
          exact pcOk_mono E raw s.shared sh' i q hmono (h.threads t q i hq' hi)
      cases pc with
      | test =>
        simp only [stepThread]
        split
        · rename_i hfl
          exact build _ _ h.blocks h.flag h.cells id (h.flag hfl)
        · exact build _ _ h.blocks h.flag h.cells id trivial
      | acquire =>
        simp only [stepThread]
        split
        · exact build _ _ h.blocks h.flag h.cells id trivial
        · exact build _ _ h.blocks h.flag h.cells id trivial
      | writeBlocks =>
        simp only [stepThread]
        exact build _ _ (Or.inr rfl) (fun _ => rfl) h.cells (fun _ => rfl) rfl
      | writeFlag =>
        simp only [stepThread]
        exact build _ _ h.blocks (fun _ => hme) h.cells id hme
      | release =>
        simp only [stepThread]
        exact build _ _ h.blocks h.flag h.cells id hme
      | readBlocks =>
        simp only [stepThread]
        simp only [PcOk] at hme
        rw [hme]
        exact build _ _ h.blocks h.flag h.cells id ⟨rfl, by simp⟩
      | cells p todo acc =>
        obtain ⟨hp, hacc⟩ := hme
        cases todo with
        | nil =>
          simp only [stepThread]
          refine build _ _ h.blocks h.flag h.cells id ?_
          simp only [PcOk, solo]
          simp only [List.map_nil, List.append_nil] at hacc
          rw [hacc, hp]
        | cons c cs =>
          simp only [stepThread]
          cases hl : s.shared.cells.lookup c with
          | some v =>
            simp only
            have hv := h.cells c v hl
            refine build _ _ h.blocks h.flag h.cells id ⟨hp, ?_⟩
            rw [← hacc, hv]; simp
          | none =>
            simp only
            refine build _ _ h.blocks h.flag ?_ id ⟨hp, ?_⟩
            · intro c' v' hl'
              simp only [List.lookup_cons] at hl'
              split at hl'
              · rename_i heq
                simp only [Option.some.injEq] at hl'
                have : c' = c := by simpa using heq
                rw [← hl', this]
              · exact h.cells c' v' hl'
            · rw [← hacc]; simp
      | done r =>
        simp only [stepThread]
        exact build _ _ h.blocks h.flag h.cells id hme

theorem inv_run (E : Engine Src Prog Cell Val Inp Out) (raw : Src) (inputs : List Inp) (sched : List Nat) :
    ∀ (s : Sys Prog Cell Val Out), Inv E raw inputs s → Inv E raw inputs (runSched E raw inputs s sched) := by
  induction sched with
  | nil => intro s h; exact h
  | cons t rest ih => intro s h; exact ih _ (inv_step E raw inputs s t h)

/-- **Every interleaving is sequential**: under ANY schedule — any number of threads, any
pre-emption points, including threads racing to compile the template — a thread that has
finished holds exactly the result it obtains running alone. -/
theorem interleaving_sequential (E : Engine Src Prog Cell Val Inp Out) (raw : Src) (inputs : List Inp)
    (sched : List Nat) (tid : Nat) (r : Out) (inp : Inp)
    (hdone : (runSched E raw inputs (init inputs.length) sched).pcs[tid]? = some (.done r))
    (hin : inputs[tid]? = some inp) :
    r = solo E raw inp := by
  have h := inv_run E raw inputs sched _ (inv_init E raw inputs inputs.length)
  exact h.threads tid _ inp hdone hin

/-- **No thread ever observes a partially compiled template**: a thread about to read the
compiled program finds the complete one, so it never crashes for lack of it -/
theorem never_partially_compiled (E : Engine Src Prog Cell Val Inp Out) (raw : Src) (inputs : List Inp)
    (sched : List Nat) (tid : Nat) (inp : Inp)
    (hpc : (runSched E raw inputs (init inputs.length) sched).pcs[tid]? = some .readBlocks)
    (hin : inputs[tid]? = some inp) :
    (runSched E raw inputs (init inputs.length) sched).shared.blocks = some (E.parse raw) := by
  have h := inv_run E raw inputs sched _ (inv_init E raw inputs inputs.length)
  exact h.threads tid _ inp hpc hin

/-- the compiled program, once published, is the compilation of the source, whoever compiled it -/
theorem published_program (E : Engine Src Prog Cell Val Inp Out) (raw : Src) (inputs : List Inp) (sched : List Nat)
    (p : Prog) (hp : (runSched E raw inputs (init inputs.length) sched).shared.blocks = some p) :
    p = E.parse raw := by
  have h := inv_run E raw inputs sched _ (inv_init E raw inputs inputs.length)
  rcases h.blocks with hb | hb
  · rw [hb] at hp; cases hp
  · rw [hb] at hp; cases hp; rfl

/-! #### what the proof needs: a per-render value on the shared program breaks it

The historical `self.sort = sort_expr.eval(md)` (fixed in /repo: C18-sort-expr-shared-write) is a
cell whose written value depends on the thread.  With such a cell the statement is false: -/

/-! #### the order of a call's actions on the shared state, translated from DT_String.py on every run

`GenTmpl.callProgramGen` is read off `String.__call__` with `cook` inlined (harness/trans_tmpl.py): the test of
`_v_cooked`, entering `with COOKLOCK`, each volatile attribute written in the order of the source, leaving the lock, the
read of `_v_blocks` by the rendering.  The thread program of the interleaving model (`stepThread`) follows exactly this
list: every enabled step leads to the action that comes next in it - in particular the program is stored *before* the
flag that publishes it, both inside the lock (what `never_partially_compiled` and `published_program` rest on). -/

section Gen
open DTML.GenTmpl

/-- the source action a program counter of the model stands for -/
def actOf : PC Prog Cell Val Out → Option Act
  | .test => some .test
  | .acquire => some .acquire
  | .writeBlocks => some .writeBlocks
  | .writeFlag => some .writeFlag
  | .release => some .release
  | .readBlocks => some .readBlocks
  | _ => none

/-- the action after `a` in a list of actions -/
def succIn (l : List Act) (a : Act) : Option Act :=
  match l.dropWhile (· != a) with
  | _ :: b :: _ => some b
  | _ => none

theorem gen_call_program_is_model (E : Engine Src Prog Cell Val Inp Out) (raw : Src) (sh : Shared Prog Cell Val)
    (tid : Nat) (inp : Inp) :
    (sh.flag = false → actOf (stepThread E raw sh tid inp .test).2 = succIn callProgramGen .test) ∧
    (sh.flag = true → actOf (stepThread E raw sh tid inp .test).2 = callProgramGen.getLast?) ∧
    (sh.lock = none → actOf (stepThread E raw sh tid inp .acquire).2 = succIn callProgramGen .acquire) ∧
    actOf (stepThread E raw sh tid inp .writeBlocks).2 = succIn callProgramGen .writeBlocks ∧
    actOf (stepThread E raw sh tid inp .writeFlag).2 = succIn callProgramGen .writeFlag ∧
    actOf (stepThread E raw sh tid inp .release).2 = succIn callProgramGen .release ∧
    succIn callProgramGen .readBlocks = none := by
  refine ⟨fun h => ?_, fun h => ?_, fun h => ?_, rfl, rfl, rfl, rfl⟩
  · simp only [stepThread, h]; rfl
  · simp only [stepThread, h]; rfl
  · simp only [stepThread, h]; rfl

/-- the source writes the program before the flag, and both between taking and releasing the lock -/
theorem gen_call_program_publishes_last :
    callProgramGen.idxOf Act.acquire < callProgramGen.idxOf Act.writeBlocks ∧
    callProgramGen.idxOf Act.writeBlocks < callProgramGen.idxOf Act.writeFlag ∧
    callProgramGen.idxOf Act.writeFlag < callProgramGen.idxOf Act.release ∧
    callProgramGen.idxOf Act.release < callProgramGen.idxOf Act.readBlocks := by decide

end Gen


/-- two threads, one shared cell written with the thread's own key and read back one step later -/
def raceStep (keys : List Nat) (cell : Option Nat) (pcs : List (Nat × Option Nat)) (tid : Nat) :
    Option Nat × List (Nat × Option Nat) :=
  match pcs[tid]?, keys[tid]? with
  | some (0, _), some k => (some k, pcs.set tid (1, none))             -- self.sort = eval(md)
  | some (1, _), some _ => (cell, pcs.set tid (2, cell))               -- sort = self.sort
  | _, _ => (cell, pcs)

def raceRun (keys : List Nat) (sched : List Nat) : List (Nat × Option Nat) :=
  (sched.foldl (fun (st : Option Nat × List (Nat × Option Nat)) t => raceStep keys st.1 st.2 t)
    (none, keys.map fun _ => (0, none))).2

/-- the schedule W₁ W₂ R₁: thread 0 reads thread 1's key -/
theorem per_render_cell_races : raceRun [10, 20] [0, 1, 0, 1] = [(2, some 20), (2, some 20)] ∧
    raceRun [10, 20] [0, 0, 1, 1] = [(2, some 10), (2, some 20)] := by decide

/-! #### the hypotheses are satisfiable -/

section Example
private def E : Engine Nat Nat Nat Nat Nat (Nat × Nat × List Nat) :=
  { parse := fun s => s + 1, cellsOf := fun p => [p, p + 1], cellVal := fun c => c * 2,
    exec := fun p i vs => (p, i, vs), crash := (0, 0, []) }
private def isDone : PC Nat Nat Nat (Nat × Nat × List Nat) → Option (Nat × Nat × List Nat)
  | .done r => some r
  | _ => none
-- three threads racing to compile: 0 and 1 both pass the test before either has cooked
private def sched : List Nat :=
  [0, 1, 0, 2, 0, 0, 0, 1, 1, 1, 1, 1, 0, 0, 0, 0, 1, 1, 1, 1, 2, 2, 2, 2, 2, 2, 2] ++ List.replicate 8 0 ++ List.replicate 8 1 ++ List.replicate 8 2
example : ((runSched E 5 [100, 200, 300] (init 3) sched).pcs.map isDone) =
    [some (6, 100, [12, 14]), some (6, 200, [12, 14]), some (6, 300, [12, 14])] := by decide +kernel
end Example

end DTML.Props.C18
