/-
C03 — html_quote / &dtml-name; output is exactly the HTML-escaped value.
Model: DTML/Quote.lean.
-/
import DTML.Quote
import DTML.Lemmas.IBlock
import DTML.Lemmas.VarInit
set_option linter.unusedVariables false
namespace DTML.Props.C03
open DTML.Quote

/-- obligation on the regenerated table: the running Python's html.escape maps
the five specials to exactly the entities the model uses. -/
theorem gen_escape_table :
    Gen.escapeTable = [("&", "&amp;"), ("<", "&lt;"), (">", "&gt;"), ("\"", "&quot;"), ("'", "&#x27;")] := by
  decide

private theorem escChar_no_raw (c d : Char) (h : d ∈ escChar c) :
    d ≠ '<' ∧ d ≠ '>' ∧ d ≠ '"' ∧ d ≠ '\'' := by
  unfold escChar at h
  split at h
  · simp at h; rcases h with h | h | h | h | h <;> subst h <;> decide
  split at h
  · simp at h; rcases h with h | h | h | h <;> subst h <;> decide
  split at h
  · simp at h; rcases h with h | h | h | h <;> subst h <;> decide
  split at h
  · simp at h; rcases h with h | h | h | h | h | h <;> subst h <;> decide
  split at h
  · simp at h; rcases h with h | h | h | h | h | h <;> subst h <;> decide
  · simp at h; subst h; refine ⟨?_, ?_, ?_, ?_⟩ <;> assumption

/-- None of `< > " '` from the value reaches the output: the escaped text
contains none of them at all. -/
theorem escape_no_raw (s : Text) : ∀ d ∈ escape s, d ≠ '<' ∧ d ≠ '>' ∧ d ≠ '"' ∧ d ≠ '\'' := by
  intro d hd
  simp only [escape, List.mem_flatMap] at hd
  obtain ⟨c, _, hc⟩ := hd
  exact escChar_no_raw c d hc


private theorem unescape5_cons_ne (c : Char) (t : Text) (h : c ≠ '&') : unescape5 (c :: t) = c :: unescape5 t := by
  conv => lhs; unfold unescape5
  split <;> simp_all

private theorem escape_cons (c : Char) (t : Text) : escape (c :: t) = escChar c ++ escape t := by
  simp [escape]

/-- HTML-unescaping the output returns the original text. -/
theorem unescape5_escape (s : Text) : unescape5 (escape s) = s := by
  induction s with
  | nil => simp [escape, unescape5]
  | cons c t ih =>
    rw [escape_cons]
    unfold escChar
    split
    · subst_vars; simp [unescape5, ih]
    split
    · subst_vars; simp [unescape5, ih]
    split
    · subst_vars; simp [unescape5, ih]
    split
    · subst_vars; simp [unescape5, ih]
    split
    · subst_vars; simp [unescape5, ih]
    · simp only [List.singleton_append]; rw [unescape5_cons_ne _ _ ‹_›, ih]

private theorem escChar_id (c : Char) (h : isSpecial c = false) : escChar c = [c] := by
  simp only [isSpecial, Bool.or_eq_false_iff, decide_eq_false_iff_not] at h
  obtain ⟨⟨⟨⟨h1, h2⟩, h3⟩, h4⟩, h5⟩ := h
  simp [escChar, h1, h2, h3, h4, h5]

private theorem escChar_len (c : Char) (h : isSpecial c = true) : 1 < (escChar c).length := by
  simp only [isSpecial, Bool.or_eq_true, decide_eq_true_eq] at h
  unfold escChar
  rcases h with (((h | h) | h) | h) | h <;> subst h <;> decide

private theorem escChar_len_ge (c : Char) : 1 ≤ (escChar c).length := by
  cases h : isSpecial c
  · rw [escChar_id c h]; simp
  · have := escChar_len c h; omega

private theorem escape_len_ge (s : Text) : s.length ≤ (escape s).length := by
  induction s with
  | nil => simp [escape]
  | cons c t ih => rw [escape_cons]; have := escChar_len_ge c; simp; omega

/-- Escaping leaves a string unchanged exactly when it contains none of the
five special characters — the soundness condition of any "skip the quoting"
shortcut. -/
theorem escape_id_iff (s : Text) : escape s = s ↔ ∀ c ∈ s, isSpecial c = false := by
  induction s with
  | nil => simp [escape]
  | cons c t ih =>
    rw [escape_cons]
    constructor
    · intro h
      cases hc : isSpecial c with
      | false =>
        rw [escChar_id c hc] at h
        simp only [List.singleton_append, List.cons.injEq, true_and] at h
        intro d hd
        rcases List.mem_cons.mp hd with hd | hd
        · subst hd; exact hc
        · exact ih.mp h d hd
      | true =>
        have h1 := escChar_len c hc
        have h2 := escape_len_ge t
        have := congrArg List.length h
        simp at this; omega
    · intro h
      rw [escChar_id c (h c List.mem_cons_self), ih.mpr (fun d hd => h d (List.mem_cons_of_mem _ hd))]
      simp

/-- **Fast path soundness.**  Whenever the simple-form renderer decides to skip
html_quote (no character of `Gen.fastPathChars`, the list extracted from
render_blocks_ on this run, occurs in the value), escaping would not have
changed the value. -/
theorem fastpath_sound (s : Text) (h : needsQuote s = false) : escape s = s := by
  rw [escape_id_iff]
  intro c hc
  simp only [needsQuote, List.any_eq_false] at h
  have := h c hc
  simp only [fastPathHit, Gen.fastPathChars] at this
  simp only [isSpecial]
  simp only [List.contains_cons, List.contains_nil, Bool.or_false, Bool.not_eq_true,
    Bool.or_eq_false_iff, beq_eq_false_iff_ne, ne_eq] at this
  have hs : ∀ d : Char, String.singleton c = String.singleton d → c = d := by
    intro d hd
    have := congrArg String.toList hd
    simpa using this
  simp only [Bool.or_eq_false_iff, decide_eq_false_iff_not]
  refine ⟨⟨⟨⟨?_, ?_⟩, ?_⟩, ?_⟩, ?_⟩ <;> intro hcd <;> subst hcd <;> simp_all

/-- **All quoting forms agree** on `str` values: the entity form / `html_quote`
alone (simple form with fast path) and `html_quote` with other options /
`fmt=html-quote` (full path) all yield exactly `escape s`. -/
theorem forms_agree (s : Text) : renderSimpleH s = escape s ∧ renderFullH s = escape s := by
  refine ⟨?_, rfl⟩
  unfold renderSimpleH
  cases h : needsQuote s with
  | true => simp
  | false => simp [fastpath_sound s h]

/-- Plain insertion leaves an (untainted) string unchanged. -/
theorem plain_unchanged (s : Text) : renderSimple s = s := rfl

/-- every piece of the output is the character itself (not special) or its entity -/
theorem escChar_cases (c : Char) :
    (isSpecial c = false ∧ escChar c = [c]) ∨
    (isSpecial c = true ∧ escChar c ∈ ["&amp;".toList, "&lt;".toList, "&gt;".toList, "&quot;".toList, "&#x27;".toList]) := by
  cases h : isSpecial c with
  | false => left; exact ⟨rfl, escChar_id c h⟩
  | true =>
    right; refine ⟨rfl, ?_⟩
    simp only [isSpecial, Bool.or_eq_true, decide_eq_true_eq] at h
    unfold escChar
    rcases h with (((h | h) | h) | h) | h <;> subst h <;> decide

example : escape "a<b & 'c' \"d\">".toList = "a&lt;b &amp; &#x27;c&#x27; &quot;d&quot;&gt;".toList := by decide
example : needsQuote "it's".toList = true := by decide

/-! ### The simple dtml-var of the interpreter is the `'v'` branch of the source

`GenRender.vBlockGen` is regenerated on every run by translating the `'v'` branch of `render_blocks_` in /repo
(harness/trans_render.py): `t = md[t]` / `t(md)`, the `ustr` step, the decision `skip_html_quote == 0 and len(block) == 3`,
the fast-path test character by character as the source has it, `html_quote(t, encoding=encoding)`.  It computes the
model's `fetchVar`, which escapes every quoted value: the fast path of the source is sound because text without the
tested characters is its own escaping (`fastpath_sound` above; here for the interpreter's `escChar`).  Removing a
character from the test in the source makes this theorem false. -/
theorem gen_simple_var_is_model (env : Render.Env) (fuel : Nat) (src : Render.Src) (hq : Bool) (st : Render.St) :
    GenRender.vBlockGen env fuel src hq st = Render.fetchVar env (fuel + 2) src hq none st :=
  Lemmas.IBlock.vBlock_eq env fuel src hq st

/-! ### Which form a dtml-var tag compiles to: `Var.__init__`, translated from the source on every run

`GenVarInit` is regenerated on every run by translating `DT_Var.Var.__init__` statement by statement
(harness/trans_varinit.py): the removal of the prefix `var `, the call of `parse_params` with its table, the filter of
the modifiers, `name_param`, and the if-chain that stores `simple_form` (`len(args) == 1 and fmt == 's'`;
`len(args) == 2 and fmt == 's' and 'html_quote' in args`).  The entity syntax `&dtml-x;` reaches this constructor with
` html_quote` appended to its arguments by the scanner (`C01.gen_html_scanner_*`), so it is the second case. -/

/-- **The constructor of the model is the constructor of the source**: `Var.__init__` up to the choice of the form
(prefix, attribute grammar over the table of the call, name / expr validation with the flag of the call) computes
`Parse.checkSimple .var` - same errors, same attribute dictionary, same target, same expressions handed to `Eval`. -/
theorem gen_var_init_is_checkSimple (args fmt : Scan.Text) :
    (GenVarInit.varInitGen args fmt).map
      (fun r => ({ params := r.args, target := some r.target, exprs := r.exprs } : Parse.Built)) =
    Parse.checkSimple .var args := by
  have hs : GenVarInit.stripGen args = (if "var ".toList.isPrefixOf args then args.drop 4 else args) := by
    unfold GenVarInit.stripGen
    have : args.take 4 = "var ".toList ↔ "var ".toList.isPrefixOf args = true :=
      Lemmas.VarInit.take_eq_iff_isPrefixOf "var ".toList args
    by_cases h : "var ".toList.isPrefixOf args = true
    · rw [if_pos h, if_pos (this.mpr h)]
    · rw [if_neg h, if_neg (fun h' => h (this.mp h'))]
  have ht : GenVarInit.varTable = Gen.varParams := by decide
  unfold GenVarInit.varInitGen Parse.checkSimple
  simp only [hs, ht, GenVarInit.allowExprGen]
  cases Parse.parseParams Gen.varParams (if "var ".toList.isPrefixOf args then args.drop 4 else args) with
  | error e => rfl
  | ok p =>
    cases h : Parse.nameParam p true with
    | error e => simp [h, Except.map, bind, Except.bind]
    | ok r => obtain ⟨t, es⟩ := r; simp [h, Except.map, bind, Except.bind, pure, Except.pure]

/-- **The form the source chooses is the one the interpreter model renders**: on the attribute dictionary of the tag a
`.var src hq missing null` cell stands for (`Lemmas.VarInit.blkParams`), the if-chain of `Var.__init__` stores no simple
form exactly when `missing=` or `null=` is written (`renderBlk` then takes the path of `Var.render`), the quoting form
`('v', x, 'h')` when `html_quote` is written or implied by the entity syntax, the plain form `('v', x)` otherwise. -/
theorem gen_var_form_is_interp (isExpr : Bool) (target : Scan.Text) (hq : Bool) (missing null : Option Scan.Text) :
    GenVarInit.formGen (Lemmas.VarInit.blkParams isExpr target hq missing null) "s".toList =
      if missing.isSome || null.isSome then 0 else if hq then 2 else 1 := by
  cases isExpr <;> cases hq <;> cases missing <;> cases null <;> rfl

/-- a tag for which the source stores a simple form is rendered by the model as the `'v'` cell - `fetchVar`, which
`gen_simple_var_is_model` proves to be the `'v'` branch of `render_blocks_` -/
theorem gen_var_simple_form_is_fetch (env : Render.Env) (fuel : Nat) (src : Render.Src) (isExpr : Bool)
    (target : Scan.Text) (hq : Bool) (missing null : Option Scan.Text) (st : Render.St)
    (h : GenVarInit.formGen (Lemmas.VarInit.blkParams isExpr target hq missing null) "s".toList ≠ 0) :
    Render.renderBlk env (fuel + 1) (.var src hq missing null) st = Render.fetchVar env fuel src hq none st := by
  rw [gen_var_form_is_interp] at h
  cases missing with
  | some m => simp at h
  | none =>
    cases null with
    | some m => simp at h
    | none => cases src <;> rfl

example : GenVarInit.formGen (Lemmas.VarInit.blkParams false ['x'] true none none) "s".toList = 2 := by decide
example : GenVarInit.formGen (Lemmas.VarInit.blkParams false ['x'] true (some []) none) "s".toList = 0 := by decide

end DTML.Props.C03
