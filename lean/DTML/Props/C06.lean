/-
C06 — Compiling any source terminates and fails only with a located ParseError.
Model: DTML/Scan.lean (scanners, tokeniser), DTML/Parse.lean (attribute grammar,
tag roles, builder, tag constructors).  All model functions are total (structural
recursion / explicit fuel); the theorems below show the fuel is sufficient and
that every reported error names a tag of the source.
-/
import DTML.Scan
import DTML.Parse
import DTML.Props.C01
import DTML.Lemmas.Params
import DTML.Lemmas.ParseTag
set_option linter.unusedVariables false
namespace DTML.Props.C06
open DTML.Scan DTML.Parse

/-! #### obligations on what the translator extracted from the source -/

/-- the regular expressions the hand-compiled scanners stand for: a changed
pattern breaks this obligation (and forces the scanners to be re-validated) -/
theorem gen_regexes :
    Gen.epfsTagre = "%\\((?P<name>[a-zA-Z0-9_/.-]+)([\x00- ]+(?P<args>(?:[^\\)\"]+(?:\"[^\"]*\"[^\\)\"]+)*(?:\"[^\"]*\")?)?))?\\)(?P<fmt>[0-9]*[.]?[0-9]*[a-z]|[]![])" ∧
    Gen.epfsTagreIgnoreCase = true ∧
    Gen.htmlNameMatch = "[\x00- ]*[a-zA-Z]+[\x00- ]*" ∧
    Gen.htmlEndMatch = "[\x00- ]*(/|end)" ∧ Gen.htmlEndMatchIgnoreCase = true ∧
    Gen.htmlStartSearch = "[<&]" ∧ Gen.htmlEntName = "[-a-zA-Z0-9_.]+" ∧
    Gen.skipEol = "[ \t]*\n" ∧ Gen.simpleName = "^[a-z][a-z0-9_]*$" ∧
    Gen.paramRegexes = ["([\x00- ]*([^\x00- =\"]+))", "([\x00- ]*(\"[^\"]*\"))",
      "([\x00- ]*([^\x00- =\"]+)=([^\x00- =\"]+))", "([\x00- ]*([^\x00- =\"]+)=\"([^\"]*)\")"] := by
  decide +kernel

/-- the command table: every tag name, and which tags are blocks with which continuations -/
theorem gen_commands :
    Gen.commands.map (fun c => (c.1, c.2.2)) =
      (["call", "comment", "else", "if", "in", "let", "raise", "return", "tree", "try", "unless", "var", "with"].map
        fun n => (n, (Cmd.ofName n).bind Cmd.continuations)) ∧
    ∀ c ∈ Gen.commands, (Cmd.ofName c.1).map Cmd.name = some c.2.1 := by
  decide +kernel

/-- attribute tables of the tags (names only; the defaults are used as generated) -/
theorem gen_param_tables :
    Gen.varParams.map (·.1) = ["name", "lower", "upper", "expr", "capitalize", "spacify", "null", "fmt", "size",
      "etc", "thousands_commas", "html_quote", "url_quote", "sql_quote", "url_quote_plus", "url_unquote",
      "url_unquote_plus", "missing", "newline_to_br", "url"] ∧
    Gen.inParams.map (·.map (·.1)) = [["name", "start", "end", "size", "orphan", "overlap", "mapping",
      "no_push_item", "skip_unauthorized", "previous", "next", "expr", "sort", "reverse", "sort_expr",
      "reverse_expr", "prefix"], ["name"]] ∧
    Gen.ifParams.map (·.map (·.1)) = [["name", "expr"], ["name"], ["name", "expr"]] ∧
    Gen.unlessParams.map (·.map (·.1)) = [["name", "expr"]] ∧
    Gen.withParams.map (·.map (·.1)) = [["name", "expr", "mapping", "only"]] ∧
    Gen.raiseParams.map (·.map (·.1)) = [["type", "expr"]] ∧
    Gen.returnParams.map (·.map (·.1)) = [["name", "expr"]] ∧
    Gen.callParams.map (·.map (·.1)) = [["name", "expr"]] ∧
    Gen.tryParams = [[]] := by
  decide +kernel

/-! #### every tag is at least one character long: scanning makes progress -/

theorem candidate_len_pos (s : Text) (len : Nat) (tk : Tok) (h : candidate s = .tok len tk) : 1 ≤ len := by
  unfold candidate at h
  simp (config := {zeta := true}) only at h
  repeat' split at h
  all_goals first
    | (cases h; done)
    | (cases h; omega)

private theorem epfsFinish_len_pos (s after name : Text) (nl a : Nat) (b : Bool) (e len : Nat) (tk : Tok)
    (h : epfsFinish s after name nl a b e = some (len, tk)) : 1 ≤ len := by
  unfold epfsFinish at h
  split at h
  · split at h
    · simp only [Option.some.injEq, Prod.mk.injEq] at h
      obtain ⟨h1, h2⟩ := h
      omega
    · cases h
  · cases h

theorem matchEpfs_len_pos (s : Text) (len : Nat) (tk : Tok) (h : matchEpfs s = some (len, tk)) : 1 ≤ len := by
  unfold matchEpfs at h
  simp (config := {zeta := true}) only at h
  split at h
  · cases h
  · split at h
    · exact epfsFinish_len_pos _ _ _ _ _ _ _ _ _ h
    · split at h
      · rename_i r hr
        simp only [Option.some.injEq] at h
        subst h
        exact epfsFinish_len_pos _ _ _ _ _ _ _ _ _ hr
      · split at h
        · exact epfsFinish_len_pos _ _ _ _ _ _ _ _ _ h
        · cases h

private theorem scanHtml_text_pos : ∀ (s lit rest : Text) (tk : Tok),
    scanHtml s = some (lit, tk, rest) → 1 ≤ tk.text.length := by
  intro s
  induction s with
  | nil => intro lit rest tk h; simp [scanHtml] at h
  | cons c t ih =>
    intro lit rest tk h
    unfold scanHtml at h
    split at h
    · split at h
      · rename_i len tk' hc
        simp only [Option.some.injEq, Prod.mk.injEq] at h
        obtain ⟨_, rfl, _⟩ := h
        rw [C01.candidate_text _ _ _ hc]
        have := candidate_len_pos _ _ _ hc
        simp; omega
      · cases hq : scanHtml t with
        | none => simp [hq] at h
        | some v =>
          obtain ⟨l, tk', r⟩ := v
          simp only [hq, Option.map_some, Option.some.injEq, Prod.mk.injEq] at h
          obtain ⟨_, rfl, _⟩ := h
          exact ih l r tk' hq
    · cases hq : scanHtml t with
      | none => simp [hq] at h
      | some v =>
        obtain ⟨l, tk', r⟩ := v
        simp only [hq, Option.map_some, Option.some.injEq, Prod.mk.injEq] at h
        obtain ⟨_, rfl, _⟩ := h
        exact ih l r tk' hq

private theorem scanEpfs_text_pos : ∀ (s lit rest : Text) (tk : Tok),
    scanEpfs s = some (lit, tk, rest) → 1 ≤ tk.text.length := by
  intro s
  induction s with
  | nil => intro lit rest tk h; simp [scanEpfs] at h
  | cons c t ih =>
    intro lit rest tk h
    unfold scanEpfs at h
    split at h
    · split at h
      · rename_i len tk' hc
        simp only [Option.some.injEq, Prod.mk.injEq] at h
        obtain ⟨_, rfl, _⟩ := h
        rw [C01.matchEpfs_text _ _ _ hc]
        have := matchEpfs_len_pos _ _ _ hc
        simp; omega
      · cases hq : scanEpfs t with
        | none => simp [hq] at h
        | some v =>
          obtain ⟨l, tk', r⟩ := v
          simp only [hq, Option.map_some, Option.some.injEq, Prod.mk.injEq] at h
          obtain ⟨_, rfl, _⟩ := h
          exact ih l r tk' hq
    · cases hq : scanEpfs t with
      | none => simp [hq] at h
      | some v =>
        obtain ⟨l, tk', r⟩ := v
        simp only [hq, Option.map_some, Option.some.injEq, Prod.mk.injEq] at h
        obtain ⟨_, rfl, _⟩ := h
        exact ih l r tk' hq

/-- a search step consumes at least one character -/
theorem scan_progress (syn : Syntax) (s lit rest : Text) (tk : Tok)
    (h : scan syn s = some (lit, tk, rest)) : rest.length < s.length ∧ 1 ≤ tk.text.length := by
  have hr := C01.scan_reconstruct syn s lit rest tk h
  have hpos : 1 ≤ tk.text.length := by
    cases syn
    · exact scanHtml_text_pos s lit rest tk h
    · exact scanEpfs_text_pos s lit rest tk h
  refine ⟨?_, hpos⟩
  have := congrArg List.length hr
  simp at this
  omega

/-- **Tokenising terminates with everything scanned**: the fuel `|src| + 1` is
always sufficient — the trailing literal contains no further tag. -/
theorem tokens_complete (syn : Syntax) : ∀ (fuel : Nat) (s : Text), s.length < fuel →
    scan syn (tokensAux syn fuel s).2 = none := by
  intro fuel
  induction fuel with
  | zero => intro s h; omega
  | succ n ih =>
    intro s h
    simp only [tokensAux]
    cases hs : scan syn s with
    | none => simpa using hs
    | some v =>
      obtain ⟨lit, tk, rest⟩ := v
      simp only
      have := (scan_progress syn s lit rest tk hs).1
      exact ih rest (by omega)

theorem tokens_tail_tagfree (syn : Syntax) (src : Text) : scan syn (tokens syn src).2 = none :=
  tokens_complete syn _ src (by omega)

/-! #### every error is reported for a tag of the source -/

/-! #### every error is reported for a tag of the source -/

private theorem pushNodes_frames (ns : List Node) (stack : List Frame) (top : List Node) (idx : Nat)
    (h : ∀ f ∈ stack, f.startTok < idx) : ∀ f ∈ (pushNodes ns stack top).1, f.startTok < idx := by
  unfold pushNodes
  cases stack with
  | nil => simp
  | cons f0 fs =>
    intro f hf
    simp only [List.mem_cons] at hf
    rcases hf with rfl | hf
    · exact h f0 (by simp)
    · exact h f (by simp [hf])

private theorem frames_lt_succ (stack : List Frame) (idx : Nat) (h : ∀ f ∈ stack, f.startTok < idx) :
    ∀ f ∈ stack, f.startTok < idx + 1 := fun f hf => Nat.lt_succ_of_lt (h f hf)

/-- the builder reports an error only for a token it has seen -/
theorem build_error_index (syn : Syntax) : ∀ (ps : List (Text × Tok)) (tl : Text) (idx : Nat) (aft : Bool)
    (stack : List Frame) (top : List Node) (ex : List ExprUse) (le : Located),
    (∀ f ∈ stack, f.startTok < idx) →
    buildAux syn ps tl idx aft stack top ex = .error le → le.tok < idx + ps.length := by
  intro ps
  induction ps with
  | nil =>
    intro tl idx aft stack top ex le hst h
    unfold buildAux at h
    split at h
    · rename_i f fs
      simp only [Except.error.injEq] at h
      subst h
      have := hst f (by simp)
      simpa using this
    · cases h
  | cons p ps ih =>
    intro tl idx aft stack top ex le hst h
    obtain ⟨lit, tk⟩ := p
    unfold buildAux at h
    simp (config := {zeta := true}) only at h
    have hlen : idx + ((lit, tk) :: ps).length = (idx + 1) + ps.length := by simp; omega
    rw [hlen]
    split at h
    · simp only [Except.error.injEq] at h; subst h; simp; omega
    · split at h
      · -- start
        split at h
        · apply ih _ _ _ _ _ _ _ _ h
          intro f hf
          simp only [List.mem_cons] at hf
          rcases hf with rfl | hf
          · simp
          · exact frames_lt_succ _ _ (pushNodes_frames _ _ _ _ hst) f hf
        · split at h
          · simp only [Except.error.injEq] at h; subst h; simp; omega
          · apply ih _ _ _ _ _ _ _ _ h
            exact frames_lt_succ _ _ (pushNodes_frames _ _ _ _ hst)
      · -- continuation
        split at h
        · simp only [Except.error.injEq] at h; subst h; simp; omega
        · rename_i f0 fs0 _
          apply ih _ _ _ _ _ _ _ _ h
          intro f hf
          simp only [List.mem_cons] at hf
          rcases hf with rfl | hf
          · have := hst f0 (by simp); simp; omega
          · have := hst f (by simp [hf]); omega
      · -- close
        split at h
        · simp only [Except.error.injEq] at h; subst h; simp; omega
        · rename_i f0 fs0 _
          split at h
          · simp only [Except.error.injEq] at h; subst h
            have := hst f0 (by simp); simp; omega
          · apply ih _ _ _ _ _ _ _ _ h
            apply frames_lt_succ
            apply pushNodes_frames
            intro f hf
            exact hst f (by simp [hf])

/-- **Located errors.**  When compilation fails, the error is reported for a
token of the source: its index is within the token list, hence (by
`tokens_lossless`) the reported tag text is a slice of the source starting at
`tokStart`, and the reported line is `1 +` the number of newlines before that
offset (`lineOf`, the model of `len(text[:start].split('\\n'))`). -/
theorem error_located (syn : Syntax) (src : Text) (le : Located)
    (h : compile syn src = .error le) : le.tok < (tokens syn src).1.length := by
  unfold compile at h
  have := build_error_index syn (tokens syn src).1 (tokens syn src).2 0 false [] [] [] le (by simp) h
  simpa using this

private theorem tokStart_cons (l : Text) (t : Tok) (ps : List (Text × Tok)) (i : Nat) :
    tokStart ((l, t) :: ps) (i + 1) = (l.length + t.text.length) + tokStart ps i := by
  simp only [tokStart, List.take_succ_cons, List.map_cons, List.sum_cons, List.getD_cons_succ]
  omega

/-- the reported tag is a slice of the source: at offset `tokStart` of the
(flattened = original) source stands exactly the text of token `i` -/
theorem tokStart_spec : ∀ (ps : List (Text × Tok)) (tl : Text) (i : Nat) (h : i < ps.length),
    ((C01.flatten ps tl).drop (tokStart ps i)).take (ps[i].2.text.length) = ps[i].2.text := by
  intro ps
  induction ps with
  | nil => intro tl i h; simp at h
  | cons p ps ih =>
    intro tl i h
    obtain ⟨l, t⟩ := p
    cases i with
    | zero =>
      simp [tokStart, C01.flatten, List.flatMap_cons]
    | succ i =>
      have h' : i < ps.length := by simpa using h
      have := ih tl i h'
      rw [tokStart_cons]
      simp only [C01.flatten, List.flatMap_cons, List.getElem_cons_succ] at this ⊢
      have e : (l ++ t.text ++ List.flatMap (fun x => x.1 ++ x.2.text) ps ++ tl) =
          (l ++ t.text) ++ (List.flatMap (fun x => x.1 ++ x.2.text) ps ++ tl) := by simp
      rw [e]
      have e2 : l.length + t.text.length = (l ++ t.text).length := by simp
      rw [e2, List.drop_length_add_append]
      exact this

/-- a block that is never closed is rejected, with the error on its own start tag -/
theorem unclosed_block_rejected (syn : Syntax) (tl : Text) (idx : Nat) (aft : Bool) (f : Frame)
    (fs : List Frame) (top : List Node) (ex : List ExprUse) :
    buildAux syn [] tl idx aft (f :: fs) top ex = .error ⟨⟨"No closing tag"⟩, f.startTok⟩ := by
  simp [buildAux]

/-! ### The builder as a state machine: "rejected if and only if the tag grammar is violated"

`stepTok` is one iteration of `buildAux` (one token), `runToks` the iteration over a token list; `buildAux_eq_run` shows
that the builder *is* that iteration followed by the end-of-text test.  The grammar violations of the property are then
statements about single steps: whatever valid text precedes it, the offending token makes compilation fail, with the
error located at that token (or, for a block's attributes and a missing end tag, at the block's start tag). -/

structure BState where
  idx : Nat
  aft : Bool
  stack : List Frame
  top : List Node
  ex : List ExprUse

def BState.init : BState := ⟨0, false, [], [], []⟩

/-- one token -/
def stepTok (syn : Syntax) (σ : BState) (p : Text × Tok) : Except Located BState :=
  let lit := if σ.aft then skipEol p.1 else p.1
  let ctx := σ.stack.head?.map (fun f => (f.cmd, f.sargs))
  match tagRole syn p.2 ctx with
  | .error e => .error ⟨e, σ.idx⟩
  | .ok role =>
    match role with
    | .start cmd args =>
      if cmd.isBlock then
        let st := pushNodes (litNode lit) σ.stack σ.top
        let fr : Frame := { cmd := cmd, sargs := args, startTok := σ.idx, done := [], curName := cmd.name, curArgs := args, cur := [] }
        .ok ⟨σ.idx + 1, true, fr :: st.1, st.2, σ.ex⟩
      else
        match checkSimple cmd args with
        | .error e => .error ⟨e, σ.idx⟩
        | .ok b =>
          let fmt := if syn = .epfs then p.2.fmt else ['s']
          let st := pushNodes (litNode lit ++ [.simple cmd b fmt]) σ.stack σ.top
          .ok ⟨σ.idx + 1, false, st.1, st.2, σ.ex ++ b.exprs⟩
    | .cont name args =>
      match σ.stack with
      | [] => .error ⟨⟨"Unexpected tag"⟩, σ.idx⟩
      | f :: fs =>
        let body := ((litNode lit).reverse ++ f.cur).reverse
        let f' := { f with done := f.done ++ [⟨f.curName, f.curArgs, body⟩], curName := name,
                            curArgs := args, cur := [] }
        .ok ⟨σ.idx + 1, true, f' :: fs, σ.top, σ.ex⟩
    | .close _ =>
      match σ.stack with
      | [] => .error ⟨⟨"unexpected end tag"⟩, σ.idx⟩
      | f :: fs =>
        let body := ((litNode lit).reverse ++ f.cur).reverse
        let secs := f.done ++ [⟨f.curName, f.curArgs, body⟩]
        match checkBlock f.cmd (secs.map fun s => (s.tname, s.args)) with
        | .error e => .error ⟨e, f.startTok⟩
        | .ok b =>
          let st := pushNodes [.block f.cmd b secs] fs σ.top
          .ok ⟨σ.idx + 1, true, st.1, st.2, σ.ex ++ b.exprs⟩

def runToks (syn : Syntax) : List (Text × Tok) → BState → Except Located BState
  | [], σ => .ok σ
  | p :: ps, σ =>
    match stepTok syn σ p with
    | .error e => .error e
    | .ok σ' => runToks syn ps σ'

/-- the end of the text: every block must have been closed -/
def finish (tl : Text) (σ : BState) : Except Located Out :=
  match σ.stack with
  | f :: _ => .error ⟨⟨"No closing tag"⟩, f.startTok⟩
  | [] => .ok ⟨(litNode (if σ.aft then skipEol tl else tl)).reverse ++ σ.top |>.reverse, σ.ex⟩

/-- **the builder is the iteration of `stepTok`**, then `finish` -/
theorem buildAux_eq_run (syn : Syntax) (tl : Text) : ∀ (ps : List (Text × Tok)) (σ : BState),
    buildAux syn ps tl σ.idx σ.aft σ.stack σ.top σ.ex =
      (match runToks syn ps σ with
       | .error e => .error e
       | .ok σ' => finish tl σ') := by
  intro ps
  induction ps with
  | nil =>
    intro σ
    simp only [runToks, finish]
    unfold buildAux
    cases σ.stack <;> rfl
  | cons p ps ih =>
    intro σ
    obtain ⟨lit, tk⟩ := p
    unfold buildAux
    simp only [runToks, stepTok]
    cases hr : tagRole syn tk (σ.stack.head?.map (fun f => (f.cmd, f.sargs))) with
    | error e => rfl
    | ok role =>
      cases role with
      | start cmd args =>
        simp only
        by_cases hb : cmd.isBlock = true
        · simp only [hb, if_true]
          exact ih ⟨_, _, _, _, _⟩
        · simp only [hb]
          cases hc : checkSimple cmd args with
          | error e => rfl
          | ok b => exact ih ⟨_, _, _, _, _⟩
      | cont name args =>
        simp only
        cases hs : σ.stack with
        | nil => rfl
        | cons f fs => exact ih ⟨_, _, _, _, _⟩
      | close a =>
        simp only
        cases hs : σ.stack with
        | nil => rfl
        | cons f fs =>
          simp only
          cases hc : checkBlock f.cmd _ with
          | error e => rfl
          | ok b => exact ih ⟨_, _, _, _, _⟩

theorem compile_eq_run (syn : Syntax) (src : Text) :
    compile syn src =
      (match runToks syn (tokens syn src).1 BState.init with
       | .error e => .error e
       | .ok σ => finish (tokens syn src).2 σ) := by
  unfold compile
  exact buildAux_eq_run syn (tokens syn src).2 (tokens syn src).1 BState.init

theorem runToks_append (syn : Syntax) : ∀ (a b : List (Text × Tok)) (σ : BState),
    runToks syn (a ++ b) σ =
      (match runToks syn a σ with
       | .error e => .error e
       | .ok σ' => runToks syn b σ') := by
  intro a
  induction a with
  | nil => intro b σ; rfl
  | cons p a ih =>
    intro b σ
    simp only [List.cons_append, runToks]
    cases stepTok syn σ p with
    | error e => rfl
    | ok σ' => exact ih b σ'

private theorem stepTok_idx (syn : Syntax) (σ σ' : BState) (p : Text × Tok) (h : stepTok syn σ p = .ok σ') :
    σ'.idx = σ.idx + 1 := by
  unfold stepTok at h
  simp only at h
  split at h
  · cases h
  · split at h
    · split at h
      · cases h; rfl
      · split at h
        · cases h
        · cases h; rfl
    · split at h
      · cases h
      · cases h; rfl
    · split at h
      · cases h
      · split at h
        · cases h
        · cases h; rfl

/-- the state reached after a prefix of `n` valid tokens stands at token `n` -/
theorem runToks_idx (syn : Syntax) : ∀ (ps : List (Text × Tok)) (σ σ' : BState),
    runToks syn ps σ = .ok σ' → σ'.idx = σ.idx + ps.length := by
  intro ps
  induction ps with
  | nil => intro σ σ' h; simp only [runToks, Except.ok.injEq] at h; subst h; simp
  | cons p ps ih =>
    intro σ σ' h
    simp only [runToks] at h
    cases hs : stepTok syn σ p with
    | error e => rw [hs] at h; cases h
    | ok σ₁ =>
      rw [hs] at h
      have := ih σ₁ σ' h
      rw [this, stepTok_idx syn σ σ₁ p hs]
      simp; omega

/-- **Accepted iff the grammar is respected**: a token list compiles exactly when every token is a legal step and no block
is open at the end. -/
theorem accepted_iff (syn : Syntax) (ps : List (Text × Tok)) (tl : Text) :
    (∃ out, buildAux syn ps tl 0 false [] [] [] = .ok out) ↔
      ∃ σ, runToks syn ps BState.init = .ok σ ∧ σ.stack = [] := by
  have := buildAux_eq_run syn tl ps BState.init
  simp only [BState.init] at this
  rw [this]
  cases hr : runToks syn ps BState.init with
  | error e => simp [BState.init] at hr ⊢; simp [hr]
  | ok σ =>
    simp only [BState.init] at hr
    simp only [hr, finish]
    cases hs : σ.stack with
    | nil => simp [hs]
    | cons f fs => simp [hs]

/-- a failing step anywhere makes the whole compilation fail with that step's error: the common form of the rejection
theorems below (`pre` = the tokens before the offending one, all legal) -/
theorem step_error_rejects (syn : Syntax) (pre rest : List (Text × Tok)) (p : Text × Tok) (tl : Text)
    (σ : BState) (e : Located) (hpre : runToks syn pre BState.init = .ok σ) (hstep : stepTok syn σ p = .error e) :
    buildAux syn (pre ++ p :: rest) tl 0 false [] [] [] = .error e := by
  have := buildAux_eq_run syn tl (pre ++ p :: rest) BState.init
  simp only [BState.init] at this hpre
  rw [this, runToks_append]
  simp only [BState.init, hpre, runToks, hstep]

/-- **unknown tag**: a start tag whose name is no command (and no continuation of the open block) is rejected as
"Unexpected tag", located at that tag — `<dtml-…>` / `<!--#…-->` syntax -/
theorem unknown_tag_rejected (pre rest : List (Text × Tok)) (lit tl : Text) (tk : Tok) (σ : BState)
    (hpre : runToks .html pre BState.init = .ok σ) (hne : tk.isEnd = false)
    (hunk : Cmd.ofName (String.ofList tk.name) = none)
    (hcont : ∀ f, σ.stack.head? = some f → String.ofList tk.name ∉ f.cmd.continuations.getD []) :
    buildAux .html (pre ++ (lit, tk) :: rest) tl 0 false [] [] [] = .error ⟨⟨"Unexpected tag"⟩, pre.length⟩ := by
  have hidx := runToks_idx .html pre _ σ hpre
  apply step_error_rejects .html pre rest (lit, tk) tl σ _ hpre
  simp only [stepTok, tagRole, hne]
  cases hs : σ.stack.head? with
  | none => simp [hunk, hidx, BState.init]
  | some f =>
    have := hcont f hs
    simp [this, hunk, hidx, BState.init]

/-- **end tag without matching start**: an end tag when no block is open, or naming another block than the innermost
open one, is rejected as "unexpected end tag", located at that end tag -/
theorem end_without_start_rejected (pre rest : List (Text × Tok)) (lit tl : Text) (tk : Tok) (σ : BState)
    (hpre : runToks .html pre BState.init = .ok σ) (he : tk.isEnd = true)
    (hmis : ∀ f, σ.stack.head? = some f → String.ofList tk.name ≠ f.cmd.name) :
    buildAux .html (pre ++ (lit, tk) :: rest) tl 0 false [] [] [] =
      .error ⟨⟨"unexpected end tag"⟩, pre.length⟩ := by
  have hidx := runToks_idx .html pre _ σ hpre
  apply step_error_rejects .html pre rest (lit, tk) tl σ _ hpre
  simp only [stepTok, tagRole, he]
  cases hs : σ.stack.head? with
  | none => simp [hidx, BState.init]
  | some f =>
    have := hmis f hs
    simp [this, hidx, BState.init]

/-- **missing end tag**: when the text ends while a block is open, compilation fails with "No closing tag", located at
the start tag of the innermost open block -/
theorem missing_end_tag_rejected (syn : Syntax) (ps : List (Text × Tok)) (tl : Text) (σ : BState) (f : Frame)
    (fs : List Frame) (hrun : runToks syn ps BState.init = .ok σ) (hopen : σ.stack = f :: fs) :
    buildAux syn ps tl 0 false [] [] [] = .error ⟨⟨"No closing tag"⟩, f.startTok⟩ := by
  have := buildAux_eq_run syn tl ps BState.init
  simp only [BState.init] at this hrun
  rw [this]
  simp only [BState.init, hrun, finish, hopen]

/-- **misplaced continuation tag**: `elif`, `except` and `finally` are no commands of their own, so outside a block that
lists them as continuations they are rejected ("Unexpected tag") — a special case of `unknown_tag_rejected`; and a
continuation tag can never be accepted with no block open -/
theorem misplaced_continuation_rejected (pre rest : List (Text × Tok)) (lit tl : Text) (tk : Tok) (σ : BState)
    (hpre : runToks .html pre BState.init = .ok σ) (hne : tk.isEnd = false)
    (hname : String.ofList tk.name = "elif" ∨ String.ofList tk.name = "except" ∨ String.ofList tk.name = "finally")
    (hcont : ∀ f, σ.stack.head? = some f → String.ofList tk.name ∉ f.cmd.continuations.getD []) :
    buildAux .html (pre ++ (lit, tk) :: rest) tl 0 false [] [] [] = .error ⟨⟨"Unexpected tag"⟩, pre.length⟩ := by
  apply unknown_tag_rejected pre rest lit tl tk σ hpre hne _ hcont
  rcases hname with h | h | h <;> rw [h] <;> rfl

/-- **attributes a simple tag does not accept**: when the constructor of a non-block tag (`var`, `call`, `return`)
rejects its arguments (unknown or duplicate attribute, missing or contradictory name / expr …), compilation fails with
that error, located at that tag -/
theorem simple_attribute_error_rejected (syn : Syntax) (pre rest : List (Text × Tok)) (p : Text × Tok) (tl : Text)
    (σ : BState) (cmd : Cmd) (args : Text) (e : PErr)
    (hpre : runToks syn pre BState.init = .ok σ)
    (hrole : tagRole syn p.2 (σ.stack.head?.map (fun f => (f.cmd, f.sargs))) = .ok (.start cmd args))
    (hsimple : cmd.isBlock = false) (hbad : checkSimple cmd args = .error e) :
    buildAux syn (pre ++ p :: rest) tl 0 false [] [] [] = .error ⟨e, pre.length⟩ := by
  have hidx := runToks_idx syn pre _ σ hpre
  apply step_error_rejects syn pre rest p tl σ _ hpre
  simp only [stepTok, hrole, hsimple, hbad]
  simp [hidx, BState.init]

/-- **attributes a block tag does not accept** (incl. repeated `else`, batch-only options without a batch, a non-simple
`prefix`: all decided by the block's constructor once its end tag is read): compilation fails with the constructor's
error, located at the block's *start* tag -/
theorem block_attribute_error_rejected (syn : Syntax) (pre rest : List (Text × Tok)) (p : Text × Tok) (tl : Text)
    (σ : BState) (f : Frame) (fs : List Frame) (a : Text) (e : PErr)
    (hpre : runToks syn pre BState.init = .ok σ) (hstack : σ.stack = f :: fs)
    (hrole : tagRole syn p.2 (some (f.cmd, f.sargs)) = .ok (.close a))
    (hbad : checkBlock f.cmd ((f.done ++ [(⟨f.curName, f.curArgs,
        ((litNode (if σ.aft then skipEol p.1 else p.1)).reverse ++ f.cur).reverse⟩ : Section Node)]).map
          fun (s : Section Node) => (s.tname, s.args)) = .error e) :
    buildAux syn (pre ++ p :: rest) tl 0 false [] [] [] = .error ⟨e, f.startTok⟩ := by
  apply step_error_rejects syn pre rest p tl σ _ hpre
  simp only [stepTok, hstack, List.head?, Option.map, hrole, hbad]

/-- **nothing else is ever reported**: every error of the builder is the error of one step — the tag-role error of a
token (unknown tag, end tag without matching start), a constructor's attribute error, or the missing end tag at the end
of the text.  With `accepted_iff` this is "rejected if and only if the tag grammar is violated". -/
theorem rejection_classified (syn : Syntax) (ps : List (Text × Tok)) (tl : Text) (le : Located)
    (h : buildAux syn ps tl 0 false [] [] [] = .error le) :
    (∃ pre p rest σ, ps = pre ++ p :: rest ∧ runToks syn pre BState.init = .ok σ ∧ stepTok syn σ p = .error le) ∨
    (∃ σ f fs, runToks syn ps BState.init = .ok σ ∧ σ.stack = f :: fs ∧ le = ⟨⟨"No closing tag"⟩, f.startTok⟩) := by
  have hb := buildAux_eq_run syn tl ps BState.init
  simp only [BState.init] at hb
  rw [hb] at h
  have gen : ∀ (qs : List (Text × Tok)) (σ : BState) (e : Located), runToks syn qs σ = .error e →
      ∃ pre p rest σ', qs = pre ++ p :: rest ∧ runToks syn pre σ = .ok σ' ∧ stepTok syn σ' p = .error e := by
    intro qs
    induction qs with
    | nil => intro σ e h; simp [runToks] at h
    | cons q qs ih =>
      intro σ e h
      simp only [runToks] at h
      cases hs : stepTok syn σ q with
      | error e' =>
        rw [hs] at h
        simp only [Except.error.injEq] at h
        subst h
        exact ⟨[], q, qs, σ, rfl, rfl, hs⟩
      | ok σ₁ =>
        rw [hs] at h
        obtain ⟨pre, p, rest, σ', h1, h2, h3⟩ := ih σ₁ e h
        refine ⟨q :: pre, p, rest, σ', by simp [h1], ?_, h3⟩
        simp only [runToks, hs]
        exact h2
  cases hr : runToks syn ps ⟨0, false, [], [], []⟩ with
  | error e =>
    rw [hr] at h
    simp only [Except.error.injEq] at h
    subst h
    exact Or.inl (gen ps _ _ hr)
  | ok σ =>
    rw [hr] at h
    simp only [finish] at h
    cases hs : σ.stack with
    | nil => rw [hs] at h; cases h
    | cons f fs =>
      rw [hs] at h
      simp only [Except.error.injEq] at h
      exact Or.inr ⟨σ, f, fs, hr, hs, h.symm⟩

/-- non-vacuity: `</dtml-if>` alone, an unknown tag, an unclosed block, a second `else`, an unknown attribute -/
example : (compile .html "a</dtml-if>".toList).toOption.isNone = true ∧
    (compile .html "<dtml-foo>".toList).toOption.isNone = true ∧
    (compile .html "<dtml-if x>a".toList).toOption.isNone = true ∧
    (compile .html "<dtml-if x>a<dtml-else>b<dtml-else>c</dtml-if>".toList).toOption.isNone = true ∧
    (compile .html "<dtml-var x bogus=1>".toList).toOption.isNone = true ∧
    (compile .html "<dtml-if x>a<dtml-else>b</dtml-if>".toList).toOption.isSome = true := by
  decide +kernel

/-! #### DT_Util.parse_params / name_param translated from the source on every run (DTML/GenParams.lean) -/
section GenParams
open DTML.GenParams DTML.Lemmas.Params

/-- the statements after the if / elif chain of parse_params (unknown attribute, duplicate with the list exemption, the
store, `text[l_:].strip()`, the recursion that ends on the empty text), as translated = the `.named` arm of the model -/
theorem gen_params_tail_is_model (tbl : Table) (k : Text → Params → Except PErr Params) (text : Text) (res : Params)
    (name value : Text) (L : Nat) :
    tailGen tbl k text res name value (text.take L).length =
      (match tbl.lookup (String.ofList name) with
       | none => .error ⟨"Invalid attribute name"⟩
       | some d =>
         if res.has (String.ofList name) && d != "[]" then .error ⟨"Duplicate values for attribute"⟩
         else
           if (pyStrip (text.drop L)).isEmpty then
             .ok ((res.filter (·.1 != String.ofList name)) ++ [(String.ofList name, .str value)])
           else k (pyStrip (text.drop L)) ((res.filter (·.1 != String.ofList name)) ++ [(String.ofList name, .str value)])) := by
  unfold tailGen
  simp only [parmsHas, parmsGet, repr_list_test, drop_take_length, dictSet]
  cases tbl.lookup (String.ofList name) with
  | none => simp only [Option.isSome_none, Bool.not_false, if_true]
  | some d =>
    simp only [Option.isSome_some, Bool.not_true, Option.getD_some]
    generalize res.has (String.ofList name) = a
    cases a <;> rcases Bool.eq_false_or_eq_true (d != "[]") with hb | hb <;>
      rcases Bool.eq_false_or_eq_true (List.isEmpty (pyStrip (List.drop L text))) with hc | hc <;>
      simp only [hb, hc, Bool.false_eq_true, if_false, if_true, Bool.and_self, Bool.and_true, Bool.and_false, Bool.not_true, Bool.not_false]

/-- one call of parse_params as translated (the four matchers tried in the order of the source, the group indices, the
stores, the errors) = one unfolding of the model, for every recursive call `k` -/
theorem gen_params_step_is_model (tbl : Table) (k : Text → Params → Except PErr Params) (text : Text) (res : Params) :
    stepGen tbl k text res = modelStep tbl k text res := by
  obtain ⟨h1, h2, h3, h4, h5⟩ := chain_spec text
  have hres : (if dictTruthy res then res else []) = res := by
    cases res <;> rfl
  unfold stepGen modelStep
  simp only [hres]
  cases hp : matchParm text with
  | some g =>
    obtain ⟨L, hs, hg⟩ := h1 g hp
    simp only [Option.isSome_some, if_true, hs, hg, gen_params_tail_is_model]
    rfl
  | none =>
    cases hq : matchQparm text with
    | some g =>
      obtain ⟨L, hs, hg⟩ := h2 hp g hq
      simp only [Option.isSome_some, Option.isSome_none, if_true, if_false, hs, hg, gen_params_tail_is_model, Bool.false_eq_true]
      rfl
    | none =>
      cases hu : matchUnparm text with
      | some g =>
        obtain ⟨L, hs, hg⟩ := h3 hp hq g hu
        simp only [Option.isSome_some, Option.isSome_none, if_true, if_false, hs, hg, Bool.false_eq_true, drop_take_length]
        cases res with
        | nil => rfl
        | cons a t =>
          simp only [dictTruthy, List.isEmpty_cons, Bool.not_false, if_true, Bool.false_eq_true, if_false, parmsHas,
            parmsGet, reprIsNone, dictSet]
          obtain hl | ⟨d, hl⟩ : List.lookup (String.ofList (grp (some g) 2)) tbl = none ∨
              ∃ d, List.lookup (String.ofList (grp (some g) 2)) tbl = some d := by
            cases List.lookup (String.ofList (grp (some g) 2)) tbl
            · exact Or.inl rfl
            · exact Or.inr ⟨_, rfl⟩
          all_goals simp only [hl, Option.isSome_some, Option.isSome_none, if_true, if_false,
            Option.getD_some, beq_iff_eq, Bool.false_eq_true]
      | none =>
        cases hv : matchQunparm text with
        | some g =>
          obtain ⟨L, hs, hg⟩ := h4 hp hq hu g hv
          simp only [Option.isSome_some, Option.isSome_none, if_true, if_false, hs, hg, Bool.false_eq_true, drop_take_length]
          cases res with
          | nil => rfl
          | cons a t => rfl
        | none =>
          simp only [Option.isSome_none, if_false, Bool.false_eq_true, h5 hp hq hu hv, Bool.not_not]
          cases text with
          | nil => rfl
          | cons c t =>
            simp only [List.isEmpty_cons, Bool.false_or]
            rcases Bool.eq_false_or_eq_true (List.isEmpty (pyStrip (c :: t))) with h | h <;>
              simp only [h, if_true, if_false, Bool.false_eq_true]

/-- parse_params as translated from the source on every run = the model's `parseParamsAux`, for every attribute table,
fuel, text and dictionary -/
theorem gen_parse_params_is_model (tbl : Table) : ∀ (fuel : Nat) (text : Text) (res : Params),
    parseParamsGen tbl fuel text res = parseParamsAux tbl fuel text res := by
  intro fuel
  induction fuel with
  | zero => intro text res; rfl
  | succ fuel ih =>
    intro text res
    have hk : parseParamsGen tbl fuel = parseParamsAux tbl fuel := funext fun t => funext fun r => ih t r
    rw [aux_succ, ← gen_params_step_is_model, ← hk]
    rfl

/-- … and so, started like a tag constructor starts it, `Parse.parseParams` -/
theorem gen_parse_params_is_parseParams (tbl : Table) (text : Text) :
    parseParamsGen tbl (text.length + 1) text [] = parseParams tbl text :=
  gen_parse_params_is_model tbl _ text []

/-- name_param as translated (which of '' / attr / 'expr' is looked at in which order, the "..." test, the error texts,
what goes to Eval) = the model's `nameParam`, for every dictionary, flag and attribute name -/
theorem gen_name_param_is_model (p : Params) (allowExpr : Bool) (attr : String) :
    nameParamGen p allowExpr attr = nameParam p allowExpr attr := by
  unfold nameParamGen nameParam
  simp only [Params.has, dictText, slice_1_m1]
  obtain h0 | ⟨v, h0⟩ := opt_cases (p.lookup "")
  · simp only [h0, Option.isSome_none, if_false, Bool.false_eq_true]
    obtain ha | ⟨a, ha⟩ := opt_cases (p.lookup attr)
    · simp only [ha, Option.isSome_none, if_false, Bool.false_eq_true]
      cases allowExpr
      · rfl
      · obtain he | ⟨e, he⟩ := opt_cases (p.lookup "expr") <;> simp only [he] <;> rfl
    · simp only [ha, Option.isSome_some, if_true]
      cases allowExpr
      · rfl
      · obtain he | ⟨e, he⟩ := opt_cases (p.lookup "expr") <;> simp only [he] <;> rfl
  · simp only [h0, Option.isSome_some, if_true, quoted_test]
    rcases Bool.eq_false_or_eq_true (isQuotedShorthand (pvalText v)) with hq | hq <;>
      rcases Bool.eq_false_or_eq_true (p.lookup attr).isSome with ha | ha <;>
      rcases Bool.eq_false_or_eq_true (p.lookup "expr").isSome with he | he <;>
      cases allowExpr <;>
      simp only [hq, ha, he, if_true, if_false, Bool.false_eq_true, Bool.and_true, Bool.and_false]

/-- … also with the default of `attr` as written in the source -/
theorem gen_name_param_default (p : Params) (allowExpr : Bool) : nameParamGen p allowExpr = nameParam p allowExpr :=
  gen_name_param_is_model p allowExpr "name"

/-- termination of the recursion of parse_params: every successful match (`name=value`, `name="value"`, a bare word, a
quoted string) consumes at least one character, so the text handed to the recursive call is shorter -/
theorem params_progress (text : Text) (len : Nat) (h : consumed (nextSpec text) = some len) :
    1 ≤ len ∧ (text.drop len).length < text.length ∧ (pyStrip (text.drop len)).length < text.length :=
  ⟨nextSpec_consumes text len h, rest_shorter text len h,
    Nat.lt_of_le_of_lt (pyStrip_length_le _) (rest_shorter text len h)⟩

/-- the model recurses on fuel (one unit per attribute), not on a measure: any fuel above the length of the text gives
the same result as the |text| + 1 that `parseParams` starts with - the fuel is never used up -/
theorem params_fuel_enough (tbl : Table) (fuel : Nat) (text : Text) (res : Params) (h : text.length < fuel) :
    parseParamsAux tbl fuel text res = parseParamsAux tbl (text.length + 1) text res :=
  aux_fuel_irrelevant tbl fuel (text.length + 1) text res h (Nat.lt_succ_self _)

/-- the translated recursion with any fuel above the length of the text = `Parse.parseParams` -/
theorem gen_parse_params_any_fuel (tbl : Table) (fuel : Nat) (text : Text) (h : text.length < fuel) :
    parseParamsGen tbl fuel text [] = parseParams tbl text := by
  rw [gen_parse_params_is_model]
  exact params_fuel_enough tbl fuel text [] h

/-- non-vacuity / a sample run of the translated code: the unnamed value, a keyword with a default, a quoted value, the
errors -/
example : (parseParamsGen Gen.varParams 30 "x fmt=\"a b\" upper".toList []).toOption =
      some [("", .str "x".toList), ("fmt", .str "a b".toList), ("upper", .dflt "1")] ∧
    (match parseParamsGen Gen.varParams 30 "x bogus=1".toList [] with | .error e => e.msg | .ok _ => "") =
      "Invalid attribute name" ∧
    (match parseParamsGen Gen.varParams 30 "x fmt=a fmt=b".toList [] with | .error e => e.msg | .ok _ => "") =
      "Duplicate values for attribute" ∧
    (match parseParamsGen Gen.varParams 30 "x =".toList [] with | .error e => e.msg | .ok _ => "") =
      "invalid parameter" ∧
    (match nameParamGen [("", .str "\"a+b\"".toList)] true with | .ok r => r.1.isExpr && r.1.name == "a+b".toList | .error _ => false) = true := by
  decide +kernel

end GenParams
/-! #### the tag grammar errors on the translated `parseTag` (GenParseTag.lean, regenerated on every run)

`stepTok` reads a tag through `tagRole`; by `Lemmas.ParseTag.parseTagGen_eq` that is `String._parseTag` around
`HTML.parseTag` / `String.parseTag` of the current source, so the ParseErrors of the source are the model's. -/

/-- the role the builder acts on is the one the translated `_parseTag` / `parseTag` of the syntax's class returns -/
theorem gen_parseTag_is_tagRole (syn : Syntax) (tk : Tok) (ctx : Option (Cmd × Text)) :
    DTML.Lemmas.ParseTag.parseTagGen syn tk (ctx.map (·.1)) ((ctx.map (·.2)).getD []) = tagRole syn tk ctx :=
  DTML.Lemmas.ParseTag.parseTagGen_eq syn tk ctx

/-- 'Unexpected tag': a start tag whose name is not in `self.commands` (and is no continuation of the open block) is
refused by the translated method of either class with that text -/
theorem gen_parseTag_unknown_tag (tk : Tok) (ctx : Option (Cmd × Text))
    (hend : tk.isEnd = false)
    (hk : Cmd.ofName (String.ofList tk.name) = none)
    (hc : ∀ p, ctx = some p → (p.1.continuations.getD []).contains (String.ofList tk.name) = false) :
    DTML.GenParseTag.parseTagHtmlGen tk (ctx.map (·.1)) ((ctx.map (·.2)).getD []) = .error ⟨"Unexpected tag"⟩ := by
  rw [DTML.Lemmas.ParseTag.html_eq]
  unfold tagRole
  cases ctx with
  | none => simp [hend, hk]
  | some p =>
    have := hc p rfl
    obtain ⟨c, sa⟩ := p
    have hm : ¬ String.ofList tk.name ∈ c.continuations.getD [] := by simpa using this
    simp [hend, hk, hm]

/-- 'unexpected end tag': an end tag with no block open, or naming another command than the open block's -/
theorem gen_parseTag_unexpected_end (tk : Tok) (ctx : Option (Cmd × Text))
    (hend : tk.isEnd = true) (hc : ∀ p, ctx = some p → String.ofList tk.name ≠ p.1.name) :
    DTML.GenParseTag.parseTagHtmlGen tk (ctx.map (·.1)) ((ctx.map (·.2)).getD []) = .error ⟨"unexpected end tag"⟩ := by
  rw [DTML.Lemmas.ParseTag.html_eq]
  unfold tagRole
  cases ctx with
  | none => simp [hend]
  | some p =>
    have := hc p rfl
    obtain ⟨c, sa⟩ := p
    simp only [] at this
    simp [hend, this]

end DTML.Props.C06
