/-
C06 — Compiling any source terminates and fails only with a located ParseError.
Model: DTML/Scan.lean (scanners, tokeniser), DTML/Parse.lean (attribute grammar,
tag roles, builder, tag constructors).  All model functions are total (structural
recursion / explicit fuel); the theorems below show the fuel is sufficient and
that every reported error names a tag of the source.
-/
import DTML.Scan
import DTML.Parse
import DTML.Props.C01
set_option linter.unusedVariables false
namespace DTML.Props.C06
open DTML.Scan DTML.Parse

/-! #### obligations on what the translator extracted from the source -/

/-- the regular expressions the hand-compiled scanners stand for: a changed
pattern breaks this obligation (and forces the scanners to be re-validated) -/
theorem gen_regexes :
    Gen.epfsTagre = "%\\((?P<name>[a-zA-Z0-9_/.-]+)([\x00- ]+(?P<args>(?:[^\\)\"]+(?:\"[^\"]*\"[^\\)\"]+)*(?:\"[^\"]*\")?)?))?\\)(?P<fmt>[0-9]*[.]?[0-9]*[a-z]|[]![])" ∧
    Gen.epfsTagreIgnoreCase = true ∧
    Gen.htmlNameMatch = "[\x00- ]*[a-zA-Z]+[\x00- ]*" ∧
    Gen.htmlEndMatch = "[\x00- ]*(/|end)" ∧ Gen.htmlEndMatchIgnoreCase = true ∧
    Gen.htmlStartSearch = "[<&]" ∧ Gen.htmlEntName = "[-a-zA-Z0-9_.]+" ∧
    Gen.skipEol = "[ \t]*\n" ∧ Gen.simpleName = "^[a-z][a-z0-9_]*$" ∧
    Gen.paramRegexes = ["([\x00- ]*([^\x00- =\"]+))", "([\x00- ]*(\"[^\"]*\"))",
      "([\x00- ]*([^\x00- =\"]+)=([^\x00- =\"]+))", "([\x00- ]*([^\x00- =\"]+)=\"([^\"]*)\")"] := by
  decide +kernel

/-- the command table: every tag name, and which tags are blocks with which continuations -/
theorem gen_commands :
    Gen.commands.map (fun c => (c.1, c.2.2)) =
      (["call", "comment", "else", "if", "in", "let", "raise", "return", "tree", "try", "unless", "var", "with"].map
        fun n => (n, (Cmd.ofName n).bind Cmd.continuations)) ∧
    ∀ c ∈ Gen.commands, (Cmd.ofName c.1).map Cmd.name = some c.2.1 := by
  decide +kernel

/-- attribute tables of the tags (names only; the defaults are used as generated) -/
theorem gen_param_tables :
    Gen.varParams.map (·.1) = ["name", "lower", "upper", "expr", "capitalize", "spacify", "null", "fmt", "size",
      "etc", "thousands_commas", "html_quote", "url_quote", "sql_quote", "url_quote_plus", "url_unquote",
      "url_unquote_plus", "missing", "newline_to_br", "url"] ∧
    Gen.inParams.map (·.map (·.1)) = [["name", "start", "end", "size", "orphan", "overlap", "mapping",
      "no_push_item", "skip_unauthorized", "previous", "next", "expr", "sort", "reverse", "sort_expr",
      "reverse_expr", "prefix"], ["name"]] ∧
    Gen.ifParams.map (·.map (·.1)) = [["name", "expr"], ["name"], ["name", "expr"]] ∧
    Gen.unlessParams.map (·.map (·.1)) = [["name", "expr"]] ∧
    Gen.withParams.map (·.map (·.1)) = [["name", "expr", "mapping", "only"]] ∧
    Gen.raiseParams.map (·.map (·.1)) = [["type", "expr"]] ∧
    Gen.returnParams.map (·.map (·.1)) = [["name", "expr"]] ∧
    Gen.callParams.map (·.map (·.1)) = [["name", "expr"]] ∧
    Gen.tryParams = [[]] := by
  decide +kernel

/-! #### every tag is at least one character long: scanning makes progress -/

theorem candidate_len_pos (s : Text) (len : Nat) (tk : Tok) (h : candidate s = .tok len tk) : 1 ≤ len := by
  unfold candidate at h
  simp (config := {zeta := true}) only at h
  repeat' split at h
  all_goals first
    | (cases h; done)
    | (cases h; omega)

private theorem epfsFinish_len_pos (s after name : Text) (nl a : Nat) (b : Bool) (e len : Nat) (tk : Tok)
    (h : epfsFinish s after name nl a b e = some (len, tk)) : 1 ≤ len := by
  unfold epfsFinish at h
  split at h
  · split at h
    · simp only [Option.some.injEq, Prod.mk.injEq] at h
      obtain ⟨h1, h2⟩ := h
      omega
    · cases h
  · cases h

theorem matchEpfs_len_pos (s : Text) (len : Nat) (tk : Tok) (h : matchEpfs s = some (len, tk)) : 1 ≤ len := by
  unfold matchEpfs at h
  simp (config := {zeta := true}) only at h
  split at h
  · cases h
  · split at h
    · exact epfsFinish_len_pos _ _ _ _ _ _ _ _ _ h
    · split at h
      · rename_i r hr
        simp only [Option.some.injEq] at h
        subst h
        exact epfsFinish_len_pos _ _ _ _ _ _ _ _ _ hr
      · split at h
        · exact epfsFinish_len_pos _ _ _ _ _ _ _ _ _ h
        · cases h

private theorem scanHtml_text_pos : ∀ (s lit rest : Text) (tk : Tok),
    scanHtml s = some (lit, tk, rest) → 1 ≤ tk.text.length := by
  intro s
  induction s with
  | nil => intro lit rest tk h; simp [scanHtml] at h
  | cons c t ih =>
    intro lit rest tk h
    unfold scanHtml at h
    split at h
    · split at h
      · rename_i len tk' hc
        simp only [Option.some.injEq, Prod.mk.injEq] at h
        obtain ⟨_, rfl, _⟩ := h
        rw [C01.candidate_text _ _ _ hc]
        have := candidate_len_pos _ _ _ hc
        simp; omega
      · cases hq : scanHtml t with
        | none => simp [hq] at h
        | some v =>
          obtain ⟨l, tk', r⟩ := v
          simp only [hq, Option.map_some, Option.some.injEq, Prod.mk.injEq] at h
          obtain ⟨_, rfl, _⟩ := h
          exact ih l r tk' hq
    · cases hq : scanHtml t with
      | none => simp [hq] at h
      | some v =>
        obtain ⟨l, tk', r⟩ := v
        simp only [hq, Option.map_some, Option.some.injEq, Prod.mk.injEq] at h
        obtain ⟨_, rfl, _⟩ := h
        exact ih l r tk' hq

private theorem scanEpfs_text_pos : ∀ (s lit rest : Text) (tk : Tok),
    scanEpfs s = some (lit, tk, rest) → 1 ≤ tk.text.length := by
  intro s
  induction s with
  | nil => intro lit rest tk h; simp [scanEpfs] at h
  | cons c t ih =>
    intro lit rest tk h
    unfold scanEpfs at h
    split at h
    · split at h
      · rename_i len tk' hc
        simp only [Option.some.injEq, Prod.mk.injEq] at h
        obtain ⟨_, rfl, _⟩ := h
        rw [C01.matchEpfs_text _ _ _ hc]
        have := matchEpfs_len_pos _ _ _ hc
        simp; omega
      · cases hq : scanEpfs t with
        | none => simp [hq] at h
        | some v =>
          obtain ⟨l, tk', r⟩ := v
          simp only [hq, Option.map_some, Option.some.injEq, Prod.mk.injEq] at h
          obtain ⟨_, rfl, _⟩ := h
          exact ih l r tk' hq
    · cases hq : scanEpfs t with
      | none => simp [hq] at h
      | some v =>
        obtain ⟨l, tk', r⟩ := v
        simp only [hq, Option.map_some, Option.some.injEq, Prod.mk.injEq] at h
        obtain ⟨_, rfl, _⟩ := h
        exact ih l r tk' hq

/-- a search step consumes at least one character -/
theorem scan_progress (syn : Syntax) (s lit rest : Text) (tk : Tok)
    (h : scan syn s = some (lit, tk, rest)) : rest.length < s.length ∧ 1 ≤ tk.text.length := by
  have hr := C01.scan_reconstruct syn s lit rest tk h
  have hpos : 1 ≤ tk.text.length := by
    cases syn
    · exact scanHtml_text_pos s lit rest tk h
    · exact scanEpfs_text_pos s lit rest tk h
  refine ⟨?_, hpos⟩
  have := congrArg List.length hr
  simp at this
  omega

/-- **Tokenising terminates with everything scanned**: the fuel `|src| + 1` is
always sufficient — the trailing literal contains no further tag. -/
theorem tokens_complete (syn : Syntax) : ∀ (fuel : Nat) (s : Text), s.length < fuel →
    scan syn (tokensAux syn fuel s).2 = none := by
  intro fuel
  induction fuel with
  | zero => intro s h; omega
  | succ n ih =>
    intro s h
    simp only [tokensAux]
    cases hs : scan syn s with
    | none => simpa using hs
    | some v =>
      obtain ⟨lit, tk, rest⟩ := v
      simp only
      have := (scan_progress syn s lit rest tk hs).1
      exact ih rest (by omega)

theorem tokens_tail_tagfree (syn : Syntax) (src : Text) : scan syn (tokens syn src).2 = none :=
  tokens_complete syn _ src (by omega)

/-! #### every error is reported for a tag of the source -/

/-! #### every error is reported for a tag of the source -/

private theorem pushNodes_frames (ns : List Node) (stack : List Frame) (top : List Node) (idx : Nat)
    (h : ∀ f ∈ stack, f.startTok < idx) : ∀ f ∈ (pushNodes ns stack top).1, f.startTok < idx := by
  unfold pushNodes
  cases stack with
  | nil => simp
  | cons f0 fs =>
    intro f hf
    simp only [List.mem_cons] at hf
    rcases hf with rfl | hf
    · exact h f0 (by simp)
    · exact h f (by simp [hf])

private theorem frames_lt_succ (stack : List Frame) (idx : Nat) (h : ∀ f ∈ stack, f.startTok < idx) :
    ∀ f ∈ stack, f.startTok < idx + 1 := fun f hf => Nat.lt_succ_of_lt (h f hf)

/-- the builder reports an error only for a token it has seen -/
theorem build_error_index (syn : Syntax) : ∀ (ps : List (Text × Tok)) (tl : Text) (idx : Nat) (aft : Bool)
    (stack : List Frame) (top : List Node) (ex : List ExprUse) (le : Located),
    (∀ f ∈ stack, f.startTok < idx) →
    buildAux syn ps tl idx aft stack top ex = .error le → le.tok < idx + ps.length := by
  intro ps
  induction ps with
  | nil =>
    intro tl idx aft stack top ex le hst h
    unfold buildAux at h
    split at h
    · rename_i f fs
      simp only [Except.error.injEq] at h
      subst h
      have := hst f (by simp)
      simpa using this
    · cases h
  | cons p ps ih =>
    intro tl idx aft stack top ex le hst h
    obtain ⟨lit, tk⟩ := p
    unfold buildAux at h
    simp (config := {zeta := true}) only at h
    have hlen : idx + ((lit, tk) :: ps).length = (idx + 1) + ps.length := by simp; omega
    rw [hlen]
    split at h
    · simp only [Except.error.injEq] at h; subst h; simp; omega
    · split at h
      · -- start
        split at h
        · apply ih _ _ _ _ _ _ _ _ h
          intro f hf
          simp only [List.mem_cons] at hf
          rcases hf with rfl | hf
          · simp
          · exact frames_lt_succ _ _ (pushNodes_frames _ _ _ _ hst) f hf
        · split at h
          · simp only [Except.error.injEq] at h; subst h; simp; omega
          · apply ih _ _ _ _ _ _ _ _ h
            exact frames_lt_succ _ _ (pushNodes_frames _ _ _ _ hst)
      · -- continuation
        split at h
        · simp only [Except.error.injEq] at h; subst h; simp; omega
        · rename_i f0 fs0 _
          apply ih _ _ _ _ _ _ _ _ h
          intro f hf
          simp only [List.mem_cons] at hf
          rcases hf with rfl | hf
          · have := hst f0 (by simp); simp; omega
          · have := hst f (by simp [hf]); omega
      · -- close
        split at h
        · simp only [Except.error.injEq] at h; subst h; simp; omega
        · rename_i f0 fs0 _
          split at h
          · simp only [Except.error.injEq] at h; subst h
            have := hst f0 (by simp); simp; omega
          · apply ih _ _ _ _ _ _ _ _ h
            apply frames_lt_succ
            apply pushNodes_frames
            intro f hf
            exact hst f (by simp [hf])

/-- **Located errors.**  When compilation fails, the error is reported for a
token of the source: its index is within the token list, hence (by
`tokens_lossless`) the reported tag text is a slice of the source starting at
`tokStart`, and the reported line is `1 +` the number of newlines before that
offset (`lineOf`, the model of `len(text[:start].split('\\n'))`). -/
theorem error_located (syn : Syntax) (src : Text) (le : Located)
    (h : compile syn src = .error le) : le.tok < (tokens syn src).1.length := by
  unfold compile at h
  have := build_error_index syn (tokens syn src).1 (tokens syn src).2 0 false [] [] [] le (by simp) h
  simpa using this

private theorem tokStart_cons (l : Text) (t : Tok) (ps : List (Text × Tok)) (i : Nat) :
    tokStart ((l, t) :: ps) (i + 1) = (l.length + t.text.length) + tokStart ps i := by
  simp only [tokStart, List.take_succ_cons, List.map_cons, List.sum_cons, List.getD_cons_succ]
  omega

/-- the reported tag is a slice of the source: at offset `tokStart` of the
(flattened = original) source stands exactly the text of token `i` -/
theorem tokStart_spec : ∀ (ps : List (Text × Tok)) (tl : Text) (i : Nat) (h : i < ps.length),
    ((C01.flatten ps tl).drop (tokStart ps i)).take (ps[i].2.text.length) = ps[i].2.text := by
  intro ps
  induction ps with
  | nil => intro tl i h; simp at h
  | cons p ps ih =>
    intro tl i h
    obtain ⟨l, t⟩ := p
    cases i with
    | zero =>
      simp [tokStart, C01.flatten, List.flatMap_cons]
    | succ i =>
      have h' : i < ps.length := by simpa using h
      have := ih tl i h'
      rw [tokStart_cons]
      simp only [C01.flatten, List.flatMap_cons, List.getElem_cons_succ] at this ⊢
      have e : (l ++ t.text ++ List.flatMap (fun x => x.1 ++ x.2.text) ps ++ tl) =
          (l ++ t.text) ++ (List.flatMap (fun x => x.1 ++ x.2.text) ps ++ tl) := by simp
      rw [e]
      have e2 : l.length + t.text.length = (l ++ t.text).length := by simp
      rw [e2, List.drop_length_add_append]
      exact this

/-- a block that is never closed is rejected, with the error on its own start tag -/
theorem unclosed_block_rejected (syn : Syntax) (tl : Text) (idx : Nat) (aft : Bool) (f : Frame)
    (fs : List Frame) (top : List Node) (ex : List ExprUse) :
    buildAux syn [] tl idx aft (f :: fs) top ex = .error ⟨⟨"No closing tag"⟩, f.startTok⟩ := by
  simp [buildAux]

end DTML.Props.C06
