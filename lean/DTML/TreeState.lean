/-
Model of the dtml-tree expansion state (TreeDisplay.TreeTag): the nested state
lists `[id, [substates…]]`, `apply_diff` (expand / collapse clicks), the rows
and links `tpRenderTABLE` produces, `expand_all` / `collapse_all`.
Node ids are abstract (`Nat`).
-/
namespace DTML.TreeState

/-- a node of the tree being displayed -/
inductive T where
  | node (id : Nat) (kids : List T)
  deriving Repr

/-- a state entry `[id, [substates…]]` (`[id]` = no expanded children) -/
inductive St where
  | node (id : Nat) (kids : List St)
  deriving Repr

def T.id : T → Nat | .node i _ => i
def T.kids : T → List T | .node _ k => k
def St.id : St → Nat | .node i _ => i
def St.kids : St → List St | .node _ k => k

abbrev Path := List Nat

/-- the nodes apply_diff creates below a freshly appended `[id, []]` -/
def chainRest : List Nat → Bool → List St
  | [], _ => []
  | r :: rs, expand => if !rs.isEmpty || expand then [St.node r (chainRest rs expand)] else []

/-- replace the entry with id `id` (first match) by `f` of it -/
def modifyId (kids : List St) (id : Nat) (f : St → St) : List St :=
  match kids with
  | [] => []
  | k :: ks => if k.id == id then f k :: ks else k :: modifyId ks id f

def eraseId (kids : List St) (id : Nat) : List St :=
  match kids with
  | [] => []
  | k :: ks => if k.id == id then ks else k :: eraseId ks id

def findId (kids : List St) (id : Nat) : Option St := kids.find? (·.id == id)

/-- TreeTag.apply_diff(state, diff, expand): `kids` is the list being walked,
`path` the remaining ids of the diff. -/
def applyDiff : List St → Path → Bool → List St
  | kids, [], _ => kids
  | kids, id :: rest, expand =>
    match findId kids id with
    | some n =>
      if rest.isEmpty && !expand then eraseId kids id
      else modifyId kids id (fun _ => St.node id (applyDiff n.kids rest expand))
    | none =>
      if !rest.isEmpty || expand then kids ++ [St.node id (chainRest rest expand)] else kids

/-- one row of the rendered table -/
structure Row where
  id : Nat
  path : Path            -- root … this node: what the row's link encodes
  hasLink : Bool         -- the node has children, so it carries an expand/collapse link
  expanded : Bool        -- the link is a collapse link (the node is shown expanded)
  deriving Repr, DecidableEq

mutual
/-- tpRenderTABLE for a non-root node: its row, then (if expanded) its children -/
def rowsOf : T → List St → Path → List Row
  | .node id kids, substate, pre =>
    let path := pre ++ [id]
    let sub := findId substate id
    let hasKids := !kids.isEmpty
    { id := id, path := path, hasLink := hasKids, expanded := hasKids && sub.isSome } ::
      (if hasKids then
        match sub with
        | some s => rowsList kids s.kids path
        | none => []
       else [])
def rowsList : List T → List St → Path → List Row
  | [], _, _ => []
  | t :: ts, ss, p => rowsOf t ss p ++ rowsList ts ss p
end

/-- the whole table: the root itself has no row; its children are always shown -/
def render (root : T) (state : List St) : List Row :=
  match findId state root.id with
  | some s => rowsList root.kids s.kids [root.id]
  | none => rowsList root.kids [] [root.id]

mutual
/-- tpValuesIds: ids of all nodes with children (expand_all) -/
def allIds : T → List St
  | .node id kids => if kids.isEmpty then [] else [St.node id (allIdsList kids)]
def allIdsList : List T → List St
  | [] => []
  | t :: ts => allIds t ++ allIdsList ts
end

def initState (root : T) : List St := [St.node root.id []]
def expandAllState (root : T) : List St := [St.node root.id (allIdsList root.kids)]

/-- a click on a link: `tree-e` (expand) or `tree-c` (collapse) with the link's path -/
def click (state : List St) (path : Path) (expand : Bool) : List St := applyDiff state path expand

mutual
/-- all expanded paths recorded in a state (each from the root) -/
def pathsOf : St → Path → List Path
  | .node id kids, pre => (pre ++ [id]) :: pathsList kids (pre ++ [id])
def pathsList : List St → Path → List Path
  | [], _ => []
  | s :: ss, pre => pathsOf s pre ++ pathsList ss pre
end

/-- is `path` recorded as expanded?  Follows the ids with the same first-match
lookup the renderer uses.  (The empty path is the forest itself.) -/
def hasPath : List St → Path → Bool
  | _, [] => true
  | kids, id :: rest =>
    match findId kids id with
    | some n => hasPath n.kids rest
    | none => false

mutual
/-- well-formed: sibling ids are distinct at every level -/
def wfSt : St → Bool
  | .node _ kids => wfList kids
def wfList : List St → Bool
  | [] => true
  | s :: ss => wfSt s && !(ss.any (·.id == s.id)) && wfList ss
end

mutual
/-- abstract rendering: depth-first over the tree, descending below a node
exactly when it has children and `exp` holds of its path -/
def specOf (exp : Path → Bool) : T → Path → List Row
  | .node id kids, pre =>
    let path := pre ++ [id]
    let hasKids := !kids.isEmpty
    { id := id, path := path, hasLink := hasKids, expanded := hasKids && exp path } ::
      (if hasKids && exp path then specList exp kids path else [])
def specList (exp : Path → Bool) : List T → Path → List Row
  | [], _ => []
  | t :: ts, p => specOf exp t p ++ specList exp ts p
end

mutual
/-- tpStateLevel: how many levels of entries a state has (the colspan of the table) -/
def depthSt : St → Nat
  | .node _ kids => 1 + depthList kids
def depthList : List St → Nat
  | [] => 0
  | s :: ss => max (depthSt s) (depthList ss)
end

end DTML.TreeState
