/-
Executable instance of `VarPipe.Ext` for the driver: urllib.parse.quote /
quote_plus / unquote / unquote_plus on text, ASCII case mapping.
Used only by the correspondence run (never inside a theorem); the generators
keep to the domain on which these agree with CPython (case mapping: ASCII
letters + uncased characters; unquote: escapes that decode to valid UTF-8).
-/
import DTML.VarPipe
namespace DTML.ExtImpl
open DTML.Quote DTML.VarPipe

def hexDigit (n : Nat) : Char := if n < 10 then Char.ofNat (48 + n) else Char.ofNat (55 + n)

def alwaysSafe (c : Char) : Bool :=
  (c.isAlphanum && c.toNat < 128) || c = '_' || c = '.' || c = '-' || c = '~'

def pctBytes (c : Char) : Text :=
  (String.singleton c).toUTF8.toList.flatMap fun b => ['%', hexDigit (b.toNat / 16), hexDigit (b.toNat % 16)]

def urlQuote (s : Text) : Text := s.flatMap fun c => if alwaysSafe c || c = '/' then [c] else pctBytes c
def urlQuotePlus (s : Text) : Text :=
  s.flatMap fun c => if alwaysSafe c then [c] else if c = ' ' then ['+'] else pctBytes c

def hexVal (c : Char) : Option Nat :=
  if '0' ≤ c ∧ c ≤ '9' then some (c.toNat - 48)
  else if 'a' ≤ c ∧ c ≤ 'f' then some (c.toNat - 87)
  else if 'A' ≤ c ∧ c ≤ 'F' then some (c.toNat - 55)
  else none

/-- percent-decode one ASCII run into bytes -/
def unquoteBytes : Text → List UInt8
  | '%' :: a :: b :: t =>
    match hexVal a, hexVal b with
    | some x, some y => UInt8.ofNat (x * 16 + y) :: unquoteBytes t
    | _, _ => 37 :: unquoteBytes (a :: b :: t)
  | c :: t => UInt8.ofNat c.toNat :: unquoteBytes t
  | [] => []

/-- urllib.parse.unquote; `none` when an escape sequence is not valid UTF-8
(CPython substitutes U+FFFD there: outside the model). -/
def urlUnquote? (s : Text) : Option Text :=
  if !s.contains '%' then some s else
  let rec go (fuel : Nat) (s : Text) : Option Text :=
    match fuel with
    | 0 => some []
    | fuel + 1 =>
      match s with
      | [] => some []
      | c :: _ =>
        if c.toNat < 128 then
          let run := s.takeWhile (·.toNat < 128)
          let rest := s.dropWhile (·.toNat < 128)
          match String.fromUTF8? (ByteArray.mk (unquoteBytes run).toArray) with
          | some str => (go fuel rest).map (str.toList ++ ·)
          | none => none
        else
          let run := s.takeWhile (·.toNat ≥ 128)
          let rest := s.dropWhile (·.toNat ≥ 128)
          (go fuel rest).map (run ++ ·)
  go (s.length + 1) s

def plusToSpace (s : Text) : Text := s.map fun c => if c = '+' then ' ' else c

def asciiUpper (s : Text) : Text := s.map Char.toUpper
def asciiLower (s : Text) : Text := s.map Char.toLower
def asciiCapitalize : Text → Text
  | [] => []
  | c :: t => c.toUpper :: asciiLower t

/-- marker returned in place of text when `unquote` leaves the model -/
def oomMarker : Text := "￿<out-of-model>".toList

def ext : Ext where
  upper := asciiUpper
  lower := asciiLower
  capitalize := asciiCapitalize
  urlQuote := urlQuote
  urlQuotePlus := urlQuotePlus
  urlUnquote := fun s => (urlUnquote? s).getD oomMarker
  urlUnquotePlus := fun s => (urlUnquote? (plusToSpace s)).getD oomMarker

end DTML.ExtImpl
