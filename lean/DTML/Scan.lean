/-
Model of the two tag scanners:
  * DT_HTML.dtml_re_class.search   (<dtml-…>, </dtml-…>, <!--#…-->, &dtml-…; &dtml.…-…;)
  * DT_String.String.tagre         (%(name args)fmt — the regex, compiled by hand into a
                                    deterministic matcher; see DESIGN.md for the argument)
and of the tokeniser built on them (what String.parse sees: literal text and tags
alternating).  Everything works on the *suffix* of the text that is still to be
scanned: all decisions of both scanners look forward only.
-/
namespace DTML.Scan

abbrev Text := List Char

/-! ### Python string helpers -/

/-- `str.isspace()` for one character -/
def isPySpace (c : Char) : Bool :=
  let n := c.toNat
  (0x9 ≤ n && n ≤ 0xd) || (0x1c ≤ n && n ≤ 0x20) || n = 0x85 || n = 0xa0 || n = 0x1680 ||
  (0x2000 ≤ n && n ≤ 0x200a) || n = 0x2028 || n = 0x2029 || n = 0x202f || n = 0x205f || n = 0x3000

/-- `s.strip()` -/
def pyStrip (s : Text) : Text := ((s.dropWhile isPySpace).reverse.dropWhile isPySpace).reverse

/-- the regex class `[\000- ]` -/
def isCtl (c : Char) : Bool := c.toNat ≤ 32

def isAsciiAlpha (c : Char) : Bool := ('a' ≤ c && c ≤ 'z') || ('A' ≤ c && c ≤ 'Z')
def isAsciiDigit (c : Char) : Bool := '0' ≤ c && c ≤ '9'

/-- `[a-z]` under re.IGNORECASE on str: ASCII letters plus the four characters
CPython's case-insensitive matching folds onto i, s and k -/
def isAlphaI (c : Char) : Bool :=
  isAsciiAlpha c || c.toNat = 0x130 || c.toNat = 0x131 || c.toNat = 0x17f || c.toNat = 0x212a

/-- index of the first occurrence of `pat` in `s` (`str.find`) -/
def findSub (pat : Text) : Text → Option Nat
  | [] => if pat.isEmpty then some 0 else none
  | s@(_ :: t) => if pat.isPrefixOf s then some 0 else (findSub pat t).map (· + 1)

def countChar (c : Char) (s : Text) : Nat := (s.filter (· == c)).length

/-! ### tokens -/

structure Tok where
  text : Text            -- the tag's own text (group 0)
  isEnd : Bool           -- HTML: `end` group non-empty;  EPFS: fmt == ']'
  name : Text
  args : Text            -- HTML: stripped / constructed;  EPFS: raw `args` group
  fmt : Text := []       -- EPFS only
  deriving Repr, DecidableEq

/-! ### HTML / SSI scanner -/

/-- least `k ≥ 1` with `body[k] = '>'` and an even number of '"' before it -/
def findCloseAux : Text → Nat → Bool → Option Nat
  | [], _, _ => none
  | c :: t, i, even =>
    if i ≥ 1 && c = '>' && even then some i
    else findCloseAux t (i + 1) (if c = '"' then !even else even)

def findClose (body : Text) : Option Nat := findCloseAux body 0 true

/-- `name_match` at the start of `s`: length of `[\000- ]*[a-zA-Z]+[\000- ]*`, if it matches -/
def nameMatchLen (s : Text) : Option Nat :=
  let w1 := (s.takeWhile isCtl).length
  let s1 := s.drop w1
  let l := (s1.takeWhile isAsciiAlpha).length
  if l = 0 then none
  else
    let w2 := ((s1.drop l).takeWhile isCtl).length
    some (w1 + l + w2)

/-- `end_match` at the start of `s`: length of `[\000- ]*(/|end)` (ignoring case) -/
def endMatchLen (s : Text) : Option Nat :=
  let w := (s.takeWhile isCtl).length
  match s.drop w with
  | '/' :: _ => some (w + 1)
  | a :: b :: c :: _ =>
    if a.toLower = 'e' && b.toLower = 'n' && c.toLower = 'd' && a.toNat < 128 && b.toNat < 128 && c.toNat < 128
    then some (w + 3) else none
  | _ => none

def isEntChar (c : Char) : Bool := c = '-' || isAsciiAlpha c || isAsciiDigit c || c = '_' || c = '.'

/-- what one `search` step decides at a '<' or '&' -/
inductive Cand where
  | tok (len : Nat) (t : Tok)     -- a tag of `len` characters starts here
  | skip                          -- not a tag: go on searching after this character

/-- name / args split shared by the three angle-bracket forms: `inner` is the text
between the opening marker (and `end` part) and the closing marker -/
def splitNameArgs (inner : Text) : Option (Text × Text) :=
  match nameMatchLen inner with
  | none => none
  | some l => some (pyStrip (inner.take l), pyStrip (inner.drop l))

/-- examine the text starting at a '<' or '&' -/
def candidate (s : Text) : Cand :=
  if "<!--#".toList.isPrefixOf s then
    let body := s.drop 5
    match findSub "-->".toList body with
    | none => .skip
    | some e =>
      let (endLen, isEnd) := match endMatchLen body with
        | some l => (l, !(pyStrip (body.take l)).isEmpty)
        | none => (0, false)
      -- name_match is applied to the whole remaining text, not just up to `e`
      match nameMatchLen (body.drop endLen) with
      | none => .skip
      | some l =>
        let a := endLen + l
        .tok (5 + e + 3) { text := s.take (5 + e + 3), isEnd := isEnd,
                            name := pyStrip ((body.drop endLen).take l),
                            args := pyStrip ((body.take e).drop a) }
  else if "<dtml-".toList.isPrefixOf s then
    let body := s.drop 6
    match findClose body with
    | none => .skip
    | some e =>
      match nameMatchLen body with
      | none => .skip
      | some l => .tok (6 + e + 1) { text := s.take (6 + e + 1), isEnd := false,
                                      name := pyStrip (body.take l), args := pyStrip ((body.take e).drop l) }
  else if "</dtml-".toList.isPrefixOf s then
    let body := s.drop 7
    match findClose body with
    | none => .skip
    | some e =>
      match nameMatchLen body with
      | none => .skip
      | some l => .tok (7 + e + 1) { text := s.take (7 + e + 1), isEnd := true,
                                      name := pyStrip (body.take l), args := pyStrip ((body.take e).drop l) }
  else if "&dtml".toList.isPrefixOf s && ((s.drop 5).head? = some '.' || (s.drop 5).head? = some '-') then
    let dash := (s.drop 5).head? = some '-'
    let body := s.drop 6
    match findSub [';'] body with
    | none => .skip
    | some e =>
      let args := body.take e
      if !args.isEmpty && args.all isEntChar then
        if dash then
          .tok (6 + e + 1) { text := s.take (6 + e + 1), isEnd := false, name := "var".toList,
                              args := args ++ " html_quote".toList }
        else
          match findSub ['-'] args with
          | none => .skip
          | some nn =>
            if nn < args.length - 1 then
              .tok (6 + e + 1) { text := s.take (6 + e + 1), isEnd := false, name := "var".toList,
                                  args := args.drop (nn + 1) ++ [' '] ++
                                    (args.take nn).map (fun c => if c = '.' then ' ' else c) }
            else .skip
      else .skip
  else .skip

/-- one `tagre.search(text, start)` on the remaining text: the literal before the
tag, the tag, and what is left — or `none` when no (further) tag is found -/
def scanHtml : Text → Option (Text × Tok × Text)
  | [] => none
  | s@(c :: t) =>
    if c = '<' || c = '&' then
      match candidate s with
      | .tok len tk => some ([], tk, s.drop len)
      | .skip => (scanHtml t).map fun (l, tk, r) => (c :: l, tk, r)
    else (scanHtml t).map fun (l, tk, r) => (c :: l, tk, r)

/-! ### EPFS scanner (String.tagre) -/

def isEpfsNameChar (c : Char) : Bool :=
  isAlphaI c || isAsciiDigit c || c = '_' || c = '/' || c = '.' || c = '-'

/-- greedy parse of `([^\)"]+("[^"]*")?)*` from the start of `s`: number of
characters consumed (the position where `\)` must follow).  `fuel` ≥ |s|. -/
def argsLen : Nat → Text → Nat
  | 0, _ => 0
  | fuel + 1, s =>
    let run := (s.takeWhile (fun c => c != ')' && c != '"')).length
    if run = 0 then 0
    else
      match s.drop run with
      | '"' :: t =>
        (match findSub ['"'] t with
         | some q => run + 1 + q + 1 + argsLen fuel (t.drop (q + 1))
         | none => run)
      | _ => run

/-- `[0-9]*[.]?[0-9]*[a-z]|[]![]` (ignoring case) at the start of `s`: its length -/
def fmtLen (s : Text) : Option Nat :=
  let d1 := (s.takeWhile isAsciiDigit).length
  let s1 := s.drop d1
  let dot := if s1.head? = some '.' then 1 else 0
  let s2 := s1.drop dot
  let d2 := (s2.takeWhile isAsciiDigit).length
  match s2.drop d2 with
  | c :: _ => if isAlphaI c then some (d1 + dot + d2 + 1)
              else (match s with
                    | x :: _ => if x = ']' || x = '!' || x = '[' then some 1 else none
                    | [] => none)
  | [] => (match s with
           | x :: _ => if x = ']' || x = '!' || x = '[' then some 1 else none
           | [] => none)

/-- the tail of the regex: `\)` at offset `argsEnd` of `after`, then the format -/
def epfsFinish (s after name : Text) (nl argsStart : Nat) (hasArgs : Bool) (argsEnd : Nat) : Option (Nat × Tok) :=
  match after.drop argsEnd with
  | ')' :: rest =>
    match fmtLen rest with
    | some fl =>
      let total := 2 + nl + argsEnd + 1 + fl
      let fmt := rest.take fl
      some (total, { text := s.take total, isEnd := fmt = [']'], name := name,
                     args := if hasArgs then (after.take argsEnd).drop argsStart else [],
                     fmt := fmt })
    | none => none
  | _ => none

/-- try to match the tag regex at the start of `s` (which begins with "%(") -/
def matchEpfs (s : Text) : Option (Nat × Tok) :=
  let body := s.drop 2
  let nl := (body.takeWhile isEpfsNameChar).length
  if nl = 0 then none
  else
    let name := body.take nl
    let after := body.drop nl
    let k := (after.takeWhile isCtl).length
    if k = 0 then epfsFinish s after name nl 0 false 0
    else
      -- all blanks to `[\000- ]+`, arguments start at the first non-blank …
      let a1 := argsLen (after.length + 1) (after.drop k)
      match epfsFinish s after name nl k true (k + a1) with
      | some r => some r
      | none =>
        -- … or, when that fails because the arguments begin with a quote, the last
        -- blank is given back to the arguments
        if k ≥ 2 then
          let a2 := argsLen (after.length + 1) (after.drop (k - 1))
          epfsFinish s after name nl (k - 1) true (k - 1 + a2)
        else none

def scanEpfs : Text → Option (Text × Tok × Text)
  | [] => none
  | s@(c :: t) =>
    if c = '%' && t.head? = some '(' then
      match matchEpfs s with
      | some (len, tk) => some ([], tk, s.drop len)
      | none => (scanEpfs t).map fun (l, tk, r) => (c :: l, tk, r)
    else (scanEpfs t).map fun (l, tk, r) => (c :: l, tk, r)

/-! ### tokeniser -/

inductive Syntax where
  | html | epfs
  deriving Repr, DecidableEq

def scan : Syntax → Text → Option (Text × Tok × Text)
  | .html => scanHtml
  | .epfs => scanEpfs

/-- repeated search: `(literal, tag)` pairs and the trailing literal.  `fuel` ≥
number of characters suffices (every tag is at least one character long). -/
def tokensAux (syn : Syntax) : Nat → Text → List (Text × Tok) × Text
  | 0, s => ([], s)
  | fuel + 1, s =>
    match scan syn s with
    | none => ([], s)
    | some (lit, tk, rest) =>
      let (ps, tl) := tokensAux syn fuel rest
      ((lit, tk) :: ps, tl)

def tokens (syn : Syntax) (s : Text) : List (Text × Tok) × Text := tokensAux syn (s.length + 1) s

end DTML.Scan
